//go:build verif

package trace

// C61: time series keep an exact total of all observations, and bucket-aligned ranges inside
// the retained window report exactly the observations added in them.
//
// The monitor lives in package trace so that the second anchor of the property, the histogram
// observable of trace/histogram.go, can be used white-box; the time series themselves
// (golang.org/x/net/internal/timeseries) are driven through their exported API with the
// WithClock constructors and a harness clock (no wall clock anywhere). The bucket grid of each
// level (level.end, level.size) is read through the read-only accessors of
// internal/timeseries/zz_verif_C61_access.go.

import (
	"fmt"
	"math/bits"
	"math/rand/v2"
	"testing"
	"time"

	"golang.org/x/net/internal/timeseries"
	"golang.org/x/net/internal/verifrt"
)

type c61clock struct{ t time.Time }

func (c *c61clock) Time() time.Time { return c.t }

type c61series interface {
	AddWithTime(timeseries.Observable, time.Time)
	Total() timeseries.Observable
	Range(start, finish time.Time) timeseries.Observable
	ComputeRange(start, finish time.Time, num int) []timeseries.Observable
	Latest(level, num int) timeseries.Observable
	VerifLevels() []timeseries.VerifLevel
	VerifPendingTime() time.Time
}

// c61val is what an aggregate of observations amounts to: for Float series only sum is used
// (small integers, exact in float64); for histogram series count, sum and the per-bucket counts.
type c61val struct {
	count   int64
	sum     int64
	buckets [bucketCount]int64
	f       float64 // decoded Float value
}

func (a *c61val) add(b c61val) {
	a.count += b.count
	a.sum += b.sum
	for i := range a.buckets {
		a.buckets[i] += b.buckets[i]
	}
}

// c61refBucket is the layout documented at the top of histogram.go: "buckets that are spaced
// out in powers of 2: 0-1, 2-3, 4-7...", 38 buckets, the last one open-ended.
func c61refBucket(v int64) int {
	if v <= 1 {
		return 0
	}
	b := bits.Len64(uint64(v)) - 1
	if b > bucketCount-1 {
		b = bucketCount - 1
	}
	return b
}

func c61observe(kind string, vals []int64) (timeseries.Observable, c61val) {
	var ref c61val
	for _, v := range vals {
		ref.count++
		ref.sum += v
		ref.buckets[c61refBucket(v)]++
	}
	if kind == "float" {
		f := timeseries.Float(ref.sum)
		return &f, ref
	}
	h := new(histogram)
	for _, v := range vals {
		h.addMeasurement(v)
	}
	return h, ref
}

func c61decode(kind string, o timeseries.Observable) c61val {
	var v c61val
	if kind == "float" {
		v.f = o.(*timeseries.Float).Value()
		return v
	}
	h := o.(*histogram)
	v.sum = h.sum
	if h.valueCount >= 0 {
		v.buckets[h.value] = h.valueCount
	}
	for i, n := range h.buckets {
		v.buckets[i] += n
	}
	for _, n := range v.buckets {
		v.count += n
	}
	return v
}

func c61equal(kind string, got, want c61val) bool {
	if kind == "float" {
		return got.f == float64(want.sum)
	}
	return got.count == want.count && got.sum == want.sum && got.buckets == want.buckets
}

func c61show(kind string, v c61val) string {
	if kind == "float" {
		return fmt.Sprintf("%v", v.f)
	}
	s := fmt.Sprintf("count=%d sum=%d buckets{", v.count, v.sum)
	for i, n := range v.buckets {
		if n != 0 {
			s += fmt.Sprintf("%d:%d ", i, n)
		}
	}
	return s + "}"
}

func c61showRef(kind string, v c61val) string {
	if kind == "float" {
		return fmt.Sprintf("%d", v.sum)
	}
	return c61show(kind, v)
}

type c61obs struct {
	t   time.Time
	alt time.Time // where the observation lands if it is filed under the newest bucket instead (see misfile)
	val c61val
}

type c61hist struct {
	c      *verifrt.Case
	rng    *rand.Rand
	kind   string // "float" | "hist"
	series string // "TimeSeries" | "MinuteHourSeries"
	ts     c61series
	clock  *c61clock
	obs    []c61obs
	total  c61val
	cur    time.Time // largest timestamp added so far
	log    []string
	ev     map[string]int64

	nOutOfOrder, nRotations, nNonzeroRanges, nCleared, nMisfile int
}

func (h *c61hist) event(k string, n int64) { h.ev[k] += n }

func (h *c61hist) logf(f string, a ...any) {
	if len(h.log) < 400 {
		h.log = append(h.log, fmt.Sprintf(f, a...))
	}
}

func c61ts(t time.Time) string { return t.UTC().Format("2006-01-02T15:04:05.000000000") }

// offGrid makes sure a timestamp is strictly inside a one-second bucket (never on a bucket
// boundary of any level, all of which are whole seconds).
func (h *c61hist) offGrid(t time.Time) time.Time {
	if t.Nanosecond() == 0 {
		t = t.Add(time.Duration(1 + h.rng.Int64N(999_999_998)))
	}
	return t
}

func (h *c61hist) dur(lo, hi time.Duration) time.Duration {
	return lo + time.Duration(h.rng.Int64N(int64(hi-lo)))
}

const c61day = 24 * time.Hour
const c61year = 365 * c61day

var c61horizon = time.Date(2170, 1, 1, 0, 0, 0, 0, time.UTC)
var c61floor = time.Date(1985, 1, 1, 0, 0, 0, 0, time.UTC)

func (h *c61hist) forwardGap() time.Duration {
	p := h.rng.IntN(100)
	if h.cur.After(c61horizon) && p >= 77 {
		p = 50
	}
	switch {
	case p < 38:
		return h.dur(1, time.Second)
	case p < 63:
		return h.dur(time.Second, 20*time.Second)
	case p < 77:
		return h.dur(20*time.Second, 20*time.Minute)
	case p < 86:
		return h.dur(20*time.Minute, 2*c61day)
	case p < 92:
		return h.dur(2*c61day, 60*c61day)
	case p < 97:
		return h.dur(60*c61day, 3*c61year)
	default:
		return h.dur(3*c61year, 25*c61year)
	}
}

func (h *c61hist) backwardGap() time.Duration {
	p := h.rng.IntN(100)
	switch {
	case p < 25:
		return h.dur(1, time.Second)
	case p < 55:
		return h.dur(time.Second, 70*time.Second)
	case p < 72:
		return h.dur(70*time.Second, 2*time.Hour)
	case p < 84:
		return h.dur(2*time.Hour, 30*c61day)
	case p < 95:
		return h.dur(30*c61day, 5*c61year)
	default:
		return h.dur(5*c61year, 30*c61year)
	}
}

func (h *c61hist) values() []int64 {
	n := 1
	if h.kind == "hist" && h.rng.IntN(4) == 0 {
		n = 2 + h.rng.IntN(3)
	}
	vals := make([]int64, n)
	for i := range vals {
		switch {
		case h.kind == "float" || h.rng.IntN(3) > 0:
			vals[i] = 1 + h.rng.Int64N(1000)
		case h.rng.IntN(3) == 0:
			vals[i] = []int64{0, 1, 2, 3, 4, 7, 8, 1 << 20, 1<<37 - 1, 1 << 37, 1 << 38, 1 << 40}[h.rng.IntN(12)]
		default:
			vals[i] = h.rng.Int64N(1 << uint(1+h.rng.IntN(40)))
		}
	}
	return vals
}

// sum of the observations with a < t <= b. Real observations are never on a bucket boundary,
// so the closed end only matters for the alternative (misfiled) positions, which are bucket ends.
func (h *c61hist) sumRef(a, b time.Time, alt bool) c61val {
	var v c61val
	for i := range h.obs {
		t := h.obs[i].t
		if alt {
			t = h.obs[i].alt
		}
		if t.After(a) && !t.After(b) {
			v.add(h.obs[i].val)
		}
	}
	return v
}

func (h *c61hist) add(t time.Time) {
	t = h.offGrid(t)
	vals := h.values()
	o, ref := c61observe(h.kind, vals)
	levels := h.ts.VerifLevels()
	pend := h.ts.VerifPendingTime()
	rec := c61obs{t: t, alt: t, val: ref}
	l0 := levels[0]
	switch {
	case t.After(pend) && t.After(l0.End):
		h.event("adds_advancing", 1)
		for i, l := range levels {
			if !l.End.IsZero() && !t.Before(l.End.Add(l.Size*time.Duration(l.NumBuckets))) {
				h.event(fmt.Sprintf("level%d_window_jumped_over", i), 1)
				h.nCleared++
			}
		}
		if t.After(l0.End.Add(l0.Size)) {
			h.nRotations++
		}
	case t.After(pend):
		// The levels were advanced past the pending time (by Latest with a later clock) and t is
		// not beyond them.
		if !t.After(l0.End.Add(-l0.Size)) {
			// t is older than the newest bucket: the statement wants it in t's own bucket.
			rec.alt = l0.End
			h.event("adds_behind_advanced_levels", 1)
			h.nMisfile++
		} else {
			h.event("adds_in_newest_bucket_after_clock_advance", 1)
		}
	case t.After(pend.Add(-l0.Size)):
		h.event("adds_into_pending_bucket", 1)
	default:
		h.nOutOfOrder++
		in := 0
		for _, l := range levels {
			if t.After(l.End.Add(-l.Size * time.Duration(l.NumBuckets))) {
				in++
			}
		}
		if in == 0 {
			h.event("adds_older_than_every_window", 1)
		} else {
			h.event("adds_out_of_order_merged", 1)
		}
	}
	h.logf("add t=%s vals=%v", c61ts(t), vals)
	h.ts.AddWithTime(o, t)
	if h.rng.IntN(3) == 0 {
		// The caller keeps using the value it passed: the series must hold its own copy
		// ("AddWithTime records an observation"), so neither adding to it nor clearing it may
		// change what the series reports.
		if h.rng.IntN(2) == 0 {
			o.Clear()
		} else {
			o2, _ := c61observe(h.kind, h.values())
			o.Add(o2)
			o.Add(o2)
		}
		h.event("caller_mutated_observable_after_add", 1)
	}
	h.obs = append(h.obs, rec)
	h.total.add(ref)
	if t.After(h.cur) {
		h.cur = t
	}
	// Total() after every add
	got := c61decode(h.kind, h.ts.Total())
	if !c61equal(h.kind, got, h.total) {
		h.c.Violation("total-differs", "%s/%s after %d adds (last at %s): Total()=%s, sum of all observations=%s", h.series, h.kind, len(h.obs), c61ts(t), c61show(h.kind, got), c61showRef(h.kind, h.total))
	}
	h.event("total_checks", 1)
}

// selected mirrors the documented choice of ComputeRange: the finest level whose retained
// window still covers start.
func c61selected(levels []timeseries.VerifLevel, start time.Time) int {
	for i, l := range levels {
		if !start.Before(l.End.Add(-l.Size * time.Duration(l.NumBuckets))) {
			return i
		}
	}
	return -1
}

func (h *c61hist) report(what, call string, got, want, wantAlt c61val) {
	if c61equal(h.kind, got, want) {
		return
	}
	if h.nMisfile > 0 && c61equal(h.kind, got, wantAlt) {
		h.c.Violation("add-behind-advanced-levels-filed-in-newest-bucket",
			"%s/%s %s = %s, observations added in that range = %s. The result is explained by an observation that was added with pendingTime < t <= levels[0].end-1s (levels advanced by Latest with a later clock) having been filed in the newest bucket instead of its own. history: %v",
			h.series, h.kind, call, c61show(h.kind, got), c61showRef(h.kind, want), h.log)
		return
	}
	h.c.Violation(what, "%s/%s %s = %s, observations added in that range = %s. history: %v", h.series, h.kind, call, c61show(h.kind, got), c61showRef(h.kind, want), h.log)
}

// unalignedQueries issues a few read-only queries whose ends cut through buckets. Their
// results are approximate by contract and are not judged; they must not change what later
// bucket-aligned queries report.
func (h *c61hist) unalignedQueries() {
	levels := h.ts.VerifLevels()
	if levels[0].End.IsZero() {
		return
	}
	for i, n := 0, 1+h.rng.IntN(3); i < n; i++ {
		lv := levels[h.rng.IntN(len(levels))]
		span := lv.Size * time.Duration(lv.NumBuckets)
		a := lv.End.Add(-time.Duration(h.rng.Int64N(int64(span))))
		b := a.Add(time.Duration(1 + h.rng.Int64N(int64(lv.End.Sub(a))+1)))
		switch h.rng.IntN(3) {
		case 0:
			h.ts.Range(a, b)
		case 1:
			h.ts.ComputeRange(a, b, 1+h.rng.IntN(7))
		default:
			res := h.ts.Range(a, b)
			res.Clear() // the result belongs to the caller
		}
		h.event("unaligned_readonly_queries", 1)
	}
}

func (h *c61hist) rangeCheck() {
	levels := h.ts.VerifLevels()
	if levels[0].End.IsZero() {
		return
	}
	if h.rng.IntN(3) == 0 {
		h.unalignedQueries()
	}
	L := h.rng.IntN(len(levels))
	if h.rng.IntN(3) == 0 {
		L = h.rng.IntN(min(3, len(levels)))
	}
	lv := levels[L]
	N := lv.NumBuckets
	var k1, k2 int
	// aim at a bucket that holds an observation, most of the time
	aimed := false
	if h.rng.IntN(10) < 7 && len(h.obs) > 0 {
		for try := 0; try < 8 && !aimed; try++ {
			o := h.obs[len(h.obs)-1-h.rng.IntN(min(len(h.obs), 40))]
			if o.t.After(lv.End) || !o.t.After(lv.End.Add(-lv.Size*time.Duration(N))) {
				continue
			}
			j := int(lv.End.Sub(o.t) / lv.Size)
			k2 = max(0, j-h.rng.IntN(4))
			k1 = min(N, j+1+h.rng.IntN(4))
			aimed = true
		}
	}
	if !aimed {
		k1 = 1 + h.rng.IntN(N)
		k2 = h.rng.IntN(k1)
	}
	a := lv.End.Add(-lv.Size * time.Duration(k1))
	b := lv.End.Add(-lv.Size * time.Duration(k2))
	sel := c61selected(levels, a)
	if sel < 0 || sel > L {
		h.event("range_skipped_no_level", 1)
		return
	}
	sl := levels[sel]
	if sl.End.Sub(a)%sl.Size != 0 || b.Sub(a)%sl.Size != 0 {
		// the bucket grids of two levels are not nested: not a bucket-aligned range for the level
		// ComputeRange will use, nothing is promised
		h.event("range_skipped_grids_not_nested", 1)
		return
	}
	nb := k1 - k2
	num := 1
	if h.rng.IntN(3) == 0 {
		var divs []int
		for d := 2; d <= nb && d <= 16; d++ {
			if nb%d == 0 {
				divs = append(divs, d)
			}
		}
		if len(divs) > 0 {
			num = divs[h.rng.IntN(len(divs))]
		}
	}
	h.logf("range level=%d(sel %d) a=%s b=%s num=%d", L, sel, c61ts(a), c61ts(b), num)
	var gots []timeseries.Observable
	if num == 1 && h.rng.IntN(2) == 0 {
		gots = []timeseries.Observable{h.ts.Range(a, b)}
		h.event("Range_calls", 1)
	} else {
		gots = h.ts.ComputeRange(a, b, num)
		h.event("ComputeRange_calls", 1)
	}
	if len(gots) != num {
		h.c.Violation("computerange-result-count", "%s ComputeRange(%s,%s,%d) returned %d values", h.series, c61ts(a), c61ts(b), num, len(gots))
		return
	}
	step := b.Sub(a) / time.Duration(num)
	nonzero := false
	for i, g := range gots {
		sa := a.Add(step * time.Duration(i))
		sb := sa.Add(step)
		want := h.sumRef(sa, sb, false)
		if want.count > 0 {
			nonzero = true
		}
		call := fmt.Sprintf("ComputeRange(%s, %s, %d)[%d] (level %d, buckets of %v, level end %s)", c61ts(a), c61ts(b), num, i, sel, sl.Size, c61ts(sl.End))
		h.report("range-differs", call, c61decode(h.kind, g), want, h.sumRef(sa, sb, true))
		h.event("range_values_checked", 1)
	}
	h.event(fmt.Sprintf("range_checks_selected_level%d", sel), 1)
	if nonzero {
		h.event("range_checks_with_observations", 1)
		h.nNonzeroRanges++
	} else {
		h.event("range_checks_empty", 1)
	}
}

func (h *c61hist) latestCheck() {
	// move the clock: usually to or slightly past the newest observation, sometimes well past
	// it (Latest then rotates the levels), sometimes behind it (no effect)
	var now time.Time
	switch p := h.rng.IntN(10); {
	case p < 4:
		now = h.cur
	case p < 7:
		now = h.cur.Add(h.dur(1, 5*time.Second))
	case p < 9:
		now = h.cur.Add(h.dur(5*time.Second, 3*time.Hour))
	default:
		now = h.cur.Add(-h.dur(1, time.Hour))
	}
	if h.cur.IsZero() {
		now = time.Date(2021, 3, 4, 5, 6, 7, 89, time.UTC)
	}
	now = h.offGrid(now)
	if now.After(h.clock.t) {
		h.clock.t = now
	}
	before := h.ts.VerifLevels()
	L := h.rng.IntN(len(before))
	n := h.rng.IntN(before[0].NumBuckets + 1)
	if h.rng.IntN(4) == 0 {
		n = before[0].NumBuckets
	}
	h.logf("latest clock=%s level=%d n=%d", c61ts(h.clock.t), L, n)
	var got timeseries.Observable
	if mh, ok := h.ts.(*timeseries.MinuteHourSeries); ok && n == 60 && h.rng.IntN(2) == 0 {
		if L == 0 {
			got = mh.Minute()
		} else {
			got = mh.Hour()
		}
		h.event("MinuteHour_calls", 1)
	} else {
		got = h.ts.Latest(L, n)
	}
	after := h.ts.VerifLevels()
	if after[0].End.After(before[0].End) {
		h.event("latest_advanced_levels", 1)
	}
	lv := after[L]
	if lv.End.IsZero() {
		return
	}
	a := lv.End.Add(-lv.Size * time.Duration(n))
	want := h.sumRef(a, lv.End, false)
	call := fmt.Sprintf("Latest(%d, %d) with clock %s (level end %s, buckets of %v)", L, n, c61ts(h.clock.t), c61ts(lv.End), lv.Size)
	h.report("latest-differs", call, c61decode(h.kind, got), want, h.sumRef(a, lv.End, true))
	h.event("latest_checks", 1)
	if want.count > 0 {
		h.event("latest_checks_with_observations", 1)
		h.nNonzeroRanges++
	}
}

func (h *c61hist) run(nOps int, withLatest bool) {
	start := time.Date(2021, 3, 4, 5, 6, 7, 0, time.UTC).Add(time.Duration(h.rng.Int64N(int64(c61year))))
	for i := 0; i < nOps; i++ {
		p := h.rng.IntN(100)
		switch {
		case len(h.obs) == 0:
			h.add(start)
		case p < 50:
			h.add(h.cur.Add(h.forwardGap()))
		case p < 75:
			t := h.cur.Add(-h.backwardGap())
			if t.Before(c61floor) {
				t = h.cur.Add(-h.dur(1, 50*time.Second))
			}
			h.add(t)
		case p < 92 || !withLatest:
			h.rangeCheck()
			if h.rng.IntN(2) == 0 {
				h.rangeCheck()
			}
		default:
			h.latestCheck()
		}
		if h.rng.IntN(4) == 0 {
			h.rangeCheck()
		}
	}
}

func TestVerif_C61(t *testing.T) {
	r := verifrt.Start(t, "C61")
	defer r.Finish()
	r.SetRule("one case = one PRNG history of 30-150 operations on a fresh TimeSeries or MinuteHourSeries (harness clock) holding Float or trace.histogram observations: in-order adds with gaps from nanoseconds to 25 years, out-of-order adds from the pending bucket to 30 years back, Range/ComputeRange on bucket-aligned ranges of a PRNG level inside its retained window, Latest/Minute/Hour after moving the clock. Total() is compared after every add. non-trivial = history with at least one out-of-order add beyond the pending bucket, one bucket rotation and one range/latest check that covered observations; distinct by operation log")
	r.Assume("model: list of (timestamp, value); observation timestamps are never whole seconds, so the open/closed end of a bucket does not matter; values are small integers (exact in float64) or histogram measurements bucketed by the documented power-of-two layout")
	r.Assume("bucket grid (level end, bucket size, bucket count) read through read-only accessors added to package timeseries by overlay; the level ComputeRange uses is the finest whose window covers start")

	n := r.N(2000, 100000)
	r.CasesParallel("histories", n, 0, func(c *verifrt.Case) {
		h := &c61hist{c: c, rng: c.Rng, ev: map[string]int64{}, clock: &c61clock{}}
		h.kind = []string{"float", "hist"}[c.Index%2]
		withLatest := (c.Index/4)%2 == 0
		if (c.Index/2)%2 == 0 {
			h.series = "TimeSeries"
			if h.kind == "float" {
				h.ts = timeseries.NewTimeSeriesWithClock(timeseries.NewFloat, h.clock)
			} else {
				h.ts = timeseries.NewTimeSeriesWithClock(func() timeseries.Observable { return new(histogram) }, h.clock)
			}
		} else {
			h.series = "MinuteHourSeries"
			if h.kind == "float" {
				h.ts = timeseries.NewMinuteHourSeriesWithClock(timeseries.NewFloat, h.clock)
			} else {
				h.ts = timeseries.NewMinuteHourSeriesWithClock(func() timeseries.Observable { return new(histogram) }, h.clock)
			}
		}
		c.Describe(map[string]any{"series": h.series, "observable": h.kind, "with_latest": withLatest, "log": &h.log})
		h.run(30+c.Rng.IntN(121), withLatest)
		for k, v := range h.ev {
			r.Event(k, v)
		}
		r.Event("histories_"+h.series+"_"+h.kind, 1)
		nontrivial := h.nOutOfOrder > 0 && h.nRotations > 0 && h.nNonzeroRanges > 0
		r.Eval(nontrivial, h.series, h.kind, h.log)
		if c.Index < 8 && c.Index%2 == 1 {
			lg := h.log
			if len(lg) > 12 {
				lg = lg[:12]
			}
			r.Sample(map[string]any{"series": h.series, "observable": h.kind, "first_ops": lg, "observations": len(h.obs), "total": c61showRef(h.kind, h.total)})
		}
	})
	r.Require("total_checks", 50000)
	r.Require("range_checks_with_observations", 10000)
	r.Require("latest_checks_with_observations", 1000)
	r.Require("adds_out_of_order_merged", 5000)
	r.Require("adds_into_pending_bucket", 2000)
	r.Require("adds_older_than_every_window", 300)
	r.Require("latest_advanced_levels", 500)
	r.Require("unaligned_readonly_queries", 1000)
	r.Require("caller_mutated_observable_after_add", 1000)
	r.Require("adds_behind_advanced_levels", 300) // pendingTime < t <= levels[0].end-1s: the history behind key add-behind-advanced-levels-filed-in-newest-bucket
	r.Require("level0_window_jumped_over", 2000)
	r.Require("level9_window_jumped_over", 50)
}
