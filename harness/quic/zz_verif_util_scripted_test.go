//go:build verif

package quic

// Helpers for the scripted (possibly misbehaving) peer sub-checks, built on the
// repository's own testConn scaffolding, which owns the peer's keys. Prefix vlp.

import (
	"testing"
)

// vlpScripted returns a handshaken testConn (the Conn under test plays `side`).
// Must be called inside a synctest bubble with the bubble's *testing.T.
func vlpScripted(t *testing.T, side connSide, opts ...any) *testConn {
	tc := newTestConn(t, side, opts...)
	tc.handshake()
	tc.ignoreFrame(frameTypeAck)
	return tc
}

// vlpReadPackets reads every packet the Conn has sent so far (until it is idle), including
// packets whose frames are all of ignored types (testConn.readPacket would skip those).
func vlpReadPackets(tc *testConn) []*testPacket {
	var out []*testPacket
	for i := 0; i < 10000; i++ {
		d := tc.readDatagram()
		if d == nil {
			break
		}
		out = append(out, d.packets...)
	}
	return out
}

// vlpDrain reads every (non-ignored) frame the Conn has sent so far (until it is idle).
func vlpDrain(tc *testConn) []debugFrame {
	var out []debugFrame
	for _, p := range vlpReadPackets(tc) {
		out = append(out, p.frames...)
	}
	return out
}

// vlpCloseCode returns the transport error code of the first CONNECTION_CLOSE among frames.
func vlpCloseCode(frames []debugFrame) (transportError, string, bool) {
	for _, f := range frames {
		switch f := f.(type) {
		case debugFrameConnectionCloseTransport:
			return f.code, f.reason, true
		case debugFrameConnectionCloseApplication:
			return errApplicationError, f.reason, true
		}
	}
	return 0, "", false
}
