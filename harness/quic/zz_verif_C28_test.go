//go:build verif

package quic

import (
	"fmt"
	"math/rand/v2"
	"sort"
	"sync"
	"testing"

	"golang.org/x/net/internal/verifrt"
)

// c28tight copies b to the end of its own allocation with cap == len, so that a read past
// the end panics instead of seeing neighbouring bytes.
func c28tight(b []byte) []byte {
	buf := make([]byte, 32+len(b))
	t := buf[32:]
	copy(t, b)
	return t[:len(b):len(b)]
}

func c28rand(rng *rand.Rand, n int) []byte {
	b := make([]byte, n)
	for i := range b {
		b[i] = byte(rng.Uint32())
	}
	return b
}

// c28int returns a PRNG integer spread over the four varint size classes, biased to the
// class boundaries; never above max.
func c28int(rng *rand.Rand, max uint64) uint64 {
	var v uint64
	switch rng.IntN(6) {
	case 0:
		v = uint64(rng.IntN(64))
	case 1:
		v = rng.Uint64() >> (64 - []uint{6, 14, 30, 62}[rng.IntN(4)])
	case 2:
		b := []uint64{1 << 6, 1 << 14, 1 << 30, 1 << 62}[rng.IntN(4)]
		v = b - 1 - uint64(rng.IntN(3)) + uint64(rng.IntN(2))*uint64(rng.IntN(3))
	case 3:
		v = max - uint64(rng.IntN(3))
	default:
		v = rng.Uint64() >> (2 + rng.UintN(62))
	}
	if v > max {
		v = max
	}
	return v
}

type c28counts struct {
	mu sync.Mutex
	m  map[string]int64
}

func (k *c28counts) add(name string, n int64) {
	k.mu.Lock()
	k.m[name] += n
	k.mu.Unlock()
}

var c28frameNames = map[byte]string{0x00: "PADDING", 0x01: "PING", 0x02: "ACK", 0x03: "ACK_ECN", 0x04: "RESET_STREAM", 0x05: "STOP_SENDING", 0x06: "CRYPTO", 0x07: "NEW_TOKEN", 0x08: "STREAM", 0x10: "MAX_DATA", 0x11: "MAX_STREAM_DATA", 0x12: "MAX_STREAMS_BIDI", 0x13: "MAX_STREAMS_UNI", 0x14: "DATA_BLOCKED", 0x15: "STREAM_DATA_BLOCKED", 0x16: "STREAMS_BLOCKED_BIDI", 0x17: "STREAMS_BLOCKED_UNI", 0x18: "NEW_CONNECTION_ID", 0x19: "RETIRE_CONNECTION_ID", 0x1a: "PATH_CHALLENGE", 0x1b: "PATH_RESPONSE", 0x1c: "CONNECTION_CLOSE", 0x1d: "CONNECTION_CLOSE_APP", 0x1e: "HANDSHAKE_DONE"}

func c28name(t byte) string {
	if t >= 0x08 && t <= 0x0f {
		t = 0x08
	}
	if s, ok := c28frameNames[t]; ok {
		return s
	}
	return fmt.Sprintf("type_%#x", t)
}

// c28normalize folds representation differences that carry no information: an ACK_ECN
// frame whose three counts are zero is indistinguishable from ACK in debugFrameAck.
func c28normalize(f c28frame) c28frame {
	if f.typ == 0x03 && len(f.ints) == 4 && f.ints[1] == 0 && f.ints[2] == 0 && f.ints[3] == 0 {
		f.typ, f.ints = 0x02, f.ints[:1]
	}
	return f
}

// c28checkParsers runs the package's parsers over wire (one frame, possibly followed by
// other bytes) and compares with the reference verdict. exact: wire holds exactly one frame.
func c28checkParsers(c *verifrt.Case, k *c28counts, wire []byte, origin string) {
	in := c28tight(wire)
	ref, st := c28parseFrame(in)
	df, n := parseDebugFrame(in)
	desc := fmt.Sprintf("%s bytes=%x", origin, wire)
	if n > len(in) {
		c.Violation("frame-parser-consumed-past-end", "parseDebugFrame consumed %d of %d bytes; %s", n, len(in), desc)
		return
	}
	switch st {
	case c28truncated:
		k.add("frames_ref_truncated", 1)
		if n >= 0 {
			c.Violation("truncated-frame-accepted", "%s frame is cut short but parseDebugFrame returned n=%d (%v); %s", c28name(in[0]), n, df, desc)
		}
		return
	case c28unknown:
		k.add("frames_ref_unknown_type", 1)
		if n >= 0 {
			c.Violation("unknown-frame-type-accepted", "parseDebugFrame returned n=%d (%v) for unknown type; %s", n, df, desc)
		}
		return
	case c28invalid:
		k.add("frames_ref_invalid", 1)
		if n >= 0 {
			key := "invalid-frame-accepted"
			switch {
			case in[0] == 0x18 && ref.why == "connection ID length outside 1..20":
				key = "new-connection-id-invalid-length-accepted"
			case in[0] == 0x16 || in[0] == 0x17:
				key = "streams-blocked-above-2^60-accepted"
			case in[0] == 0x12 || in[0] == 0x13:
				key = "max-streams-above-2^60-accepted"
			}
			c.Violation(key, "%s: %s, but parseDebugFrame returned n=%d (%v); %s", c28name(in[0]), ref.why, n, df, desc)
		}
		return
	}
	k.add("frames_ref_valid", 1)
	if n < 0 {
		// the package may be stricter than RFC 9000 requires; counted, judged by the caller
		k.add("frames_ref_valid_parser_rejected_"+c28name(in[0]), 1)
		return
	}
	got, ok := c28fromDebug(df)
	if !ok {
		c.Violation("parse-unknown-debug-type", "parseDebugFrame returned %T; %s", df, desc)
		return
	}
	want := c28normalize(ref)
	if n != ref.n {
		c.Violation("parse-length-differs-from-rfc", "%s: parseDebugFrame consumed %d bytes, RFC decoding consumes %d; %s", c28name(in[0]), n, ref.n, desc)
		return
	}
	if !c28same(got, want) {
		key := "parse-differs-from-rfc"
		if want.typ == 0x02 || want.typ == 0x03 {
			// is it only the order of the ranges? (parseDebugFrameAck reverses them)
			a := append([][2]int64{}, got.ranges...)
			b := append([][2]int64{}, want.ranges...)
			sort.Slice(a, func(i, j int) bool { return a[i][0] < a[j][0] })
			sort.Slice(b, func(i, j int) bool { return b[i][0] < b[j][0] })
			g2, w2 := got, want
			g2.ranges, w2.ranges = a, b
			if c28same(g2, w2) {
				key = "debug-ack-ranges-misordered"
			}
		}
		c.Violation(key, "%s: parseDebugFrame=%+v, RFC decoding=%+v; %s", c28name(in[0]), got, want, desc)
		return
	}
	// ACK: the production path (consumeAckFrame) must deliver the ranges highest first
	if want.typ == 0x02 || want.typ == 0x03 {
		var rs [][2]int64
		idx := 0
		largest, delay, _, an := consumeAckFrame(in, func(i int, start, end packetNumber) {
			if i != idx {
				c.Violation("ack-range-index", "consumeAckFrame passed rangeIndex %d for range #%d; %s", i, idx, desc)
			}
			idx++
			rs = append(rs, [2]int64{int64(start), int64(end) - 1})
		})
		bad := an != ref.n || int64(largest) != want.ranges[0][1] || uint64(delay) != want.ints[0] || len(rs) != len(want.ranges)
		for i := 0; !bad && i < len(rs); i++ {
			bad = rs[i] != want.ranges[i]
		}
		if bad {
			c.Violation("ack-consume-differs-from-rfc", "consumeAckFrame: n=%d largest=%d delay=%d ranges=%v; RFC decoding n=%d ranges=%v delay=%d; %s", an, largest, delay, rs, ref.n, want.ranges, want.ints[0], desc)
		}
		k.add("ack_frames_consumed", 1)
	}
	k.add("frames_parsed_equal_"+c28name(in[0]), 1)
}

func TestVerif_C28(t *testing.T) {
	r := verifrt.Start(t, "C28")
	defer r.Finish()
	r.SetRule("frames: each append*Frame of packetWriter with PRNG field values over all varint size classes and PRNG space limits -> bytes decoded by an independent RFC 9000 section 19 decoder and by parseDebugFrame/consumeAckFrame, all three must agree; arbitrary, mutated and deliberately out-of-range frame bytes -> no panic, no over-read, rejected when the RFC decoder says truncated/invalid. packets: Initial/0-RTT/Handshake/1-RTT with PRNG CIDs (0..20 B), tokens, versions, payload sizes, all packet-number lengths, three cipher suites -> protect -> parse gives the same fields; every single-bit flip and truncation is rejected; Retry and Version Negotiation round-trip. transport parameters: PRNG valid sets -> marshal -> independent TLV decoder and unmarshal agree with the input; every out-of-range value listed in RFC 9000 18.2 is rejected; arbitrary bytes never panic. non-trivial = case whose frame/packet/parameter set used a multi-byte varint or a non-empty byte string; distinct by wire bytes")
	r.Assume("reference decoders written from RFC 9000 in the harness; AEAD forgeries (2^-128) are ignored; CRYPTO offset+length overflow may be rejected by a later layer (RFC allows CRYPTO_BUFFER_EXCEEDED) so the frame parser need not")

	k := &c28counts{m: map[string]int64{}}
	c28frames(r, k)
	c28packets(r, k)
	c28tparams(r, k)

	k.mu.Lock()
	for name, v := range k.m {
		r.Event(name, v)
	}
	k.mu.Unlock()
	r.Require("frames_written", 10000)
	r.Require("frames_ref_truncated", 5000)
	r.Require("frames_ref_invalid", 2000)
	r.Require("frames_ref_valid", 20000)
	r.Require("ack_frames_consumed", 1000)
	r.Require("long_packets_roundtrip", 1000)
	r.Require("short_packets_roundtrip", 1000)
	r.Require("conversation_packets_delivered", 10000)
	r.Require("conversation_key_updates_completed", 300)
	r.Require("conversation_second_or_later_local_key_updates", 100)
	r.Require("packet_bitflips_rejected", 50000)
	r.Require("tparams_roundtrip", 2000)
	r.Require("tparams_out_of_range_rejected", 2000)
	r.Require("tparams_arbitrary_inputs", 5000)
}
