//go:build verif

package quic

import (
	"fmt"
	"testing"
	"time"

	"golang.org/x/net/internal/verifrt"
)

const c23max = int64(1)<<62 - 1

// c23refDecode is RFC 9000 section 17.1 / A.3 restated as a selection: among the numbers
// congruent to the truncated value modulo the window, take the one inside
// (expected-hwin, expected+hwin] if it is a legal packet number, otherwise the one that
// shares its upper bits with the expected number.
func c23refDecode(largest, truncated int64, nbytes int) int64 {
	expected := largest + 1
	win := int64(1) << (8 * uint(nbytes))
	hwin := win / 2
	floor := expected - expected%win // expected >= 0
	for k := int64(-1); k <= 1; k++ {
		v := floor + k*win + truncated
		if v > expected-hwin && v <= expected+hwin && v >= 0 && v <= c23max {
			return v
		}
	}
	return floor + truncated
}

func TestVerif_C23(t *testing.T) {
	r := verifrt.Start(t, "C23")
	defer r.Finish()
	r.SetRule("triple (A=largest acked by sender, L=largest received by receiver, pn) with -1<=A<pn<=2^62-1, pn-A<2^31, -1<=L<=2^62-1 and |pn-(L+1)| < half the window of the length the code chose; streams: exhaustive cubes around 0, 2^7, 2^8, 2^15, 2^16, 2^23, 2^24, 2^31, 2^32, 2^40, 2^62-1; gap sweep across every length boundary with L at both window edges; PRNG triples. non-trivial = pn >= window (upper bits must be reconstructed); distinct by (A,L,pn)")
	r.Assume("gaps pn-A >= 2^31 cannot be expressed by QUIC's <=4-byte encoding and are excluded as domain; the exact-tie case pn-(L+1) == +-half window is only compared with the RFC A.3 reference (key differs-from-rfc-a3), not demanded by the statement")

	type counters struct {
		triples, nontrivial, reordered, edge, refcmp int64
		byLen                                        [5]int64
	}
	flush := func(k *counters) {
		r.Event("triples_checked", k.triples)
		r.Event("triples_upper_bits_reconstructed", k.nontrivial)
		r.Event("triples_receiver_ahead_of_pn", k.reordered)
		r.Event("triples_at_window_edge", k.edge)
		r.Event("reference_comparisons", k.refcmp)
		for l := 1; l <= 4; l++ {
			r.Event(fmt.Sprintf("encodings_len%d", l), k.byLen[l])
		}
	}

	// encode checks the sender half for (A,pn) and returns the chosen length and the
	// truncated value read back from the bytes appendPacketNumber produced.
	encode := func(c *verifrt.Case, A, pn int64) (int, int64, bool) {
		n := packetNumberLength(packetNumber(pn), packetNumber(A))
		if n < 1 || n > 4 {
			c.Describe(map[string]any{"A": A, "pn": pn})
			c.Violation("length-out-of-range", "packetNumberLength(%d,%d)=%d", pn, A, n)
			return 0, 0, false
		}
		hwin := int64(1) << (8*uint(n) - 1)
		if pn-A >= hwin {
			c.Describe(map[string]any{"A": A, "pn": pn})
			c.Violation("length-too-short", "packetNumberLength(pn=%d,A=%d)=%d leaves pn-A=%d >= half window %d", pn, A, n, pn-A, hwin)
			return 0, 0, false
		}
		b := appendPacketNumber([]byte{0xa5}, packetNumber(pn), packetNumber(A))
		if len(b) != 1+n || b[0] != 0xa5 {
			c.Describe(map[string]any{"A": A, "pn": pn})
			c.Violation("append-length", "appendPacketNumber(pn=%d,A=%d) wrote %x, packetNumberLength says %d", pn, A, b, n)
			return 0, 0, false
		}
		var tr int64
		for _, x := range b[1:] {
			tr = tr<<8 | int64(x)
		}
		if tr != pn&(int64(1)<<(8*uint(n))-1) {
			c.Describe(map[string]any{"A": A, "pn": pn})
			c.Violation("append-bytes", "appendPacketNumber(pn=%d,A=%d) wrote %x, want the low %d bytes of pn big-endian", pn, A, b[1:], n)
			return 0, 0, false
		}
		return n, tr, true
	}

	// decode checks the receiver half for one L.
	decode := func(c *verifrt.Case, k *counters, A, L, pn int64, n int, tr int64, hash bool) {
		hwin := int64(1) << (8*uint(n) - 1)
		dist := pn - (L + 1)
		if dist <= -hwin || dist >= hwin {
			return // outside the promise
		}
		got := int64(decodePacketNumber(packetNumber(L), packetNumber(tr), n))
		if got != pn {
			c.Describe(map[string]any{"A": A, "L": L, "pn": pn, "len": n, "truncated": tr})
			key := "decode-wrong"
			if L >= A && L < pn {
				key = "decode-wrong-in-order" // the plain case: receiver between A and pn
			}
			c.Violation(key, "A=%d pn=%d len=%d truncated=%#x L=%d: decodePacketNumber=%d", A, pn, n, tr, L, got)
		}
		k.triples++
		k.byLen[n]++
		nt := pn >= int64(1)<<(8*uint(n))
		if nt {
			k.nontrivial++
		}
		if L >= pn {
			k.reordered++
		}
		if dist == hwin-1 || dist == -hwin+1 {
			k.edge++
		}
		if hash {
			r.EvalHash(nt, uint64(A)*0x9e3779b97f4a7c15^uint64(L)*0xbf58476d1ce4e5b9^uint64(pn)*0x94d049bb133111eb)
		}
	}

	clamp := func(v, lo, hi int64) int64 {
		if v < lo {
			return lo
		}
		if v > hi {
			return hi
		}
		return v
	}

	anchors := []int64{0, 1 << 7, 1 << 8, 1 << 15, 1 << 16, 1 << 23, 1 << 24, 1 << 31, 1 << 32, 1 << 40, 3<<16 + 1<<15, 1<<62 - 1<<31, c23max}

	// (1) exhaustive cubes: all A<pn and all L within +-R of each anchor
	R := int64(r.N(24, 90))
	r.CasesParallel("cube", len(anchors), 0, func(c *verifrt.Case) {
		x := anchors[c.Index]
		var k counters
		lo, hi := clamp(x-R, -1, c23max), clamp(x+R, -1, c23max)
		for pn := clamp(lo, 0, c23max); pn <= hi; pn++ {
			for A := lo; A < pn; A++ {
				n, tr, ok := encode(c, A, pn)
				if !ok {
					continue
				}
				for L := lo; L <= hi; L++ {
					decode(c, &k, A, L, pn, n, tr, false)
				}
			}
		}
		flush(&k)
		r.Eval(true, "cube", x, R)
		if c.Index == 3 {
			r.Sample(map[string]any{"stream": "cube", "anchor": x, "radius": R, "triples": k.triples})
		}
	})

	// (2) gap sweep: pn near every anchor, gap pn-A across every length boundary, L at
	// A.., ..pn-1, pn.. and both edges of the promised window
	gaps := []int64{1, 1 << 7, 1 << 15, 1 << 23, 1<<31 - 1}
	W := int64(r.N(6, 20))
	r.CasesParallel("gap-sweep", len(anchors)*len(gaps), 0, func(c *verifrt.Case) {
		x := anchors[c.Index/len(gaps)]
		g0 := gaps[c.Index%len(gaps)]
		var k counters
		for pn := clamp(x-W, 0, c23max); pn <= clamp(x+W, 0, c23max); pn++ {
			for d := clamp(g0-W, 1, 1<<31-1); d <= clamp(g0+W, 1, 1<<31-1); d++ {
				A := pn - d
				if A < -1 {
					continue
				}
				n, tr, ok := encode(c, A, pn)
				if !ok {
					continue
				}
				hwin := int64(1) << (8*uint(n) - 1)
				for _, l0 := range []int64{A, pn - 1, pn, pn - hwin, pn + hwin - 2, (A + pn) / 2} {
					for L := clamp(l0-W, -1, c23max); L <= clamp(l0+W, -1, c23max); L++ {
						decode(c, &k, A, L, pn, n, tr, false)
					}
				}
			}
		}
		flush(&k)
		r.Eval(true, "gap", x, g0, W)
		if c.Index == 7 {
			r.Sample(map[string]any{"stream": "gap-sweep", "anchor": x, "gap": g0, "width": W, "triples": k.triples})
		}
	})

	// (3) PRNG triples, magnitudes spread over all bit lengths
	perCase := 20000
	r.CasesParallel("random", r.N(50, 1000), 0, func(c *verifrt.Case) {
		rng := c.Rng
		var k counters
		for i := 0; i < perCase; i++ {
			pn := int64(rng.Uint64() >> (2 + rng.UintN(62)))
			if rng.IntN(8) == 0 {
				pn = c23max - int64(rng.Uint64()>>(2+rng.UintN(62)))
			}
			d := 1 + int64(rng.Uint64()>>(33+rng.UintN(31))) // 1 .. 2^31
			if d > 1<<31-1 {
				d = 1<<31 - 1
			}
			if rng.IntN(4) == 0 { // next to a length boundary
				d = clamp([]int64{1 << 7, 1 << 15, 1 << 23, 1 << 31}[rng.IntN(4)]-int64(rng.IntN(3)), 1, 1<<31-1)
			}
			A := pn - d
			if A < -1 {
				A = -1
			}
			n, tr, ok := encode(c, A, pn)
			if !ok {
				continue
			}
			hwin := int64(1) << (8*uint(n) - 1)
			var L int64
			switch rng.IntN(4) {
			case 0: // in order: A <= L < pn
				L = A + rng.Int64N(pn-A)
			case 1: // anywhere in the promised window
				L = pn - hwin + rng.Int64N(2*hwin-1)
			case 2: // lower edge region
				L = pn - hwin + int64(rng.IntN(3))
			default: // upper edge region
				L = pn + hwin - 2 - int64(rng.IntN(3))
			}
			L = clamp(L, -1, c23max)
			decode(c, &k, A, L, pn, n, tr, true)
			if i == 0 && c.Index < 4 {
				r.Sample(map[string]any{"stream": "random", "A": A, "L": L, "pn": pn, "len": n, "truncated": tr})
			}
		}
		flush(&k)
	})

	// (3') the L of the statement is what the receiver itself keeps as its largest received
	// packet number (ackState.largestSeen, which Conn hands to the packet parser): a model sender
	// whose A comes from the receiver's own ACKs talks to a real ackState through loss, long runs
	// of packets that are not ack-eliciting, delayed ACKs and acknowledged ACKs (which make the
	// receiver forget old ranges). Before every packet the receiver's L must be the largest
	// number it has received, and the packet must decode with it.
	r.CasesParallel("receiver-largest", r.N(300, 6000), 0, func(c *verifrt.Case) {
		rng := c.Rng
		var k counters
		var acks ackState
		now := time.Unix(1700000000, 0)
		pn := int64(rng.Uint64() >> (2 + rng.UintN(62)))
		if rng.IntN(2) == 0 {
			pn = int64(rng.IntN(300))
		}
		A, truth := int64(-1), int64(0) // ackState reports 0 before anything has arrived
		if pn > 0 {
			// the conversation is already under way: the packet before this one has arrived
			// and has been acknowledged
			acks.receive(now, appDataSpace, packetNumber(pn-1), true, ecnNotECT)
			acks.sentAck()
			A, truth = pn-1, pn-1
		}
		elicitPct := []int{5, 20, 50, 100}[rng.IntN(4)]
		lossPct := []int{0, 0, 5, 30}[rng.IntN(4)]
		var ackFrames []int64 // largest acknowledged of the ACK frames the receiver has sent
		var log []string
		for step := 0; step < 400 && pn < c23max-1000; step++ {
			n, tr, ok := encode(c, A, pn)
			if !ok {
				return
			}
			L := int64(acks.largestSeen())
			if L != truth {
				c.Describe(map[string]any{"history": log})
				c.Violation("receiver-largest-received-wrong", "ackState.largestSeen() = %d, the largest packet number received so far is %d (ack-eliciting share %d%%, loss %d%%)", L, truth, elicitPct, lossPct)
				return
			}
			if rng.IntN(100) >= lossPct {
				if got := int64(decodePacketNumber(packetNumber(L), packetNumber(tr), n)); got != pn {
					c.Describe(map[string]any{"history": log})
					c.Violation("decode-wrong-with-the-receivers-own-largest", "pn=%d sent with %d bytes for largest acked A=%d; the receiver's largestSeen()=%d (largest actually received %d): decodePacketNumber=%d", pn, n, A, L, truth, got)
					return
				}
				k.triples++
				k.byLen[n]++
				if pn >= int64(1)<<(8*uint(n)) {
					k.nontrivial++
				}
				el := rng.IntN(100) < elicitPct
				if acks.shouldProcess(packetNumber(pn)) {
					acks.receive(now, appDataSpace, packetNumber(pn), el, ecnNotECT)
					truth = max(truth, pn)
					r.Event("receiver_packets_received", 1)
					if !el {
						r.Event("receiver_packets_not_ack_eliciting", 1)
					}
					if len(log) < 300 {
						log = append(log, fmt.Sprintf("recv %d eliciting=%v (sender's A=%d, len %d)", pn, el, A, n))
					}
				}
			}
			now = now.Add(time.Duration(rng.IntN(30)) * time.Millisecond)
			if rng.IntN(4) == 0 || acks.shouldSendAck(now) {
				if nums, _ := acks.acksToSend(now); len(nums) > 0 {
					acks.sentAck()
					la := int64(nums.max())
					ackFrames = append(ackFrames, la)
					if rng.IntN(100) >= lossPct { // the ACK reaches the sender
						A = max(A, la)
					}
					if len(log) < 300 {
						log = append(log, fmt.Sprintf("ACK largest=%d ranges=%d", la, len(nums)))
					}
				}
			}
			if len(ackFrames) > 0 && rng.IntN(8) == 0 {
				// the sender acknowledges a packet that carried one of those ACK frames
				acks.handleAck(packetNumber(ackFrames[rng.IntN(len(ackFrames))]))
				r.Event("receiver_ack_of_ack_processed", 1)
			}
			switch rng.IntN(10) {
			case 0:
				pn += 1 + int64(rng.IntN(100))
			case 1:
				pn += 1 + int64(rng.IntN(3))
			default:
				pn++
			}
		}
		flush(&k)
		r.EvalHash(true, uint64(pn)*0x9e3779b97f4a7c15^uint64(A)*0xbf58476d1ce4e5b9^uint64(elicitPct))
	})

	// (4) the implementation cites RFC 9000 A.3: compare with the reference on arbitrary
	// (largest, truncated, length), including values outside any window promise.
	r.CasesParallel("rfc-a3", r.N(50, 1000), 0, func(c *verifrt.Case) {
		rng := c.Rng
		var k counters
		for i := 0; i < perCase; i++ {
			n := 1 + rng.IntN(4)
			win := int64(1) << (8 * uint(n))
			L := int64(rng.Uint64()>>(2+rng.UintN(62))) - 1
			switch rng.IntN(6) {
			case 0:
				L = c23max - int64(rng.Uint64()>>(2+rng.UintN(62)))
			case 1: // expected next to a multiple of the window or half window
				L = clamp(int64(rng.Uint64()>>2)&^(win-1)+[]int64{0, win / 2}[rng.IntN(2)]+int64(rng.IntN(5))-3, -1, c23max)
			}
			tr := rng.Int64N(win)
			if rng.IntN(3) == 0 { // truncated value close to expected's low bits +- half window
				tr = ((L + 1) + []int64{0, win / 2, -win / 2}[rng.IntN(3)] + int64(rng.IntN(5)) - 2) & (win - 1)
			}
			want := c23refDecode(L, tr, n)
			got := int64(decodePacketNumber(packetNumber(L), packetNumber(tr), n))
			k.refcmp++
			if got != want {
				c.Describe(map[string]any{"largest": L, "truncated": tr, "len": n})
				c.Violation("differs-from-rfc-a3", "decodePacketNumber(largest=%d, truncated=%#x, len=%d)=%d, RFC 9000 A.3 gives %d", L, tr, n, got, want)
			}
			r.EvalHash(want >= win, uint64(L)*0x9e3779b97f4a7c15^uint64(tr)*0xbf58476d1ce4e5b9^uint64(n))
		}
		flush(&k)
	})
	// small exhaustive reference comparison: every largest in [-1,700], every truncated, len 1
	r.Cases("rfc-a3-exhaustive-len1", 1, func(c *verifrt.Case) {
		var k counters
		for _, off := range []int64{0, 1 << 16, 1<<62 - 1 - 701} {
			for L := off - 1; L <= off+700; L++ {
				for tr := int64(0); tr < 256; tr++ {
					want := c23refDecode(L, tr, 1)
					got := int64(decodePacketNumber(packetNumber(L), packetNumber(tr), 1))
					k.refcmp++
					if got != want {
						c.Describe(map[string]any{"largest": L, "truncated": tr, "len": 1})
						c.Violation("differs-from-rfc-a3", "decodePacketNumber(largest=%d, truncated=%#x, len=1)=%d, RFC 9000 A.3 gives %d", L, tr, got, want)
					}
				}
			}
		}
		flush(&k)
		r.Eval(true, "a3-exh")
	})

	r.Require("triples_checked", 1000000)
	r.Require("triples_upper_bits_reconstructed", 100000)
	r.Require("triples_receiver_ahead_of_pn", 10000)
	r.Require("triples_at_window_edge", 1000)
	r.Require("encodings_len1", 1000)
	r.Require("encodings_len2", 1000)
	r.Require("encodings_len3", 1000)
	r.Require("encodings_len4", 1000)
	r.Require("reference_comparisons", 100000)
	r.Require("receiver_packets_received", 20000)
	r.Require("receiver_packets_not_ack_eliciting", 5000)
}
