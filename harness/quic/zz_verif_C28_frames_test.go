//go:build verif

package quic

import (
	"fmt"
	"math/rand/v2"

	"golang.org/x/net/internal/verifrt"
)

// c28writeFrame appends one PRNG frame with w and returns what an RFC decoder must see.
// added=false means the writer refused (no room).
func c28writeFrame(rng *rand.Rand, w *packetWriter, kind int) (want c28frame, added bool, note string) {
	const maxV = c28maxVarint
	switch kind {
	case 0: // PING
		want.typ = 0x01
		added = w.appendPingFrame()
	case 1: // ACK / ACK_ECN
		var seen rangeset[packetNumber]
		n := 1 + rng.IntN(5)
		if rng.IntN(5) == 0 {
			n = 1 + rng.IntN(90)
		}
		pos := int64(c28int(rng, 1<<40))
		for i := 0; i < n; i++ {
			ln := 1 + int64(c28int(rng, 1<<20))
			if rng.IntN(2) == 0 {
				ln = 1 + int64(rng.IntN(3))
			}
			if pos+ln > int64(maxV) {
				break
			}
			seen = append(seen, i64range[packetNumber]{packetNumber(pos), packetNumber(pos + ln)})
			gap := 1 + int64(rng.IntN(4))
			if rng.IntN(4) == 0 {
				gap = 1 + int64(c28int(rng, 1<<40))
			}
			pos += ln + gap
			if pos >= int64(maxV) {
				break
			}
		}
		if rng.IntN(10) == 0 { // right at the top of the packet number space
			seen = append(seen, i64range[packetNumber]{packetNumber(int64(maxV) - int64(rng.IntN(3))), packetNumber(maxV + 1)})
			if len(seen) > 1 && seen[len(seen)-2].end >= seen[len(seen)-1].start-1 {
				seen = seen[len(seen)-1:]
			}
		}
		delay := c28int(rng, maxV)
		var ecn ecnCounts
		want.typ = 0x02
		want.ints = []uint64{delay}
		if rng.IntN(3) == 0 {
			ecn = ecnCounts{t0: int(c28int(rng, maxV)), t1: int(c28int(rng, maxV)), ce: int(c28int(rng, maxV))}
			if (ecn != ecnCounts{}) {
				want.typ = 0x03
				want.ints = append(want.ints, uint64(ecn.t0), uint64(ecn.t1), uint64(ecn.ce))
			}
		}
		for i := len(seen) - 1; i >= 0; i-- {
			want.ranges = append(want.ranges, [2]int64{int64(seen[i].start), int64(seen[i].end) - 1})
		}
		note = fmt.Sprintf("appendAckFrame(%d ranges)", len(seen))
		added = w.appendAckFrame(seen, unscaledAckDelay(delay), ecn)
	case 2:
		id, code, fs := c28int(rng, maxV), c28int(rng, maxV), c28int(rng, maxV)
		want.typ, want.ints = 0x04, []uint64{id, code, fs}
		added = w.appendResetStreamFrame(streamID(id), code, int64(fs))
	case 3:
		id, code := c28int(rng, maxV), c28int(rng, maxV)
		want.typ, want.ints = 0x05, []uint64{id, code}
		added = w.appendStopSendingFrame(streamID(id), code)
	case 4: // CRYPTO
		size := []int{0, 1, 63, 64, 300, rng.IntN(1500)}[rng.IntN(6)]
		off := c28int(rng, maxV-uint64(size))
		b, ok := w.appendCryptoFrame(int64(off), size)
		added = ok
		data := c28rand(rng, len(b))
		copy(b, data)
		want.typ, want.ints, want.data = 0x06, []uint64{off}, data
		note = fmt.Sprintf("appendCryptoFrame(size=%d) gave %d", size, len(b))
		if ok && len(b) > size {
			note += " LONGER-THAN-ASKED"
		}
	case 5:
		tok := c28rand(rng, 1+[]int{0, 15, 62, 63, 200}[rng.IntN(5)])
		want.typ, want.data = 0x07, tok
		added = w.appendNewTokenFrame(tok)
	case 6: // STREAM
		size := []int{0, 0, 1, 63, 64, 300, rng.IntN(1500)}[rng.IntN(7)]
		off := c28int(rng, maxV-uint64(size))
		if rng.IntN(3) == 0 {
			off = 0
		}
		id := c28int(rng, maxV)
		fin := rng.IntN(2) == 0
		b, ok := w.appendStreamFrame(streamID(id), int64(off), size, fin)
		added = ok
		data := c28rand(rng, len(b))
		copy(b, data)
		f := uint64(0)
		if fin && len(b) == size {
			f = 1
		}
		want.typ, want.ints, want.data = 0x08, []uint64{id, off, f}, data
		note = fmt.Sprintf("appendStreamFrame(size=%d fin=%v) gave %d", size, fin, len(b))
	case 7:
		v := c28int(rng, maxV)
		want.typ, want.ints = 0x10, []uint64{v}
		added = w.appendMaxDataFrame(int64(v))
	case 8:
		id, v := c28int(rng, maxV), c28int(rng, maxV)
		want.typ, want.ints = 0x11, []uint64{id, v}
		added = w.appendMaxStreamDataFrame(streamID(id), int64(v))
	case 9:
		v := c28int(rng, 1<<60)
		st := streamType(rng.IntN(2))
		want.typ, want.ints = 0x12+byte(st), []uint64{v}
		added = w.appendMaxStreamsFrame(st, int64(v))
	case 10:
		v := c28int(rng, maxV)
		want.typ, want.ints = 0x14, []uint64{v}
		added = w.appendDataBlockedFrame(int64(v))
	case 11:
		id, v := c28int(rng, maxV), c28int(rng, maxV)
		want.typ, want.ints = 0x15, []uint64{id, v}
		added = w.appendStreamDataBlockedFrame(streamID(id), int64(v))
	case 12:
		v := c28int(rng, 1<<60)
		st := streamType(rng.IntN(2))
		want.typ, want.ints = 0x16+byte(st), []uint64{v}
		added = w.appendStreamsBlockedFrame(st, int64(v))
	case 13:
		seq := c28int(rng, maxV)
		retire := c28int(rng, seq)
		cid := c28rand(rng, 1+rng.IntN(20))
		var tok [16]byte
		copy(tok[:], c28rand(rng, 16))
		want.typ, want.ints, want.data, want.token = 0x18, []uint64{seq, retire}, cid, tok[:]
		added = w.appendNewConnectionIDFrame(int64(seq), int64(retire), cid, tok)
	case 14:
		v := c28int(rng, maxV)
		want.typ, want.ints = 0x19, []uint64{v}
		added = w.appendRetireConnectionIDFrame(int64(v))
	case 15, 16:
		var d pathChallengeData
		copy(d[:], c28rand(rng, 8))
		want.data = d[:]
		if kind == 15 {
			want.typ = 0x1a
			added = w.appendPathChallengeFrame(d)
		} else {
			want.typ = 0x1b
			added = w.appendPathResponseFrame(d)
		}
	case 17:
		code, ft := c28int(rng, maxV), c28int(rng, maxV)
		reason := c28rand(rng, []int{0, 5, 63, 64, 200}[rng.IntN(5)])
		want.typ, want.ints, want.data = 0x1c, []uint64{code, ft}, reason
		added = w.appendConnectionCloseTransportFrame(transportError(code), ft, string(reason))
	case 18:
		code := c28int(rng, maxV)
		reason := c28rand(rng, []int{0, 5, 63, 64, 200}[rng.IntN(5)])
		want.typ, want.ints, want.data = 0x1d, []uint64{code}, reason
		added = w.appendConnectionCloseApplicationFrame(code, string(reason))
	case 19:
		want.typ = 0x1e
		added = w.appendHandshakeDoneFrame()
	default: // PADDING up to a datagram size
		before := len(w.b)
		to := before + aeadOverhead + 1 + rng.IntN(40)
		w.appendPaddingTo(to)
		n := len(w.b) - before
		want.typ, want.ints = 0x00, []uint64{uint64(n)}
		added = n > 0
		note = fmt.Sprintf("appendPaddingTo(%d)", to)
	}
	return want, added, note
}

const c28frameKinds = 21

// c28encodeFrame serialises a reference frame with the harness encoder; nonMinimal picks
// PRNG (legal) longer varint encodings.
func c28encodeFrame(rng *rand.Rand, f c28frame, nonMinimal bool) []byte {
	vi := func(b []byte, v uint64) []byte {
		if !nonMinimal {
			return c28appendVarint(b, v)
		}
		min := len(c28appendVarint(nil, v))
		sizes := []int{1, 2, 4, 8}
		for {
			n := sizes[rng.IntN(4)]
			if n >= min {
				return c28appendVarintN(b, v, n)
			}
		}
	}
	b := []byte{f.typ}
	switch t := f.typ; {
	case t == 0x00:
		b = append(b, make([]byte, f.ints[0]-1)...)
	case t == 0x02, t == 0x03:
		b = vi(b, uint64(f.ranges[0][1]))
		b = vi(b, f.ints[0])
		b = vi(b, uint64(len(f.ranges)-1))
		b = vi(b, uint64(f.ranges[0][1]-f.ranges[0][0]))
		for i := 1; i < len(f.ranges); i++ {
			b = vi(b, uint64(f.ranges[i-1][0]-f.ranges[i][1]-2))
			b = vi(b, uint64(f.ranges[i][1]-f.ranges[i][0]))
		}
		if t == 0x03 {
			b = vi(vi(vi(b, f.ints[1]), f.ints[2]), f.ints[3])
		}
	case t == 0x06:
		b = vi(b, f.ints[0])
		b = append(vi(b, uint64(len(f.data))), f.data...)
	case t == 0x07:
		b = append(vi(b, uint64(len(f.data))), f.data...)
	case t >= 0x08 && t <= 0x0f:
		b[0] = 0x08 | 0x02 | byte(f.ints[2])
		if f.ints[1] != 0 || (nonMinimal && rng.IntN(2) == 0) {
			b[0] |= 0x04
		}
		b = vi(b, f.ints[0])
		if b[0]&0x04 != 0 {
			b = vi(b, f.ints[1])
		}
		b = append(vi(b, uint64(len(f.data))), f.data...)
	case t == 0x18:
		b = vi(vi(b, f.ints[0]), f.ints[1])
		b = append(b, byte(len(f.data)))
		b = append(append(b, f.data...), f.token...)
	case t == 0x1a, t == 0x1b:
		b = append(b, f.data...)
	case t == 0x1c:
		b = vi(vi(b, f.ints[0]), f.ints[1])
		b = append(vi(b, uint64(len(f.data))), f.data...)
	case t == 0x1d:
		b = vi(b, f.ints[0])
		b = append(vi(b, uint64(len(f.data))), f.data...)
	default:
		for _, v := range f.ints {
			b = vi(b, v)
		}
	}
	return b
}

func c28frames(r *verifrt.R, k *c28counts) {
	// (a) what the writer emits
	r.CasesParallel("frames-written", r.N(4000, 150000), 0, func(c *verifrt.Case) {
		rng := c.Rng
		var w packetWriter
		lim := 1200
		switch rng.IntN(6) {
		case 0:
			lim = 60 + rng.IntN(120) // cramped: refusals and truncated STREAM/CRYPTO data
		case 1:
			lim = 1500 + rng.IntN(8000)
		}
		w.reset(lim)
		dcid := c28rand(rng, 8)
		w.start1RTTPacket(packetNumber(rng.IntN(1000)), -1, dcid)
		if w.pktLim == len(w.b) {
			return
		}
		type rec struct {
			start, end int
			want       c28frame
			note       string
			avail      int
		}
		lastPadding := false
		var recs []rec
		nontrivial := false
		for i, n := 0, 1+rng.IntN(10); i < n; i++ {
			kind := rng.IntN(c28frameKinds)
			if kind == c28frameKinds-1 && lastPadding {
				kind = 0 // two PADDING runs would be one run on the wire
			}
			before := len(w.b)
			availBefore := w.avail()
			want, added, note := c28writeFrame(rng, &w, kind)
			c.Describe(map[string]any{"limit": lim, "frame": c28name(want.typ), "note": note, "fields": fmt.Sprint(want.ints), "avail_before": availBefore})
			if len(w.b) > w.pktLim {
				c.Violation("writer-exceeds-packet-limit", "%s %s: packet grew to %d bytes, limit %d (avail before %d)", c28name(want.typ), note, len(w.b), w.pktLim, availBefore)
			}
			if added {
				lastPadding = kind == c28frameKinds-1
			}
			if !added {
				k.add("frames_writer_refused", 1)
				if len(w.b) != before {
					c.Violation("writer-refused-but-wrote", "%s %s: append returned false but wrote %d bytes", c28name(want.typ), note, len(w.b)-before)
					w.b = w.b[:before]
				}
				continue
			}
			recs = append(recs, rec{before, len(w.b), want, note, availBefore})
		}
		pay := append([]byte{}, w.payload()...)
		base := w.payOff
		for _, rc := range recs {
			wire := pay[rc.start-base:] // this frame followed by the rest of the packet
			ref, st := c28parseFrame(wire)
			k.add("frames_written", 1)
			k.add("frames_written_"+c28name(rc.want.typ), 1)
			if len(rc.want.data) > 0 || len(wire) > 0 && rc.end-rc.start > 2 {
				nontrivial = true
			}
			want := rc.want
			if st == c28ok && (want.typ == 0x02 || want.typ == 0x03) && len(ref.ranges) >= 1 && len(ref.ranges) <= len(want.ranges) {
				// the writer may drop the lowest ranges when they do not fit (documented)
				full := len(want.ranges)
				if full > 64 {
					full = 64
				}
				if len(ref.ranges) < full && rc.avail >= 1200 {
					c.Violation("writer-dropped-ack-ranges", "ACK with %d ranges written as %d ranges although %d bytes were available", len(want.ranges), len(ref.ranges), rc.avail)
				}
				if len(ref.ranges) < len(want.ranges) {
					k.add("ack_frames_with_dropped_ranges", 1)
				}
				want.ranges = want.ranges[:len(ref.ranges)]
			}
			if st != c28ok || ref.n != rc.end-rc.start || !c28same(ref, want) {
				c.Violation("writer-differs-from-rfc", "%s %s: wrote %x; RFC decoding: status=%d n=%d %+v (%s); intended %+v (%d bytes)", c28name(want.typ), rc.note, pay[rc.start-base:rc.end-base], st, ref.n, ref, ref.why, want, rc.end-rc.start)
				continue
			}
			c28checkParsers(c, k, wire, "writer-emitted "+c28name(want.typ)+" "+rc.note)
			// the frame alone, exactly sized
			c28checkParsers(c, k, pay[rc.start-base:rc.end-base], "writer-emitted (alone) "+c28name(want.typ))
		}
		r.EvalBytes(nontrivial, pay)
		if c.Index < 2 {
			r.Sample(map[string]any{"stream": "frames-written", "limit": lim, "payload": fmt.Sprintf("%x", pay[:min(len(pay), 120)]), "frames": len(recs)})
		}
	})

	// (d1) harness-encoded frames (incl. non-minimal varints), every prefix, bit flips
	r.CasesParallel("frames-mutated", r.N(3000, 150000), 0, func(c *verifrt.Case) {
		rng := c.Rng
		var w packetWriter
		w.reset(4000)
		w.start1RTTPacket(0, -1, nil)
		kind := rng.IntN(c28frameKinds)
		f, added, _ := c28writeFrame(rng, &w, kind)
		if !added {
			return
		}
		if (f.typ == 0x02 || f.typ == 0x03) && len(f.ranges) > 64 {
			f.ranges = f.ranges[:64]
		}
		wire := c28encodeFrame(rng, f, rng.IntN(2) == 0)
		c.Describe(map[string]any{"frame": c28name(f.typ), "bytes": fmt.Sprintf("%x", wire)})
		c28checkParsers(c, k, wire, "harness-encoded "+c28name(f.typ))
		// every strict prefix
		step := 1
		if len(wire) > 200 {
			step = 1 + len(wire)/100
		}
		for n := 0; n < len(wire); n += step {
			c28checkParsers(c, k, wire[:n], fmt.Sprintf("prefix %d of %s", n, c28name(f.typ)))
		}
		// PRNG mutations
		for i := 0; i < 24; i++ {
			m := append([]byte{}, wire...)
			switch rng.IntN(4) {
			case 0:
				m[rng.IntN(len(m))] ^= 1 << rng.IntN(8)
			case 1:
				m[rng.IntN(min(len(m), 12))] = byte(rng.Uint32())
			case 2:
				m = append(m, c28rand(rng, 1+rng.IntN(20))...)
			default:
				p := rng.IntN(min(len(m), 12))
				m[p] |= 0xc0 // turn a field into an 8-byte varint
			}
			c28checkParsers(c, k, m, "mutated "+c28name(f.typ))
		}
		r.EvalBytes(len(wire) > 3, wire)
	})

	// (d2) arbitrary bytes
	r.CasesParallel("frames-arbitrary", r.N(2000, 100000), 0, func(c *verifrt.Case) {
		rng := c.Rng
		for i := 0; i < 50; i++ {
			b := c28rand(rng, rng.IntN(40))
			if len(b) > 0 && rng.IntN(4) != 0 {
				b[0] = byte(rng.IntN(0x20))
			}
			for j := 1; j < len(b); j++ { // mostly small varints so that parsing goes deep
				if rng.IntN(3) != 0 {
					b[j] &= 0x3f
				}
			}
			c.Describe(map[string]any{"bytes": fmt.Sprintf("%x", b)})
			c28checkParsers(c, k, b, "arbitrary")
			r.EvalBytes(len(b) > 2, b)
		}
	})

	// (d3) values the RFC puts out of range
	r.Cases("frames-out-of-range", r.N(300, 5000), func(c *verifrt.Case) {
		rng := c.Rng
		tail := c28rand(rng, 64)
		for j := range tail {
			if rng.IntN(2) == 0 {
				tail[j] &= 0x1f
			}
		}
		try := func(what string, b []byte) {
			c.Describe(map[string]any{"what": what, "bytes": fmt.Sprintf("%x", b)})
			c28checkParsers(c, k, b, what)
			k.add("frames_out_of_range_probes", 1)
		}
		for _, t := range []byte{0x12, 0x13, 0x16, 0x17} {
			for _, v := range []uint64{1 << 60, 1<<60 + 1, 1<<60 + uint64(rng.Uint32()), 1 << 61, c28maxVarint} {
				try(fmt.Sprintf("%s count %d", c28name(t), v), c28appendVarint([]byte{t}, v))
			}
		}
		// NEW_CONNECTION_ID: every value of the one-byte Length field
		seq := c28int(rng, c28maxVarint)
		retire := c28int(rng, seq)
		for ln := 0; ln < 256; ln++ {
			b := c28appendVarint(c28appendVarint([]byte{0x18}, seq), retire)
			b = append(b, byte(ln))
			b = append(b, tail...)
			try(fmt.Sprintf("NEW_CONNECTION_ID length byte %d", ln), b)
		}
		if seq < c28maxVarint {
			b := c28appendVarint(c28appendVarint([]byte{0x18}, seq), seq+1+c28int(rng, c28maxVarint-seq-1))
			b = append(append(b, 8), tail...)
			try("NEW_CONNECTION_ID retire_prior_to > sequence", b)
		}
		try("NEW_TOKEN empty", []byte{0x07, 0x00})
		// STREAM beyond 2^62-1
		for _, t := range []byte{0x0c, 0x0d, 0x0e, 0x0f} {
			ln := 1 + rng.IntN(20)
			off := c28maxVarint - uint64(rng.IntN(ln))
			b := c28appendVarint(c28appendVarint([]byte{t}, c28int(rng, c28maxVarint)), off)
			if t&0x02 != 0 {
				b = c28appendVarint(b, uint64(ln))
			}
			b = append(b, tail[:ln]...)
			try(fmt.Sprintf("STREAM type %#x offset %d + %d bytes", t, off, ln), b)
		}
		// ACK ranges reaching below zero
		lg := uint64(rng.IntN(50))
		try("ACK first range > largest", c28appendVarint(c28appendVarint(c28appendVarint(c28appendVarint([]byte{0x02}, lg), 0), 0), lg+1+uint64(rng.IntN(5))))
		b := c28appendVarint(c28appendVarint(c28appendVarint(c28appendVarint([]byte{0x02}, lg), 0), 1), 0)
		b = c28appendVarint(c28appendVarint(b, lg), 0) // gap pushes the next range below zero
		try("ACK second range below zero", b)
		r.Eval(true, "oor", seq, retire)
	})
}
