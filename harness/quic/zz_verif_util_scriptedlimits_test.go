//go:build verif

package quic

// A deterministic sender-side script against the repository's testConn (which owns the peer's
// keys): the Conn under test writes on streams of every kind while a scripted peer with PRNG,
// deliberately asymmetric transport parameters raises limits late, in small steps and with stale
// values, loses and acknowledges packets and lets loss timers fire. Everything the Conn sends
// is checked against the limits the script itself has handed out. Used by C20 (flow-control
// limits) and, with resets at the end, by C32 (RESET_STREAM final size). Prefix vsl.

import (
	"context"
	"fmt"
	"math/rand/v2"
	"testing"
	"testing/synctest"
	"time"
)

type vslStream struct {
	s      *Stream
	id     streamID
	kind   string // "local-bidi", "local-uni", "peer-bidi"
	limit  int64  // current MAX_STREAM_DATA the script has given for this stream
	maxEnd int64  // highest offset seen in a STREAM frame
	wrote  int64
	reset  bool
	final  int64 // final size of the first RESET_STREAM seen (-1: none)
	code   uint64
	// the application called Reset (or the peer's STOP_SENDING arrived) while the send side was
	// not finished yet (not everything including the FIN acknowledged): a RESET_STREAM is owed
	// and no STREAM data may follow
	resetOwed bool
	// what the peer has received and acknowledged: data ranges and the FIN (every packet the
	// script keeps is acknowledged by the end of the run)
	covered rangeset[int64]
	finKept bool
	finOff  int64
}

type vslResult struct {
	Frames, Streams, AtStreamLimit, AtConnLimit, Raises, StaleRaises, Lost, PTOs, Resets, ResetsChecked, FinsBeforeReset, ResetsOwedSeen, ResetsOvertakenByAcks int64
}

// vslRun runs one scripted case. viol reports oracle failures; withResets adds C32's part.
func vslRun(t *testing.T, rng *rand.Rand, withResets bool, viol func(key, format string, a ...any), describe func(any)) vslResult {
	var res vslResult
	pick := func(xs ...int64) int64 { return xs[rng.IntN(len(xs))] }
	side := []connSide{clientSide, serverSide}[rng.IntN(2)]
	lim := struct{ Data, BidiLocal, BidiRemote, Uni int64 }{
		pick(0, 1, 100, 1000, 1200, 3000, 20000, 1<<20),
		pick(0, 1, 100, 1000, 1300, 5000, 1<<20),
		pick(0, 1, 100, 1000, 1300, 5000, 1<<20),
		pick(0, 1, 100, 1000, 1300, 5000, 1<<20),
	}
	nLocalBidi, nLocalUni, nPeerBidi := 1+rng.IntN(2), rng.IntN(2), rng.IntN(3)
	dropPct := int(pick(0, 0, 20, 40))
	describe(map[string]any{"side": fmt.Sprint(side), "peer_limits": lim, "local_bidi": nLocalBidi, "local_uni": nLocalUni, "peer_bidi": nPeerBidi, "drop_pct": dropPct, "resets": withResets})
	synctest.Test(t, func(t *testing.T) {
		tc := newTestConn(t, side, func(p *transportParameters) {
			p.initialMaxStreamsBidi = maxStreamsLimit
			p.initialMaxStreamsUni = maxStreamsLimit
			p.initialMaxData = lim.Data
			p.initialMaxStreamDataBidiLocal = lim.BidiLocal   // streams the peer (the script) opens
			p.initialMaxStreamDataBidiRemote = lim.BidiRemote // bidirectional streams the Conn opens
			p.initialMaxStreamDataUni = lim.Uni
		})
		tc.handshake()
		tc.ignoreFrame(frameTypeAck)
		tc.conn.keysAppData.updateAfter = maxPacketNumber
		maxData := lim.Data
		var streams []*vslStream
		byID := map[streamID]*vslStream{}
		add := func(s *Stream, kind string, limit int64) {
			s.SetWriteContext(canceledContext())
			s.SetReadContext(canceledContext())
			st := &vslStream{s: s, id: s.id, kind: kind, limit: limit, final: -1}
			streams = append(streams, st)
			byID[s.id] = st
		}
		for i := 0; i < nLocalBidi; i++ {
			s, err := tc.conn.newLocalStream(canceledContext(), bidiStream)
			if err != nil {
				viol("scripted-newstream-error", "NewStream: %v", err)
				return
			}
			add(s, "local-bidi", lim.BidiRemote)
		}
		for i := 0; i < nLocalUni; i++ {
			s, err := tc.conn.newLocalStream(canceledContext(), uniStream)
			if err != nil {
				viol("scripted-newstream-error", "NewSendOnlyStream: %v", err)
				return
			}
			add(s, "local-uni", lim.Uni)
		}
		for i := 0; i < nPeerBidi; i++ {
			id := newStreamID(side.peer(), bidiStream, int64(i))
			tc.writeFrames(packetType1RTT, debugFrameStream{id: id, data: []byte{1}})
			s, err := tc.conn.AcceptStream(canceledContext())
			if err != nil {
				viol("scripted-accept-error", "AcceptStream of peer stream %d: %v", id, err)
				return
			}
			add(s, "peer-bidi", lim.BidiLocal)
		}
		res.Streams = int64(len(streams))
		var kept rangeset[packetNumber]
		pendingAck := false
		sumMax := func() (n int64) {
			for _, st := range streams {
				n += st.maxEnd
			}
			return
		}
		deliver := func(drop bool) {
			for _, p := range vlpReadPackets(tc) {
				if p.ptype != packetType1RTT {
					continue
				}
				for _, f := range p.frames {
					switch f := f.(type) {
					case debugFrameStream:
						st := byID[f.id]
						if st == nil {
							continue
						}
						res.Frames++
						end := f.off + int64(len(f.data))
						if st.resetOwed && !st.reset && len(f.data) > 0 {
							viol("stream-data-after-application-reset-scripted", "STREAM [%d,%d) on %s stream %d in packet %d, sent after the stream was reset (Stream.Reset or the peer's STOP_SENDING) and before any RESET_STREAM", f.off, end, st.kind, f.id, p.num)
						}
						if st.reset {
							viol("stream-data-after-reset-scripted", "STREAM [%d,%d) on %s stream %d in packet %d after its RESET_STREAM (final size %d)", f.off, end, st.kind, f.id, p.num, st.final)
						}
						if end > st.limit {
							viol("stream-limit-exceeded:"+st.kind, "STREAM [%d,%d) on %s stream %d in packet %d exceeds the MAX_STREAM_DATA %d the peer has given for it (peer transport parameters: bidi_local=%d bidi_remote=%d uni=%d)", f.off, end, st.kind, f.id, p.num, st.limit, lim.BidiLocal, lim.BidiRemote, lim.Uni)
						}
						if end == st.limit && len(f.data) > 0 {
							res.AtStreamLimit++
						}
						if end > st.maxEnd {
							st.maxEnd = end
						}
						if s := sumMax(); s > maxData {
							viol("connection-limit-exceeded", "after STREAM [%d,%d) on stream %d in packet %d the highest offsets sent sum to %d, the peer's MAX_DATA is %d", f.off, end, f.id, p.num, s, maxData)
						} else if s == maxData && len(f.data) > 0 {
							res.AtConnLimit++
						}
					case debugFrameResetStream:
						st := byID[f.id]
						if st == nil {
							continue
						}
						if !st.reset {
							st.reset, st.final, st.code = true, f.finalSize, f.code
							res.ResetsChecked++
							if f.finalSize != st.maxEnd {
								viol("reset-final-size-not-highest-offset-sent-scripted", "RESET_STREAM on %s stream %d in packet %d states final size %d, the highest offset sent in STREAM frames is %d", st.kind, f.id, p.num, f.finalSize, st.maxEnd)
							}
						} else if f.finalSize != st.final || f.code != st.code {
							viol("reset-retransmission-differs-scripted", "RESET_STREAM on stream %d repeated with final size %d code %d, first was %d / %d", f.id, f.finalSize, f.code, st.final, st.code)
						}
					}
				}
				if drop && rng.IntN(100) < dropPct {
					res.Lost++
					continue
				}
				for _, f := range p.frames {
					if f, ok := f.(debugFrameStream); ok {
						if st := byID[f.id]; st != nil {
							if len(f.data) > 0 {
								st.covered.add(f.off, f.off+int64(len(f.data)))
							}
							if f.fin {
								st.finKept, st.finOff = true, f.off+int64(len(f.data))
							}
						}
					}
				}
				kept.add(p.num, p.num+1)
				pendingAck = true
			}
		}
		ack := func() {
			if pendingAck {
				pendingAck = false
				tc.writeFrames(packetType1RTT, debugFrameAck{ranges: append([]i64range[packetNumber](nil), kept...)})
			}
		}
		sleepToTimer := func(max time.Duration) {
			var when time.Time
			tc.conn.runOnLoop(context.Background(), func(now time.Time, conn *Conn) { when = conn.loss.timer })
			d := max
			if !when.IsZero() {
				if u := time.Until(when); u > 0 && u < max {
					d = u + time.Millisecond
					res.PTOs++
				}
			}
			time.Sleep(d)
		}
		raise := func(cur int64) int64 {
			switch rng.IntN(6) {
			case 0: // stale: lower than what was given already
				res.StaleRaises++
				return cur - min(cur, 1+rng.Int64N(500))
			case 1:
				return cur + 1
			case 2:
				return cur + 1 + rng.Int64N(50)
			default:
				return cur + 1 + rng.Int64N(4000)
			}
		}
		for step := 0; step < 50; step++ {
			switch op := rng.IntN(12); {
			case op < 3: // write (and usually flush) on a stream that has not been reset
				st := streams[rng.IntN(len(streams))]
				if st.reset || st.wrote > 40000 {
					break
				}
				n := int(pick(1, 10, 100, 1000, 1300, 3000, 9000))
				b := make([]byte, n)
				m, _ := st.s.Write(b)
				st.wrote += int64(m)
				if rng.IntN(4) != 0 {
					st.s.Flush()
				}
			case op < 5:
				deliver(true)
			case op < 7:
				ack()
			case op < 9: // MAX_STREAM_DATA
				st := streams[rng.IntN(len(streams))]
				v := raise(st.limit)
				tc.writeFrames(packetType1RTT, debugFrameMaxStreamData{id: st.id, max: v})
				if v > st.limit {
					st.limit = v
					res.Raises++
				}
			case op < 10: // MAX_DATA
				v := raise(maxData)
				tc.writeFrames(packetType1RTT, debugFrameMaxData{max: v})
				if v > maxData {
					maxData = v
					res.Raises++
				}
			default:
				sleepToTimer(time.Duration(1+rng.IntN(1500)) * time.Millisecond)
			}
		}
		if withResets {
			// some streams are finished first: the FIN and the data before it travel in different
			// packets, of which the peer acknowledges what it gets
			for _, st := range streams {
				if rng.IntN(3) == 0 {
					st.s.CloseWrite()
					res.FinsBeforeReset++
				}
			}
			deliver(true)
			ack()
			deliver(true) // whatever goes out from here on was sent after the resets below
			for _, st := range streams {
				if rng.IntN(2) == 0 {
					continue
				}
				select {
				case <-st.s.outdone:
				default:
					st.resetOwed = true
				}
				if rng.IntN(2) == 0 && st.kind != "local-uni" {
					// the peer asks for the reset
					tc.writeFrames(packetType1RTT, debugFrameStopSending{id: st.id, code: 7})
				} else {
					st.s.Reset(uint64(1000 + rng.IntN(9)))
				}
				res.Resets++
				if rng.IntN(2) == 0 {
					deliver(true)
				}
			}
		}
		for round := 0; round < 12; round++ {
			deliver(false)
			ack()
			sleepToTimer(20 * time.Second)
		}
		deliver(false)
		for _, st := range streams {
			if st.resetOwed && !st.reset && st.finKept && (st.finOff == 0 || st.covered.isrange(0, st.finOff)) {
				// the peer acknowledged all of the stream including its FIN (in packets sent
				// before the reset): the stream was complete, no RESET_STREAM is needed
				res.ResetsOvertakenByAcks++
				continue
			}
			if st.resetOwed && !st.reset {
				viol("reset-stream-never-sent-scripted", "%s stream %d was reset (Stream.Reset or the peer's STOP_SENDING) while its send side was not finished, the peer has not received all of it (acknowledged data %v, FIN acknowledged %v, highest offset sent %d), and no RESET_STREAM was sent in 12 rounds of delivery, acknowledgement and loss timers", st.kind, st.id, st.covered, st.finKept, st.maxEnd)
			} else if st.resetOwed {
				res.ResetsOwedSeen++
			}
		}
	})
	return res
}
