//go:build verif

package quic

import (
	"context"
	"fmt"
	"sync"
	"testing"
	"testing/synctest"
	"time"

	"golang.org/x/net/internal/verifrt"
)

// vlpFlowShadow is the C20 wire monitor for one sender A: limits are taken only from
// frames A itself has processed (its packet_received events) and from the peer's configured
// initial values, so nothing still in flight can cause an alarm.
type vlpFlowShadow struct {
	side       string
	initStream int64
	maxData    int64
	limit      map[int64]int64 // per stream: largest MAX_STREAM_DATA processed
	sentEnd    map[int64]int64
	sum        int64
	advData    int64           // last MAX_DATA A sent
	advStream  map[int64]int64 // last MAX_STREAM_DATA A sent, per stream
	atLimit    int64           // STREAM frames ending exactly at a limit
	checked    int64
	maxUpd     int64
	stale      int64 // MAX_* frames processed with a value below the current limit
}

func vlpNewFlowShadow(side string, peer *Config) *vlpFlowShadow {
	return &vlpFlowShadow{side: side, initStream: peer.maxStreamReadBufferSize(), maxData: peer.maxConnReadBufferSize(),
		limit: map[int64]int64{}, sentEnd: map[int64]int64{}, advStream: map[int64]int64{}, advData: -1}
}

func (s *vlpFlowShadow) observe(ev *vlpEvent, viol vlpViolFunc) {
	if ev.Side != s.side {
		return
	}
	for i := range ev.Frames {
		f := &ev.Frames[i]
		if !ev.Sent {
			switch f.Kind {
			case "max_stream_data":
				cur, ok := s.limit[f.ID]
				if !ok {
					cur = s.initStream
				}
				if f.Max < cur {
					s.stale++
				}
				s.limit[f.ID] = max(cur, f.Max)
				s.maxUpd++
			case "max_data":
				if f.Max < s.maxData {
					s.stale++
				}
				s.maxData = max(s.maxData, f.Max)
				s.maxUpd++
			}
			continue
		}
		switch f.Kind {
		case "stream":
			lim, ok := s.limit[f.ID]
			if !ok {
				lim = s.initStream
			}
			end := f.Off + f.Len
			s.checked++
			if end > lim {
				viol("stream-data-beyond-max-stream-data", "%s sent STREAM id=%d [%d,%d) in packet %d but the largest MAX_STREAM_DATA it had processed is %d", s.side, f.ID, f.Off, end, ev.Num, lim)
			}
			if end == lim && f.Len > 0 {
				s.atLimit++
			}
			if old := s.sentEnd[f.ID]; end > old {
				s.sentEnd[f.ID] = end
				s.sum += end - old
			}
			if s.sum > s.maxData {
				viol("stream-data-beyond-max-data", "%s: sum of highest offsets %d exceeds the largest MAX_DATA it had processed (%d) after STREAM id=%d [%d,%d) in packet %d", s.side, s.sum, s.maxData, f.ID, f.Off, end, ev.Num)
			}
			if s.sum == s.maxData && f.Len > 0 {
				s.atLimit++
			}
		case "reset_stream":
			if old := s.sentEnd[f.ID]; f.FinalSize > old {
				s.sentEnd[f.ID] = f.FinalSize
				s.sum += f.FinalSize - old
				if s.sum > s.maxData {
					viol("reset-final-size-beyond-max-data", "%s: RESET_STREAM id=%d final size %d pushes the connection total to %d > MAX_DATA %d", s.side, f.ID, f.FinalSize, s.sum, s.maxData)
				}
			}
		case "max_data":
			if f.Max < s.advData {
				viol("advertised-max-data-decreased", "%s sent MAX_DATA %d after having sent %d", s.side, f.Max, s.advData)
			}
			s.advData = max(s.advData, f.Max)
		case "max_stream_data":
			if old, ok := s.advStream[f.ID]; ok && f.Max < old {
				viol("advertised-max-stream-data-decreased", "%s sent MAX_STREAM_DATA id=%d %d after having sent %d", s.side, f.ID, f.Max, old)
			}
			s.advStream[f.ID] = max(s.advStream[f.ID], f.Max)
		}
	}
}

func TestVerif_C20(t *testing.T) {
	r := verifrt.Start(t, "C20")
	defer r.Finish()
	r.ExitIfAbnormal()
	r.SetRule("(a) lossy transfers as in C19 but with small receive buffers so senders sit at the flow-control limits; wire monitor per sender fed by its own qlog tap: every STREAM frame checked against the largest MAX_STREAM_DATA / MAX_DATA that sender had processed; advertised MAX_* monotone. (b) scripted peer (own keys) sends STREAM/RESET_STREAM within, exactly at, and beyond the advertised limits. non-trivial (a) = run with >=1 STREAM frame ending exactly at a limit and >=1 MAX_* update processed; (b) = every case; distinct by counts")
	r.Assume("qlog tap reports the frames of every packet a connection sends/processes, in the connection loop's own order")
	n := r.N(50, 1200)
	var mu sync.Mutex
	r.CasesParallel("lossy-flow", n, 8, func(c *verifrt.Case) {
		small := func() int64 { return []int64{64, 300, 1000, 4096, 16384, 65536}[c.Rng.IntN(6)] }
		cb := [3]int64{small(), vlpGenBuf(c.Rng)[1], small()}
		sb := [3]int64{small(), vlpGenBuf(c.Rng)[1], small()}
		rc := &vlpRunConfig{Faults: vlpGenFaults(c.Rng), CliBuf: cb, SrvBuf: sb,
			Streams:    vlpGenStreams(c.Rng, 6, vlpBudget(300<<10, cb, sb)),
			FaultPhase: []int{200, 2000, 20000, 120000}[c.Rng.IntN(4)], CleanBoundS: 300}
		c.Describe(rc)
		var res *vlpRunResult
		shadows := map[int]*vlpFlowShadow{} // one per connection
		var pr *vlpPair
		synctest.Test(t, func(t *testing.T) {
			res = vlpRunTransfer(c.Rng.Uint64(), rc, func(p *vlpPair) {
				pr = p
				p.Tap.Observe(func(ev *vlpEvent) {
					sh := shadows[ev.Conn]
					if sh == nil {
						peer := p.SrvConf
						if ev.Side == "server" {
							peer = p.CliConf
						}
						sh = vlpNewFlowShadow(ev.Side, peer)
						shadows[ev.Conn] = sh
					}
					sh.observe(ev, c.Violation)
				})
			}, func(key, f string, a ...any) {
				// end-to-end delivery is C19's verdict; here it only tells us the run was abnormal
				r.Event("c19_oracle_fired_"+key, 1)
				r.Note("case %d: c19 oracle %s: "+f, append([]any{c.Index, key}, a...)...)
			})
		})
		if res.HandshakeErr != nil {
			r.Event("handshake_failed", 1)
			return
		}
		_ = pr
		mu.Lock()
		defer mu.Unlock()
		shC, shS := &vlpFlowShadow{advStream: map[int64]int64{}}, &vlpFlowShadow{advStream: map[int64]int64{}}
		for _, sh := range shadows {
			shC.atLimit += sh.atLimit
			shC.maxUpd += sh.maxUpd
			shC.checked += sh.checked
			shC.stale += sh.stale
			for k, v := range sh.advStream {
				shC.advStream[k+int64(len(shC.advStream))<<40] = v
			}
		}
		at := shC.atLimit + shS.atLimit
		upd := shC.maxUpd + shS.maxUpd
		r.Eval(at > 0 && upd > 0, "lossy", len(rc.Streams), shC.checked+shS.checked, at, upd)
		r.Event("lossy_runs", 1)
		r.Event("stream_frames_checked", shC.checked+shS.checked)
		r.Event("stream_frames_ending_exactly_at_a_limit", at)
		r.Event("max_updates_processed", upd)
		r.Event("stale_max_frames_processed", shC.stale+shS.stale)
		r.Event("advertised_max_frames_checked", int64(len(shC.advStream)+len(shS.advStream)))
		r.Sample(map[string]any{"kind": "lossy", "cli_buf": cb, "srv_buf": sb, "streams": len(rc.Streams), "frames_checked": shC.checked + shS.checked, "at_limit": at, "max_updates": upd, "stale": shC.stale + shS.stale})
	})

	// (b) a peer that exceeds the advertised limits
	m := r.N(300, 6000)
	r.Cases("scripted-overrun", m, func(c *verifrt.Case) {
		ws := []int64{1, 16, 100, 1000, 5000}[c.Rng.IntN(5)]
		wc := []int64{1, 16, 100, 1000, 5000, 20000}[c.Rng.IntN(6)]
		side := []connSide{serverSide, clientSide}[c.Rng.IntN(2)]
		styp := []streamType{bidiStream, uniStream}[c.Rng.IntN(2)]
		mode := c.Rng.IntN(5) // 0 within, 1 exactly at stream limit, 2 stream overrun, 3 conn overrun, 4 reset beyond
		nstreams := 1 + c.Rng.IntN(3)
		type fr struct {
			id       int64
			off, len int64
			reset    bool
			pre      string // receive-side state change right before this frame: "closeread", "peerreset"
		}
		var script []fr
		ends := make([]int64, nstreams)
		var sum int64
		sid := func(i int) streamID { return newStreamID(side.peer(), styp, int64(i)) }
		// legal prefix
		for k := 0; k < 1+c.Rng.IntN(5); k++ {
			i := c.Rng.IntN(nstreams)
			room := min(ws-ends[i], wc-sum)
			if room <= 0 {
				continue
			}
			l := min(1+c.Rng.Int64N(room), 1000)
			script = append(script, fr{id: int64(sid(i)), off: ends[i], len: l})
			ends[i] += l
			sum += l
		}
		expect := transportError(0)
		wantErr := false
		i := c.Rng.IntN(nstreams)
		switch mode {
		case 1:
			for room := min(ws-ends[i], wc-sum); room > 0; room = min(ws-ends[i], wc-sum) {
				l := min(room, 1000)
				script = append(script, fr{id: int64(sid(i)), off: ends[i], len: l})
				ends[i] += l
				sum += l
			}
		case 2:
			for ws-ends[i] > 900 { // walk up to the limit in datagram-sized frames
				script = append(script, fr{id: int64(sid(i)), off: ends[i], len: 900})
				ends[i] += 900
				sum += 900
			}
			over := ws - ends[i] + 1 + c.Rng.Int64N(3)
			pre := ""
			if ends[i] > 0 {
				// the limit still binds a stream whose data is no longer delivered to anyone: the
				// application has stopped reading it, or the peer has reset it (final size = what
				// it has sent so far, so the excess also contradicts the final size)
				pre = []string{"", "closeread", "peerreset"}[c.Rng.IntN(3)]
			}
			script = append(script, fr{id: int64(sid(i)), off: ends[i], len: over, pre: pre})
			if sum+over <= wc && sum > wc {
				// connection limit was already exceeded on the way: still a flow control error
			}
			wantErr, expect = true, errFlowControl
		case 3:
			// exceed the connection limit without exceeding any stream limit, if possible
			for j := 0; j < nstreams && sum <= wc; j++ {
				for sum <= wc {
					l := min(ws-ends[j], wc-sum+1, 1000)
					if l <= 0 {
						break
					}
					script = append(script, fr{id: int64(sid(j)), off: ends[j], len: l})
					ends[j] += l
					sum += l
				}
			}
			if sum > wc {
				wantErr, expect = true, errFlowControl
			}
		case 4:
			script = append(script, fr{id: int64(sid(i)), off: ws + 1 + c.Rng.Int64N(5), reset: true})
			wantErr, expect = true, errFlowControl
		}
		c.Describe(map[string]any{"side": fmt.Sprint(side), "stream_window": ws, "conn_window": wc, "mode": mode, "script": fmt.Sprintf("%+v", script)})
		synctest.Test(t, func(t *testing.T) {
			tc := vlpScripted(t, side, func(cfg *Config) {
				cfg.MaxStreamReadBufferSize = ws
				cfg.MaxConnReadBufferSize = wc
			})
			finalSizeToo := false
			for _, f := range script {
				switch f.pre {
				case "closeread":
					found := false
					for {
						st, err := tc.conn.AcceptStream(canceledContext())
						if err != nil {
							break
						}
						if st.id == streamID(f.id) {
							st.CloseRead()
							found = true
						}
					}
					synctest.Wait()
					if found { // not found: the connection limit was exceeded on the way and the conn is closing
						r.Event("overruns_on_read_closed_streams", 1)
					}
				case "peerreset":
					tc.writeFrames(packetType1RTT, debugFrameResetStream{id: streamID(f.id), code: 9, finalSize: f.off})
					finalSizeToo = true
					r.Event("overruns_on_streams_reset_by_the_peer", 1)
				}
				if f.reset {
					tc.writeFrames(packetType1RTT, debugFrameResetStream{id: streamID(f.id), code: 7, finalSize: f.off})
				} else {
					tc.writeFrames(packetType1RTT, debugFrameStream{id: streamID(f.id), off: f.off, data: make([]byte, f.len)})
				}
			}
			frames := vlpDrain(tc)
			code, reason, closed := vlpCloseCode(frames)
			switch {
			case wantErr && !closed:
				c.Violation("overrun-not-rejected", "peer exceeded the advertised limit (stream window %d, conn window %d, script %+v) but no CONNECTION_CLOSE was sent; frames: %v", ws, wc, script, frames)
			case wantErr && finalSizeToo && code == errFinalSize:
				// the excess frame contradicts the final size as well: either report is right
			case wantErr && code != expect:
				c.Violation("overrun-wrong-error-code", "expected FLOW_CONTROL_ERROR, got code %v (%q)", code, reason)
			case !wantErr && closed:
				c.Violation("legal-data-rejected", "peer stayed within limits (stream window %d, conn window %d, script %+v) but got CONNECTION_CLOSE %v %q", ws, wc, script, code, reason)
			}
			if wantErr {
				r.Event("overruns_rejected_with_flow_control_error", 1)
			} else {
				r.Event("within_limit_scripts_accepted", 1)
			}
		})
		r.Eval(true, "scripted", ws, wc, mode, len(script), side)
	})
	// (b') credit the endpoint has regained but not yet advertised does not count: the peer fills
	// the connection window exactly, then sends ONE packet with something that releases credit on
	// the spot (RESET_STREAM of a stream with unread data) followed by STREAM data beyond the
	// largest MAX_DATA it has ever been sent.
	r.Cases("scripted-overrun-before-max-data", r.N(300, 3000), func(c *verifrt.Case) {
		rng := c.Rng
		side := []connSide{serverSide, clientSide}[rng.IntN(2)]
		styp := []streamType{bidiStream, uniStream}[rng.IntN(2)]
		ws := []int64{500, 1000, 4000}[rng.IntN(3)]
		a := 1 + rng.Int64N(ws) // stream A: a bytes, unread
		b := rng.Int64N(ws - 1) // stream B: b bytes (room left in its stream window)
		wc := a + b             // connection window: exactly what the two streams carry
		over := 1 + rng.Int64N(min(ws-b, 3))
		within := rng.IntN(4) == 0 // control: the second frame stays inside MAX_DATA (zero-length)
		c.Describe(map[string]any{"side": fmt.Sprint(side), "stream_window": ws, "conn_window": wc, "stream_a": a, "stream_b": b, "excess": over, "control_within": within})
		synctest.Test(t, func(t *testing.T) {
			tc := vlpScripted(t, side, func(cfg *Config) {
				cfg.MaxStreamReadBufferSize = ws
				cfg.MaxConnReadBufferSize = wc
			})
			idA, idB := newStreamID(side.peer(), styp, 0), newStreamID(side.peer(), styp, 1)
			send := func(id streamID, off, n int64) {
				for n > 0 {
					l := min(n, 1000)
					tc.writeFrames(packetType1RTT, debugFrameStream{id: id, off: off, data: make([]byte, l)})
					off, n = off+l, n-l
				}
			}
			send(idA, 0, a)
			if b > 0 {
				send(idB, 0, b)
			} else {
				tc.writeFrames(packetType1RTT, debugFrameStream{id: idB, off: 0, data: []byte{}})
			}
			pre := vlpDrain(tc)
			if code, reason, closed := vlpCloseCode(pre); closed {
				c.Violation("legal-data-rejected", "peer filled the connection window exactly (%d + %d = MAX_DATA %d) and got CONNECTION_CLOSE %v %q", a, b, wc, code, reason)
				return
			}
			maxData := wc
			for _, f := range pre {
				if md, ok := f.(debugFrameMaxData); ok && md.max > maxData {
					maxData = md.max
				}
			}
			if maxData != wc {
				r.Event("overrun_before_max_data_skipped_limit_already_raised", 1)
				return
			}
			n := over
			if within {
				n = 0
			}
			tc.writeFrames(packetType1RTT, debugFrameResetStream{id: idA, code: 3, finalSize: a}, debugFrameStream{id: idB, off: b, data: make([]byte, n)})
			frames := vlpDrain(tc)
			code, reason, closed := vlpCloseCode(frames)
			switch {
			case within && closed:
				c.Violation("legal-data-rejected", "RESET_STREAM + an empty STREAM frame inside MAX_DATA %d got CONNECTION_CLOSE %v %q", wc, code, reason)
			case within:
				r.Event("within_limit_scripts_accepted", 1)
			case !closed:
				c.Violation("overrun-not-rejected:before-max-data-was-sent", "the largest MAX_DATA the endpoint had sent was %d and the peer had used all of it; one packet then carried RESET_STREAM(stream %d, final size %d) and STREAM [%d,%d) on stream %d: %d bytes beyond the advertised MAX_DATA, and no CONNECTION_CLOSE followed; frames sent instead: %v", wc, idA, a, b, b+n, idB, n, frames)
			case code != errFlowControl:
				c.Violation("overrun-wrong-error-code", "expected FLOW_CONTROL_ERROR, got code %v (%q)", code, reason)
			default:
				r.Event("overruns_rejected_before_max_data_was_sent", 1)
			}
		})
		r.Eval(true, "premaxdata", side, styp, ws, a, b, over, within)
	})
	// (b'') the final size a RESET_STREAM states counts against MAX_DATA like data does, also when
	// the application has stopped reading the stream before (or right after) the reset arrives
	r.Cases("scripted-reset-final-size-vs-max-data", r.N(300, 3000), func(c *verifrt.Case) {
		rng := c.Rng
		side := []connSide{serverSide, clientSide}[rng.IntN(2)]
		styp := []streamType{bidiStream, uniStream}[rng.IntN(2)]
		ws := int64(5000)
		wc := []int64{50, 100, 1000}[rng.IntN(3)]
		got := rng.Int64N(min(wc, 40) + 1) // bytes of the stream that arrive before the reset
		order := rng.IntN(3)               // 0: CloseRead then RESET_STREAM; 1: RESET_STREAM only; 2: RESET_STREAM then CloseRead
		over := rng.IntN(3) != 0
		c.Describe(map[string]any{"side": fmt.Sprint(side), "stream_window": ws, "conn_window": wc, "received_before_reset": got, "order": order, "beyond_max_data": over})
		synctest.Test(t, func(t *testing.T) {
			tc := vlpScripted(t, side, func(cfg *Config) {
				cfg.MaxStreamReadBufferSize = ws
				cfg.MaxConnReadBufferSize = wc
			})
			id := newStreamID(side.peer(), styp, 0)
			tc.writeFrames(packetType1RTT, debugFrameStream{id: id, off: 0, data: make([]byte, got)})
			st, err := tc.conn.AcceptStream(canceledContext())
			if err != nil {
				c.Violation("scripted-accept-error", "AcceptStream: %v", err)
				return
			}
			if order == 0 {
				st.CloseRead()
				synctest.Wait()
			}
			maxData := wc
			seeMax := func(fs []debugFrame) {
				for _, f := range fs {
					if md, ok := f.(debugFrameMaxData); ok && md.max > maxData {
						maxData = md.max
					}
				}
			}
			seeMax(vlpDrain(tc))
			final := maxData + 1 + rng.Int64N(ws-maxData-1)
			if !over {
				final = got + rng.Int64N(maxData-got+1)
			}
			tc.writeFrames(packetType1RTT, debugFrameResetStream{id: id, code: 5, finalSize: final})
			if order == 2 {
				st.CloseRead()
				synctest.Wait()
			}
			frames := vlpDrain(tc)
			code, reason, closed := vlpCloseCode(frames)
			switch {
			case over && !closed:
				c.Violation("overrun-not-rejected:reset-final-size", "the largest MAX_DATA sent was %d; the peer had sent %d bytes on stream %d and its RESET_STREAM states final size %d (stream window %d): %d bytes beyond MAX_DATA, and no CONNECTION_CLOSE followed (order %d: 0 = the application had stopped reading before)", maxData, got, id, final, ws, final-maxData, order)
			case over && code != errFlowControl:
				c.Violation("overrun-wrong-error-code", "expected FLOW_CONTROL_ERROR, got code %v (%q)", code, reason)
			case !over && closed:
				c.Violation("legal-data-rejected", "RESET_STREAM with final size %d within MAX_DATA %d got CONNECTION_CLOSE %v %q", final, maxData, code, reason)
			case over:
				r.Event("reset_final_sizes_beyond_max_data_rejected", 1)
			default:
				r.Event("within_limit_scripts_accepted", 1)
			}
		})
		r.Eval(true, "resetfinal", side, styp, wc, got, order, over)
	})
	// (b3) the limit the endpoint enforces is the limit it has put on the wire, also while it is
	// congestion-limited: a local stream X has filled the congestion window (the peer
	// acknowledges nothing), so a MAX_STREAM_DATA update that falls due when the application
	// reads a peer stream may find no room in the one packet that can still be sent - X, with a
	// STREAM_DATA_BLOCKED or FIN to send and more than a packet of data, precedes it in the send
	// queue. The peer tracks the largest limit it has actually been sent for each of its streams
	// and then either fills it exactly (must be accepted) or goes 1-3 bytes beyond it
	// (FLOW_CONTROL_ERROR).
	r.Cases("scripted-overrun-while-congestion-limited", r.N(400, 4000), func(c *verifrt.Case) {
		rng := c.Rng
		side := []connSide{serverSide, clientSide}[rng.IntN(2)]
		ytyp := []streamType{bidiStream, uniStream}[rng.IntN(2)]
		xtyp := []streamType{bidiStream, uniStream}[rng.IntN(2)]
		rw := []int64{64, 100, 500, 1000}[rng.IntN(4)]
		nY := 1 + rng.IntN(3)
		room := []int{1, 1, 1, 0, 2}[rng.IntN(5)]                   // packets of congestion window left when the updates fall due
		xMeta := []string{"blocked", "blocked", "fin"}[rng.IntN(3)] // why X is among the streams with control frames to send
		slack := []int64{0, 500, 1150, 1300, 3000}[rng.IntN(5)]     // window the peer leaves X for the last write
		extra := []int64{1, 100, 1300}[rng.IntN(3)]                 // what that write has beyond the window
		oneStep := rng.IntN(4) != 0                                 // write and reads between two iterations of the conn's loop
		readFirst := rng.IntN(4) == 0
		over := rng.IntN(4) != 0
		c.Describe(map[string]any{"side": fmt.Sprint(side), "peer_stream_type": fmt.Sprint(ytyp), "local_stream_type": fmt.Sprint(xtyp), "read_window": rw, "peer_streams": nY,
			"cwnd_packets_left": room, "x_has": xMeta, "x_window_left": slack, "x_beyond_window": extra, "one_loop_step": oneStep, "read_before_write": readFirst, "beyond_limit": over})
		synctest.Test(t, func(t *testing.T) {
			tc := vlpScripted(t, side, func(cfg *Config) {
				cfg.MaxStreamReadBufferSize = rw
				cfg.MaxConnReadBufferSize = 1 << 20
			}, func(p *transportParameters) {
				p.initialMaxStreamsUni = 10
				p.initialMaxStreamsBidi = 10
				p.initialMaxData = 1 << 21
				p.initialMaxStreamDataUni = 1000
				p.initialMaxStreamDataBidiRemote = 1000
				p.initialMaxStreamDataBidiLocal = 1000
			})
			type ys struct {
				id  streamID
				s   *Stream
				adv int64
			}
			var yy []*ys
			for i := 0; i < nY; i++ {
				y := &ys{id: newStreamID(side.peer(), ytyp, int64(i)), adv: rw}
				tc.writeFrames(packetType1RTT, debugFrameStream{id: y.id, off: 0, data: make([]byte, rw)})
				st, err := tc.conn.AcceptStream(canceledContext())
				if err != nil {
					c.Violation("scripted-accept-error", "AcceptStream: %v", err)
					return
				}
				st.SetReadContext(canceledContext())
				st.SetWriteContext(canceledContext())
				y.s = st
				yy = append(yy, y)
			}
			closedAs := func(fs []debugFrame) (transportError, string, bool) {
				for _, f := range fs {
					if m, ok := f.(debugFrameMaxStreamData); ok {
						for _, y := range yy {
							if y.id == m.id && m.max > y.adv {
								y.adv = m.max
							}
						}
					}
				}
				return vlpCloseCode(fs)
			}
			if code, reason, closed := closedAs(vlpDrain(tc)); closed {
				c.Violation("legal-data-rejected", "peer filled the windows of %d new streams exactly (%d bytes each) and got CONNECTION_CLOSE %v %q", nY, rw, code, reason)
				return
			}
			x, err := tc.conn.newLocalStream(canceledContext(), xtyp)
			if err != nil {
				c.Violation("scripted-newstream-error", "newLocalStream: %v", err)
				return
			}
			x.SetReadContext(canceledContext())
			x.SetWriteContext(canceledContext())
			// fill the congestion window to the chosen distance (white-box: the controller's numbers)
			cc := func() (inFlight, cwnd, dgram int) {
				tc.conn.runOnLoop(context.Background(), func(now time.Time, c *Conn) {
					inFlight, cwnd, dgram = c.loss.cc.bytesInFlight, c.loss.cc.congestionWindow, c.loss.cc.maxDatagramSize
				})
				return
			}
			var sentX int64
			for i := 0; i < 40; i++ {
				inFlight, cwnd, dgram := cc()
				if inFlight+(room+1)*dgram > cwnd {
					break
				}
				if i > 0 {
					tc.writeFrames(packetType1RTT, debugFrameMaxStreamData{id: x.id, max: sentX + 1000})
				}
				n, _ := x.Write(make([]byte, 1000))
				sentX += int64(n)
				x.Flush()
				closedAs(vlpDrain(tc))
			}
			inFlight, cwnd, dgram := cc()
			if !(inFlight+room*dgram <= cwnd && inFlight+(room+1)*dgram > cwnd) {
				r.Event("congestion_limited_setup_missed", 1)
				return
			}
			last := slack + extra
			if xMeta == "fin" {
				tc.writeFrames(packetType1RTT, debugFrameMaxStreamData{id: x.id, max: sentX + 1<<20})
				last = 1200 + slack
			} else if slack > 0 {
				tc.writeFrames(packetType1RTT, debugFrameMaxStreamData{id: x.id, max: sentX + slack})
			}
			closedAs(vlpDrain(tc))
			step := func() {
				wr := func() {
					x.Write(make([]byte, last))
					if xMeta == "fin" {
						x.CloseWrite()
					} else {
						x.Flush()
					}
				}
				rd := func() {
					for _, y := range yy {
						if rng.IntN(4) != 0 {
							n := rw
							if rng.IntN(4) == 0 {
								n = 1 + rng.Int64N(rw)
							}
							y.s.Read(make([]byte, n))
						}
					}
				}
				if readFirst {
					rd()
					wr()
				} else {
					wr()
					rd()
				}
			}
			if oneStep {
				tc.conn.runOnLoop(context.Background(), func(now time.Time, c *Conn) { step() })
			} else {
				step()
			}
			if code, reason, closed := closedAs(vlpDrain(tc)); closed {
				c.Violation("legal-data-rejected", "nothing but reads and writes of the application happened and the connection was closed: %v %q", code, reason)
				return
			}
			y := yy[rng.IntN(len(yy))]
			n := y.adv - rw
			if over {
				n += 1 + rng.Int64N(3)
			}
			tc.writeFrames(packetType1RTT, debugFrameStream{id: y.id, off: rw, data: make([]byte, n)})
			frames := vlpDrain(tc)
			code, reason, closed := closedAs(frames)
			switch {
			case !over && closed:
				c.Violation("legal-data-rejected", "STREAM [%d,%d) on stream %d stays inside the largest MAX_STREAM_DATA sent for it (%d) and got CONNECTION_CLOSE %v %q", rw, rw+n, y.id, y.adv, code, reason)
			case !over:
				r.Event("within_limit_scripts_accepted", 1)
			case !closed:
				c.Violation("overrun-not-rejected:limit-never-put-on-the-wire", "the largest stream data limit the endpoint has sent for stream %d is %d (initial %d); the peer sent STREAM [%d,%d), %d bytes beyond it, and no CONNECTION_CLOSE followed; the endpoint was congestion-limited (%d of %d bytes in flight, datagram size %d) when the application read the stream; frames sent instead: %v", y.id, y.adv, rw, rw, rw+n, rw+n-y.adv, inFlight, cwnd, dgram, frames)
			case code != errFlowControl:
				c.Violation("overrun-wrong-error-code", "expected FLOW_CONTROL_ERROR, got code %v (%q)", code, reason)
			default:
				r.Event("overruns_rejected_while_congestion_limited", 1)
				if y.adv == rw {
					r.Event("overruns_rejected_while_no_limit_update_had_been_sent", 1)
				}
			}
		})
		r.Eval(true, "congested", side, ytyp, xtyp, rw, nY, room, xMeta, slack, extra, oneStep, readFirst, over)
	})
	// (c) deterministic script: asymmetric peer transport parameters, late and stale limit
	// raises, loss and PTO (zz_verif_util_scriptedlimits_test.go)
	nsl := r.N(1500, 40000)
	r.CasesParallel("scripted-limits", nsl, 0, func(c *verifrt.Case) {
		res := vslRun(t, c.Rng, false, c.Violation, c.Describe)
		r.Event("scripted_limit_runs", 1)
		r.Event("scripted_stream_frames_checked", res.Frames)
		r.Event("scripted_frames_ending_exactly_at_stream_limit", res.AtStreamLimit)
		r.Event("scripted_frames_filling_connection_limit", res.AtConnLimit)
		r.Event("scripted_limit_raises", res.Raises)
		r.Event("scripted_stale_limit_frames", res.StaleRaises)
		r.Event("scripted_packets_lost", res.Lost)
		r.Event("scripted_timer_rounds", res.PTOs)
		r.Eval(res.AtStreamLimit+res.AtConnLimit > 0, "vsl", res.Frames, res.Streams, res.AtStreamLimit, res.AtConnLimit, res.Raises, res.Lost)
	})
	r.Require("scripted_stream_frames_checked", 5000)
	r.Require("scripted_frames_ending_exactly_at_stream_limit", 300)
	r.Require("scripted_frames_filling_connection_limit", 300)
	r.Require("stream_frames_checked", 1000)
	r.Require("stream_frames_ending_exactly_at_a_limit", 20)
	r.Require("max_updates_processed", 100)
	r.Require("overruns_rejected_with_flow_control_error", 50)
	r.Require("overruns_rejected_before_max_data_was_sent", 100)
	r.Require("reset_final_sizes_beyond_max_data_rejected", 100)
	r.Require("within_limit_scripts_accepted", 50)
	r.Require("overruns_rejected_while_congestion_limited", 50)
	r.Require("overruns_rejected_while_no_limit_update_had_been_sent", 10)
}
