//go:build verif

package quic

// lossyPair: two real Endpoints joined by a fault-injecting in-memory network, with a
// qlog tap on both sides. Shared by the network-level QUIC monitors (C19, C20, C21, C25,
// C27, C32). Every top-level identifier here is prefixed vlp.
//
// Everything runs inside a testing/synctest bubble: time is virtual, so PTO and loss timers
// fire in microseconds of wall time, and "nothing more can happen" (quiescence) is
// observable.

import (
	"context"
	"crypto/tls"
	"fmt"
	"log/slog"
	"net/netip"
	"sync"
	"sync/atomic"
	"testing/synctest"
	"time"

	"golang.org/x/net/internal/verifrt"
)

// ---- fault-injecting network ----

type vlpFaults struct {
	Loss         float64 // P(drop)
	Dup          float64 // P(duplicate)
	Reorder      float64 // P(extra hold-back so later datagrams overtake)
	ReorderMaxMs int
	BaseDelayMs  int
	JitterMs     int
	MaxConsec    int // cap on consecutive drops per direction (the "eventually lets traffic through" premise)
}

const (
	vlpC2S = 0
	vlpS2C = 1
)

type vlpDgramRec struct {
	Dir       int
	Seq       uint64
	Size      int
	Fate      string // "deliver", "drop", "dup", "reorder", "filter-drop"
	Delivered bool
	First     byte
	From, To  netip.AddrPort // sender's local address and the destination it wrote to (added for C27; To may be unrouted)
}

type vlpNet struct {
	seed   uint64
	mu     sync.Mutex
	faults vlpFaults
	clean  atomic.Bool // true: deliver everything in order after BaseDelay
	eps    map[netip.AddrPort]*vlpPC
	seq    [2]uint64
	consec [2]int
	// Filter, if set, is consulted first (under mu): returning false drops the datagram.
	Filter func(dir int, seq uint64, b []byte) bool
	// OnSend is called (under mu) for every datagram an endpoint writes, with its fate.
	OnSend func(rec vlpDgramRec, b []byte)
	// OnDeliver is called (under mu) when a datagram is handed to the receiving endpoint.
	OnDeliver func(dir int, b []byte)
	// OnDeliverRec, if set, is called like OnDeliver (under mu, once per delivered copy) with
	// the datagram's send record, which carries the addresses.
	OnDeliverRec func(rec vlpDgramRec, b []byte)

	stop    chan struct{} // closed by vlpClose: pending deliveries are abandoned
	stopMu  sync.Once
	stopped bool       // set under mu by vlpStop: datagrams written afterwards are discarded, so that wg.Add never runs concurrently with wg.Wait
	wg      verifrt.WG // delivery goroutines

	Sent, Dropped, Duped, Reordered [2]int64
	Bytes, DeliveredBytes           [2]int64
}

type vlpItem struct {
	b    []byte
	from netip.AddrPort
}

type vlpPC struct {
	n      *vlpNet
	addr   netip.AddrPort
	dir    int // direction of datagrams written by this endpoint
	in     chan vlpItem
	done   chan struct{}
	closed sync.Once
}

var (
	vlpServerAddr = netip.MustParseAddrPort("10.0.0.1:443")
	vlpClientAddr = netip.MustParseAddrPort("10.0.0.2:5000")
)

func vlpNewNet(seed uint64, f vlpFaults) *vlpNet {
	return &vlpNet{seed: seed, faults: f, eps: map[netip.AddrPort]*vlpPC{}, stop: make(chan struct{})}
}

func (n *vlpNet) newPC(addr netip.AddrPort, dir int) *vlpPC {
	pc := &vlpPC{n: n, addr: addr, dir: dir, in: make(chan vlpItem, 4096), done: make(chan struct{})}
	n.mu.Lock()
	n.eps[addr] = pc
	n.mu.Unlock()
	return pc
}

func (pc *vlpPC) Close() error {
	pc.closed.Do(func() { close(pc.done) })
	return nil
}
func (pc *vlpPC) LocalAddr() netip.AddrPort { return pc.addr }
func (pc *vlpPC) Read(f func(*datagram)) {
	for {
		select {
		case it := <-pc.in:
			m := newDatagram()
			m.b = m.b[:copy(m.b, it.b)]
			m.peerAddr = it.from
			m.localAddr = pc.addr
			f(m)
		case <-pc.done:
			return
		}
	}
}

func vlpMix(a, b, c uint64) uint64 {
	x := a*0x9e3779b97f4a7c15 ^ b*0xbf58476d1ce4e5b9 ^ c*0x94d049bb133111eb
	x ^= x >> 30
	x *= 0xbf58476d1ce4e5b9
	x ^= x >> 27
	x *= 0x94d049bb133111eb
	x ^= x >> 31
	return x
}

func vlpU(h uint64) float64 { return float64(h>>11) / float64(1<<53) }

func (pc *vlpPC) Write(d datagram) error {
	n := pc.n
	b := append([]byte(nil), d.b...)
	n.mu.Lock()
	dst := n.eps[d.peerAddr]
	dir := pc.dir
	seq := n.seq[dir]
	n.seq[dir]++
	n.Sent[dir]++
	n.Bytes[dir] += int64(len(b))
	rec := vlpDgramRec{Dir: dir, Seq: seq, Size: len(b), Fate: "deliver", Delivered: true, From: pc.addr, To: d.peerAddr}
	if len(b) > 0 {
		rec.First = b[0]
	}
	h := vlpMix(n.seed, uint64(dir)+1, seq)
	delay := time.Duration(n.faults.BaseDelayMs) * time.Millisecond
	copies := 1
	if dst == nil {
		rec.Fate, rec.Delivered = "no-route", false
		copies = 0
	} else if n.Filter != nil && !n.Filter(dir, seq, b) {
		rec.Fate, rec.Delivered = "filter-drop", false
		copies = 0
	} else if !n.clean.Load() {
		f := n.faults
		if f.JitterMs > 0 {
			delay += time.Duration(vlpU(vlpMix(h, 1, 0))*float64(f.JitterMs)*1000) * time.Microsecond
		}
		switch u := vlpU(vlpMix(h, 2, 0)); {
		case u < f.Loss && n.consec[dir] < f.MaxConsec:
			rec.Fate, rec.Delivered = "drop", false
			copies = 0
			n.consec[dir]++
			n.Dropped[dir]++
		case u < f.Loss+f.Dup:
			rec.Fate = "dup"
			copies = 2
			n.Duped[dir]++
			n.consec[dir] = 0
		case u < f.Loss+f.Dup+f.Reorder:
			rec.Fate = "reorder"
			delay += time.Duration(1+vlpU(vlpMix(h, 3, 0))*float64(f.ReorderMaxMs)) * time.Millisecond
			n.Reordered[dir]++
			n.consec[dir] = 0
		default:
			n.consec[dir] = 0
		}
	}
	if n.OnSend != nil {
		n.OnSend(rec, b)
	}
	if n.stopped {
		copies = 0 // torn down (vlpStop): e.g. the CONNECTION_CLOSE a conn loop still writes after Abort
	}
	if copies > 0 {
		// under mu, ordered before vlpStop's wg.Wait. Never Add(0): inside a bubble even a
		// zero Add re-marks the WaitGroup as bubble-associated, and one issued after the
		// counter reached zero makes a Wait that is just returning panic ("WaitGroup is
		// reused before previous Wait has returned").
		n.wg.Add(copies)
	}
	n.mu.Unlock()
	for i := 0; i < copies; i++ {
		dl := delay
		if i > 0 {
			dl += time.Duration(1+vlpU(vlpMix(h, 4, uint64(i)))*40) * time.Millisecond
		}
		go func(dl time.Duration) {
			defer n.wg.Done()
			if dl > 0 {
				// time stops in a bubble once its root goroutine returns, so a pending
				// delivery must be abandonable
				tm := time.NewTimer(dl)
				select {
				case <-tm.C:
				case <-n.stop:
					tm.Stop()
					return
				}
			}
			n.mu.Lock()
			n.DeliveredBytes[dir] += int64(len(b))
			if n.OnDeliver != nil {
				n.OnDeliver(dir, b)
			}
			if n.OnDeliverRec != nil {
				n.OnDeliverRec(rec, b)
			}
			n.mu.Unlock()
			select {
			case dst.in <- vlpItem{b: b, from: pc.addr}:
			case <-dst.done:
			case <-n.stop:
			}
		}(dl)
	}
	return nil
}

// ---- qlog tap ----

// vlpFrame is a neutral copy of one frame of a logged packet.
type vlpFrame struct {
	Kind       string // stream, ack, reset_stream, stop_sending, max_data, max_stream_data, max_streams, crypto, ping, padding, connection_close, data_blocked, stream_data_blocked, streams_blocked, new_connection_id, retire_connection_id, handshake_done, new_token, path_challenge, path_response, other
	ID         int64
	Off        int64
	Len        int64
	Fin        bool
	Max        int64
	Code       uint64
	FinalSize  int64
	StreamType streamType
	Ranges     [][2]int64 // ack: [start,end) low to high
	Data       []byte     // stream: valid only during the observer callback
	Reason     string
}

type vlpEvent struct {
	Conn   int    // distinguishes connections of one side (a duplicated Initial can create a second, short-lived server Conn)
	Side   string // "client" / "server" (whose log this is)
	Sent   bool
	PType  string // initial, handshake, 1RTT, 0RTT
	Space  numberSpace
	Num    int64
	Len    int
	Frames []vlpFrame
}

type vlpTap struct {
	mu        sync.Mutex
	observers []func(ev *vlpEvent)
	Count     map[string]int64 // "client/sent/stream" etc.
	Packets   [2][2]int64      // [side][sent?]
	LoggedLen [2][2]int64
	Closes    []string // connection_close frames seen (side/dir/code/reason)
}

func vlpNewTap() *vlpTap { return &vlpTap{Count: map[string]int64{}} }

// Observe registers a callback invoked synchronously (on the logging connection's loop
// goroutine, serialised by the tap mutex) for every packet event.
func (t *vlpTap) Observe(f func(ev *vlpEvent)) { t.observers = append(t.observers, f) }

type vlpHandler struct {
	tap  *vlpTap
	side string
	conn int
}

var vlpConnSeq atomic.Int64

func (h *vlpHandler) Enabled(context.Context, slog.Level) bool { return true }
func (h *vlpHandler) WithGroup(string) slog.Handler            { return h }
func (h *vlpHandler) WithAttrs(attrs []slog.Attr) slog.Handler {
	nh := &vlpHandler{tap: h.tap, side: h.side, conn: int(vlpConnSeq.Add(1))}
	for _, a := range attrs {
		if a.Key == "vantage_point" && a.Value.Kind() == slog.KindGroup {
			for _, g := range a.Value.Group() {
				if g.Key == "type" {
					nh.side = g.Value.String()
				}
			}
		}
	}
	return nh
}

func vlpSpaceOf(ptype string) numberSpace {
	switch ptype {
	case "initial":
		return initialSpace
	case "handshake":
		return handshakeSpace
	}
	return appDataSpace
}

func (h *vlpHandler) Handle(_ context.Context, rec slog.Record) error {
	var sent bool
	switch rec.Message {
	case "transport:packet_sent":
		sent = true
	case "transport:packet_received":
	default:
		return nil
	}
	ev := &vlpEvent{Side: h.side, Sent: sent, Conn: h.conn}
	rec.Attrs(func(a slog.Attr) bool {
		switch a.Key {
		case "header":
			for _, g := range a.Value.Group() {
				switch g.Key {
				case "packet_type":
					ev.PType = g.Value.String()
				case "packet_number":
					ev.Num = int64(g.Value.Uint64())
				}
			}
		case "raw":
			for _, g := range a.Value.Group() {
				if g.Key == "length" {
					ev.Len = int(g.Value.Int64())
				}
			}
		case "frames":
			vals, _ := a.Value.Any().([]slog.Value)
			for _, v := range vals {
				ev.Frames = append(ev.Frames, vlpConvFrame(v.Any()))
			}
		}
		return true
	})
	ev.Space = vlpSpaceOf(ev.PType)
	t := h.tap
	t.mu.Lock()
	defer t.mu.Unlock()
	si, di := 0, 0
	if h.side == "server" {
		si = 1
	}
	dir := "recv"
	if sent {
		di = 1
		dir = "sent"
	}
	t.Packets[si][di]++
	t.LoggedLen[si][di] += int64(ev.Len)
	for i := range ev.Frames {
		t.Count[h.side+"/"+dir+"/"+ev.Frames[i].Kind]++
		if ev.Frames[i].Kind == "connection_close" {
			t.Closes = append(t.Closes, fmt.Sprintf("%s/%s code=%#x %s", h.side, dir, ev.Frames[i].Code, ev.Frames[i].Reason))
		}
	}
	for _, o := range t.observers {
		o(ev)
	}
	return nil
}

func vlpConvFrame(v any) vlpFrame {
	switch f := v.(type) {
	case debugFrameStream:
		return vlpFrame{Kind: "stream", ID: int64(f.id), Off: f.off, Len: int64(len(f.data)), Fin: f.fin, Data: f.data}
	case debugFrameScaledAck:
		fr := vlpFrame{Kind: "ack"}
		for _, r := range f.ranges {
			fr.Ranges = append(fr.Ranges, [2]int64{int64(r.start), int64(r.end)})
		}
		return fr
	case debugFrameAck:
		fr := vlpFrame{Kind: "ack"}
		for _, r := range f.ranges {
			fr.Ranges = append(fr.Ranges, [2]int64{int64(r.start), int64(r.end)})
		}
		return fr
	case debugFrameResetStream:
		return vlpFrame{Kind: "reset_stream", ID: int64(f.id), Code: f.code, FinalSize: f.finalSize}
	case debugFrameStopSending:
		return vlpFrame{Kind: "stop_sending", ID: int64(f.id), Code: f.code}
	case debugFrameMaxData:
		return vlpFrame{Kind: "max_data", Max: f.max}
	case debugFrameMaxStreamData:
		return vlpFrame{Kind: "max_stream_data", ID: int64(f.id), Max: f.max}
	case debugFrameMaxStreams:
		return vlpFrame{Kind: "max_streams", StreamType: f.streamType, Max: f.max}
	case debugFrameCrypto:
		return vlpFrame{Kind: "crypto", Off: f.off, Len: int64(len(f.data)), Data: f.data} // Data: as for stream, valid only during the callback
	case debugFramePing:
		return vlpFrame{Kind: "ping"}
	case debugFramePadding:
		return vlpFrame{Kind: "padding", Len: int64(f.size)}
	case debugFrameConnectionCloseTransport:
		return vlpFrame{Kind: "connection_close", Code: uint64(f.code), Reason: f.reason}
	case debugFrameConnectionCloseApplication:
		return vlpFrame{Kind: "connection_close_app", Code: f.code, Reason: f.reason}
	case debugFrameDataBlocked:
		return vlpFrame{Kind: "data_blocked", Max: f.max}
	case debugFrameStreamDataBlocked:
		return vlpFrame{Kind: "stream_data_blocked", ID: int64(f.id), Max: f.max}
	case debugFrameStreamsBlocked:
		return vlpFrame{Kind: "streams_blocked", StreamType: f.streamType, Max: f.max}
	case debugFrameNewConnectionID:
		return vlpFrame{Kind: "new_connection_id"}
	case debugFrameRetireConnectionID:
		return vlpFrame{Kind: "retire_connection_id"}
	case debugFrameHandshakeDone:
		return vlpFrame{Kind: "handshake_done"}
	case debugFrameNewToken:
		return vlpFrame{Kind: "new_token"}
	case debugFramePathChallenge:
		return vlpFrame{Kind: "path_challenge"}
	case debugFramePathResponse:
		return vlpFrame{Kind: "path_response"}
	}
	return vlpFrame{Kind: "other"}
}

// ---- pair ----

type vlpPair struct {
	Net      *vlpNet
	Tap      *vlpTap
	CliEP    *Endpoint
	SrvEP    *Endpoint
	Cli, Srv *Conn
	CliConf  *Config
	SrvConf  *Config
}

func vlpTLS(side connSide) *tls.Config { return newTestTLSConfig(side) }

// vlpNewEndpoints creates the network, the tap and both endpoints (no connection yet).
// Must be called inside a synctest bubble.
func vlpNewEndpoints(seed uint64, faults vlpFaults, cliConf, srvConf *Config) (*vlpPair, error) {
	p := &vlpPair{Net: vlpNewNet(seed, faults), Tap: vlpNewTap()}
	cc, sc := *cliConf, *srvConf
	if cc.TLSConfig == nil {
		cc.TLSConfig = vlpTLS(clientSide)
	}
	if sc.TLSConfig == nil {
		sc.TLSConfig = vlpTLS(serverSide)
	}
	cc.QLogLogger = slog.New(&vlpHandler{tap: p.Tap, side: "client"})
	sc.QLogLogger = slog.New(&vlpHandler{tap: p.Tap, side: "server"})
	p.CliConf, p.SrvConf = &cc, &sc
	var err error
	p.SrvEP, err = newEndpoint(p.Net.newPC(vlpServerAddr, vlpS2C), &sc, nil)
	if err != nil {
		return nil, err
	}
	p.CliEP, err = newEndpoint(p.Net.newPC(vlpClientAddr, vlpC2S), &cc, nil)
	if err != nil {
		p.SrvEP.Close(vlpCanceled())
		return nil, err
	}
	return p, nil
}

func vlpCanceled() context.Context {
	ctx, cancel := context.WithCancel(context.Background())
	cancel()
	return ctx
}

// vlpConnect dials and accepts. ctx bounds the handshake in virtual time.
func (p *vlpPair) vlpConnect(ctx context.Context) error {
	type res struct {
		c   *Conn
		err error
	}
	ac := make(chan res, 1)
	go func() {
		c, err := p.SrvEP.Accept(ctx)
		ac <- res{c, err}
	}()
	c, err := p.CliEP.Dial(ctx, "udp", vlpServerAddr.String(), p.CliConf)
	if err != nil {
		<-ac
		return fmt.Errorf("dial: %w", err)
	}
	p.Cli = c
	r := <-ac
	if r.err != nil {
		return fmt.Errorf("accept: %w", r.err)
	}
	p.Srv = r.c
	return nil
}

// vlpStop abandons pending deliveries and waits for the delivery goroutines. Datagrams
// written after it are discarded (they could not be delivered any more anyway).
func (n *vlpNet) vlpStop() {
	n.mu.Lock()
	n.stopped = true
	n.mu.Unlock()
	n.stopMu.Do(func() { close(n.stop) })
	n.wg.Wait()
}

// vlpClose tears everything down so that the bubble can end.
func (p *vlpPair) vlpClose() {
	if p.Cli != nil {
		p.Cli.Abort(nil)
	}
	if p.Srv != nil {
		p.Srv.Abort(nil)
	}
	p.CliEP.Close(vlpCanceled())
	p.SrvEP.Close(vlpCanceled())
	p.Net.vlpStop()
	// the connection loops and endpoint listen loops exit on their own now (no timer needed)
	synctest.Wait()
}

// vlpPattern is the deterministic content of stream data: byte i of lane `lane`.
func vlpPattern(lane uint32, off int64) byte {
	x := uint32(off)*2654435761 + lane*40503
	return byte(x>>24) ^ byte(x>>13) ^ byte(off>>16)
}

func vlpFill(b []byte, lane uint32, off int64) {
	for i := range b {
		b[i] = vlpPattern(lane, off+int64(i))
	}
}

// vlpCountPackets walks the unprotected parts of the QUIC packet headers in one datagram
// (RFC 9000 §17: long header = form bit, version, DCID, SCID, [token], Length) and returns
// the number of packets in it; ok is false if the datagram does not parse. Trailing zero
// bytes (datagram padding) are not a packet. types lists (first byte >> 4) & 0xb per packet:
// 0x8 initial, 0x9 0-RTT, 0xa handshake, 0xb retry, 0x0 short header; 0xff version negotiation.
func vlpCountPackets(b []byte) (n int, types []byte) {
	rdVar := func(b []byte) (uint64, int) {
		if len(b) == 0 {
			return 0, -1
		}
		l := 1 << (b[0] >> 6)
		if len(b) < l {
			return 0, -1
		}
		v := uint64(b[0] & 0x3f)
		for i := 1; i < l; i++ {
			v = v<<8 | uint64(b[i])
		}
		return v, l
	}
	for len(b) > 0 {
		if b[0] == 0 {
			return n, types // padding to the end
		}
		if b[0]&0x80 == 0 {
			return n + 1, append(types, 0)
		}
		if len(b) < 7 {
			return n, types
		}
		if b[1]|b[2]|b[3]|b[4] == 0 {
			return n + 1, append(types, 0xff)
		}
		typ := (b[0] >> 4) & 0xb
		p := 5
		dl := int(b[p])
		p += 1 + dl
		if p >= len(b) {
			return n, types
		}
		sl := int(b[p])
		p += 1 + sl
		if p > len(b) {
			return n, types
		}
		if typ == 0xb { // retry: rest of datagram
			return n + 1, append(types, typ)
		}
		if typ == 0x8 {
			tl, k := rdVar(b[p:])
			if k < 0 {
				return n, types
			}
			p += k + int(tl)
			if p > len(b) {
				return n, types
			}
		}
		ln, k := rdVar(b[p:])
		if k < 0 {
			return n, types
		}
		p += k + int(ln)
		if p > len(b) {
			return n, types
		}
		n++
		types = append(types, typ)
		b = b[p:]
	}
	return n, types
}
