//go:build verif

package quic

// Independent reference decoders for C28, written from RFC 9000 sections 16, 18 and 19.
// They do not call any parser of the package under test.

const c28maxVarint = uint64(1)<<62 - 1

func c28appendVarint(b []byte, v uint64) []byte {
	switch {
	case v < 1<<6:
		return append(b, byte(v))
	case v < 1<<14:
		return append(b, 0x40|byte(v>>8), byte(v))
	case v < 1<<30:
		return append(b, 0x80|byte(v>>24), byte(v>>16), byte(v>>8), byte(v))
	default:
		return append(b, 0xc0|byte(v>>56), byte(v>>48), byte(v>>40), byte(v>>32), byte(v>>24), byte(v>>16), byte(v>>8), byte(v))
	}
}

// c28appendVarintN encodes v in exactly n bytes (n in 1,2,4,8; v must fit).
func c28appendVarintN(b []byte, v uint64, n int) []byte {
	var prefix byte
	switch n {
	case 2:
		prefix = 0x40
	case 4:
		prefix = 0x80
	case 8:
		prefix = 0xc0
	}
	start := len(b)
	for i := n - 1; i >= 0; i-- {
		b = append(b, byte(v>>(8*uint(i))))
	}
	b[start] |= prefix
	return b
}

type c28reader struct {
	b   []byte
	off int
	bad bool // ran out of bytes
}

func (r *c28reader) varint() uint64 {
	if r.bad || r.off >= len(r.b) {
		r.bad = true
		return 0
	}
	n := 1 << (r.b[r.off] >> 6)
	if r.off+n > len(r.b) {
		r.bad = true
		return 0
	}
	v := uint64(r.b[r.off] & 0x3f)
	for i := 1; i < n; i++ {
		v = v<<8 | uint64(r.b[r.off+i])
	}
	r.off += n
	return v
}

func (r *c28reader) bytes(n uint64) []byte {
	if r.bad || uint64(len(r.b)-r.off) < n {
		r.bad = true
		return nil
	}
	out := r.b[r.off : r.off+int(n)]
	r.off += int(n)
	return out
}

func (r *c28reader) byte1() byte {
	x := r.bytes(1)
	if x == nil {
		return 0
	}
	return x[0]
}

const (
	c28ok        = iota
	c28truncated // input ends inside the frame
	c28invalid   // RFC 9000 section 19 says this encoding MUST be treated as an error
	c28unknown   // first byte is not a frame type of RFC 9000 (in one-byte encoding)
)

// c28frame is a decoded frame in RFC field order.
type c28frame struct {
	typ    byte
	ints   []uint64   // integer fields in RFC order, without length fields
	data   []byte     // the one byte-string field, if any
	token  []byte     // NEW_CONNECTION_ID stateless reset token
	ranges [][2]int64 // ACK: [smallest, largest] per range, highest range first
	n      int        // bytes consumed
	why    string     // for c28invalid
}

// c28parseFrame decodes the frame at the start of b.
func c28parseFrame(b []byte) (f c28frame, st int) {
	if len(b) == 0 {
		return f, c28truncated
	}
	r := &c28reader{b: b, off: 1}
	f.typ = b[0]
	inv := func(why string) (c28frame, int) { f.why = why; return f, c28invalid }
	switch t := b[0]; {
	case t == 0x00: // PADDING (a run of them is reported as one)
		n := 0
		for n < len(b) && b[n] == 0 {
			n++
		}
		f.ints = []uint64{uint64(n)}
		r.off = n
	case t == 0x01, t == 0x1e: // PING, HANDSHAKE_DONE
	case t == 0x02, t == 0x03: // ACK
		largest := r.varint()
		delay := r.varint()
		count := r.varint()
		first := r.varint()
		if r.bad {
			return f, c28truncated
		}
		f.ints = []uint64{delay}
		if first > largest {
			return inv("first ACK range larger than largest acknowledged")
		}
		small := int64(largest - first)
		f.ranges = append(f.ranges, [2]int64{small, int64(largest)})
		for i := uint64(0); i < count; i++ {
			gap := r.varint()
			ln := r.varint()
			if r.bad {
				return f, c28truncated
			}
			// largest of this range = previous smallest - gap - 2
			if uint64(small) < gap+2 || gap+2 < gap {
				return inv("ACK range below zero")
			}
			lg := small - int64(gap) - 2
			if ln > uint64(lg) {
				return inv("ACK range below zero")
			}
			small = lg - int64(ln)
			f.ranges = append(f.ranges, [2]int64{small, lg})
		}
		if t == 0x03 {
			f.ints = append(f.ints, r.varint(), r.varint(), r.varint())
		}
	case t == 0x04: // RESET_STREAM
		f.ints = []uint64{r.varint(), r.varint(), r.varint()}
	case t == 0x05: // STOP_SENDING
		f.ints = []uint64{r.varint(), r.varint()}
	case t == 0x06: // CRYPTO
		off := r.varint()
		ln := r.varint()
		f.data = r.bytes(ln)
		f.ints = []uint64{off}
		// offset+length > 2^62-1 may be reported as FRAME_ENCODING_ERROR or later as
		// CRYPTO_BUFFER_EXCEEDED (RFC 9000 19.6), so the frame parser may accept it.
	case t == 0x07: // NEW_TOKEN
		ln := r.varint()
		f.data = r.bytes(ln)
		if !r.bad && ln == 0 {
			return inv("empty NEW_TOKEN token")
		}
	case t >= 0x08 && t <= 0x0f: // STREAM
		id := r.varint()
		var off uint64
		if t&0x04 != 0 {
			off = r.varint()
		}
		if t&0x02 != 0 {
			f.data = r.bytes(r.varint())
		} else if !r.bad {
			f.data = r.bytes(uint64(len(b) - r.off))
		}
		fin := uint64(t & 0x01)
		f.ints = []uint64{id, off, fin}
		if !r.bad && off+uint64(len(f.data)) > c28maxVarint {
			return inv("STREAM offset+length exceeds 2^62-1")
		}
	case t == 0x10, t == 0x14, t == 0x19: // MAX_DATA, DATA_BLOCKED, RETIRE_CONNECTION_ID
		f.ints = []uint64{r.varint()}
	case t == 0x11, t == 0x15: // MAX_STREAM_DATA, STREAM_DATA_BLOCKED
		f.ints = []uint64{r.varint(), r.varint()}
	case t == 0x12, t == 0x13, t == 0x16, t == 0x17: // MAX_STREAMS, STREAMS_BLOCKED
		v := r.varint()
		f.ints = []uint64{v}
		if !r.bad && v > 1<<60 {
			return inv("stream count above 2^60")
		}
	case t == 0x18: // NEW_CONNECTION_ID
		seq := r.varint()
		retire := r.varint()
		ln := r.byte1() // Length (8)
		if r.bad {
			return f, c28truncated
		}
		if ln < 1 || ln > 20 {
			return inv("connection ID length outside 1..20")
		}
		f.data = r.bytes(uint64(ln))
		f.token = r.bytes(16)
		f.ints = []uint64{seq, retire}
		if !r.bad && retire > seq {
			return inv("Retire Prior To greater than Sequence Number")
		}
	case t == 0x1a, t == 0x1b: // PATH_CHALLENGE, PATH_RESPONSE
		f.data = r.bytes(8)
	case t == 0x1c: // CONNECTION_CLOSE (transport)
		code := r.varint()
		ft := r.varint()
		f.data = r.bytes(r.varint())
		f.ints = []uint64{code, ft}
	case t == 0x1d: // CONNECTION_CLOSE (application)
		code := r.varint()
		f.data = r.bytes(r.varint())
		f.ints = []uint64{code}
	default:
		return f, c28unknown
	}
	if r.bad {
		return f, c28truncated
	}
	f.n = r.off
	return f, c28ok
}

// c28fromDebug converts what parseDebugFrame returned into the reference representation.
func c28fromDebug(df debugFrame) (f c28frame, ok bool) {
	st := func(t streamType, bidi, uni byte) byte {
		if t == bidiStream {
			return bidi
		}
		return uni
	}
	switch v := df.(type) {
	case debugFramePadding:
		f.typ, f.ints = 0x00, []uint64{uint64(v.size)}
	case debugFramePing:
		f.typ = 0x01
	case debugFrameAck:
		f.typ = 0x02
		f.ints = []uint64{uint64(v.ackDelay)}
		if (v.ecn != ecnCounts{}) {
			f.typ = 0x03
			f.ints = append(f.ints, uint64(v.ecn.t0), uint64(v.ecn.t1), uint64(v.ecn.ce))
		}
		for i := len(v.ranges) - 1; i >= 0; i-- {
			f.ranges = append(f.ranges, [2]int64{int64(v.ranges[i].start), int64(v.ranges[i].end) - 1})
		}
	case debugFrameResetStream:
		f.typ, f.ints = 0x04, []uint64{uint64(v.id), v.code, uint64(v.finalSize)}
	case debugFrameStopSending:
		f.typ, f.ints = 0x05, []uint64{uint64(v.id), v.code}
	case debugFrameCrypto:
		f.typ, f.ints, f.data = 0x06, []uint64{uint64(v.off)}, v.data
	case debugFrameNewToken:
		f.typ, f.data = 0x07, v.token
	case debugFrameStream:
		fin := uint64(0)
		if v.fin {
			fin = 1
		}
		f.typ, f.ints, f.data = 0x08, []uint64{uint64(v.id), uint64(v.off), fin}, v.data
	case debugFrameMaxData:
		f.typ, f.ints = 0x10, []uint64{uint64(v.max)}
	case debugFrameMaxStreamData:
		f.typ, f.ints = 0x11, []uint64{uint64(v.id), uint64(v.max)}
	case debugFrameMaxStreams:
		f.typ, f.ints = st(v.streamType, 0x12, 0x13), []uint64{uint64(v.max)}
	case debugFrameDataBlocked:
		f.typ, f.ints = 0x14, []uint64{uint64(v.max)}
	case debugFrameStreamDataBlocked:
		f.typ, f.ints = 0x15, []uint64{uint64(v.id), uint64(v.max)}
	case debugFrameStreamsBlocked:
		f.typ, f.ints = st(v.streamType, 0x16, 0x17), []uint64{uint64(v.max)}
	case debugFrameNewConnectionID:
		f.typ, f.ints, f.data, f.token = 0x18, []uint64{uint64(v.seq), uint64(v.retirePriorTo)}, v.connID, v.token[:]
	case debugFrameRetireConnectionID:
		f.typ, f.ints = 0x19, []uint64{uint64(v.seq)}
	case debugFramePathChallenge:
		f.typ, f.data = 0x1a, v.data[:]
	case debugFramePathResponse:
		f.typ, f.data = 0x1b, v.data[:]
	case debugFrameConnectionCloseTransport:
		f.typ, f.ints, f.data = 0x1c, []uint64{uint64(v.code), v.frameType}, []byte(v.reason)
	case debugFrameConnectionCloseApplication:
		f.typ, f.ints, f.data = 0x1d, []uint64{v.code}, []byte(v.reason)
	case debugFrameHandshakeDone:
		f.typ = 0x1e
	default:
		return f, false
	}
	return f, true
}

// c28same compares two decoded frames; STREAM frame types are compared modulo the flag
// bits because the flags are represented in the fields.
func c28same(a, b c28frame) bool {
	ta, tb := a.typ, b.typ
	if ta >= 0x08 && ta <= 0x0f {
		ta = 0x08
	}
	if tb >= 0x08 && tb <= 0x0f {
		tb = 0x08
	}
	if ta != tb || len(a.ints) != len(b.ints) || len(a.ranges) != len(b.ranges) || string(a.data) != string(b.data) || string(a.token) != string(b.token) {
		return false
	}
	for i := range a.ints {
		if a.ints[i] != b.ints[i] {
			return false
		}
	}
	for i := range a.ranges {
		if a.ranges[i] != b.ranges[i] {
			return false
		}
	}
	return true
}
