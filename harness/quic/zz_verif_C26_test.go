//go:build verif

package quic

import (
	"fmt"
	"math/rand/v2"
	"testing"
	"time"

	"golang.org/x/net/internal/verifrt"
)

const (
	c26none = iota
	c26acked
	c26lost
	c26discarded
)

var c26fateName = []string{"none", "acked", "lost", "discarded-with-keys"}

// c26pkt is the harness ledger entry of one packet handed to lossState.packetSent.
type c26pkt struct {
	size         int
	ackEliciting bool
	inFlight     bool
	fate         int
}

// c26h drives one lossState (+ its ccReno) the way Conn does and keeps its own ledger.
type c26h struct {
	r   *verifrt.R
	c   *verifrt.Case
	rng *rand.Rand
	ls  lossState
	mds int
	now time.Time

	led        [numberSpaceCount][]*c26pkt // index = packet number; nil = skipped number
	keysGone   [numberSpaceCount]bool
	ackedInSp  [numberSpaceCount]bool
	lastAck    [numberSpaceCount][]i64range[packetNumber]
	ops        []string
	desc       map[string]any
	failed     bool
	aborted    bool
	inAckCall  bool
	cbInCall   int
	cwndBefore int

	nSent, nAcked, nLost, nDiscarded, nLostByDiscardPackets int64
	nAckFrames, nAckRanges, nAckErr, nPTO, nLossTimer       int64
	nRecovery, nCwndAtMin, nStale, nSkipped                 int64
}

func (h *c26h) note(f string, a ...any) {
	h.ops = append(h.ops, fmt.Sprintf("t=%v ", h.now.Sub(c26epoch))+fmt.Sprintf(f, a...))
	h.desc["ops"] = h.ops
	h.c.Describe(h.desc)
}

func (h *c26h) fail(key, f string, a ...any) {
	tail := h.ops
	if len(tail) > 60 {
		tail = tail[len(tail)-60:]
	}
	h.c.Violation(key, "%s; side=%v maxDatagramSize=%d; last ops: %v", fmt.Sprintf(f, a...), h.ls.side, h.mds, tail)
	h.failed = true
}

var c26epoch = time.Date(2000, 1, 1, 0, 0, 0, 0, time.UTC)

// onFate is the ackf/lossf callback.
func (h *c26h) onFate(space numberSpace, sent *sentPacket, fate packetFate) {
	h.cbInCall++
	if sent == nil {
		h.fail("callback-nil-packet", "fate callback with nil packet in %v", space)
		return
	}
	num := sent.num
	if h.keysGone[space] {
		h.fail("fate-after-keys-discarded", "%v packet %d reported %v after the keys of its space were discarded", space, num, fate)
		return
	}
	if num < 0 || int(num) >= len(h.led[space]) || h.led[space][num] == nil {
		h.fail("callback-for-unknown-packet", "%v packet %d reported %v but was never recorded as sent", space, num, fate)
		return
	}
	p := h.led[space][num]
	if sent.size != p.size || sent.inFlight != p.inFlight || sent.ackEliciting != p.ackEliciting {
		h.fail("callback-packet-mismatch", "%v packet %d: callback carries size=%d inFlight=%v ackEliciting=%v, sent with size=%d inFlight=%v ackEliciting=%v", space, num, sent.size, sent.inFlight, sent.ackEliciting, p.size, p.inFlight, p.ackEliciting)
	}
	nf := c26lost
	if fate == packetAcked {
		nf = c26acked
	}
	if p.fate != c26none {
		switch {
		case p.fate != nf && (p.fate == c26acked || p.fate == c26lost):
			h.fail("acked-and-lost", "%v packet %d was %s and is now reported %s", space, num, c26fateName[p.fate], c26fateName[nf])
		default:
			h.fail("fate-twice", "%v packet %d was %s and is reported %s again", space, num, c26fateName[p.fate], c26fateName[nf])
		}
		return
	}
	p.fate = nf
	if nf == c26acked {
		h.nAcked++
		h.ackedInSp[space] = true
		if !h.inAckCall {
			h.fail("ack-outside-ack-processing", "%v packet %d reported acked outside receiveAckRange", space, num)
		}
	} else {
		h.nLost++
	}
}

// check compares the controller and the sent-packet lists with the ledger.
func (h *c26h) check(after string) {
	if h.failed {
		return
	}
	cc := h.ls.cc
	want := 0
	for space := range h.led {
		for _, p := range h.led[space] {
			if p != nil && p.fate == c26none && p.inFlight {
				want += p.size
			}
		}
	}
	if cc.bytesInFlight < 0 {
		h.fail("bytes-in-flight-negative", "after %s: bytesInFlight=%d", after, cc.bytesInFlight)
		return
	}
	if cc.bytesInFlight != want {
		h.fail("bytes-in-flight-mismatch", "after %s: bytesInFlight=%d, in-flight packets without a fate sum to %d", after, cc.bytesInFlight, want)
		return
	}
	if min := 2 * h.mds; cc.congestionWindow < min {
		h.fail("cwnd-below-minimum", "after %s: congestionWindow=%d < 2*%d", after, cc.congestionWindow, h.mds)
		return
	}
	if cc.congestionWindow == 2*h.mds {
		h.nCwndAtMin++
	}
	if cc.congestionWindow < h.cwndBefore {
		h.nRecovery++
	}
	h.cwndBefore = cc.congestionWindow
	// white-box: the sent-packet lists and the ledger describe the same packets
	for space := numberSpace(0); space < numberSpaceCount; space++ {
		l := &h.ls.spaces[space].sentPacketList
		if h.keysGone[space] {
			if l.size != 0 {
				h.fail("list-not-empty-after-key-discard", "after %s: %v still tracks %d packets", after, space, l.size)
			}
			continue
		}
		if int(l.nextNum) != len(h.led[space]) {
			h.fail("next-number-mismatch", "after %s: %v nextNum=%d, harness sent/skipped %d numbers", after, space, l.nextNum, len(h.led[space]))
			return
		}
		for i := 0; i < l.size; i++ {
			sp := l.nth(i)
			num := l.start() + packetNumber(i)
			if sp == nil || sp.num != num {
				h.fail("list-entry-corrupt", "after %s: %v list entry %d (number %d) is %+v", after, space, i, num, sp)
				return
			}
			p := h.led[space][num]
			switch sp.state {
			case sentPacketUnsent:
				if p != nil {
					h.fail("list-state-mismatch", "after %s: %v packet %d is marked never-sent but was sent", after, space, num)
					return
				}
			case sentPacketSent:
				if p == nil || p.fate != c26none {
					h.fail("list-state-mismatch", "after %s: %v packet %d is still outstanding in lossState but the ledger says %v", after, space, num, p)
					return
				}
			case sentPacketAcked:
				if p == nil || p.fate != c26acked {
					h.fail("list-state-mismatch", "after %s: %v packet %d is acked in lossState without an ack callback (ledger %v)", after, space, num, p)
					return
				}
			case sentPacketLost:
				if p == nil || p.fate != c26lost {
					h.fail("list-state-mismatch", "after %s: %v packet %d is lost in lossState without a loss callback (ledger %v)", after, space, num, p)
					return
				}
			}
		}
		for num, p := range h.led[space] {
			if p == nil || p.fate != c26none {
				continue
			}
			sp := l.num(packetNumber(num))
			if sp == nil || sp.state != sentPacketSent {
				h.fail("packet-vanished-without-fate", "after %s: %v packet %d has no fate but lossState no longer tracks it as outstanding", after, space, num)
				return
			}
		}
	}
}

func (h *c26h) activeSpaces() []numberSpace {
	var out []numberSpace
	for s := numberSpace(0); s < numberSpaceCount; s++ {
		if !h.keysGone[s] {
			out = append(out, s)
		}
	}
	return out
}

func (h *c26h) send(space numberSpace, forceAckEliciting bool) bool {
	limit, _ := h.ls.sendLimit(h.now)
	if limit == ccBlocked {
		return false
	}
	maxSize := h.ls.maxSendSize()
	if maxSize < 30 {
		return false
	}
	sent := newSentPacket()
	sent.num = h.ls.nextNumber(space)
	sent.ptype = []packetType{packetTypeInitial, packetTypeHandshake, packetType1RTT}[space]
	switch {
	case limit != ccOK:
		// Conn only sends ACKs when congestion control or pacing limit sending
		sent.size = 25 + h.rng.IntN(40)
	case forceAckEliciting || h.rng.IntN(10) < 7:
		sent.ackEliciting, sent.inFlight = true, true
		sent.size = 30 + h.rng.IntN(maxSize-29)
		if h.rng.IntN(3) == 0 {
			sent.size = maxSize
		}
	case h.rng.IntN(3) == 0:
		sent.inFlight = true // ACK + PADDING
		sent.size = 30 + h.rng.IntN(maxSize-29)
	default:
		sent.size = 25 + h.rng.IntN(40)
	}
	if sent.size > maxSize {
		sent.size = maxSize
	}
	p := &c26pkt{size: sent.size, ackEliciting: sent.ackEliciting, inFlight: sent.inFlight}
	h.note("send %v #%d size=%d ackEliciting=%v inFlight=%v (limit=%d)", space, sent.num, sent.size, sent.ackEliciting, sent.inFlight, limit)
	h.led[space] = append(h.led[space], p)
	h.cbInCall = 0
	h.ls.packetSent(h.now, nil, space, sent)
	if h.cbInCall != 0 {
		h.fail("callback-during-send", "packetSent invoked a fate callback")
	}
	h.nSent++
	h.check(h.ops[len(h.ops)-1])
	if space == appDataSpace && h.rng.IntN(12) == 0 {
		h.note("skipNumber appData #%d", h.ls.nextNumber(space))
		h.ls.skipNumber(h.now, space)
		h.led[space] = append(h.led[space], nil)
		h.nSkipped++
		h.check(h.ops[len(h.ops)-1])
	}
	return true
}

// genAck builds the ranges of an ACK frame as consumeAckFrame would deliver them:
// descending, non-empty, separated by at least one unacknowledged number.
func (h *c26h) genAck(space numberSpace) []i64range[packetNumber] {
	rng := h.rng
	next := int64(h.ls.nextNumber(space))
	if last := h.lastAck[space]; last != nil && rng.IntN(8) == 0 {
		h.nStale++
		return last // duplicated / reordered old ACK frame
	}
	if next == 0 && rng.IntN(25) != 0 {
		return nil // an honest peer has nothing to acknowledge yet
	}
	var largest int64
	switch k := rng.IntN(40); {
	case next == 0:
		largest = int64(rng.IntN(2))
	case k == 0 && rng.IntN(4) == 0:
		largest = next + int64(rng.IntN(3)) // acknowledges a number that was never sent
	case k < 28:
		largest = next - 1 - int64(rng.IntN(int(min(next, 4))))
	default:
		largest = rng.Int64N(next)
	}
	var out []i64range[packetNumber]
	end := largest + 1
	n := 1 + rng.IntN(5)
	if rng.IntN(6) == 0 {
		n = 1 + rng.IntN(20)
	}
	for i := 0; i < n && end > 0; i++ {
		ln := int64(1)
		switch rng.IntN(4) {
		case 0:
			ln = 1 + int64(rng.IntN(3))
		case 1:
			ln = 1 + int64(rng.IntN(12))
		case 2:
			if rng.IntN(4) == 0 {
				ln = end // down to 0
			}
		}
		start := max(0, end-ln)
		out = append(out, i64range[packetNumber]{packetNumber(start), packetNumber(end)})
		end = start - 1 - int64(rng.IntN(4))
	}
	if rng.IntN(60) == 0 {
		return out // may acknowledge skipped numbers: optimistic-ACK attacker
	}
	// an honest peer never acknowledges a number the sender skipped: split around them
	var honest []i64range[packetNumber]
	for _, rg := range out {
		e := rg.end
		for n := rg.end - 1; n >= rg.start; n-- {
			if int(n) < len(h.led[space]) && h.led[space][n] == nil {
				if n+1 < e {
					honest = append(honest, i64range[packetNumber]{n + 1, e})
				}
				e = n
			}
		}
		if rg.start < e {
			honest = append(honest, i64range[packetNumber]{rg.start, e})
		}
	}
	return honest
}

func (h *c26h) ack(space numberSpace) {
	ranges := h.genAck(space)
	if len(ranges) == 0 {
		return
	}
	h.lastAck[space] = ranges
	delay := time.Duration(h.rng.IntN(30)) * time.Millisecond
	switch h.rng.IntN(10) {
	case 0:
		delay = 0
	case 1:
		delay = time.Duration(h.rng.Int64N(int64(20 * time.Second)))
	case 2:
		delay = time.Duration(h.rng.Int64N(int64(1000 * time.Hour)))
	}
	h.note("ack %v delay=%v ranges=%v", space, delay, ranges)
	h.nAckFrames++
	h.ls.receiveAckStart()
	for i, rg := range ranges {
		// what the documented protocol error rule says about this range
		l := &h.ls.spaces[space].sentPacketList
		wantErr := rg.end > l.end()
		if !wantErr {
			for n := max(rg.start, l.start()); n < rg.end; n++ {
				if h.led[space][n] == nil { // skipped number still tracked
					wantErr = true
				}
			}
		}
		bifBefore := h.ls.cc.bytesInFlight
		h.cbInCall = 0
		h.inAckCall = true
		err := h.ls.receiveAckRange(h.now, space, i, rg.start, rg.end, h.onFate)
		h.inAckCall = false
		h.nAckRanges++
		if wantErr && err == nil {
			h.fail("ack-of-unsent-accepted", "receiveAckRange(%v,[%d,%d)) returned nil although it covers a number never sent (next=%d)", space, rg.start, rg.end, l.end())
		}
		if !wantErr && err != nil {
			h.fail("ack-of-sent-rejected", "receiveAckRange(%v,[%d,%d)) returned %v for numbers that were all sent", space, rg.start, rg.end, err)
		}
		if err != nil {
			h.nAckErr++
			h.aborted = true // Conn aborts, but still finishes the frame
			if rg.end > l.end() && (h.cbInCall != 0 || h.ls.cc.bytesInFlight != bifBefore) {
				h.fail("ack-beyond-next-number-had-effect", "rejected range [%d,%d) beyond next=%d still produced %d callbacks / changed bytesInFlight %d->%d", rg.start, rg.end, l.end(), h.cbInCall, bifBefore, h.ls.cc.bytesInFlight)
			}
		}
		h.check(fmt.Sprintf("%s range %d", h.ops[len(h.ops)-1], i))
		if h.failed {
			return
		}
	}
	h.ls.receiveAckEnd(h.now, nil, space, delay, h.onFate)
	h.check(h.ops[len(h.ops)-1] + " end")
}

// advanceTo moves the clock, calling advance whenever the loss/PTO timer expires, as the
// connection loop does.
func (h *c26h) advanceTo(target time.Time) {
	for iter := 0; iter < 64 && !h.failed; iter++ {
		t := h.ls.timer
		if t.IsZero() || t.After(target) {
			break
		}
		if t.After(h.now) {
			h.now = t
		}
		pto := h.ls.ptoTimerArmed
		h.note("timer fires (pto=%v): advance", pto)
		wasExpired := h.ls.ptoExpired
		h.ls.advance(h.now, h.onFate)
		if h.ls.ptoExpired && !wasExpired {
			h.nPTO++
		} else {
			h.nLossTimer++
		}
		h.check(h.ops[len(h.ops)-1])
		if h.ls.ptoExpired && h.rng.IntN(5) != 0 {
			// send the probe
			sp := h.activeSpaces()
			if len(sp) > 0 {
				h.send(sp[h.rng.IntN(len(sp))], true)
			}
		}
	}
	if target.After(h.now) {
		h.now = target
	}
}

func (h *c26h) discardKeys(space numberSpace) {
	h.note("discardKeys %v", space)
	h.cbInCall = 0
	h.ls.discardKeys(h.now, nil, space)
	if h.cbInCall != 0 {
		h.fail("callback-during-key-discard", "discardKeys invoked %d fate callbacks", h.cbInCall)
	}
	for _, p := range h.led[space] {
		if p != nil && p.fate == c26none {
			p.fate = c26discarded
			h.nDiscarded++
		}
	}
	h.keysGone[space] = true
	h.check(h.ops[len(h.ops)-1])
}

func TestVerif_C26(t *testing.T) {
	r := verifrt.Start(t, "C26")
	defer r.Finish()
	r.SetRule("one case = one PRNG history of ~250 steps on a fresh lossState+ccReno (client or server, max datagram 1200/1350/1500) driven through the calls Conn makes: packetSent in the three spaces (ack-eliciting / padding-only in flight / ACK-only, sizes up to maxSendSize, respecting sendLimit), skipNumber, ACK frames (descending ranges as the parser delivers them: fresh, partial, far below the window, duplicated old frames, ranges over already acked/lost numbers, never-sent and skipped numbers; delays 0..1000h), virtual clock steps with advance at every timer expiry and at spurious times, PTO probes, setUnderutilized, datagramReceived/validateClientAddress (server), confirmHandshake, discardPackets(Initial) before any Initial ack (Retry), discardKeys(Initial/Handshake); at the end all keys are discarded. After EVERY call: bytesInFlight == sum of ledger in-flight packets without fate, >= 0, cwnd >= 2*maxDatagramSize, sent-packet lists agree with the ledger. non-trivial = history with >=1 acked, >=1 lost, >=1 discarded-with-keys packet and >=1 congestion-window reduction; distinct by hash of the op list")
	r.Assume("the harness respects Conn's calling contract: increasing packet numbers per space, no use of a space after its keys are discarded, ACK ranges non-empty/descending/disjoint with start>=0, discardPackets only for Initial before any Initial ack, monotonic clock, nothing sent when sendLimit is ccBlocked and only ACK-only packets when it is not ccOK; after a protocol error from receiveAckRange the frame is finished (as handleAckFrame does) and the history ends")

	run := func(c *verifrt.Case) {
		rng := c.Rng
		h := &c26h{r: r, c: c, rng: rng, now: c26epoch, desc: map[string]any{}}
		side := clientSide
		if rng.IntN(2) == 0 {
			side = serverSide
		}
		h.mds = []int{1200, 1200, 1350, 1500}[rng.IntN(4)]
		h.desc["side"] = fmt.Sprint(side)
		h.desc["maxDatagramSize"] = h.mds
		h.ls.init(side, h.mds, h.now)
		h.cwndBefore = h.ls.cc.congestionWindow
		if side == serverSide {
			h.note("datagramReceived 1200")
			h.ls.datagramReceived(h.now, 1200)
		}
		h.check("init")
		rttBase := time.Duration(1+rng.IntN(200)) * time.Millisecond
		steps := 150 + rng.IntN(200)
		for step := 0; step < steps && !h.failed && !h.aborted; step++ {
			act := h.activeSpaces()
			if len(act) == 0 {
				break
			}
			switch k := rng.IntN(100); {
			case k < 40: // send a burst
				space := act[rng.IntN(len(act))]
				if rng.IntN(3) != 0 {
					space = act[len(act)-1]
				}
				for i, n := 0, 1+rng.IntN(6); i < n && !h.failed; i++ {
					if !h.send(space, false) {
						break
					}
				}
			case k < 65: // ACK frame
				space := act[rng.IntN(len(act))]
				if rng.IntN(3) != 0 {
					space = act[len(act)-1]
				}
				h.ack(space)
			case k < 88: // time passes
				var d time.Duration
				switch rng.IntN(6) {
				case 0:
					d = time.Duration(rng.IntN(1000)) * time.Microsecond
				case 1, 2:
					d = rttBase/2 + time.Duration(rng.Int64N(int64(rttBase)))
				case 3:
					d = time.Duration(rng.Int64N(int64(3 * time.Second)))
				case 4:
					if !h.ls.timer.IsZero() && h.ls.timer.After(h.now) {
						d = h.ls.timer.Sub(h.now) + time.Duration(rng.IntN(2))*time.Millisecond
					}
				default:
					d = time.Duration(rng.Int64N(int64(30 * time.Second)))
				}
				h.advanceTo(h.now.Add(d))
				if rng.IntN(3) == 0 && !h.failed { // a timer event for another reason
					h.note("spurious advance")
					h.ls.advance(h.now, h.onFate)
					h.check(h.ops[len(h.ops)-1])
				}
			case k < 91:
				v := rng.IntN(2) == 0
				h.note("setUnderutilized %v", v)
				h.ls.cc.setUnderutilized(nil, v)
				h.check(h.ops[len(h.ops)-1])
			case k < 94:
				if side == serverSide {
					if rng.IntN(4) == 0 {
						h.note("validateClientAddress")
						h.ls.validateClientAddress()
					} else {
						n := 40 + rng.IntN(1400)
						h.note("datagramReceived %d", n)
						h.ls.datagramReceived(h.now, n)
					}
					h.check(h.ops[len(h.ops)-1])
				} else {
					d := time.Duration(rng.IntN(100)) * time.Millisecond
					h.note("setMaxAckDelay %v", d)
					h.ls.setMaxAckDelay(d)
				}
			case k < 96:
				if !h.keysGone[initialSpace] && rng.IntN(2) == 0 {
					h.discardKeys(initialSpace)
				}
			case k < 98:
				if h.keysGone[initialSpace] && !h.keysGone[handshakeSpace] {
					h.note("confirmHandshake")
					h.ls.confirmHandshake()
					h.discardKeys(handshakeSpace)
				}
			default:
				// Retry received: resend all Initial packets (client, nothing acked yet)
				if side == clientSide && !h.keysGone[initialSpace] && !h.ackedInSp[initialSpace] && h.ls.spaces[initialSpace].maxAcked < 0 {
					before := h.nLost
					h.note("discardPackets Initial")
					h.ls.discardPackets(initialSpace, nil, h.onFate)
					h.nLostByDiscardPackets += h.nLost - before
					h.check(h.ops[len(h.ops)-1])
				}
			}
		}
		// close every space: each packet must now have exactly one fate
		for s := numberSpace(0); s < numberSpaceCount && !h.failed; s++ {
			if !h.keysGone[s] {
				h.discardKeys(s)
			}
		}
		if !h.failed {
			if h.ls.cc.bytesInFlight != 0 {
				h.fail("bytes-in-flight-after-all-keys-discarded", "bytesInFlight=%d after every space was discarded", h.ls.cc.bytesInFlight)
			}
			for s := range h.led {
				for num, p := range h.led[s] {
					if p != nil && p.fate == c26none {
						h.fail("packet-without-fate", "%v packet %d ended with no fate", numberSpace(s), num)
					}
				}
			}
		}
		r.Eval(h.nAcked > 0 && h.nLost > 0 && h.nDiscarded > 0 && h.nRecovery > 0, h.desc["side"], h.mds, h.ops)
		r.Event("packets_sent", h.nSent)
		r.Event("packets_acked", h.nAcked)
		r.Event("packets_lost", h.nLost)
		r.Event("packets_lost_by_discardPackets", h.nLostByDiscardPackets)
		r.Event("packets_discarded_with_keys", h.nDiscarded)
		r.Event("numbers_skipped", h.nSkipped)
		r.Event("ack_frames", h.nAckFrames)
		r.Event("ack_ranges", h.nAckRanges)
		r.Event("ack_frames_replayed_stale", h.nStale)
		r.Event("ack_ranges_rejected_unsent", h.nAckErr)
		r.Event("pto_expirations", h.nPTO)
		r.Event("loss_timer_or_other_timer_fires", h.nLossTimer)
		r.Event("cwnd_reductions", h.nRecovery)
		r.Event("checks_with_cwnd_at_minimum", h.nCwndAtMin)
		r.Event("calls_checked", int64(len(h.ops)))
		if h.aborted {
			r.Event("histories_ended_by_protocol_error", 1)
		}
		if c.Index < 2 {
			ops := h.ops
			if len(ops) > 40 {
				ops = ops[:40]
			}
			r.Sample(map[string]any{"side": h.desc["side"], "maxDatagramSize": h.mds, "first_ops": ops, "sent": h.nSent, "acked": h.nAcked, "lost": h.nLost, "discarded": h.nDiscarded})
		}
	}
	r.CasesParallel("histories", r.N(4000, 150000), 0, run)

	r.Require("packets_sent", 50000)
	r.Require("packets_acked", 10000)
	r.Require("packets_lost", 5000)
	r.Require("packets_discarded_with_keys", 2000)
	r.Require("packets_lost_by_discardPackets", 50)
	r.Require("ack_ranges_rejected_unsent", 100)
	r.Require("pto_expirations", 1000)
	r.Require("cwnd_reductions", 1000)
	r.Require("checks_with_cwnd_at_minimum", 100)
}
