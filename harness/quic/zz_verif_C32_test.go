//go:build verif

package quic

import (
	"errors"
	"fmt"
	"io"
	"slices"
	"sync"
	"testing"
	"testing/synctest"

	"golang.org/x/net/internal/verifrt"
)

// vlpResetShadow watches one connection's sent packets, in send order.
type vlpResetShadow struct {
	side     string
	maxEnd   map[int64]int64    // highest offset sent per stream
	reset    map[int64][2]int64 // stream -> (final size, code) of the first RESET_STREAM
	resets   int64
	reRepeat int64
	stops    int64
}

func (s *vlpResetShadow) observe(ev *vlpEvent, viol vlpViolFunc) {
	if !ev.Sent {
		for i := range ev.Frames {
			if ev.Frames[i].Kind == "stop_sending" {
				s.stops++
			}
		}
		return
	}
	for i := range ev.Frames {
		f := &ev.Frames[i]
		switch f.Kind {
		case "stream":
			if rs, ok := s.reset[f.ID]; ok {
				viol("stream-data-after-reset", "%s sent STREAM id=%d [%d,%d) fin=%v in packet %d after RESET_STREAM (final size %d)", s.side, f.ID, f.Off, f.Off+f.Len, f.Fin, ev.Num, rs[0])
			}
			s.maxEnd[f.ID] = max(s.maxEnd[f.ID], f.Off+f.Len)
		case "reset_stream":
			if rs, ok := s.reset[f.ID]; ok {
				s.reRepeat++
				if rs[0] != f.FinalSize || rs[1] != int64(f.Code) {
					viol("reset-retransmission-differs", "%s sent RESET_STREAM id=%d final=%d code=%d, earlier final=%d code=%d", s.side, f.ID, f.FinalSize, f.Code, rs[0], rs[1])
				}
				continue
			}
			s.resets++
			s.reset[f.ID] = [2]int64{f.FinalSize, int64(f.Code)}
			if f.FinalSize != s.maxEnd[f.ID] {
				viol("reset-final-size-not-highest-offset-sent", "%s sent RESET_STREAM id=%d final size %d in packet %d, but the highest offset it ever sent on that stream is %d", s.side, f.ID, f.FinalSize, ev.Num, s.maxEnd[f.ID])
			}
		}
	}
}

func TestVerif_C32(t *testing.T) {
	r := verifrt.Start(t, "C32")
	defer r.Finish()
	r.ExitIfAbnormal()
	r.SetRule("(a) lossy transfers in which PRNG-chosen streams are Reset mid-write or stopped by the reader (CloseRead -> STOP_SENDING); per-connection shadow over sent frames in send order: first RESET_STREAM final size == highest offset sent, no STREAM frame after it, retransmitted RESET_STREAM identical; readers of reset streams must end with the reset code, never io.EOF. (b) scripted peer sends STREAM/RESET_STREAM contradicting a known final size. non-trivial (a) = run with >=1 RESET_STREAM sent after data and >=1 RESET_STREAM retransmission or STOP_SENDING; (b) = all; distinct by counters/script")
	var mu sync.Mutex
	n := r.N(50, 1200)
	r.CasesParallel("lossy-resets", n, 8, func(c *verifrt.Case) {
		cb, sb := vlpGenBuf(c.Rng), vlpGenBuf(c.Rng)
		streams := vlpGenStreams(c.Rng, 6, vlpBudget(300<<10, cb, sb))
		for i := range streams {
			sp := &streams[i]
			switch c.Rng.IntN(3) {
			case 0:
				if sp.Fwd > 0 {
					sp.ResetAfter = c.Rng.Int64N(sp.Fwd) // reset before the last byte: no FIN is ever sent
				}
			case 1:
				if sp.Fwd > 1 {
					sp.StopAfter = c.Rng.Int64N(sp.Fwd - 1)
				}
			}
		}
		rc := &vlpRunConfig{Faults: vlpGenFaults(c.Rng), CliBuf: cb, SrvBuf: sb, Streams: streams,
			FaultPhase: []int{200, 2000, 20000}[c.Rng.IntN(3)], CleanBoundS: 300}
		c.Describe(rc)
		shadows := map[int]*vlpResetShadow{}
		var res *vlpRunResult
		synctest.Test(t, func(t *testing.T) {
			res = vlpRunTransfer(c.Rng.Uint64(), rc, func(p *vlpPair) {
				p.Tap.Observe(func(ev *vlpEvent) {
					sh := shadows[ev.Conn]
					if sh == nil {
						sh = &vlpResetShadow{side: ev.Side, maxEnd: map[int64]int64{}, reset: map[int64][2]int64{}}
						shadows[ev.Conn] = sh
					}
					sh.observe(ev, c.Violation)
				})
			}, func(key, f string, a ...any) {
				r.Event("c19_oracle_fired_"+key, 1)
				r.Note("case %d: c19 oracle %s: "+f, append([]any{c.Index, key}, a...)...)
			})
		})
		if res.HandshakeErr != nil {
			r.Event("handshake_failed", 1)
			return
		}
		// readers of lanes that were Reset by the writer
		var readerChecked int64
		for _, ln := range res.Lanes {
			code := ln.ResetCode.Load()
			if code == 0 {
				continue
			}
			e, _ := ln.ReadErr.Load().(error)
			if e == nil {
				continue // reader stopped on its own (StopAfter) or never started
			}
			readerChecked++
			var sc StreamErrorCode
			switch {
			case e == io.EOF:
				c.Violation("eof-after-reset", "stream %d was Reset(%d) after %d of %d bytes (no FIN was ever sent) but the peer's Read ended with io.EOF after %d bytes", ln.ID, code, ln.ResetAt.Load(), ln.Total, ln.Read.Load())
			case errors.As(e, &sc):
				if uint64(sc) != code {
					c.Violation("reset-code-mismatch", "stream %d Reset(%d): peer's Read error carries code %d", ln.ID, code, uint64(sc))
				}
			default:
				// connection torn down at the end of the run etc.: not a verdict
				r.Event("reader_ended_with_other_error", 1)
			}
		}
		var resets, repeats, stops int64
		for _, sh := range shadows {
			resets += sh.resets
			repeats += sh.reRepeat
			stops += sh.stops
		}
		mu.Lock()
		defer mu.Unlock()
		r.Eval(resets > 0 && (repeats > 0 || stops > 0), "lossy", len(streams), resets, repeats, stops, readerChecked)
		r.Event("lossy_runs", 1)
		r.Event("reset_stream_first_sent", resets)
		r.Event("reset_stream_retransmitted", repeats)
		r.Event("stop_sending_processed", stops)
		r.Event("reset_readers_checked", readerChecked)
		r.Sample(map[string]any{"kind": "lossy", "streams": len(streams), "resets": resets, "reset_retransmissions": repeats, "stop_sending": stops, "readers_checked": readerChecked})
	})

	// (b) receive side against a scripted peer
	m := r.N(300, 6000)
	r.Cases("scripted-final-size", m, func(c *verifrt.Case) {
		side := []connSide{serverSide, clientSide}[c.Rng.IntN(2)]
		styp := []streamType{bidiStream, uniStream}[c.Rng.IntN(2)]
		id := newStreamID(side.peer(), styp, 0)
		have := int64(c.Rng.IntN(900)) // bytes [0,have) delivered first
		mode := c.Rng.IntN(11)
		code := uint64(1 + c.Rng.IntN(1<<20))
		c.Describe(map[string]any{"side": fmt.Sprint(side), "type": fmt.Sprint(styp), "have": have, "mode": mode, "code": code})
		synctest.Test(t, func(t *testing.T) {
			tc := vlpScripted(t, side, permissiveTransportParameters)
			data := func(off, n int64, fin bool) {
				tc.writeFrames(packetType1RTT, debugFrameStream{id: id, off: off, data: make([]byte, n), fin: fin})
			}
			reset := func(final int64) {
				tc.writeFrames(packetType1RTT, debugFrameResetStream{id: id, code: code, finalSize: final})
			}
			data(0, have, false)
			want := transportError(0)
			wantErr := false
			checkRead := false
			switch mode {
			case 0: // FIN at have, then data beyond it
				data(have, 0, true)
				data(have, 1+int64(c.Rng.IntN(50)), false)
				wantErr, want = true, errFinalSize
			case 1: // FIN at have, then FIN at a different size
				data(have, 0, true)
				if c.Rng.IntN(2) == 0 && have > 0 {
					data(have-1, 0, true)
				} else {
					data(have, 5, true)
				}
				wantErr, want = true, errFinalSize
			case 2: // FIN below data already received
				if have == 0 {
					data(0, 10, false)
					have = 10
				}
				data(c.Rng.Int64N(have), 0, true)
				wantErr, want = true, errFinalSize
			case 3: // RESET with final size below received data
				if have == 0 {
					data(0, 10, false)
					have = 10
				}
				reset(c.Rng.Int64N(have))
				wantErr, want = true, errFinalSize
			case 4: // FIN then RESET with a different final size
				data(have, 0, true)
				reset(have + 1 + int64(c.Rng.IntN(20)))
				wantErr, want = true, errFinalSize
			case 5: // RESET then data beyond its final size
				reset(have + 10)
				data(have+10, 1, false)
				wantErr, want = true, errFinalSize
			case 8: // RESET, then a second RESET that states a different final size (smaller, larger, below received data)
				f1 := have + int64(c.Rng.IntN(200))
				reset(f1)
				f2 := f1 + 1 + int64(c.Rng.IntN(30))
				if f1 > 0 && c.Rng.IntN(2) == 0 {
					f2 = c.Rng.Int64N(f1)
				}
				reset(f2)
				wantErr, want = true, errFinalSize
			case 9: // RESET, then a FIN at a different offset
				f1 := have + 1 + int64(c.Rng.IntN(200))
				reset(f1)
				if c.Rng.IntN(2) == 0 {
					data(have, 0, true) // FIN below the final size the RESET stated
				} else {
					data(f1, 1+int64(c.Rng.IntN(9)), true) // data and FIN beyond it
				}
				wantErr, want = true, errFinalSize
			case 10: // RESET, then STREAM data that ends beyond the final size but starts inside it
				f1 := have + int64(c.Rng.IntN(50))
				reset(f1)
				data(have, f1-have+1+int64(c.Rng.IntN(20)), false)
				wantErr, want = true, errFinalSize
			case 6: // consistent: data, RESET with final size == received (no FIN): Read must fail with the code
				reset(have)
				checkRead = true
			case 7: // consistent: RESET with a larger final size, then a duplicate RESET and data inside the final size
				reset(have + 100)
				reset(have + 100)
				data(have, 50, false)
				checkRead = true
			}
			frames := vlpDrain(tc)
			gotCode, reason, closed := vlpCloseCode(frames)
			switch {
			case wantErr && !closed:
				c.Violation("final-size-contradiction-not-rejected", "mode %d (have %d): peer contradicted the final size and no CONNECTION_CLOSE was sent", mode, have)
			case wantErr && gotCode != want:
				c.Violation("final-size-wrong-error-code", "mode %d: expected FINAL_SIZE_ERROR, got %v %q", mode, gotCode, reason)
			case !wantErr && closed:
				c.Violation("consistent-reset-rejected", "mode %d (have %d): consistent frames got CONNECTION_CLOSE %v %q", mode, have, gotCode, reason)
			}
			if wantErr {
				r.Event("scripted_contradictions_rejected", 1)
			}
			if checkRead && !closed {
				s, err := tc.conn.AcceptStream(canceledContext())
				if err != nil {
					c.Violation("reset-stream-not-acceptable", "AcceptStream after data+RESET_STREAM: %v", err)
					return
				}
				s.SetReadContext(canceledContext())
				buf := make([]byte, 2000)
				var total int64
				for i := 0; i < 10; i++ {
					n, err := s.Read(buf)
					total += int64(n)
					if err == nil {
						continue
					}
					var sc StreamErrorCode
					switch {
					case err == io.EOF:
						c.Violation("eof-after-reset", "scripted mode %d: stream reset by the peer with code %d (final size known only from the RESET) but Read returned io.EOF after %d bytes", mode, code, total)
					case errors.As(err, &sc):
						if uint64(sc) != code {
							c.Violation("reset-code-mismatch", "RESET_STREAM code %d, Read error carries %d", code, uint64(sc))
						}
						r.Event("scripted_reset_reads_checked", 1)
					default:
						c.Violation("reset-read-error-without-code", "Read after RESET_STREAM(code %d) returned %v, which does not unwrap to a StreamErrorCode", code, err)
					}
					return
				}
				c.Violation("reset-read-never-fails", "10 Reads after RESET_STREAM returned no error (%d bytes)", total)
			}
		})
		r.Eval(true, "scripted", side, styp, have, mode)
	})
	// (c) deterministic script with resets at the end: the RESET_STREAM final size must be the
	// highest offset sent, also after retransmissions that merged lost and never-sent data
	nsl := r.N(1500, 40000)
	r.CasesParallel("scripted-resets", nsl, 0, func(c *verifrt.Case) {
		res := vslRun(t, c.Rng, true, c.Violation, c.Describe)
		r.Event("scripted_reset_runs", 1)
		r.Event("scripted_resets_issued", res.Resets)
		r.Event("scripted_reset_final_sizes_checked", res.ResetsChecked)
		r.Event("scripted_streams_finished_before_the_resets", res.FinsBeforeReset)
		r.Event("scripted_resets_of_unfinished_streams_answered_with_reset_stream", res.ResetsOwedSeen)
		r.Event("scripted_resets_overtaken_by_acknowledgement_of_the_whole_stream", res.ResetsOvertakenByAcks)
		r.Event("scripted_stream_frames_seen", res.Frames)
		r.Eval(res.ResetsChecked > 0 && res.Lost > 0, "vslr", res.Frames, res.Streams, res.ResetsChecked, res.Lost, res.Raises)
	})
	// (b') the final size is learned from a FIN carried by a frame that brings nothing new: the
	// stream holds the prefix [0,N), a STREAM frame [k,N) with FIN arrives (the tail, or all of it,
	// sent again after CloseWrite or as a PTO probe), then the peer contradicts N.
	r.Cases("scripted-fin-on-retransmitted-data", r.N(600, 6000), func(c *verifrt.Case) {
		rng := c.Rng
		side := []connSide{clientSide, serverSide}[rng.IntN(2)]
		styp := []streamType{bidiStream, uniStream}[rng.IntN(2)]
		have := int64(1 + rng.IntN(1000))                              // one frame fits one packet of the scripted peer
		k := []int64{0, have - 1, rng.Int64N(have), have}[rng.IntN(4)] // k == have: the empty FIN frame
		pieces := 1 + rng.IntN(3)
		mode := rng.IntN(5)
		readFirst := rng.IntN(2) == 0
		c.Describe(map[string]any{"side": fmt.Sprint(side), "stream": fmt.Sprint(styp), "prefix": have, "fin_frame_from": k, "pieces": pieces, "mode": mode, "read_first": readFirst})
		synctest.Test(t, func(t *testing.T) {
			tc := vlpScripted(t, side, permissiveTransportParameters)
			id := newStreamID(side.peer(), styp, 0)
			data := make([]byte, have)
			// the prefix in 1-3 frames, in any order
			cuts := []int64{0}
			for i := 1; i < pieces; i++ {
				cuts = append(cuts, rng.Int64N(have+1))
			}
			cuts = append(cuts, have)
			slices.Sort(cuts)
			for _, i := range rng.Perm(len(cuts) - 1) {
				tc.writeFrames(packetType1RTT, debugFrameStream{id: id, off: cuts[i], data: data[cuts[i]:cuts[i+1]]})
			}
			s, err := tc.conn.AcceptStream(canceledContext())
			if err != nil {
				c.Violation("scripted-accept-error", "AcceptStream: %v", err)
				return
			}
			s.SetReadContext(canceledContext())
			var total int64
			if readFirst {
				n, _ := s.Read(make([]byte, 1+rng.Int64N(have)))
				total += int64(n)
			}
			tc.writeFrames(packetType1RTT, debugFrameStream{id: id, off: k, data: data[k:], fin: true})
			var what string
			switch mode {
			case 0:
				tc.writeFrames(packetType1RTT, debugFrameResetStream{id: id, code: 1, finalSize: have + 1 + rng.Int64N(1000)})
				what = "RESET_STREAM with a larger final size"
			case 1:
				tc.writeFrames(packetType1RTT, debugFrameResetStream{id: id, code: 1, finalSize: rng.Int64N(have)})
				what = "RESET_STREAM with a smaller final size"
			case 2:
				tc.writeFrames(packetType1RTT, debugFrameStream{id: id, off: have, data: make([]byte, 1+rng.IntN(100))})
				what = "STREAM data beyond the final size"
			case 3:
				tc.writeFrames(packetType1RTT, debugFrameStream{id: id, off: have, data: make([]byte, 1+rng.IntN(100)), fin: true})
				what = "a second FIN at a larger offset"
			}
			frames := vlpDrain(tc)
			gotCode, reason, closed := vlpCloseCode(frames)
			if mode == 4 {
				// no contradiction: the frames are consistent and the reader reaches io.EOF after the prefix
				if closed {
					c.Violation("fin-on-retransmitted-data-rejected", "prefix [0,%d) received, then STREAM [%d,%d) with FIN: CONNECTION_CLOSE %v %q", have, k, have, gotCode, reason)
					return
				}
				var rerr error
				buf := make([]byte, 4096)
				for i := 0; i < 10 && rerr == nil; i++ {
					var n int
					n, rerr = s.Read(buf)
					total += int64(n)
				}
				if rerr != io.EOF || total != have {
					c.Violation("no-eof-after-fin-on-retransmitted-data", "prefix [0,%d) received, then STREAM [%d,%d) with FIN: Read ends with %v after %d bytes, want io.EOF after %d", have, k, have, rerr, total, have)
				}
				r.Event("scripted_fin_on_retransmitted_data_eof_checked", 1)
				return
			}
			switch {
			case !closed:
				c.Violation("final-size-from-fin-on-retransmitted-data-not-enforced", "prefix [0,%d) received in %d frames, then STREAM [%d,%d) with FIN (final size %d), then %s: no CONNECTION_CLOSE was sent", have, len(cuts)-1, k, have, have, what)
			case gotCode != errFinalSize:
				c.Violation("final-size-wrong-error-code", "after a FIN on retransmitted data and %s: expected FINAL_SIZE_ERROR, got %v %q", what, gotCode, reason)
			default:
				r.Event("scripted_contradictions_of_fin_on_retransmitted_data_rejected", 1)
			}
		})
		r.Eval(true, "finretx", side, styp, have, k, pieces, mode)
	})

	r.Require("scripted_reset_final_sizes_checked", 500)
	r.Require("scripted_contradictions_of_fin_on_retransmitted_data_rejected", 200)
	r.Require("reset_stream_first_sent", 15)
	r.Require("reset_stream_retransmitted", 1)
	r.Require("stop_sending_processed", 10)
	r.Require("reset_readers_checked", 8)
	r.Require("scripted_contradictions_rejected", 100)
	r.Require("scripted_reset_reads_checked", 12)
}
