//go:build verif

package quic

// C21: QUIC stream-count limits.
//
//  (a) lossy-limits:    two real Endpoints on the fault-injecting network, applications on both
//                       sides opening / accepting / closing many tiny streams in PRNG order with
//                       small MaxBidiRemoteStreams / MaxUniRemoteStreams; wire shadow per
//                       connection on the qlog tap.
//  (b) scripted-local:  the Conn under test opens streams against a scripted peer's limits
//                       (NewStream blocked at quiescence, MAX_STREAMS in any order).
//  (c) scripted-remote: a scripted peer opens streams within / exactly at / beyond the limit the
//                       Conn under test has sent, the application closes them in PRNG order.
//
// Everything C21-specific is prefixed c21.

import (
	"context"
	"fmt"
	"io"
	"log/slog"
	"math/rand/v2"
	"sort"
	"strings"
	"sync"
	"sync/atomic"
	"testing"
	"testing/synctest"
	"time"

	"golang.org/x/net/internal/verifrt"
)

// ---- stream id arithmetic, RFC 9000 §2.1 (own code) ----

const (
	c21Bidi = 0
	c21Uni  = 1
)

// c21ID builds a stream id: bit 0 = initiated by the server, bit 1 = unidirectional.
func c21ID(server bool, typ int, num int64) int64 {
	id := num << 2
	if server {
		id |= 1
	}
	if typ == c21Uni {
		id |= 2
	}
	return id
}

func c21Split(id int64) (server bool, typ int, num int64) {
	return id&1 == 1, int(id>>1) & 1, id >> 2
}

// c21Eff is the documented meaning of Config.MaxBidiRemoteStreams / MaxUniRemoteStreams:
// zero = default 100, negative = zero.
func c21Eff(v int64) int64 {
	switch {
	case v == 0:
		return 100
	case v < 0:
		return 0
	}
	return v
}

func c21TypeName(typ int) string {
	if typ == c21Uni {
		return "uni"
	}
	return "bidi"
}

func c21SideName(side int) string {
	if side == 1 {
		return "server"
	}
	return "client"
}

const c21StreamLimitError = 0x04 // RFC 9000 §20.1

// ---- independent reader for the initial_max_streams_* transport parameters ----
//
// The transport parameters travel in the TLS quic_transport_parameters extension (0x39, RFC
// 9001 §8.2) of the ClientHello (client, Initial CRYPTO stream) and of EncryptedExtensions
// (server, first message of the Handshake CRYPTO stream). Both are plaintext at the CRYPTO
// frame level, so the limits an endpoint really advertised can be read off the wire without
// the implementation's own parser.

func c21Varint(b []byte) (uint64, int) {
	if len(b) == 0 {
		return 0, -1
	}
	l := 1 << (b[0] >> 6)
	if len(b) < l {
		return 0, -1
	}
	v := uint64(b[0] & 0x3f)
	for i := 1; i < l; i++ {
		v = v<<8 | uint64(b[i])
	}
	return v, l
}

// c21InitialMaxStreams parses the first TLS handshake message of a CRYPTO stream.
// state: 0 = need more bytes, 1 = ok, -1 = malformed / extension absent.
func c21InitialMaxStreams(crypto []byte) (lim [2]int64, state int) {
	if len(crypto) < 4 {
		return lim, 0
	}
	typ := crypto[0]
	l := int(crypto[1])<<16 | int(crypto[2])<<8 | int(crypto[3])
	if len(crypto) < 4+l {
		return lim, 0
	}
	b := crypto[4 : 4+l]
	skip := func(n int) bool {
		if len(b) < n {
			return false
		}
		b = b[n:]
		return true
	}
	vec := func(lenBytes int) bool {
		if len(b) < lenBytes {
			return false
		}
		n := 0
		for i := 0; i < lenBytes; i++ {
			n = n<<8 | int(b[i])
		}
		return skip(lenBytes + n)
	}
	switch typ {
	case 1: // ClientHello: legacy_version, random, session_id<0..32>, cipher_suites<2..>, compression<1..>
		if !skip(2+32) || !vec(1) || !vec(2) || !vec(1) {
			return lim, -1
		}
	case 8: // EncryptedExtensions
	default:
		return lim, -1
	}
	if len(b) < 2 {
		return lim, -1
	}
	el := int(b[0])<<8 | int(b[1])
	b = b[2:]
	if len(b) < el {
		return lim, -1
	}
	b = b[:el]
	for len(b) >= 4 {
		et := int(b[0])<<8 | int(b[1])
		n := int(b[2])<<8 | int(b[3])
		b = b[4:]
		if len(b) < n {
			return lim, -1
		}
		if et != 0x39 {
			b = b[n:]
			continue
		}
		p := b[:n]
		for len(p) > 0 {
			id, k := c21Varint(p)
			if k < 0 {
				return lim, -1
			}
			p = p[k:]
			vl, k := c21Varint(p)
			if k < 0 || uint64(len(p)-k) < vl {
				return lim, -1
			}
			val := p[k : k+int(vl)]
			p = p[k+int(vl):]
			if id == 0x08 || id == 0x09 {
				v, k := c21Varint(val)
				if k != len(val) {
					return lim, -1
				}
				lim[id-0x08] = int64(v)
			}
		}
		return lim, 1 // absent parameters mean 0 (RFC 9000 §18.2)
	}
	return lim, -1
}

// c21Crypto reassembles one CRYPTO stream.
type c21Crypto struct {
	buf []byte
	iv  vlpIvals
}

func (c *c21Crypto) add(off int64, data []byte) []byte {
	end := off + int64(len(data))
	if end > 1<<16 {
		return nil
	}
	if int64(len(c.buf)) < end {
		c.buf = append(c.buf, make([]byte, end-int64(len(c.buf)))...)
	}
	copy(c.buf[off:end], data)
	c.iv.add(off, end)
	return c.buf[:c.iv.contiguousEnd()]
}

// ---- wire shadow on the qlog tap (lossy runs) ----

var c21StreamFrameKinds = map[string]bool{"stream": true, "reset_stream": true, "stop_sending": true, "max_stream_data": true, "stream_data_blocked": true}

type c21ConnShadow struct {
	side        int
	localMax    [2]int64 // largest MAX_STREAMS processed (without the initial parameter)
	advSent     [2]int64 // last MAX_STREAMS sent
	advSentSet  [2]bool
	peerOpened  [2]int64 // highest peer-initiated stream number named in a processed frame, +1
	beyond      string   // first processed frame naming a peer stream at/beyond what this conn had sent
	sentLimitCC bool     // this conn sent CONNECTION_CLOSE(STREAM_LIMIT_ERROR)
}

type c21Wire struct {
	eff       [2][2]int64 // configured MaxRemote per side / type (documented meaning)
	appClosed *[2][2]atomic.Int64
	tpKnown   [2]bool
	tpFailed  [2]bool
	tp        [2][2]int64 // initial_max_streams advertised by side, read from its CRYPTO stream
	crypto    map[[2]int]*c21Crypto
	conns     map[int]*c21ConnShadow

	localChecked, localAtLimit, localBeyondInitial int64
	maxSent, maxRaised, maxProcessed, staleMax     int64
	peerFrames, skippedUnknown, implicit           int64
	zeroSlack                                      int64 // MAX_STREAMS sent with v == appClosed+configured exactly
}

func c21NewWire(eff [2][2]int64, appClosed *[2][2]atomic.Int64) *c21Wire {
	return &c21Wire{eff: eff, appClosed: appClosed, crypto: map[[2]int]*c21Crypto{}, conns: map[int]*c21ConnShadow{}}
}

// localLimit is the largest stream-count limit connection sh has processed for its own streams.
func (w *c21Wire) localLimit(sh *c21ConnShadow, typ int) (int64, bool) {
	peer := 1 - sh.side
	if !w.tpKnown[peer] {
		return 0, false
	}
	return max(w.tp[peer][typ], sh.localMax[typ]), true
}

// advertised is the largest limit connection sh has sent for the peer's streams.
func (w *c21Wire) advertised(sh *c21ConnShadow, typ int) (int64, bool) {
	if !w.tpKnown[sh.side] {
		return 0, false
	}
	if sh.advSentSet[typ] {
		return max(w.tp[sh.side][typ], sh.advSent[typ]), true
	}
	return w.tp[sh.side][typ], true
}

func (w *c21Wire) observe(ev *vlpEvent, viol vlpViolFunc) {
	side := 0
	if ev.Side == "server" {
		side = 1
	}
	sh := w.conns[ev.Conn]
	if sh == nil {
		sh = &c21ConnShadow{side: side}
		w.conns[ev.Conn] = sh
	}
	for i := range ev.Frames {
		f := &ev.Frames[i]
		switch {
		case f.Kind == "crypto":
			want := initialSpace
			if side == 1 {
				want = handshakeSpace
			}
			if !ev.Sent || ev.Space != want || w.tpKnown[side] || w.tpFailed[side] {
				continue
			}
			k := [2]int{ev.Conn, int(ev.Space)}
			cr := w.crypto[k]
			if cr == nil {
				cr = &c21Crypto{}
				w.crypto[k] = cr
			}
			lim, st := c21InitialMaxStreams(cr.add(f.Off, f.Data))
			switch st {
			case 1:
				w.tpKnown[side] = true
				w.tp[side] = lim
				for typ := 0; typ < 2; typ++ {
					if lim[typ] > w.eff[side][typ] {
						viol("initial-max-streams-exceeds-configured", "%s advertised initial_max_streams_%s=%d in its transport parameters but is configured for at most %d simultaneous remote streams", ev.Side, c21TypeName(typ), lim[typ], w.eff[side][typ])
					}
				}
			case -1:
				w.tpFailed[side] = true
			}
		case f.Kind == "max_streams":
			typ := c21Bidi
			if f.StreamType == uniStream {
				typ = c21Uni
			}
			if !ev.Sent {
				w.maxProcessed++
				if f.Max <= sh.localMax[typ] {
					w.staleMax++
				}
				sh.localMax[typ] = max(sh.localMax[typ], f.Max)
				continue
			}
			w.maxSent++
			if prev, ok := w.advertised(sh, typ); ok {
				if f.Max < prev {
					viol("max-streams-decreased", "%s sent MAX_STREAMS(%s)=%d in packet %d after having advertised %d", ev.Side, c21TypeName(typ), f.Max, ev.Num, prev)
				}
				if f.Max > prev {
					w.maxRaised++
				}
			}
			closed := w.appClosed[side][typ].Load()
			if f.Max > closed+w.eff[side][typ] {
				viol("max-streams-exceeds-closed-plus-configured", "%s sent MAX_STREAMS(%s)=%d in packet %d, but its application has fully closed only %d peer-initiated %s streams and it is configured for at most %d simultaneously open ones (would allow %d open)", ev.Side, c21TypeName(typ), f.Max, ev.Num, closed, c21TypeName(typ), w.eff[side][typ], f.Max-closed)
			}
			if f.Max == closed+w.eff[side][typ] {
				w.zeroSlack++
			}
			sh.advSent[typ] = max(sh.advSent[typ], f.Max)
			sh.advSentSet[typ] = true
		case f.Kind == "connection_close":
			if ev.Sent && f.Code == c21StreamLimitError {
				sh.sentLimitCC = true
			}
		case c21StreamFrameKinds[f.Kind]:
			server, typ, num := c21Split(f.ID)
			local := server == (side == 1)
			if ev.Sent && local {
				lim, ok := w.localLimit(sh, typ)
				if !ok {
					w.skippedUnknown++
					continue
				}
				w.localChecked++
				if num >= lim {
					viol("local-stream-beyond-peer-max-streams", "%s sent %s for its own %s stream number %d (id %d) in packet %d, but the largest stream limit it had processed is %d (initial parameter %d)", ev.Side, f.Kind, c21TypeName(typ), num, f.ID, ev.Num, lim, w.tp[1-side][typ])
				}
				if num == lim-1 {
					w.localAtLimit++
				}
				if num >= w.tp[1-side][typ] {
					w.localBeyondInitial++
				}
			}
			if !ev.Sent && !local && f.Kind != "stream_data_blocked" {
				adv, ok := w.advertised(sh, typ)
				if !ok {
					w.skippedUnknown++
					continue
				}
				w.peerFrames++
				if num >= adv {
					if sh.beyond == "" {
						sh.beyond = fmt.Sprintf("%s processed %s for peer %s stream number %d in packet %d although it had only advertised %d", ev.Side, f.Kind, c21TypeName(typ), num, ev.Num, adv)
					}
					continue
				}
				if num > sh.peerOpened[typ] {
					w.implicit++ // lower-numbered streams are opened implicitly (reordered arrival)
				}
				sh.peerOpened[typ] = max(sh.peerOpened[typ], num+1)
				if closed := w.appClosed[side][typ].Load(); sh.beyond == "" && sh.peerOpened[typ]-closed > w.eff[side][typ] {
					viol("peer-holds-more-open-streams-than-configured", "%s: peer has opened %d %s streams, the application has fully closed %d: %d simultaneously open > configured %d", ev.Side, sh.peerOpened[typ], c21TypeName(typ), closed, sh.peerOpened[typ]-closed, w.eff[side][typ])
				}
			}
		}
	}
}

// sideLimits returns, for the application-level checks, the largest local limit processed and
// the largest limit advertised by any connection of side (there is normally exactly one).
func (w *c21Wire) sideLimits(side, typ int) (local, adv int64, ok bool) {
	if !w.tpKnown[0] || !w.tpKnown[1] {
		return 0, 0, false
	}
	local, adv = w.tp[1-side][typ], w.tp[side][typ]
	for _, sh := range w.conns {
		if sh.side != side {
			continue
		}
		local = max(local, sh.localMax[typ])
		if sh.advSentSet[typ] {
			adv = max(adv, sh.advSent[typ])
		}
	}
	return local, adv, true
}

// c21HalfClosedForever counts (white box, diagnostics only) the peer-initiated streams of c
// whose read side the application has closed while the final size is still unknown: at
// quiescence those can never reach the "closed" state, so their stream credit is never
// returned to the peer. Not a C21 verdict; it explains runs that end with NewStream blocked.
func c21HalfClosedForever(c *Conn) (n int) {
	var ss []*Stream
	c.runOnLoop(context.Background(), func(now time.Time, c *Conn) {
		for id, ms := range c.streams.streams {
			if ms.s != nil && id.initiator() != c.side {
				ss = append(ss, ms.s)
			}
		}
	})
	for _, s := range ss {
		s.ingate.lock()
		if s.inclosed.isSet() && s.insize == -1 && s.inresetcode == -1 {
			n++
		}
		s.inUnlock()
	}
	return n
}

// ---- (a) lossy workload ----

type c21LossyCase struct {
	Faults     vlpFaults   `json:"faults"`
	Cfg        [2][2]int64 `json:"max_remote_cfg"` // [client,server][bidi,uni]: Config.Max{Bidi,Uni}RemoteStreams
	Want       [2][2]int   `json:"want"`           // streams each side tries to open, per type
	Workers    int         `json:"workers"`
	FaultPhase int         `json:"fault_phase_ms"`
	Retry      bool        `json:"retry"`
	NetSeed    uint64      `json:"net_seed"`
}

type c21LossyResult struct {
	HandshakeErr error
	Stuck        bool
	Wire         *c21Wire
	Opened       [2][2]int64
	Accepted     [2][2]int64
	AppClosed    [2][2]int64
	OpenedAfter  int64 // NewStream results with a number at/above the peer's initial limit
	ZeroBlocked  int64 // NewStream calls that stayed blocked for the whole run against a zero limit
	VirtualMs    int64
	Dropped      int64
	StuckDump    string
}

// c21Tracked counts the moment the application has closed both directions of a peer stream:
// the counter is bumped BEFORE the call that completes it, so it is never behind the
// implementation's own count of closed peer streams.
type c21Tracked struct {
	s            *Stream
	readOnly     bool
	in, out, cnt bool
	ctr          *atomic.Int64
}

func (t *c21Tracked) mark(in, out bool) {
	t.in = t.in || in
	t.out = t.out || out
	if t.in && (t.out || t.readOnly) && !t.cnt {
		t.cnt = true
		t.ctr.Add(1)
	}
}
func (t *c21Tracked) closeRead()  { t.mark(true, false); t.s.CloseRead() }
func (t *c21Tracked) closeWrite() { t.mark(false, true); t.s.CloseWrite() }
func (t *c21Tracked) reset(c uint64) {
	t.mark(false, true)
	t.s.Reset(c)
}
func (t *c21Tracked) close() error { t.mark(true, true); return t.s.Close() }

func c21RunLossy(lc *c21LossyCase, viol vlpViolFunc) *c21LossyResult {
	res := &c21LossyResult{}
	var eff [2][2]int64
	for s := 0; s < 2; s++ {
		for t := 0; t < 2; t++ {
			eff[s][t] = c21Eff(lc.Cfg[s][t])
		}
	}
	p, err := vlpNewEndpoints(lc.NetSeed, lc.Faults,
		vlpMkConf([3]int64{}, lc.Cfg[0][c21Bidi], lc.Cfg[0][c21Uni], false),
		vlpMkConf([3]int64{}, lc.Cfg[1][c21Bidi], lc.Cfg[1][c21Uni], lc.Retry))
	if err != nil {
		res.HandshakeErr = err
		return res
	}
	var appClosed [2][2]atomic.Int64
	wire := c21NewWire(eff, &appClosed)
	res.Wire = wire
	p.Tap.Observe(func(ev *vlpEvent) { wire.observe(ev, viol) })
	start := time.Now()

	ctx, cancel := context.WithCancel(context.Background())
	defer cancel()
	hctx, hcancel := context.WithTimeout(ctx, 200*time.Second)
	err = p.vlpConnect(hctx)
	hcancel()
	if err != nil {
		res.HandshakeErr = err
		p.vlpClose()
		return res
	}
	conns := [2]*Conn{p.Cli, p.Srv}

	var wg verifrt.WG
	var pending atomic.Int64
	var opened, accepted [2][2]atomic.Int64
	var openedAfter atomic.Int64
	var seen sync.Map // stream id -> "opened"/"accepted" bookkeeping
	sleep := func(d time.Duration) {
		select {
		case <-time.After(d):
		case <-ctx.Done():
		}
	}
	payload := make([]byte, 4096)
	var stage sync.Map // what every unfinished application goroutine is doing (diagnostics of unfinished runs)

	initiator := func(s *Stream, rng *rand.Rand, bidi bool) {
		defer wg.Done()
		defer pending.Add(-1)
		s.SetReadContext(ctx)
		s.SetWriteContext(ctx)
		n := []int{0, 0, 1, 20, 300, 3000}[rng.IntN(6)]
		mode := rng.IntN(5)
		key := fmt.Sprintf("initiator of stream %d mode %d bytes %d", s.ID(), mode, n)
		stage.Store(key, "writing")
		defer stage.Delete(key)
		if mode == 4 && bidi {
			s.CloseRead()
		}
		if n > 0 {
			s.Write(payload[:n])
		}
		switch mode {
		case 1:
			s.CloseWrite()
			if bidi {
				io.Copy(io.Discard, s)
			}
		case 2:
			s.Flush()
			s.Reset(uint64(rng.IntN(1000)))
		case 3:
			s.Flush()
			sleep(time.Duration(rng.IntN(400)) * time.Millisecond)
		}
		stage.Store(key, "in Close")
		s.Close()
	}

	acceptor := func(side int, s *Stream, rng *rand.Rand, typ int) {
		defer wg.Done()
		defer pending.Add(-1)
		s.SetReadContext(ctx)
		s.SetWriteContext(ctx)
		bidi := typ == c21Bidi
		tr := &c21Tracked{s: s, readOnly: !bidi, ctr: &appClosed[side][typ]}
		hold := time.Duration([]int{0, 0, 0, 5, 50, 300, 2000}[rng.IntN(7)]) * time.Millisecond
		reply := func() {
			if bidi {
				if n := []int{0, 1, 200}[rng.IntN(3)]; n > 0 {
					s.Write(payload[:n])
				}
			}
		}
		mode := rng.IntN(20)
		key := fmt.Sprintf("%s acceptor of stream %d mode %d", c21SideName(side), s.ID(), mode)
		stage.Store(key, "running")
		defer stage.Delete(key)
		switch {
		case mode < 12: // read to the end, answer, hold the stream for a while, close
			io.Copy(io.Discard, s)
			reply()
			sleep(hold)
			tr.close()
		case mode < 14: // close without reading
			sleep(hold)
			tr.close()
		case mode < 17: // stop reading first, answer, then finish the write side
			tr.closeRead()
			reply()
			sleep(hold)
			if bidi {
				tr.closeWrite()
			}
		default: // reset the write side, read to the end, then stop reading
			if bidi {
				tr.reset(uint64(rng.IntN(1000)))
			}
			io.Copy(io.Discard, s)
			sleep(hold)
			tr.closeRead()
		}
	}

	// accept loops
	for side := 0; side < 2; side++ {
		wg.Add(1)
		go func(side int) {
			defer wg.Done()
			for {
				s, err := conns[side].AcceptStream(ctx)
				if err != nil {
					return
				}
				id := s.ID()
				server, typ, num := c21Split(id)
				if server == (side == 1) {
					viol("accepted-own-stream", "%s AcceptStream returned stream id %d, which it would have initiated itself", c21SideName(side), id)
					continue
				}
				if _, dup := seen.LoadOrStore([2]int64{int64(side), id}, true); dup {
					viol("stream-accepted-twice", "%s AcceptStream returned stream id %d twice", c21SideName(side), id)
					continue
				}
				p.Tap.mu.Lock()
				_, adv, ok := wire.sideLimits(side, typ)
				p.Tap.mu.Unlock()
				if ok && num >= adv {
					viol("accepted-stream-beyond-advertised-limit", "%s AcceptStream returned %s stream number %d (id %d) although it has advertised a limit of only %d", c21SideName(side), c21TypeName(typ), num, id, adv)
				}
				accepted[side][typ].Add(1)
				pending.Add(1)
				wg.Add(1)
				go acceptor(side, s, rand.New(rand.NewPCG(lc.NetSeed^0xacce, uint64(id))), typ)
			}
		}(side)
	}

	// openers
	var zeroWorkers [2][2]int
	for side := 0; side < 2; side++ {
		for typ := 0; typ < 2; typ++ {
			want := int64(lc.Want[side][typ])
			if want == 0 {
				continue
			}
			zero := eff[1-side][typ] == 0 // the peer allows no streams of this type: every call must block for ever
			var next atomic.Int64
			for w := 0; w < lc.Workers; w++ {
				if zero {
					zeroWorkers[side][typ]++
				} else {
					pending.Add(1)
				}
				wg.Add(1)
				go func(side, typ int) {
					defer wg.Done()
					if !zero {
						defer pending.Add(-1)
					}
					for {
						i := next.Add(1) - 1
						if i >= want {
							return
						}
						var s *Stream
						var err error
						if typ == c21Bidi {
							s, err = conns[side].NewStream(ctx)
						} else {
							s, err = conns[side].NewSendOnlyStream(ctx)
						}
						if err != nil {
							return // context cancelled at the end of the run, or connection closed
						}
						id := s.ID()
						server, styp, num := c21Split(id)
						if server != (side == 1) || styp != typ {
							viol("newstream-wrong-id", "%s NewStream(%s) returned stream id %d", c21SideName(side), c21TypeName(typ), id)
						}
						if _, dup := seen.LoadOrStore([2]int64{int64(side), id}, true); dup {
							viol("newstream-duplicate-id", "%s NewStream returned stream id %d twice", c21SideName(side), id)
						}
						p.Tap.mu.Lock()
						lim, _, ok := wire.sideLimits(side, styp)
						initial := wire.tp[1-side][styp]
						p.Tap.mu.Unlock()
						if ok && num >= lim {
							viol("newstream-returned-beyond-processed-limit", "%s NewStream returned %s stream number %d (id %d) although the largest limit it has processed from the peer is %d", c21SideName(side), c21TypeName(styp), num, id, lim)
						}
						if ok && num >= initial {
							openedAfter.Add(1)
						}
						opened[side][typ].Add(1)
						pending.Add(1)
						wg.Add(1)
						go initiator(s, rand.New(rand.NewPCG(lc.NetSeed^0x1717, uint64(id))), typ == c21Bidi)
					}
				}(side, typ)
			}
		}
	}

	// The run ends when every application goroutine has finished, or when nothing has moved
	// for 120 virtual seconds on the clean network (NewStream callers can stay blocked for
	// ever, see the note on leaked stream credit in the evidence); never on wall-clock time.
	progress := func() [4]int64 {
		var v [4]int64
		for s := 0; s < 2; s++ {
			for t := 0; t < 2; t++ {
				v[0] += opened[s][t].Load()
				v[1] += accepted[s][t].Load()
				v[2] += appClosed[s][t].Load()
			}
		}
		v[3] = pending.Load()
		return v
	}
	waitIdle := func(d time.Duration) bool {
		deadline := time.Now().Add(d)
		for time.Now().Before(deadline) {
			time.Sleep(20 * time.Millisecond)
			if pending.Load() == 0 {
				return true
			}
		}
		return pending.Load() == 0
	}
	waitIdle(time.Duration(lc.FaultPhase) * time.Millisecond)
	p.Net.clean.Store(true)
	last, lastChange := progress(), time.Now()
	for {
		if waitIdle(3 * time.Second) {
			time.Sleep(3 * time.Second) // streams whose initiator is already done may still be on their way
			if pending.Load() == 0 {
				break
			}
		}
		if cur := progress(); cur != last {
			last, lastChange = cur, time.Now()
		} else if time.Since(lastChange) >= 120*time.Second {
			res.Stuck = true
			break
		}
	}
	res.VirtualMs = time.Since(start).Milliseconds()
	if res.Stuck {
		var d []string
		stage.Range(func(k, v any) bool {
			d = append(d, fmt.Sprintf("%v: %v", k, v))
			return len(d) < 12
		})
		sort.Strings(d)
		res.StuckDump = fmt.Sprintf("pending=%d (peer streams read-closed before their final size arrived, never finished: client %d, server %d): %s", pending.Load(), c21HalfClosedForever(p.Cli), c21HalfClosedForever(p.Srv), strings.Join(d, "; "))
	}

	// NewStream against a zero limit: still blocked after everything else has finished.
	for side := 0; side < 2; side++ {
		for typ := 0; typ < 2; typ++ {
			if zeroWorkers[side][typ] == 0 {
				continue
			}
			if n := opened[side][typ].Load(); n != 0 {
				viol("newstream-returned-at-zero-limit", "%s opened %d %s streams although the peer is configured to allow none", c21SideName(side), n, c21TypeName(typ))
			} else {
				res.ZeroBlocked += int64(zeroWorkers[side][typ])
			}
		}
	}
	cancel()
	p.vlpClose()
	wg.Wait()
	p.Tap.mu.Lock()
	for _, sh := range wire.conns {
		if sh.beyond != "" && !sh.sentLimitCC {
			viol("beyond-limit-open-not-rejected", "%s, and it never sent CONNECTION_CLOSE(STREAM_LIMIT_ERROR)", sh.beyond)
		}
	}
	p.Tap.mu.Unlock()
	for s := 0; s < 2; s++ {
		for t := 0; t < 2; t++ {
			res.Opened[s][t] = opened[s][t].Load()
			res.Accepted[s][t] = accepted[s][t].Load()
			res.AppClosed[s][t] = appClosed[s][t].Load()
		}
	}
	res.OpenedAfter = openedAfter.Load()
	res.Dropped = p.Net.Dropped[0] + p.Net.Dropped[1]
	return res
}

func c21GenLossy(rng *rand.Rand) *c21LossyCase {
	lc := &c21LossyCase{Faults: vlpGenFaults(rng), Workers: 1 + rng.IntN(4),
		FaultPhase: []int{200, 2000, 20000}[rng.IntN(3)], Retry: rng.IntN(8) == 0}
	for s := 0; s < 2; s++ {
		for t := 0; t < 2; t++ {
			lc.Cfg[s][t] = []int64{-1, 1, 1, 2, 3, 3, 5, 10, 0, 100, 150}[rng.IntN(11)]
		}
	}
	for s := 0; s < 2; s++ {
		for t := 0; t < 2; t++ {
			switch rng.IntN(8) {
			case 0:
				lc.Want[s][t] = 0
			case 1:
				lc.Want[s][t] = 105 + rng.IntN(120)
			default:
				lc.Want[s][t] = 1 + rng.IntN(40)
			}
		}
	}
	lc.NetSeed = rng.Uint64()
	return lc
}

// ---- scripted-peer helpers ----

// c21FrameStream returns the stream id a frame names.
func c21FrameStream(f debugFrame) (id int64, kind string, ok bool) {
	switch f := f.(type) {
	case debugFrameStream:
		return int64(f.id), "stream", true
	case debugFrameResetStream:
		return int64(f.id), "reset_stream", true
	case debugFrameStopSending:
		return int64(f.id), "stop_sending", true
	case debugFrameMaxStreamData:
		return int64(f.id), "max_stream_data", true
	case debugFrameStreamDataBlocked:
		return int64(f.id), "stream_data_blocked", true
	}
	return 0, "", false
}

// c21Peer wraps a testConn: it remembers the 1-RTT packet numbers the Conn really sent, so
// that acknowledgements never name a number that was not sent.
type c21Peer struct {
	tc   *testConn
	seen map[int64]bool
}

func (p *c21Peer) drain() []debugFrame {
	var out []debugFrame
	for _, pk := range vlpReadPackets(p.tc) {
		if pk.ptype == packetType1RTT {
			p.seen[int64(pk.num)] = true
		}
		out = append(out, pk.frames...)
	}
	return out
}

func (p *c21Peer) ackAll() {
	if len(p.seen) == 0 {
		return
	}
	var nums []int64
	for n := range p.seen {
		nums = append(nums, n)
	}
	sort.Slice(nums, func(i, j int) bool { return nums[i] < nums[j] })
	var rs []i64range[packetNumber]
	for _, n := range nums {
		if k := len(rs); k > 0 && rs[k-1].end == packetNumber(n) {
			rs[k-1].end++
		} else {
			rs = append(rs, i64range[packetNumber]{packetNumber(n), packetNumber(n) + 1})
		}
	}
	p.tc.writeFrames(packetType1RTT, debugFrameAck{ranges: rs})
}

func c21STyp(typ int) streamType {
	if typ == c21Uni {
		return uniStream
	}
	return bidiStream
}

// c21TapInitial installs a qlog tap on a scripted testConn and reads the initial_max_streams_*
// parameters the Conn under test really put on the wire (from its CRYPTO frames).
func c21TapInitial(side connSide) (opt func(*Config), get func() ([2]int64, bool)) {
	tap := vlpNewTap()
	var cr c21Crypto
	var lim [2]int64
	state := 0
	want, name := initialSpace, "client"
	if side == serverSide {
		want, name = handshakeSpace, "server"
	}
	tap.Observe(func(ev *vlpEvent) {
		if !ev.Sent || ev.Space != want || state != 0 {
			return
		}
		for i := range ev.Frames {
			if f := &ev.Frames[i]; f.Kind == "crypto" && state == 0 {
				lim, state = c21InitialMaxStreams(cr.add(f.Off, f.Data))
			}
		}
	})
	opt = func(cf *Config) { cf.QLogLogger = slog.New(&vlpHandler{tap: tap, side: name}) }
	get = func() ([2]int64, bool) {
		tap.mu.Lock()
		defer tap.mu.Unlock()
		return lim, state == 1
	}
	return opt, get
}

// ---- the monitor ----

func TestVerif_C21(t *testing.T) {
	r := verifrt.Start(t, "C21")
	defer r.Finish()
	r.ExitIfAbnormal()
	r.SetRule("(a) lossy runs: both applications open 0-225 tiny streams per type through 1-4 concurrent NewStream callers and close accepted streams in PRNG order/after PRNG holds, MaxBidi/UniRemoteStreams drawn from {0,1,2,3,5,10,100,150}, PRNG loss/dup/reorder; per-connection shadow on the qlog tap: every frame naming an own stream has number < largest limit that connection had processed (initial_max_streams read independently from the TLS CRYPTO stream, MAX_STREAMS from its packet_received events), MAX_STREAMS sent never decrease and never exceed (peer streams the application has fully closed) + configured limit, AcceptStream/NewStream results inside the limits. (b) scripted peer limits: NewStream must be blocked at quiescence exactly when opened == largest MAX_STREAMS sent so far, MAX_STREAMS in any order (stale, equal, larger). (c) scripted peer opens streams (STREAM/RESET_STREAM/STOP_SENDING/MAX_STREAM_DATA/STREAM_DATA_BLOCKED, next/skipping/boundary/beyond, several per packet), application closes in PRNG order: a frame naming number >= limit sent so far must be answered by CONNECTION_CLOSE(STREAM_LIMIT_ERROR), anything below must not. non-trivial: (a) >=1 stream opened beyond the initial limit after a MAX_STREAMS and >=1 MAX_STREAMS sent; (b) >=1 call observed blocked and >=1 unblocked by MAX_STREAMS; (c) history with >=1 MAX_STREAMS raise or a beyond-limit probe. distinct by counters / op log")
	r.Assume("qlog tap reports the frames of every packet a connection sends/processes, in the connection loop's own order; frames are decoded by the package's own qlog frame decoder (codec checked by C28)")
	r.Assume("Config.Max{Bidi,Uni}RemoteStreams: 0 means 100, negative means 0 (doc comment)")

	var mu sync.Mutex
	phaseStart := time.Now() // wall clock, reported in a note only
	n := r.N(60, 3000)
	r.CasesParallel("lossy-limits", n, 8, func(c *verifrt.Case) {
		lc := c21GenLossy(c.Rng)
		c.Describe(lc)
		var res *c21LossyResult
		synctest.Test(t, func(t *testing.T) {
			res = c21RunLossy(lc, c.Violation)
		})
		if res.HandshakeErr != nil {
			r.Event("handshake_failed", 1)
			r.Note("lossy case %d: handshake failed: %v", c.Index, res.HandshakeErr)
			return
		}
		w := res.Wire
		mu.Lock()
		defer mu.Unlock()
		var op, ac, cl int64
		for s := 0; s < 2; s++ {
			for t := 0; t < 2; t++ {
				op += res.Opened[s][t]
				ac += res.Accepted[s][t]
				cl += res.AppClosed[s][t]
			}
		}
		r.Eval(res.OpenedAfter > 0 && w.maxSent > 0, "lossy", op, ac, cl, w.maxSent, w.maxRaised, w.localAtLimit, res.OpenedAfter)
		r.Event("lossy_runs", 1)
		if res.Stuck {
			r.Event("lossy_runs_ended_with_newstream_still_blocked", 1)
			r.Note("lossy case %d: no progress for 120 virtual s with callers still pending (cfg %v want %v opened %v accepted %v closed %v) %s", c.Index, lc.Cfg, lc.Want, res.Opened, res.Accepted, res.AppClosed, res.StuckDump)
		} else {
			r.Event("lossy_runs_completed", 1)
		}
		if w.tpKnown[0] && w.tpKnown[1] {
			r.Event("lossy_runs_transport_params_read_off_the_wire", 1)
		}
		r.Event("lossy_streams_opened", op)
		r.Event("lossy_streams_accepted", ac)
		r.Event("lossy_peer_streams_fully_closed_by_app", cl)
		r.Event("lossy_newstream_returned_beyond_initial_limit", res.OpenedAfter)
		r.Event("lossy_newstream_blocked_whole_run_at_zero_limit", res.ZeroBlocked)
		r.Event("lossy_local_stream_frames_checked", w.localChecked)
		r.Event("lossy_local_stream_frames_at_limit_minus_one", w.localAtLimit)
		r.Event("lossy_local_stream_frames_beyond_initial_limit", w.localBeyondInitial)
		r.Event("lossy_peer_stream_frames_checked", w.peerFrames)
		r.Event("lossy_peer_frames_opening_lower_streams_implicitly", w.implicit)
		r.Event("lossy_max_streams_sent_checked", w.maxSent)
		r.Event("lossy_max_streams_sent_raising", w.maxRaised)
		r.Event("lossy_max_streams_sent_with_zero_slack", w.zeroSlack)
		r.Event("lossy_max_streams_processed", w.maxProcessed)
		r.Event("lossy_max_streams_processed_stale", w.staleMax)
		r.Event("lossy_checks_skipped_params_unknown", w.skippedUnknown)
		r.Event("lossy_datagrams_dropped", res.Dropped)
		if c.Index < 2 {
			r.Sample(map[string]any{"kind": "lossy", "cfg": lc.Cfg, "want": lc.Want, "opened": res.Opened, "accepted": res.Accepted, "app_closed": res.AppClosed,
				"max_streams_sent": w.maxSent, "raising": w.maxRaised, "frames_checked": w.localChecked, "at_limit": w.localAtLimit, "virtual_ms": res.VirtualMs, "ended_blocked": res.Stuck})
		}
	})

	r.Note("wall time of lossy-limits: %.1fs", time.Since(phaseStart).Seconds())
	phaseStart = time.Now()

	// (b) local limits against a scripted peer
	m := r.N(300, 15000)
	r.Cases("scripted-local", m, func(c *verifrt.Case) {
		side := []connSide{clientSide, serverSide}[c.Rng.IntN(2)]
		pickInit := func() int64 { return []int64{0, 0, 1, 2, 3, 7, 100, 1 << 60}[c.Rng.IntN(8)] }
		init := [2]int64{pickInit(), pickInit()}
		steps := 5 + c.Rng.IntN(40)
		var log []string
		desc := map[string]any{"side": fmt.Sprint(side), "initial_max_streams": init, "steps": steps}
		c.Describe(desc)
		var blockedSeen, unblockedSeen, okOpens, frames int64
		synctest.Test(t, func(t *testing.T) {
			tc := vlpScripted(t, side, permissiveTransportParameters, func(p *transportParameters) {
				p.initialMaxStreamsBidi = init[c21Bidi]
				p.initialMaxStreamsUni = init[c21Uni]
			})
			peer := &c21Peer{tc: tc, seen: map[int64]bool{}}
			curMax := init
			var opened [2]int64
			var pend [2][]*asyncOp[*Stream]
			var open []*Stream
			ids := map[int64]bool{}
			dead := false
			settle := func(why string) {
				synctest.Wait()
				for typ := 0; typ < 2; typ++ {
					var still []*asyncOp[*Stream]
					expect := min(int64(len(pend[typ])), max(0, curMax[typ]-opened[typ]))
					var done int64
					for _, a := range pend[typ] {
						s, err := a.result()
						if err == errNotDone {
							still = append(still, a)
							continue
						}
						done++
						if err != nil {
							c.Violation("newstream-error", "after %s: NewStream(%s) failed: %v (log %v)", why, c21TypeName(typ), err, log)
							continue
						}
						server, styp, num := c21Split(s.ID())
						if server != (side == serverSide) || styp != typ {
							c.Violation("newstream-wrong-id", "NewStream(%s) on the %v returned id %d", c21TypeName(typ), side, s.ID())
						}
						if ids[s.ID()] {
							c.Violation("newstream-duplicate-id", "NewStream returned id %d twice (log %v)", s.ID(), log)
						}
						ids[s.ID()] = true
						if num >= curMax[typ] {
							c.Violation("newstream-returned-beyond-limit", "after %s: NewStream returned %s stream number %d, the largest limit the peer ever sent is %d (log %v)", why, c21TypeName(typ), num, curMax[typ], log)
						}
						s.SetWriteContext(canceledContext())
						s.SetReadContext(canceledContext())
						open = append(open, s)
						opened[typ]++
						okOpens++
					}
					if done < expect {
						c.Violation("newstream-blocked-below-limit", "after %s: %d NewStream(%s) calls are pending with opened=%d and limit=%d, only %d returned at quiescence (log %v)", why, len(pend[typ]), c21TypeName(typ), opened[typ]-done, curMax[typ], done, log)
					}
					if strings.HasPrefix(why, "max_streams") {
						unblockedSeen += done
					}
					blockedSeen += int64(len(still))
					pend[typ] = still
				}
				for _, f := range peer.drain() {
					if id, kind, ok := c21FrameStream(f); ok {
						server, typ, num := c21Split(id)
						if server == (side == serverSide) {
							frames++
							if num >= curMax[typ] {
								c.Violation("local-stream-beyond-peer-max-streams", "after %s: Conn sent %s for its own %s stream number %d, the largest limit the peer ever sent is %d (log %v)", why, kind, c21TypeName(typ), num, curMax[typ], log)
							}
						}
					}
					switch f := f.(type) {
					case debugFrameConnectionCloseTransport:
						c.Violation("unexpected-connection-close", "after %s: CONNECTION_CLOSE %v %q (log %v)", why, f.code, f.reason, log)
						dead = true
					}
				}
			}
			for i := 0; i < steps && !dead; i++ {
				typ := c.Rng.IntN(2)
				switch op := c.Rng.IntN(10); {
				case op < 4: // open
					log = append(log, "open-"+c21TypeName(typ))
					a := runAsync(tc, func(ctx context.Context) (*Stream, error) {
						if typ == c21Bidi {
							return tc.conn.NewStream(ctx)
						}
						return tc.conn.NewSendOnlyStream(ctx)
					})
					pend[typ] = append(pend[typ], a)
					settle("open")
				case op < 7: // MAX_STREAMS
					cur := curMax[typ]
					v := cur + int64(c.Rng.IntN(4))
					switch c.Rng.IntN(8) {
					case 0:
						v = max(0, cur-1-int64(c.Rng.IntN(3)))
					case 1:
						v = 0
					case 2:
						v = cur + int64(c.Rng.IntN(30))
					case 3:
						if c.Rng.IntN(6) == 0 {
							v = 1 << 60
						}
					}
					v = min(v, 1<<60)
					log = append(log, fmt.Sprintf("max_streams-%s=%d", c21TypeName(typ), v))
					tc.writeFrames(packetType1RTT, debugFrameMaxStreams{streamType: c21STyp(typ), max: v})
					if v < cur {
						r.Event("local_stale_max_streams_sent_by_peer", 1)
					}
					curMax[typ] = max(cur, v)
					settle(fmt.Sprintf("max_streams(%s)=%d", c21TypeName(typ), v))
				case op < 9: // use or finish a stream: closing local streams frees no quota
					if len(open) == 0 {
						continue
					}
					k := c.Rng.IntN(len(open))
					s := open[k]
					switch c.Rng.IntN(4) {
					case 0:
						log = append(log, fmt.Sprintf("write-%d", s.ID()))
						s.Write(make([]byte, 1+c.Rng.IntN(100)))
						s.Flush()
					case 1:
						log = append(log, fmt.Sprintf("close-%d", s.ID()))
						s.Close()
						open = append(open[:k], open[k+1:]...)
					case 2:
						log = append(log, fmt.Sprintf("reset-%d", s.ID()))
						s.Reset(3)
					case 3:
						log = append(log, fmt.Sprintf("closeread-%d", s.ID()))
						s.CloseRead()
					}
					settle("stream-op")
					if c.Rng.IntN(2) == 0 {
						peer.ackAll()
						settle("ack")
					}
				default: // cancel a blocked call
					if len(pend[typ]) == 0 {
						continue
					}
					k := c.Rng.IntN(len(pend[typ]))
					a := pend[typ][k]
					log = append(log, "cancel-"+c21TypeName(typ))
					a.cancel()
					if s, err := a.result(); err == nil {
						c.Violation("cancelled-newstream-returned-stream", "a NewStream call blocked at the limit returned stream %d after its context was cancelled (limit %d, opened %d)", s.ID(), curMax[typ], opened[typ])
					}
					pend[typ] = append(pend[typ][:k], pend[typ][k+1:]...)
					settle("cancel")
				}
			}
			for typ := 0; typ < 2; typ++ {
				for _, a := range pend[typ] {
					a.cancel()
				}
			}
		})
		desc["log"] = log
		r.Event("local_opens_returned", okOpens)
		r.Event("local_opens_observed_blocked_at_quiescence", blockedSeen)
		r.Event("local_opens_unblocked_by_max_streams", unblockedSeen)
		r.Event("local_stream_frames_checked", frames)
		r.Eval(blockedSeen > 0 && unblockedSeen > 0, "local", strings.Join(log, ","))
		if c.Index < 2 {
			r.Sample(map[string]any{"kind": "scripted-local", "initial": init, "log": log})
		}
	})

	r.Note("wall time of scripted-local: %.1fs", time.Since(phaseStart).Seconds())
	phaseStart = time.Now()

	// (c) remote limits against a scripted peer
	m = r.N(400, 20000)
	r.Cases("scripted-remote", m, func(c *verifrt.Case) {
		side := []connSide{clientSide, serverSide}[c.Rng.IntN(2)]
		pickCfg := func() int64 { return []int64{-1, 1, 1, 2, 3, 3, 5, 8, 10, 50, 0, 100, 150, 250, 1000}[c.Rng.IntN(15)] }
		cfg := [2]int64{pickCfg(), pickCfg()}
		eff := [2]int64{c21Eff(cfg[0]), c21Eff(cfg[1])}
		steps := 6 + c.Rng.IntN(50)
		finalProbe := c.Rng.IntN(10) < 7
		var log []string
		desc := map[string]any{"side": fmt.Sprint(side), "max_remote_cfg": cfg, "steps": steps}
		c.Describe(desc)
		var raises, rejected, within, acceptedN, closedN, implicit int64
		synctest.Test(t, func(t *testing.T) {
			tapOpt, sentInitial := c21TapInitial(side)
			tc := vlpScripted(t, side, permissiveTransportParameters, tapOpt, func(cf *Config) {
				cf.MaxBidiRemoteStreams = cfg[c21Bidi]
				cf.MaxUniRemoteStreams = cfg[c21Uni]
			})
			peer := &c21Peer{tc: tc, seen: map[int64]bool{}}
			adv, ok := sentInitial()
			if !ok {
				r.Event("remote_transport_params_unreadable", 1)
				return
			}
			for typ := 0; typ < 2; typ++ {
				if adv[typ] > eff[typ] {
					c.Violation("initial-max-streams-exceeds-configured", "Conn advertised initial_max_streams_%s=%d but is configured for at most %d", c21TypeName(typ), adv[typ], eff[typ])
				}
			}
			type rstream struct {
				typ      int
				num      int64
				s        *Stream
				tr       *c21Tracked
				dataLen  int64
				peerDone bool
				real     bool // named by some frame of the peer (STREAM_DATA_BLOCKED included: RFC 9000 §3.2)
			}
			streams := map[[2]int64]*rstream{}
			var order []*rstream
			var opened [2]int64
			var appClosed [2]atomic.Int64
			dead := false
			peerServer := side == clientSide

			drain := func(why string) (closed bool, code uint64, reason string) {
				for _, f := range peer.drain() {
					switch f := f.(type) {
					case debugFrameMaxStreams:
						typ := c21Bidi
						if f.streamType == uniStream {
							typ = c21Uni
						}
						if f.max < adv[typ] {
							c.Violation("max-streams-decreased", "after %s: Conn sent MAX_STREAMS(%s)=%d after having advertised %d (log %v)", why, c21TypeName(typ), f.max, adv[typ], log)
						}
						if cl := appClosed[typ].Load(); f.max > cl+eff[typ] {
							c.Violation("max-streams-exceeds-closed-plus-configured", "after %s: Conn sent MAX_STREAMS(%s)=%d; application has fully closed %d peer streams, configured limit %d (log %v)", why, c21TypeName(typ), f.max, cl, eff[typ], log)
						}
						if f.max > adv[typ] {
							raises++
							adv[typ] = f.max
						}
					case debugFrameConnectionCloseTransport:
						closed, code, reason = true, uint64(f.code), f.reason
					case debugFrameConnectionCloseApplication:
						closed, code, reason = true, 1<<62, "application close: "+f.reason
					}
				}
				return
			}

			type named struct {
				typ  int
				num  int64
				kind string
			}
			// frameFor builds a frame that names stream (typ,num) and is consistent with what the
			// scripted peer has already sent on that stream.
			frameFor := func(typ int, num int64) (debugFrame, named) {
				k := [2]int64{int64(typ), num}
				st := streams[k]
				if st == nil {
					st = &rstream{typ: typ, num: num}
				}
				id := streamID(c21ID(peerServer, typ, num))
				kinds := []string{"stream", "stream", "stream", "stream_fin", "reset_stream", "stream_data_blocked"}
				if typ == c21Bidi {
					kinds = append(kinds, "max_stream_data", "stop_sending")
				}
				kind := kinds[c.Rng.IntN(len(kinds))]
				if st.peerDone && (kind == "stream" || kind == "stream_fin") {
					kind = "reset_stream" // a repeated RESET_STREAM / one with the same final size is always consistent
				}
				var f debugFrame
				switch kind {
				case "stream", "stream_fin":
					n := int64([]int{0, 0, 1, 50}[c.Rng.IntN(4)])
					f = debugFrameStream{id: id, off: st.dataLen, data: make([]byte, n), fin: kind == "stream_fin"}
					st.dataLen += n
					if kind == "stream_fin" {
						st.peerDone = true
					}
					kind = "stream"
				case "reset_stream":
					f = debugFrameResetStream{id: id, code: 9, finalSize: st.dataLen}
					st.peerDone = true
				case "stream_data_blocked":
					f = debugFrameStreamDataBlocked{id: id, max: st.dataLen}
				case "max_stream_data":
					f = debugFrameMaxStreamData{id: id, max: int64(c.Rng.IntN(1 << 20))}
				case "stop_sending":
					f = debugFrameStopSending{id: id, code: 5}
				}
				st.real = true
				if streams[k] == nil {
					streams[k] = st
					order = append(order, st)
				}
				return f, named{typ, num, kind}
			}

			// send delivers one packet and applies the oracle.
			send := func(frames []debugFrame, names []named) {
				before := adv
				var parts []string
				for _, nm := range names {
					parts = append(parts, fmt.Sprintf("%s(%s#%d)", nm.kind, c21TypeName(nm.typ), nm.num))
				}
				why := "pkt[" + strings.Join(parts, " ") + "]"
				log = append(log, fmt.Sprintf("%s adv=%v", why, before))
				tc.writeFrames(packetType1RTT, frames...)
				closed, code, reason := drain(why)
				var beyond []named
				for _, nm := range names {
					if nm.num >= before[nm.typ] {
						beyond = append(beyond, nm)
					}
				}
				switch {
				case len(beyond) == 0 && closed:
					c.Violation("within-limit-frame-rejected", "%s: every stream number was below the limit sent so far (%v) but the Conn closed the connection with code %#x %q (log %v)", why, before, code, reason, log)
					dead = true
					return
				case len(beyond) > 0 && closed:
					dead = true
					if code != c21StreamLimitError {
						c.Violation("beyond-limit-wrong-error-code", "%s: stream number at/beyond the limit sent so far (%v): CONNECTION_CLOSE code %#x %q, want STREAM_LIMIT_ERROR (log %v)", why, before, code, reason, log)
						return
					}
					rejected++
					return
				case len(beyond) > 0 && !closed:
					for _, nm := range beyond {
						switch {
						case nm.kind == "stream_data_blocked":
							c.Violation("beyond-limit-frame-not-rejected:stream_data_blocked", "%s: STREAM_DATA_BLOCKED names %s stream number %d, the Conn had advertised only %d; no CONNECTION_CLOSE(STREAM_LIMIT_ERROR) (RFC 9000 §4.6, §3.2: STREAM_DATA_BLOCKED opens the stream) (log %v)", why, c21TypeName(nm.typ), nm.num, before[nm.typ], log)
						case nm.num < adv[nm.typ]:
							c.Violation("beyond-sent-limit-accepted-within-unsent-increase", "%s: %s names %s stream number %d while the largest limit the Conn had SENT was %d; it was accepted because an earlier frame in the same packet made the Conn raise its internal limit to %d before any MAX_STREAMS was sent (log %v)", why, nm.kind, c21TypeName(nm.typ), nm.num, before[nm.typ], adv[nm.typ], log)
						default:
							c.Violation("beyond-limit-frame-not-rejected:"+nm.kind, "%s: %s names %s stream number %d, the Conn had advertised only %d (now %d); no CONNECTION_CLOSE (log %v)", why, nm.kind, c21TypeName(nm.typ), nm.num, before[nm.typ], adv[nm.typ], log)
						}
					}
				}
				within++
				for _, nm := range names {
					if nm.kind == "stream_data_blocked" && nm.num >= before[nm.typ] {
						continue
					}
					if nm.num > opened[nm.typ] {
						implicit++
					}
					opened[nm.typ] = max(opened[nm.typ], nm.num+1)
				}
				if len(beyond) == 0 {
					for typ := 0; typ < 2; typ++ {
						if cl := appClosed[typ].Load(); opened[typ]-cl > eff[typ] {
							c.Violation("peer-holds-more-open-streams-than-configured", "%s: peer has opened %d %s streams within the advertised limit, application fully closed %d: %d open > configured %d (log %v)", why, opened[typ], c21TypeName(typ), cl, opened[typ]-cl, eff[typ], log)
						}
					}
				}
			}

			acceptAll := func() {
				for {
					s, err := tc.conn.AcceptStream(canceledContext())
					if err != nil {
						return
					}
					server, typ, num := c21Split(s.ID())
					st := streams[[2]int64{int64(typ), num}]
					switch {
					case server != peerServer:
						c.Violation("accepted-own-stream", "AcceptStream returned id %d (log %v)", s.ID(), log)
						continue
					case st == nil || !st.real:
						c.Violation("accepted-unnamed-stream", "AcceptStream returned %s stream number %d which no frame from the peer has named (log %v)", c21TypeName(typ), num, log)
						continue
					case st.s != nil:
						c.Violation("stream-accepted-twice", "AcceptStream returned id %d twice (log %v)", s.ID(), log)
						continue
					}
					if num >= adv[typ] {
						c.Violation("accepted-stream-beyond-advertised-limit", "AcceptStream returned %s stream number %d, limit sent so far %d (log %v)", c21TypeName(typ), num, adv[typ], log)
					}
					s.SetReadContext(canceledContext())
					s.SetWriteContext(canceledContext())
					st.s = s
					st.tr = &c21Tracked{s: s, readOnly: typ == c21Uni, ctr: &appClosed[typ]}
					acceptedN++
				}
			}
			appClose := func(st *rstream, full bool) {
				mode := c.Rng.IntN(5)
				if full && mode >= 3 {
					mode = c.Rng.IntN(3)
				}
				was := st.tr.cnt
				switch mode {
				case 0:
					st.tr.close()
				case 1:
					st.tr.closeRead()
					st.tr.closeWrite()
				case 2:
					st.tr.reset(11)
					st.tr.closeRead()
				case 3:
					st.tr.closeRead()
				case 4:
					st.tr.closeWrite()
				}
				if st.tr.cnt && !was {
					closedN++
				}
				log = append(log, fmt.Sprintf("app-close%d(%s#%d)", mode, c21TypeName(st.typ), st.num))
			}
			pickStream := func(pred func(*rstream) bool) *rstream {
				var cand []*rstream
				for _, st := range order {
					if pred(st) {
						cand = append(cand, st)
					}
				}
				if len(cand) == 0 {
					return nil
				}
				return cand[c.Rng.IntN(len(cand))]
			}
			pickNum := func(typ int, how int) int64 {
				a, o := adv[typ], opened[typ]
				switch how {
				case 0: // next
					return o
				case 1: // skip ahead, staying below the limit if there is room
					if a-o > 1 {
						return o + c.Rng.Int64N(min(a-o, 20))
					}
					return o
				case 2: // last allowed number
					return max(a-1, 0)
				case 3: // first forbidden number and beyond
					return a + []int64{0, 0, 0, 1, c.Rng.Int64N(50), 1 << 40}[c.Rng.IntN(6)]
				default: // something already open (or closed)
					if o > 0 {
						return c.Rng.Int64N(o)
					}
					return o
				}
			}
			finish := func(st *rstream) {
				id := streamID(c21ID(peerServer, st.typ, st.num))
				var f debugFrame
				if c.Rng.IntN(3) == 0 {
					f = debugFrameResetStream{id: id, code: 9, finalSize: st.dataLen}
				} else {
					f = debugFrameStream{id: id, off: st.dataLen, fin: true}
				}
				st.peerDone = true
				send([]debugFrame{f}, []named{{st.typ, st.num, "finish"}})
			}

			for i := 0; i < steps && !dead; i++ {
				typ := c.Rng.IntN(2)
				switch op := c.Rng.IntN(100); {
				case op < 30: // open one stream
					how := []int{0, 0, 0, 0, 1, 1, 2, 2, 4, 3}[c.Rng.IntN(10)]
					f, nm := frameFor(typ, pickNum(typ, how))
					send([]debugFrame{f}, []named{nm})
				case op < 40: // several frames in one packet
					var fs []debugFrame
					var ns []named
					for k := 0; k < 2+c.Rng.IntN(3); k++ {
						how := []int{0, 1, 2, 2, 4, 3}[c.Rng.IntN(6)]
						num := pickNum(typ, how)
						if k > 0 && c.Rng.IntN(3) == 0 {
							num = ns[k-1].num + 1 + c.Rng.Int64N(30) // walk upwards inside one packet
						}
						f, nm := frameFor(typ, num)
						fs = append(fs, f)
						ns = append(ns, nm)
					}
					send(fs, ns)
				case op < 70: // complete a stream: peer finishes, application closes both sides, peer acknowledges
					acceptAll()
					st := pickStream(func(st *rstream) bool { return st.s != nil && !st.tr.cnt })
					if st == nil {
						continue
					}
					if !st.peerDone {
						finish(st)
						if dead {
							break
						}
					}
					appClose(st, true)
					drain("app-close")
					peer.ackAll()
					if cl, code, reason := drain("ack"); cl {
						c.Violation("unexpected-connection-close", "after acknowledging: CONNECTION_CLOSE %#x %q (log %v)", code, reason, log)
						dead = true
					}
				case op < 80: // application closes something (maybe only one direction) before the peer is done
					acceptAll()
					st := pickStream(func(st *rstream) bool { return st.s != nil && !st.tr.cnt })
					if st == nil {
						continue
					}
					appClose(st, false)
					drain("app-close")
				case op < 88: // peer finishes a stream
					st := pickStream(func(st *rstream) bool { return st.real && !st.peerDone && st.num < adv[st.typ] })
					if st == nil {
						continue
					}
					finish(st)
				default:
					log = append(log, "ack")
					peer.ackAll()
					if cl, code, reason := drain("ack"); cl {
						c.Violation("unexpected-connection-close", "after acknowledging: CONNECTION_CLOSE %#x %q (log %v)", code, reason, log)
						dead = true
					}
				}
			}
			if !dead && finalProbe {
				typ := c.Rng.IntN(2)
				if adv[typ] > 0 {
					f, nm := frameFor(typ, adv[typ]-1)
					send([]debugFrame{f}, []named{nm})
				}
				if !dead {
					f, nm := frameFor(typ, adv[typ])
					send([]debugFrame{f}, []named{nm})
				}
			}
			if !dead {
				acceptAll()
			}
		})
		desc["log"] = log
		r.Event("remote_packets_within_limit_accepted", within)
		r.Event("remote_beyond_limit_rejected_with_stream_limit_error", rejected)
		r.Event("remote_max_streams_raises_observed", raises)
		r.Event("remote_streams_accepted", acceptedN)
		r.Event("remote_frames_opening_lower_streams_implicitly", implicit)
		r.Event("remote_streams_fully_closed_by_app", closedN)
		r.Eval(raises > 0 || rejected > 0, "remote", strings.Join(log, ","))
		if c.Index < 2 {
			r.Sample(map[string]any{"kind": "scripted-remote", "cfg": cfg, "log": log})
		}
	})

	r.Note("wall time of scripted-remote: %.1fs", time.Since(phaseStart).Seconds())

	// (d) scripted-remote-busy: the same "beyond what was advertised" probe while the Conn is
	// busy sending: one local stream has used up the congestion window, another has more data
	// than its stream window (a STREAM_DATA_BLOCKED frame plus a packet's worth of data is
	// queued), the application has just closed peer streams (a MAX_STREAMS increase is pending),
	// and a PRNG subset of packets gets acknowledged. Whatever has or has not left the Conn by
	// then, a stream numbered at the largest limit seen on the wire must be refused.
	nb := r.N(600, 20000)
	r.CasesParallel("scripted-remote-busy", nb, 0, func(c *verifrt.Case) {
		rng := c.Rng
		side := []connSide{clientSide, serverSide}[rng.IntN(2)]
		styp := []streamType{uniStream, bidiStream}[rng.IntN(2)]
		k := int64(1 + rng.IntN(3))
		fillerWindow := []int64{1000, 1150, 1200, 2400, 4000, 9000}[rng.IntN(6)]
		hogLen := 1 << 17
		c.Describe(map[string]any{"side": fmt.Sprint(side), "type": fmt.Sprint(styp), "limit": k, "filler_window": fillerWindow})
		synctest.Test(t, func(t *testing.T) {
			tc := newTestConn(t, side, func(p *transportParameters) {
				p.initialMaxStreamsBidi = 10
				p.initialMaxStreamsUni = 10
				p.initialMaxData = 1<<62 - 1
				p.initialMaxStreamDataUni = int64(hogLen)
				p.initialMaxStreamDataBidiRemote = fillerWindow
				p.initialMaxStreamDataBidiLocal = 1 << 20
			}, func(cf *Config) {
				cf.MaxUniRemoteStreams = k
				cf.MaxBidiRemoteStreams = k
				cf.MaxStreamWriteBufferSize = 1 << 20
			})
			tc.handshake()
			tc.ignoreFrame(frameTypeAck)
			tc.conn.keysAppData.updateAfter = maxPacketNumber
			advertised := tc.sentTransportParameters.initialMaxStreamsUni
			if styp == bidiStream {
				advertised = tc.sentTransportParameters.initialMaxStreamsBidi
			}
			closed := false
			var nums []packetNumber
			readAll := func() int {
				n := 0
				for _, p := range vlpReadPackets(tc) {
					n++
					if p.ptype == packetType1RTT {
						nums = append(nums, p.num)
					}
					for _, f := range p.frames {
						switch f := f.(type) {
						case debugFrameMaxStreams:
							if f.streamType == styp {
								if f.max < advertised {
									c.Violation("max-streams-decreased", "busy script: MAX_STREAMS(%v)=%d after %d", styp, f.max, advertised)
								}
								advertised = max(advertised, f.max)
							}
						case debugFrameConnectionCloseTransport:
							closed = true
						}
					}
				}
				return n
			}
			var remotes []*Stream
			for i := int64(0); i < min(k, advertised); i++ {
				tc.writeFrames(packetType1RTT, debugFrameStream{id: newStreamID(side.peer(), styp, i), fin: true})
				s, err := tc.conn.AcceptStream(canceledContext())
				if err != nil {
					c.Violation("accepted-stream-missing", "busy script: AcceptStream for peer stream %d within the limit: %v", i, err)
					return
				}
				remotes = append(remotes, s)
			}
			hog, err := tc.conn.newLocalStream(canceledContext(), uniStream)
			if err != nil {
				return
			}
			hog.SetWriteContext(canceledContext())
			hog.Write(make([]byte, 1+rng.IntN(50)))
			hog.Flush()
			readAll()
			small := len(nums)
			hog.Write(make([]byte, hogLen-100))
			hog.Flush()
			readAll()
			filler, err := tc.conn.newLocalStream(canceledContext(), bidiStream)
			if err != nil {
				return
			}
			filler.SetWriteContext(canceledContext())
			filler.Write(make([]byte, int(fillerWindow)+1+rng.IntN(5000)))
			if rng.IntN(2) == 0 {
				filler.Flush()
			}
			nclose := 1 + rng.IntN(len(remotes))
			for _, s := range remotes[:nclose] {
				if styp == bidiStream {
					s.SetWriteContext(canceledContext())
				}
				s.SetReadContext(canceledContext())
				s.Close()
			}
			if readAll() == 0 {
				r.Event("busy_congestion_blocked_when_max_streams_became_pending", 1)
			}
			// acknowledge a PRNG prefix of what was sent: the small packets, or a few more
			if len(nums) > 0 {
				upto := nums[min(len(nums)-1, max(0, small-1+rng.IntN(3)))]
				tc.writeFrames(packetType1RTT, debugFrameAck{ranges: []i64range[packetNumber]{{0, upto + 1}}})
			}
			readAll()
			before := advertised
			if closed {
				return
			}
			// the probe: a stream numbered at the largest limit seen on the wire
			tc.writeFrames(packetType1RTT, debugFrameStream{id: newStreamID(side.peer(), styp, advertised)})
			gotErr := false
			for _, f := range vlpDrain(tc) {
				if cc, ok := f.(debugFrameConnectionCloseTransport); ok {
					gotErr = cc.code == errStreamLimit
					if !gotErr {
						c.Violation("beyond-limit-wrong-error-busy", "busy script: stream %d beyond the advertised limit %d answered with %v", advertised, before, cc)
					}
				}
			}
			if !gotErr {
				c.Violation("beyond-advertised-limit-accepted-while-conn-busy", "busy script: the peer opened %v stream number %d although the largest stream limit the Conn ever sent is %d (application closed %d of %d peer streams; a MAX_STREAMS increase may be pending but has not been sent): no STREAM_LIMIT_ERROR", styp, before, before, nclose, len(remotes))
			}
			r.Event("busy_probes_at_advertised_limit", 1)
			if before == min(k, 10) {
				r.Event("busy_probes_with_max_streams_still_unsent", 1)
			}
		})
		r.Eval(true, "busy", side, styp, k, fillerWindow)
	})
	r.Require("busy_probes_at_advertised_limit", int64(nb*5/10))
	r.Require("busy_probes_with_max_streams_still_unsent", 20)
	r.Require("lossy_runs_completed", int64(n/2))
	r.Require("lossy_runs_transport_params_read_off_the_wire", int64(n*5/10))
	r.Require("lossy_local_stream_frames_checked", 2000)
	r.Require("lossy_local_stream_frames_at_limit_minus_one", 100)
	r.Require("lossy_local_stream_frames_beyond_initial_limit", 200)
	r.Require("lossy_max_streams_sent_checked", 200)
	r.Require("lossy_max_streams_sent_raising", 100)
	r.Require("lossy_newstream_returned_beyond_initial_limit", 100)
	r.Require("local_opens_observed_blocked_at_quiescence", 100)
	r.Require("local_opens_unblocked_by_max_streams", 50)
	r.Require("remote_beyond_limit_rejected_with_stream_limit_error", 100)
	r.Require("remote_max_streams_raises_observed", 100)
	r.Require("remote_packets_within_limit_accepted", 400)
}
