//go:build verif

package quic

import (
	"bytes"
	"fmt"
	"math/rand/v2"
	"net/netip"
	"time"

	"golang.org/x/net/internal/verifrt"
)

// c28tlv is one transport parameter as an independent TLV decoder sees it.
type c28tlv struct {
	id  uint64
	val []byte
}

func c28decodeTLVs(b []byte) ([]c28tlv, bool) {
	r := &c28reader{b: b}
	var out []c28tlv
	for r.off < len(b) {
		id := r.varint()
		val := r.bytes(r.varint())
		if r.bad {
			return nil, false
		}
		out = append(out, c28tlv{id, val})
	}
	return out, true
}

func c28encodeTLVs(ts []c28tlv) []byte {
	var b []byte
	for _, t := range ts {
		b = c28appendVarint(b, t.id)
		b = c28appendVarint(b, uint64(len(t.val)))
		b = append(b, t.val...)
	}
	return b
}

func c28oneVarint(val []byte) (uint64, bool) {
	r := &c28reader{b: val}
	v := r.varint()
	return v, !r.bad && r.off == len(val)
}

// c28genParams builds a transportParameters value in which every field is legal.
func c28genParams(rng *rand.Rand) transportParameters {
	p := defaultTransportParameters()
	maybe := func() bool { return rng.IntN(2) == 0 }
	cid := func() []byte { return c28rand(rng, []int{0, 1, 8, 20, rng.IntN(21)}[rng.IntN(5)]) }
	if maybe() {
		p.originalDstConnID = cid()
	}
	if maybe() {
		p.maxIdleTimeout = time.Duration(c28int(rng, 1<<32)) * time.Millisecond
	}
	if maybe() {
		p.statelessResetToken = c28rand(rng, 16)
	}
	if maybe() {
		p.maxUDPPayloadSize = 1200 + int64(c28int(rng, 65527-1200))
		if rng.IntN(6) == 0 {
			p.maxUDPPayloadSize = 1200 + int64(c28int(rng, c28maxVarint-1200))
		}
	}
	if maybe() {
		p.initialMaxData = int64(c28int(rng, c28maxVarint))
	}
	if maybe() {
		p.initialMaxStreamDataBidiLocal = int64(c28int(rng, c28maxVarint))
	}
	if maybe() {
		p.initialMaxStreamDataBidiRemote = int64(c28int(rng, c28maxVarint))
	}
	if maybe() {
		p.initialMaxStreamDataUni = int64(c28int(rng, c28maxVarint))
	}
	if maybe() {
		p.initialMaxStreamsBidi = int64(c28int(rng, 1<<60))
	}
	if maybe() {
		p.initialMaxStreamsUni = int64(c28int(rng, 1<<60))
	}
	if maybe() {
		p.ackDelayExponent = int8(rng.IntN(21))
	}
	if maybe() {
		p.maxAckDelay = time.Duration(rng.IntN(1<<14)) * time.Millisecond
		if rng.IntN(4) == 0 {
			p.maxAckDelay = (1<<14 - 1) * time.Millisecond
		}
	}
	p.disableActiveMigration = maybe()
	if maybe() {
		var a4 [4]byte
		var a16 [16]byte
		copy(a4[:], c28rand(rng, 4))
		copy(a16[:], c28rand(rng, 16))
		a16[0] = 0x20 // keep it a plain IPv6 address (not an IPv4-mapped one)
		p.preferredAddrV4 = netip.AddrPortFrom(netip.AddrFrom4(a4), uint16(rng.Uint32()))
		p.preferredAddrV6 = netip.AddrPortFrom(netip.AddrFrom16(a16), uint16(rng.Uint32()))
		p.preferredAddrConnID = c28rand(rng, 1+rng.IntN(20))
		p.preferredAddrResetToken = c28rand(rng, 16)
	}
	if maybe() {
		p.activeConnIDLimit = 2 + int64(c28int(rng, c28maxVarint-2))
	}
	if maybe() {
		p.initialSrcConnID = cid()
	}
	if maybe() {
		p.retrySrcConnID = cid()
	}
	return p
}

// c28paramsDiff compares field by field; a present-but-empty connection ID is different
// from an absent one.
func c28paramsDiff(a, b transportParameters) string {
	bs := func(name string, x, y []byte) string {
		if (x == nil) != (y == nil) || !bytes.Equal(x, y) {
			return fmt.Sprintf("%s: %x (present=%v) vs %x (present=%v)", name, x, x != nil, y, y != nil)
		}
		return ""
	}
	for _, d := range []string{
		bs("original_destination_connection_id", a.originalDstConnID, b.originalDstConnID),
		bs("stateless_reset_token", a.statelessResetToken, b.statelessResetToken),
		bs("preferred_address.connection_id", a.preferredAddrConnID, b.preferredAddrConnID),
		bs("preferred_address.reset_token", a.preferredAddrResetToken, b.preferredAddrResetToken),
		bs("initial_source_connection_id", a.initialSrcConnID, b.initialSrcConnID),
		bs("retry_source_connection_id", a.retrySrcConnID, b.retrySrcConnID),
	} {
		if d != "" {
			return d
		}
	}
	type pair struct {
		name string
		x, y any
	}
	for _, q := range []pair{
		{"max_idle_timeout", a.maxIdleTimeout, b.maxIdleTimeout},
		{"max_udp_payload_size", a.maxUDPPayloadSize, b.maxUDPPayloadSize},
		{"initial_max_data", a.initialMaxData, b.initialMaxData},
		{"initial_max_stream_data_bidi_local", a.initialMaxStreamDataBidiLocal, b.initialMaxStreamDataBidiLocal},
		{"initial_max_stream_data_bidi_remote", a.initialMaxStreamDataBidiRemote, b.initialMaxStreamDataBidiRemote},
		{"initial_max_stream_data_uni", a.initialMaxStreamDataUni, b.initialMaxStreamDataUni},
		{"initial_max_streams_bidi", a.initialMaxStreamsBidi, b.initialMaxStreamsBidi},
		{"initial_max_streams_uni", a.initialMaxStreamsUni, b.initialMaxStreamsUni},
		{"ack_delay_exponent", a.ackDelayExponent, b.ackDelayExponent},
		{"max_ack_delay", a.maxAckDelay, b.maxAckDelay},
		{"disable_active_migration", a.disableActiveMigration, b.disableActiveMigration},
		{"preferred_address.v4", a.preferredAddrV4, b.preferredAddrV4},
		{"preferred_address.v6", a.preferredAddrV6, b.preferredAddrV6},
		{"active_connection_id_limit", a.activeConnIDLimit, b.activeConnIDLimit},
	} {
		if q.x != q.y {
			return fmt.Sprintf("%s: %v vs %v", q.name, q.x, q.y)
		}
	}
	return ""
}

// c28checkWire verifies the marshalled bytes with the independent TLV decoder against
// RFC 9000 section 18.2 and the intended values.
func c28checkWire(p transportParameters, wire []byte) string {
	ts, ok := c28decodeTLVs(wire)
	if !ok {
		return "not a sequence of (id, length, value) triples"
	}
	seen := map[uint64]bool{}
	intParam := map[uint64]int64{
		0x01: int64(p.maxIdleTimeout / time.Millisecond), 0x03: p.maxUDPPayloadSize, 0x04: p.initialMaxData,
		0x05: p.initialMaxStreamDataBidiLocal, 0x06: p.initialMaxStreamDataBidiRemote, 0x07: p.initialMaxStreamDataUni,
		0x08: p.initialMaxStreamsBidi, 0x09: p.initialMaxStreamsUni, 0x0a: int64(p.ackDelayExponent),
		0x0b: int64(p.maxAckDelay / time.Millisecond), 0x0e: p.activeConnIDLimit,
	}
	defaults := map[uint64]int64{0x01: 0, 0x03: 65527, 0x04: 0, 0x05: 0, 0x06: 0, 0x07: 0, 0x08: 0, 0x09: 0, 0x0a: 3, 0x0b: 25, 0x0e: 2}
	bytesParam := map[uint64][]byte{0x00: p.originalDstConnID, 0x02: p.statelessResetToken, 0x0f: p.initialSrcConnID, 0x10: p.retrySrcConnID}
	for _, t := range ts {
		if seen[t.id] {
			return fmt.Sprintf("parameter %#x appears twice", t.id)
		}
		seen[t.id] = true
		if want, ok := intParam[t.id]; ok {
			v, ok := c28oneVarint(t.val)
			if !ok || int64(v) != want {
				return fmt.Sprintf("parameter %#x carries %x, want the single varint %d", t.id, t.val, want)
			}
			continue
		}
		if want, ok := bytesParam[t.id]; ok {
			if want == nil || !bytes.Equal(want, t.val) {
				return fmt.Sprintf("parameter %#x carries %x, want %x (present=%v)", t.id, t.val, want, want != nil)
			}
			continue
		}
		switch t.id {
		case 0x0c:
			if len(t.val) != 0 || !p.disableActiveMigration {
				return fmt.Sprintf("disable_active_migration carries %x (wanted present=%v)", t.val, p.disableActiveMigration)
			}
		case 0x0d:
			var want []byte
			want = append(want, p.preferredAddrV4.Addr().AsSlice()...)
			want = append(want, byte(p.preferredAddrV4.Port()>>8), byte(p.preferredAddrV4.Port()))
			want = append(want, p.preferredAddrV6.Addr().AsSlice()...)
			want = append(want, byte(p.preferredAddrV6.Port()>>8), byte(p.preferredAddrV6.Port()))
			want = append(want, byte(len(p.preferredAddrConnID)))
			want = append(want, p.preferredAddrConnID...)
			want = append(want, p.preferredAddrResetToken...)
			if p.preferredAddrConnID == nil || !bytes.Equal(want, t.val) {
				return fmt.Sprintf("preferred_address carries %x, want %x", t.val, want)
			}
		default:
			return fmt.Sprintf("unexpected parameter %#x", t.id)
		}
	}
	// everything that differs from its default must be on the wire
	for id, want := range intParam {
		if want != defaults[id] && !seen[id] {
			return fmt.Sprintf("parameter %#x (value %d, default %d) is missing", id, want, defaults[id])
		}
	}
	for id, want := range bytesParam {
		if want != nil && !seen[id] {
			return fmt.Sprintf("parameter %#x (%x) is missing", id, want)
		}
	}
	if p.disableActiveMigration && !seen[0x0c] {
		return "disable_active_migration is missing"
	}
	if p.preferredAddrConnID != nil && !seen[0x0d] {
		return "preferred_address is missing"
	}
	return ""
}

func c28tparams(r *verifrt.R, k *c28counts) {
	r.CasesParallel("tparams-roundtrip", r.N(4000, 200000), 0, func(c *verifrt.Case) {
		rng := c.Rng
		p := c28genParams(rng)
		c.Describe(fmt.Sprintf("%+v", p))
		wire := marshalTransportParameters(p)
		if why := c28checkWire(p, wire); why != "" {
			c.Violation("tparams-marshal-differs-from-rfc", "%s; params %+v; wire %x", why, p, wire)
			return
		}
		got, err := unmarshalTransportParams(c28tight(wire))
		if err != nil {
			c.Violation("tparams-valid-rejected", "unmarshal of marshalled valid parameters failed: %v; params %+v; wire %x", err, p, wire)
			return
		}
		if d := c28paramsDiff(p, got); d != "" {
			c.Violation("tparams-roundtrip-changed", "%s; wire %x", d, wire)
		}
		// the same parameters in another order, with non-minimal varints and unknown
		// (reserved / greased) parameters in between, must give the same result
		ts, _ := c28decodeTLVs(wire)
		rng.Shuffle(len(ts), func(i, j int) { ts[i], ts[j] = ts[j], ts[i] })
		if rng.IntN(2) == 0 {
			ts = append(ts, c28tlv{31*uint64(rng.IntN(1000)) + 27, c28rand(rng, rng.IntN(12))})
			rng.Shuffle(len(ts), func(i, j int) { ts[i], ts[j] = ts[j], ts[i] })
		}
		alt := c28encodeTLVs(ts)
		got2, err := unmarshalTransportParams(c28tight(alt))
		if err != nil {
			c.Violation("tparams-reordered-rejected", "unmarshal failed (%v) for the same parameters reordered/greased: %x (original %x)", err, alt, wire)
		} else if d := c28paramsDiff(p, got2); d != "" {
			c.Violation("tparams-reordered-changed", "%s; wire %x", d, alt)
		}
		k.add("tparams_roundtrip", 1)
		k.add("tparams_parameters_on_wire", int64(len(ts)))
		r.EvalBytes(len(wire) > 8, wire)
		if c.Index < 2 {
			r.Sample(map[string]any{"stream": "tparams-roundtrip", "wire": fmt.Sprintf("%x", wire)})
		}
	})

	r.Cases("tparams-out-of-range", r.N(300, 10000), func(c *verifrt.Case) {
		rng := c.Rng
		base, _ := c28decodeTLVs(marshalTransportParameters(c28genParams(rng)))
		vint := func(v uint64) []byte { return c28appendVarint(nil, v) }
		reject := func(what string, id uint64, val []byte) {
			// replace any existing instance of id
			var ts []c28tlv
			for _, t := range base {
				if t.id != id {
					ts = append(ts, t)
				}
			}
			pos := rng.IntN(len(ts) + 1)
			ts = append(ts[:pos:pos], append([]c28tlv{{id, val}}, ts[pos:]...)...)
			wire := c28encodeTLVs(ts)
			c.Describe(map[string]any{"what": what, "wire": fmt.Sprintf("%x", wire)})
			if p, err := unmarshalTransportParams(c28tight(wire)); err == nil {
				c.Violation("tparams-out-of-range-accepted", "%s accepted: wire %x -> %+v", what, wire, p)
			}
			k.add("tparams_out_of_range_rejected", 1)
		}
		for _, v := range []uint64{0, 1, 1199, uint64(rng.IntN(1200))} {
			reject(fmt.Sprintf("max_udp_payload_size=%d", v), 0x03, vint(v))
		}
		for _, v := range []uint64{21, 22, 255, 21 + c28int(rng, c28maxVarint-21)} {
			reject(fmt.Sprintf("ack_delay_exponent=%d", v), 0x0a, vint(v))
		}
		for _, v := range []uint64{1 << 14, 1<<14 + 1, 1<<14 + c28int(rng, c28maxVarint-1<<14)} {
			reject(fmt.Sprintf("max_ack_delay=%d", v), 0x0b, vint(v))
		}
		for _, id := range []uint64{0x08, 0x09} {
			for _, v := range []uint64{1<<60 + 1, 1 << 61, c28maxVarint, 1<<60 + 1 + c28int(rng, 1<<60)} {
				reject(fmt.Sprintf("initial_max_streams(%#x)=%d", id, v), id, vint(v))
			}
		}
		for _, v := range []uint64{0, 1} {
			reject(fmt.Sprintf("active_connection_id_limit=%d", v), 0x0e, vint(v))
		}
		for _, n := range []int{0, 1, 15, 17, 32} {
			reject(fmt.Sprintf("stateless_reset_token of %d bytes", n), 0x02, c28rand(rng, n))
		}
		reject("disable_active_migration with a value", 0x0c, []byte{0})
		// integer parameters whose value field is not exactly one varint
		for _, id := range []uint64{0x01, 0x03, 0x04, 0x05, 0x06, 0x07, 0x08, 0x09, 0x0a, 0x0b, 0x0e} {
			reject(fmt.Sprintf("parameter %#x with empty value", id), id, nil)
			reject(fmt.Sprintf("parameter %#x with trailing byte", id), id, append(vint(2000), 0))
			reject(fmt.Sprintf("parameter %#x with cut varint", id), id, []byte{0x80, 0x01})
		}
		// preferred_address of wrong sizes
		for _, n := range []int{0, 10, 24, 4 + 2 + 16 + 2 + 1 + 15, 4 + 2 + 16 + 2 + 1 + 17} {
			v := make([]byte, n)
			reject(fmt.Sprintf("preferred_address of %d bytes (cid length 0)", n), 0x0d, v)
		}
		// a length that runs past the end
		wire := c28encodeTLVs(base)
		wire = append(wire, 0x04, 0x05, 0x01)
		if _, err := unmarshalTransportParams(c28tight(wire)); err == nil {
			c.Violation("tparams-truncated-accepted", "value shorter than its length accepted: %x", wire)
		}
		k.add("tparams_out_of_range_rejected", 1)
		// boundary values that ARE legal must be accepted
		for _, t := range []c28tlv{{0x03, vint(1200)}, {0x0a, vint(20)}, {0x0b, vint(1<<14 - 1)}, {0x08, vint(1 << 60)}, {0x09, vint(1 << 60)}, {0x0e, vint(2)}} {
			if _, err := unmarshalTransportParams(c28tight(c28encodeTLVs([]c28tlv{t}))); err != nil {
				c.Violation("tparams-boundary-rejected", "legal boundary value rejected: parameter %#x value %x: %v", t.id, t.val, err)
			}
			k.add("tparams_boundary_accepted", 1)
		}
		r.Eval(true, "oor", c.Index)
	})

	r.CasesParallel("tparams-arbitrary", r.N(1000, 50000), 0, func(c *verifrt.Case) {
		rng := c.Rng
		for i := 0; i < 40; i++ {
			var b []byte
			switch rng.IntN(3) {
			case 0:
				b = c28rand(rng, rng.IntN(60))
			case 1: // TLV-shaped with PRNG ids and values
				for j, n := 0, rng.IntN(6); j < n; j++ {
					b = c28appendVarint(b, uint64(rng.IntN(0x14)))
					v := c28rand(rng, rng.IntN(24))
					if rng.IntN(2) == 0 {
						v = c28appendVarint(nil, c28int(rng, c28maxVarint))
					}
					ln := uint64(len(v))
					if rng.IntN(8) == 0 {
						ln += uint64(rng.IntN(4))
					}
					b = append(c28appendVarint(b, ln), v...)
				}
			default: // valid encoding, mutated
				b = marshalTransportParameters(c28genParams(rng))
				for j := 0; j < 1+rng.IntN(3) && len(b) > 0; j++ {
					b[rng.IntN(len(b))] ^= 1 << rng.IntN(8)
				}
				if rng.IntN(4) == 0 {
					b = b[:rng.IntN(len(b)+1)]
				}
			}
			c.Describe(map[string]any{"bytes": fmt.Sprintf("%x", b)})
			p, err := unmarshalTransportParams(c28tight(b))
			k.add("tparams_arbitrary_inputs", 1)
			if err != nil {
				k.add("tparams_arbitrary_rejected", 1)
				continue
			}
			k.add("tparams_arbitrary_accepted", 1)
			// whatever was accepted must respect the bounds of RFC 9000 18.2
			switch {
			case p.maxUDPPayloadSize < 1200:
				c.Violation("tparams-bound-violated", "accepted max_udp_payload_size=%d from %x", p.maxUDPPayloadSize, b)
			case p.ackDelayExponent > 20 || p.ackDelayExponent < 0:
				c.Violation("tparams-bound-violated", "accepted ack_delay_exponent=%d from %x", p.ackDelayExponent, b)
			case p.maxAckDelay >= (1<<14)*time.Millisecond || p.maxAckDelay < 0:
				c.Violation("tparams-bound-violated", "accepted max_ack_delay=%v from %x", p.maxAckDelay, b)
			case p.initialMaxStreamsBidi > 1<<60 || p.initialMaxStreamsUni > 1<<60:
				c.Violation("tparams-bound-violated", "accepted initial_max_streams %d/%d from %x", p.initialMaxStreamsBidi, p.initialMaxStreamsUni, b)
			case p.activeConnIDLimit < 2:
				c.Violation("tparams-bound-violated", "accepted active_connection_id_limit=%d from %x", p.activeConnIDLimit, b)
			case p.statelessResetToken != nil && len(p.statelessResetToken) != 16:
				c.Violation("tparams-bound-violated", "accepted %d-byte stateless_reset_token from %x", len(p.statelessResetToken), b)
			}
			// and must be a well-formed TLV sequence
			if _, ok := c28decodeTLVs(b); !ok {
				c.Violation("tparams-malformed-accepted", "accepted bytes that are not a sequence of (id,len,value): %x", b)
			}
			r.EvalBytes(len(b) > 4, b)
		}
	})
}
