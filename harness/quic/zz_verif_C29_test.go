//go:build verif

package quic

// C29: quic.gate, quic.queue[T] and internal/gate.Gate provide exclusion without lost wakeups.
//
// Three targets (quic.gate white-box, internal/gate.Gate through its exported API,
// quic.queue[int] white-box) are driven by many short concurrent histories in two modes:
//
//   bubble: the whole history runs inside a testing/synctest bubble. The controller calls
//           synctest.Wait(); at every quiescent point it knows exactly which operations are
//           still in flight (parked) and checks that none of them may be parked there
//           (lost wakeup / ignored context / blocked non-blocking operation / token invariant),
//           then makes progress possible (cancels a context, or unlocks with the condition
//           set / puts / closes) and waits again.
//   plain:  ordinary goroutines under -race, GOMAXPROCS varied per history, PRNG yields.
//
// Every history (call/return stamps from one atomic counter taken by the calling goroutine)
// is checked for linearizability with porcupine against a sequential model written from the
// doc comments of gate.go / queue.go.

import (
	"context"
	"fmt"
	"hash/fnv"
	"math/rand/v2"
	"runtime"
	"runtime/debug"
	"sort"
	"strings"
	"sync"
	"sync/atomic"
	"testing"
	"testing/synctest"
	"time"

	"github.com/anishathalye/porcupine"
	igate "golang.org/x/net/internal/gate"
	"golang.org/x/net/internal/verifrt"
)

const (
	c29Lock = iota
	c29Wait
	c29Try
	c29Unlock
	c29Cancel
	c29Put
	c29Get
	c29Close
	c29Snap
)

var c29OpName = [...]string{"lock", "waitAndLock", "lockIfSet", "unlock", "cancel", "put", "get", "close", "snapshot"}

type c29In struct{ Kind, Client, Arg int }

// c29Out: lock/lockIfSet/put: V=0/1. waitAndLock: V=0 nil, 1 context.Canceled, 3 other error.
// get: V=0 item W, 1 context.Canceled, 2 close error number W, 3 other error.
// snapshot: V=cond reported by gate.lock, W=close error number (0 open), S=items.
type c29Out struct {
	V, W int
	S    string
}

type c29Rec struct {
	In        c29In
	Out       c29Out
	Call, Ret int64
}

func (r *c29Rec) String() string {
	in, out := r.In, r.Out
	s := fmt.Sprintf("c%d %s", in.Client, c29OpName[in.Kind])
	switch in.Kind {
	case c29Lock, c29Try:
		s += fmt.Sprintf("()->%v", out.V == 1)
	case c29Wait:
		s += fmt.Sprintf("(ctx%d)->%s", in.Arg, []string{"nil", "Canceled", "?", "other-error"}[out.V])
	case c29Unlock:
		s += fmt.Sprintf("(%v)", in.Arg == 1)
	case c29Cancel:
		s += fmt.Sprintf("(ctx%d)", in.Arg)
	case c29Put:
		s += fmt.Sprintf("(%d)->%v", in.Arg, out.V == 1)
	case c29Get:
		switch out.V {
		case 0:
			s += fmt.Sprintf("(ctx%d)->item %d", in.Arg, out.W)
		case 1:
			s += fmt.Sprintf("(ctx%d)->Canceled", in.Arg)
		case 2:
			s += fmt.Sprintf("(ctx%d)->closeErr%d", in.Arg, out.W)
		default:
			s += fmt.Sprintf("(ctx%d)->other-error", in.Arg)
		}
	case c29Close:
		s += fmt.Sprintf("(err%d)", in.Arg)
	case c29Snap:
		s += fmt.Sprintf("()->set=%v closed=%d items=%v", out.V == 1, out.W, c29Dec(out.S))
	}
	if r.Ret == 0 {
		return s + fmt.Sprintf(" [%d,pending]", r.Call)
	}
	return s + fmt.Sprintf(" [%d,%d]", r.Call, r.Ret)
}

func c29Dec(s string) []int {
	var v []int
	for i := 0; i+1 < len(s); i += 2 {
		v = append(v, int(s[i])<<8|int(s[i+1]))
	}
	return v
}

// ---- contexts -------------------------------------------------------------------------

type c29Ctxs struct {
	mu        sync.Mutex
	cancel    []context.CancelFunc
	cancelled []bool
}

func (cs *c29Ctxs) new() (int, context.Context) {
	ctx, cancel := context.WithCancel(context.Background())
	cs.mu.Lock()
	defer cs.mu.Unlock()
	cs.cancel = append(cs.cancel, cancel)
	cs.cancelled = append(cs.cancelled, false)
	if len(cs.cancel) > 64 {
		panic("c29 harness: more than 64 contexts in one history")
	}
	return len(cs.cancel) - 1, ctx
}

func (cs *c29Ctxs) isCancelled(id int) bool {
	cs.mu.Lock()
	defer cs.mu.Unlock()
	return cs.cancelled[id]
}

// pickLive returns the id of the (k mod live)-th context that was not cancelled yet, or -1.
func (cs *c29Ctxs) pickLive(k int) int {
	cs.mu.Lock()
	defer cs.mu.Unlock()
	var live []int
	for i, c := range cs.cancelled {
		if !c {
			live = append(live, i)
		}
	}
	if len(live) == 0 {
		return -1
	}
	return live[k%len(live)]
}

func (cs *c29Ctxs) mark(id int) context.CancelFunc {
	cs.mu.Lock()
	defer cs.mu.Unlock()
	cs.cancelled[id] = true
	return cs.cancel[id]
}

func (cs *c29Ctxs) cancelAll() {
	cs.mu.Lock()
	fs := append([]context.CancelFunc{}, cs.cancel...)
	for i := range cs.cancelled {
		cs.cancelled[i] = true
	}
	cs.mu.Unlock()
	for _, f := range fs {
		f()
	}
}

// ---- history recorder -----------------------------------------------------------------

type c29Hist struct {
	c   *verifrt.Case
	r   *verifrt.R
	tgt string

	clock    atomic.Int64
	ops      [][]*c29Rec // per client, appended by that client only
	cur      []atomic.Pointer[c29Rec]
	done     []atomic.Bool
	finished atomic.Int32
	inWait   atomic.Int32
	holders  atomic.Int32
	lastCond atomic.Bool
	ctxs     c29Ctxs

	startCh chan struct{} // closed by the controller once every worker goroutine exists

	// After a quiescence violation the history is aborted: abortClock remembers the stamp,
	// later operations are not part of the checked history, worker-side reports are muted
	// and the controller frees the stuck goroutines (so that none is leaked).
	aborted    atomic.Bool
	abortClock int64

	everParked []*c29Rec // controller only
	ctlVal     int       // controller only: next value the controller puts
	ctlErr     int
}

func c29NewHist(r *verifrt.R, c *verifrt.Case, tgt string, nclients int) *c29Hist {
	return &c29Hist{r: r, c: c, tgt: tgt, ops: make([][]*c29Rec, nclients),
		cur: make([]atomic.Pointer[c29Rec], nclients), done: make([]atomic.Bool, nclients), ctlVal: 1000, ctlErr: 100}
}

// call records one operation: call stamp immediately before, return stamp immediately after.
func (h *c29Hist) call(client, kind, arg int, f func() c29Out) c29Out {
	rec := &c29Rec{In: c29In{Kind: kind, Client: client, Arg: arg}}
	h.cur[client].Store(rec)
	rec.Call = h.clock.Add(1)
	out := f()
	ret := h.clock.Add(1)
	rec.Out = out
	rec.Ret = ret
	h.ops[client] = append(h.ops[client], rec)
	h.cur[client].Store(nil)
	return out
}

func (h *c29Hist) cancelCtx(client, id int) {
	h.call(client, c29Cancel, id, func() c29Out {
		h.ctxs.mark(id)()
		return c29Out{}
	})
}

func (h *c29Hist) viol(key, format string, a ...any) {
	h.c.Violation(h.tgt+":"+key, format, a...)
}

// workerViol is a report from a worker goroutine; muted once the history was aborted
// (the controller then injects tokens to free stuck goroutines).
func (h *c29Hist) workerViol(key, format string, a ...any) {
	if !h.aborted.Load() {
		h.viol(key, format, a...)
	}
}

// critical is executed by whoever believes it holds the gate.
func (h *c29Hist) critical(client, yields int, next bool) {
	if n := h.holders.Add(1); n != 1 {
		h.workerViol("two-holders", "client %d entered the critical section while %d other holder(s) were inside", client, n-1)
	}
	for i := 0; i < yields; i++ {
		runtime.Gosched()
	}
	h.lastCond.Store(next)
	h.holders.Add(-1)
}

func (h *c29Hist) workerExit(client int) {
	if e := recover(); e != nil {
		op := "between-ops"
		if rec := h.cur[client].Load(); rec != nil {
			op = c29OpName[rec.In.Kind]
		}
		h.workerViol("panic-in-"+op, "client %d: panic %v\n%s", client, e, c29Trim(string(debug.Stack())))
	}
	h.done[client].Store(true)
	h.finished.Add(1)
}

func c29Trim(s string) string {
	l := strings.Split(s, "\n")
	if len(l) > 30 {
		l = l[:30]
	}
	return strings.Join(l, "\n")
}

type c29Step struct {
	Kind int
	Pre  int  // yields before the operation
	CS   int  // yields inside the critical section
	B    bool // condition passed to unlock
	Fn   bool // unlock through unlockFunc
	Val  int  // put value / close error number / cancel pick
}

func c29Yield(n int) {
	for i := 0; i < n; i++ {
		runtime.Gosched()
	}
}

// c29Enc is the two-byte form of a queue item inside the model state.
func c29Enc(v int) string { return string([]byte{byte(v >> 8), byte(v)}) }

func b2i(b bool) int {
	if b {
		return 1
	}
	return 0
}

func c29CtxErr(err error) int {
	switch {
	case err == nil:
		return 0
	case err == context.Canceled:
		return 1
	}
	return 3
}

// ---- targets --------------------------------------------------------------------------

type c29Target interface {
	init(h *c29Hist)           // create the object (inside the bubble in bubble mode)
	start(h *c29Hist, ctl int) // controller's first action after the workers started
	worker(h *c29Hist, client int, script []c29Step)
	cond(h *c29Hist) bool     // at quiescence: is the condition set?
	tokens() (set, unset int) // white-box channel occupancy, -1 if not observable
	wake(h *c29Hist, ctl int, rng *rand.Rand)
	final(h *c29Hist, ctl int)
	model() porcupine.Model
	raw() c29GateAPI // the underlying gate, used only to free stuck goroutines after an abort
}

// gate adapters

type c29GateAPI interface {
	lock() bool
	waitAndLock(ctx context.Context) error
	lockIfSet() bool
	unlock(set, viaFunc bool)
}

type c29QuicGate struct{ g gate }

func (a *c29QuicGate) lock() bool                            { return a.g.lock() }
func (a *c29QuicGate) waitAndLock(ctx context.Context) error { return a.g.waitAndLock(ctx) }
func (a *c29QuicGate) lockIfSet() bool                       { return a.g.lockIfSet() }
func (a *c29QuicGate) unlock(set, viaFunc bool) {
	if viaFunc {
		a.g.unlockFunc(func() bool { return set })
	} else {
		a.g.unlock(set)
	}
}

type c29IGate struct{ g igate.Gate }

func (a *c29IGate) lock() bool                            { return a.g.Lock() }
func (a *c29IGate) waitAndLock(ctx context.Context) error { return a.g.WaitAndLock(ctx) }
func (a *c29IGate) lockIfSet() bool                       { return a.g.LockIfSet() }
func (a *c29IGate) unlock(set, viaFunc bool)              { a.g.Unlock(set) }

type c29GateTarget struct {
	internal   bool // internal/gate.Gate instead of quic.gate
	initSet    bool
	initLocked bool // quic only: newLockedGate, the controller unlocks it
	api        c29GateAPI
	qg         *c29QuicGate
	nclients   int
}

func (tg *c29GateTarget) init(h *c29Hist) {
	h.lastCond.Store(tg.initSet)
	if tg.internal {
		tg.api = &c29IGate{g: igate.New(tg.initSet)}
		return
	}
	tg.qg = &c29QuicGate{}
	if tg.initLocked {
		tg.qg.g = newLockedGate()
	} else {
		tg.qg.g = newGate() // documented: unlocked, condition unset
	}
	tg.api = tg.qg
}

func (tg *c29GateTarget) start(h *c29Hist, ctl int) {
	if tg.initLocked {
		h.critical(ctl, 1, tg.initSet)
		h.call(ctl, c29Unlock, b2i(tg.initSet), func() c29Out { tg.api.unlock(tg.initSet, false); return c29Out{} })
	}
}

func (tg *c29GateTarget) tokens() (int, int) {
	if tg.qg == nil {
		return -1, -1
	}
	return len(tg.qg.g.set), len(tg.qg.g.unset)
}

func (tg *c29GateTarget) cond(h *c29Hist) bool { return h.lastCond.Load() }

func (tg *c29GateTarget) worker(h *c29Hist, client int, script []c29Step) {
	defer h.workerExit(client)
	<-h.startCh
	g := tg.api
	for _, s := range script {
		if h.aborted.Load() {
			return
		}
		c29Yield(s.Pre)
		acquired := false
		switch s.Kind {
		case c29Lock:
			h.call(client, c29Lock, 0, func() c29Out { return c29Out{V: b2i(g.lock())} })
			acquired = true
		case c29Wait:
			id, ctx := h.ctxs.new()
			h.inWait.Add(1)
			out := h.call(client, c29Wait, id, func() c29Out { return c29Out{V: c29CtxErr(g.waitAndLock(ctx))} })
			h.inWait.Add(-1)
			acquired = out.V == 0
		case c29Try:
			out := h.call(client, c29Try, 0, func() c29Out { return c29Out{V: b2i(g.lockIfSet())} })
			acquired = out.V == 1
		case c29Cancel:
			if id := h.ctxs.pickLive(s.Val); id >= 0 {
				h.cancelCtx(client, id)
			}
		}
		if acquired {
			h.critical(client, s.CS, s.B)
			h.call(client, c29Unlock, b2i(s.B), func() c29Out { g.unlock(s.B, s.Fn); return c29Out{} })
		}
	}
}

func (tg *c29GateTarget) wake(h *c29Hist, ctl int, rng *rand.Rand) {
	h.call(ctl, c29Lock, 0, func() c29Out { return c29Out{V: b2i(tg.api.lock())} })
	h.critical(ctl, 0, true)
	h.call(ctl, c29Unlock, 1, func() c29Out { tg.api.unlock(true, false); return c29Out{} })
	h.r.Event("controller_unlock_set", 1)
}

func (tg *c29GateTarget) final(h *c29Hist, ctl int) {}
func (tg *c29GateTarget) raw() c29GateAPI           { return tg.api }

type c29GateState struct {
	Held      bool
	Holder    int
	Cond      bool
	Cancelled uint64
}

func (tg *c29GateTarget) model() porcupine.Model {
	init := c29GateState{Cond: tg.initSet}
	if tg.initLocked && !tg.internal {
		init = c29GateState{Held: true, Holder: tg.nclients - 1}
	}
	return porcupine.Model{
		Init: func() interface{} { return init },
		Step: func(state, input, output interface{}) (bool, interface{}) {
			s, in, out := state.(c29GateState), input.(c29In), output.(c29Out)
			acquire := func() {
				s.Held, s.Holder, s.Cond = true, in.Client, false
			}
			switch in.Kind {
			case c29Lock: // enabled iff not held; reports the condition
				if s.Held || (out.V == 1) != s.Cond {
					return false, s
				}
				acquire()
			case c29Wait:
				switch out.V {
				case 0: // only once the condition is set (and the gate is free)
					if s.Held || !s.Cond {
						return false, s
					}
					acquire()
				case 1: // only if its context is done; no effect
					if s.Cancelled&(1<<uint(in.Arg)) == 0 {
						return false, s
					}
				default:
					return false, s
				}
			case c29Try:
				want := !s.Held && s.Cond
				if (out.V == 1) != want {
					return false, s
				}
				if want {
					acquire()
				}
			case c29Unlock:
				if !s.Held || s.Holder != in.Client {
					return false, s
				}
				s.Held, s.Holder, s.Cond = false, 0, in.Arg == 1
			case c29Cancel:
				s.Cancelled |= 1 << uint(in.Arg)
			default:
				return false, s
			}
			return true, s
		},
		DescribeOperation: func(input, output interface{}) string {
			return (&c29Rec{In: input.(c29In), Out: output.(c29Out), Ret: 1}).String()
		},
	}
}

// queue target

type c29QueueTarget struct {
	q    queue[int]
	errs []error
}

func (tg *c29QueueTarget) init(h *c29Hist) {
	tg.q = newQueue[int]()
	tg.errs = make([]error, 1024)
	for i := range tg.errs {
		tg.errs[i] = fmt.Errorf("c29 close error %d", i)
	}
}
func (tg *c29QueueTarget) start(h *c29Hist, ctl int) {}

func (tg *c29QueueTarget) tokens() (int, int) { return len(tg.q.gate.set), len(tg.q.gate.unset) }

// cond at quiescence: no put/get/close is in flight except parked gets, which have had no
// effect, so emptiness and closedness follow from the completed operations.
func (tg *c29QueueTarget) cond(h *c29Hist) bool {
	n, closed := 0, false
	for _, ops := range h.ops {
		for _, rec := range ops {
			switch {
			case rec.In.Kind == c29Put && rec.Out.V == 1:
				n++
			case rec.In.Kind == c29Get && rec.Out.V == 0:
				n--
			case rec.In.Kind == c29Close:
				closed = true
			}
		}
	}
	return closed || n > 0
}

func (tg *c29QueueTarget) put(h *c29Hist, client, v int) {
	h.call(client, c29Put, v, func() c29Out { return c29Out{V: b2i(tg.q.put(v))} })
}

func (tg *c29QueueTarget) close(h *c29Hist, client, k int) {
	h.call(client, c29Close, k, func() c29Out { tg.q.close(tg.errs[k]); return c29Out{} })
}

func (tg *c29QueueTarget) errNum(err error) int {
	for i, e := range tg.errs {
		if e == err {
			return i
		}
	}
	return -1
}

func (tg *c29QueueTarget) snapshot(h *c29Hist, client int) {
	h.call(client, c29Snap, 0, func() c29Out {
		set := tg.q.gate.lock()
		var b []byte
		for _, v := range tg.q.q {
			b = append(b, c29Enc(v)...)
		}
		k := 0
		if tg.q.err != nil {
			k = tg.errNum(tg.q.err)
		}
		tg.q.unlock()
		return c29Out{V: b2i(set), W: k, S: string(b)}
	})
}

func (tg *c29QueueTarget) worker(h *c29Hist, client int, script []c29Step) {
	defer h.workerExit(client)
	<-h.startCh
	for _, s := range script {
		if h.aborted.Load() {
			return
		}
		c29Yield(s.Pre)
		switch s.Kind {
		case c29Put:
			tg.put(h, client, s.Val)
		case c29Get:
			id, ctx := h.ctxs.new()
			h.inWait.Add(1)
			h.call(client, c29Get, id, func() c29Out {
				v, err := tg.q.get(ctx)
				switch {
				case err == nil:
					return c29Out{V: 0, W: v}
				case err == context.Canceled:
					return c29Out{V: 1}
				}
				if k := tg.errNum(err); k >= 0 {
					return c29Out{V: 2, W: k}
				}
				return c29Out{V: 3}
			})
			h.inWait.Add(-1)
		case c29Close:
			tg.close(h, client, s.Val)
		case c29Snap:
			tg.snapshot(h, client)
		case c29Cancel:
			if id := h.ctxs.pickLive(s.Val); id >= 0 {
				h.cancelCtx(client, id)
			}
		}
	}
}

func (tg *c29QueueTarget) wake(h *c29Hist, ctl int, rng *rand.Rand) {
	if rng.IntN(4) == 0 {
		h.ctlErr++
		tg.close(h, ctl, h.ctlErr)
		h.r.Event("controller_close", 1)
		return
	}
	h.ctlVal++
	tg.put(h, ctl, h.ctlVal)
	h.r.Event("controller_put", 1)
}

func (tg *c29QueueTarget) final(h *c29Hist, ctl int) { tg.snapshot(h, ctl) }
func (tg *c29QueueTarget) raw() c29GateAPI           { return &c29QuicGatePtr{g: &tg.q.gate} }

type c29QuicGatePtr struct{ g *gate }

func (a *c29QuicGatePtr) lock() bool                            { return a.g.lock() }
func (a *c29QuicGatePtr) waitAndLock(ctx context.Context) error { return a.g.waitAndLock(ctx) }
func (a *c29QuicGatePtr) lockIfSet() bool                       { return a.g.lockIfSet() }
func (a *c29QuicGatePtr) unlock(set, viaFunc bool)              { a.g.unlock(set) }

type c29QueueState struct {
	Items     string
	Closed    int
	Cancelled uint64
}

func (tg *c29QueueTarget) model() porcupine.Model {
	return porcupine.Model{
		Init: func() interface{} { return c29QueueState{} },
		Step: func(state, input, output interface{}) (bool, interface{}) {
			s, in, out := state.(c29QueueState), input.(c29In), output.(c29Out)
			switch in.Kind {
			case c29Put: // true and appended iff not closed
				ok := s.Closed == 0
				if (out.V == 1) != ok {
					return false, s
				}
				if ok {
					s.Items += c29Enc(in.Arg)
				}
			case c29Get:
				switch out.V {
				case 0: // head of a non-empty, open queue
					if s.Closed != 0 || len(s.Items) < 2 || s.Items[:2] != c29Enc(out.W) {
						return false, s
					}
					s.Items = s.Items[2:]
				case 1: // ctx error only if its context is done
					if s.Cancelled&(1<<uint(in.Arg)) == 0 {
						return false, s
					}
				case 2: // the error of the first close
					if s.Closed == 0 || out.W != s.Closed {
						return false, s
					}
				default:
					return false, s
				}
			case c29Close:
				if s.Closed == 0 {
					s.Closed = in.Arg
				}
			case c29Snap:
				want := s.Closed != 0 || len(s.Items) > 0
				if (out.V == 1) != want || out.W != s.Closed || out.S != s.Items {
					return false, s
				}
			case c29Cancel:
				s.Cancelled |= 1 << uint(in.Arg)
			default:
				return false, s
			}
			return true, s
		},
		DescribeOperation: func(input, output interface{}) string {
			return (&c29Rec{In: input.(c29In), Out: output.(c29Out), Ret: 1}).String()
		},
	}
}

// ---- runners --------------------------------------------------------------------------

// c29Quiescent is called by the bubble controller after synctest.Wait() with unfinished
// workers. It returns the legitimately parked operations, or fatal=true after reporting.
func c29Quiescent(h *c29Hist, tg c29Target, nworkers int) (parked []*c29Rec, fatal bool) {
	h.r.Event("quiescent_points_with_parked_ops", 1)
	if n := h.holders.Load(); n != 0 {
		panic(fmt.Sprintf("c29 harness: %d holders inside the critical section at quiescence", n))
	}
	cond := tg.cond(h)
	for cl := 0; cl < nworkers; cl++ {
		if h.done[cl].Load() {
			continue
		}
		rec := h.cur[cl].Load()
		if rec == nil {
			panic("c29 harness: unfinished worker outside any operation at quiescence")
		}
		switch rec.In.Kind {
		case c29Wait, c29Get:
			switch {
			case h.ctxs.isCancelled(rec.In.Arg):
				h.viol("parked-after-ctx-cancel", "quiescent, yet %v is still parked although its context was cancelled", rec)
				fatal = true
			case cond:
				h.viol("lost-wakeup", "quiescent with the gate unlocked and the condition set, yet %v is still parked\n%s", rec, h.dump())
				fatal = true
			default:
				parked = append(parked, rec)
			}
		default:
			// lock with the gate free, a non-blocking operation, or unlock by the holder
			h.viol(c29OpName[rec.In.Kind]+"-blocked-at-quiescence", "quiescent (nobody holds the gate), yet %v is parked\n%s", rec, h.dump())
			fatal = true
		}
	}
	if set, unset := tg.tokens(); set >= 0 {
		if set+unset != 1 {
			h.viol("token-invariant", "quiescent and unlocked: len(set)=%d len(unset)=%d, want exactly one token\n%s", set, unset, h.dump())
			fatal = true
		} else if (set == 1) != cond {
			h.viol("cond-token-mismatch", "quiescent: condition should be %v but len(set)=%d len(unset)=%d\n%s", cond, set, unset, h.dump())
			fatal = true
		}
		h.r.Event("token_invariant_checks", 1)
	}
	h.r.Event("legitimately_parked_waiters", int64(len(parked)))
	return parked, fatal
}

// c29Rescue runs after a reported quiescence violation. Nothing here is an oracle: it only
// gets the stuck goroutines out of the gate (cancel every context, then repeatedly lock and
// unlock with the condition set through helper goroutines, injecting a token when even
// lock() parks) so that the test binary does not end with leaked goroutines.
func c29Rescue(h *c29Hist, tg c29Target, nworkers int) {
	h.abortClock = h.clock.Load()
	h.aborted.Store(true)
	h.ctxs.cancelAll()
	g := tg.raw()
	var helpers, helpersDone atomic.Int32
	for round := 0; round < 400; round++ {
		synctest.Wait()
		if int(h.finished.Load()) == nworkers && helpers.Load() == helpersDone.Load() {
			return
		}
		helpers.Add(1)
		go func() {
			g.lock()
			g.unlock(true, false)
			helpersDone.Add(1)
		}()
		synctest.Wait()
		if helpers.Load() != helpersDone.Load() {
			g.unlock(true, false) // even lock() parks: no token anywhere, inject one
		}
	}
}

func c29RunBubble(t *testing.T, h *c29Hist, tg c29Target, scripts [][]c29Step, rng *rand.Rand) (aborted bool) {
	var pan any
	var stack string
	nworkers := len(scripts)
	ctl := nworkers
	func() {
		defer func() {
			if e := recover(); e != nil {
				if aborted && strings.Contains(fmt.Sprint(e), "deadlock") {
					return // the parked goroutines that were just reported
				}
				panic(e)
			}
		}()
		synctest.Test(t, func(t *testing.T) {
			defer func() {
				if e := recover(); e != nil {
					pan, stack = e, string(debug.Stack())
					aborted = true
					h.ctxs.cancelAll()
				}
			}()
			tg.init(h)
			h.startCh = make(chan struct{})
			barrier := rng.IntN(2) == 0 // all workers released together, or each runs as it is created
			if !barrier {
				close(h.startCh)
			}
			for i := range scripts {
				go tg.worker(h, i, scripts[i])
			}
			if barrier {
				close(h.startCh)
			}
			tg.start(h, ctl)
			for iter := 0; ; iter++ {
				synctest.Wait()
				if int(h.finished.Load()) == nworkers {
					break
				}
				if iter > 1000 {
					panic("c29 harness: controller does not converge")
				}
				parked, fatal := c29Quiescent(h, tg, nworkers)
				if fatal {
					aborted = true
					c29Rescue(h, tg, nworkers)
					return
				}
				h.everParked = append(h.everParked, parked...)
				switch rng.IntN(4) {
				case 0:
					h.cancelCtx(ctl, parked[rng.IntN(len(parked))].In.Arg)
					h.r.Event("controller_cancel", 1)
				case 1:
					for _, p := range parked {
						h.cancelCtx(ctl, p.In.Arg)
					}
					h.r.Event("controller_cancel", int64(len(parked)))
				default:
					tg.wake(h, ctl, rng)
				}
			}
			// quiescent with everybody finished: the object must be unlocked and consistent
			if set, unset := tg.tokens(); set >= 0 {
				if set+unset != 1 {
					h.viol("token-invariant", "all operations returned: len(set)=%d len(unset)=%d, want exactly one token\n%s", set, unset, h.dump())
				} else if (set == 1) != tg.cond(h) {
					h.viol("cond-token-mismatch", "all operations returned: condition should be %v but len(set)=%d\n%s", tg.cond(h), set, h.dump())
				}
				h.r.Event("token_invariant_checks", 1)
			}
			tg.final(h, ctl)
		})
	}()
	if pan != nil {
		h.viol("panic-in-controller", "%v\n%s", pan, c29Trim(stack))
	}
	return aborted
}

func c29RunPlain(h *c29Hist, tg c29Target, scripts [][]c29Step, rng *rand.Rand) {
	nworkers := len(scripts)
	ctl := nworkers
	tg.init(h)
	h.startCh = make(chan struct{})
	barrier := rng.IntN(2) == 0
	if !barrier {
		close(h.startCh)
	}
	var wg verifrt.WG
	for i := range scripts {
		wg.Add(1)
		go func() {
			defer wg.Done()
			tg.worker(h, i, scripts[i])
		}()
	}
	if barrier {
		close(h.startCh)
	}
	tg.start(h, ctl)
	plan := rng.IntN(4)
	period := 1 + rng.IntN(40)
	// After an action of its own the controller waits for somebody else to move (a stamp or
	// a finished worker) before it acts again. This only shapes the workload; no oracle
	// depends on it.
	// "Somebody else moved" = stamps not made by the controller, or finished workers. The
	// snapshot is taken BEFORE the situation is evaluated, so a move that happens while the
	// controller acts is never missed.
	lastOthers, lastFin := int64(-1), int32(-1)
	for polls := 1; int(h.finished.Load()) < nworkers; polls++ {
		runtime.Gosched()
		others, fin := h.clock.Load()-2*int64(len(h.ops[ctl])), h.finished.Load()
		if others == lastOthers && fin == lastFin {
			continue
		}
		acted := false
		if int(h.finished.Load()+h.inWait.Load()) >= nworkers {
			// every unfinished worker is (about to be) inside a waiting operation
			if rng.IntN(2) == 0 {
				for cl := 0; cl < nworkers && !acted; cl++ {
					rec := h.cur[cl].Load()
					if rec != nil && (rec.In.Kind == c29Wait || rec.In.Kind == c29Get) && !h.ctxs.isCancelled(rec.In.Arg) {
						h.cancelCtx(ctl, rec.In.Arg)
						h.r.Event("controller_cancel", 1)
						acted = true
					}
				}
			}
			if !acted {
				tg.wake(h, ctl, rng)
				acted = true
			}
		} else if plan > 0 && polls%period == 0 {
			if id := h.ctxs.pickLive(rng.IntN(64)); id >= 0 {
				h.cancelCtx(ctl, id)
				h.r.Event("controller_cancel", 1)
				plan--
			}
		}
		if acted {
			lastOthers, lastFin = others, fin
		}
	}
	wg.Wait()
	tg.final(h, ctl)
}

// ---- checking -------------------------------------------------------------------------

func (h *c29Hist) all() (done []*c29Rec, pending []*c29Rec) {
	for cl := range h.ops {
		for _, rec := range h.ops[cl] {
			switch {
			case h.abortClock == 0 || rec.Ret <= h.abortClock:
				done = append(done, rec)
			case rec.Call <= h.abortClock:
				pending = append(pending, &c29Rec{In: rec.In, Call: rec.Call})
			}
		}
		if rec := h.cur[cl].Load(); rec != nil && (h.abortClock == 0 || rec.Call <= h.abortClock) {
			pending = append(pending, rec)
		}
	}
	sort.Slice(done, func(i, j int) bool { return done[i].Call < done[j].Call })
	return
}

func (h *c29Hist) dump() string {
	done, pending := h.all()
	var sb strings.Builder
	for i, rec := range append(done, pending...) {
		if i >= 120 {
			sb.WriteString("…")
			break
		}
		sb.WriteString(rec.String())
		sb.WriteString("; ")
	}
	return sb.String()
}

// Wall-clock bound of one porcupine search. Exceeding it makes that history inconclusive
// (never a violation).
const c29PorcupineTimeout = 3 * time.Second

type c29Stats struct {
	mu            sync.Mutex
	sampled       map[string]bool
	interleavings map[uint64]struct{}
	maxOverlap    int
}

func (h *c29Hist) check(tg c29Target, mode string, st *c29Stats, aborted bool) {
	r := h.r
	done, pending := h.all()
	if len(pending) > 0 {
		// Only reachable after a reported quiescence violation. A parked gate/queue operation
		// has had no visible effect, so it is left out of the linearizability check.
		r.Event("pending_ops_dropped", int64(len(pending)))
	}
	ops := make([]porcupine.Operation, 0, len(done))
	for _, rec := range done {
		ops = append(ops, porcupine.Operation{ClientId: rec.In.Client, Input: rec.In, Call: rec.Call, Output: rec.Out, Return: rec.Ret})
	}
	model := tg.model()
	t0 := time.Now()
	res, _ := porcupine.CheckOperationsVerbose(model, ops, c29PorcupineTimeout)
	if ms := time.Since(t0).Milliseconds(); ms >= 100 {
		r.Event("porcupine_checks_slower_than_100ms", 1) // diagnostic only
	}
	if res == porcupine.Unknown {
		// Search gave up. A linearization is a proof by itself: try the completion order as a
		// witness (sorted by return stamp it respects the real-time order by construction) and
		// replay it through the same sequential model.
		byRet := append([]*c29Rec{}, done...)
		sort.Slice(byRet, func(i, j int) bool { return byRet[i].Ret < byRet[j].Ret })
		state, ok := model.Init(), true
		for _, rec := range byRet {
			if ok, state = model.Step(state, rec.In, rec.Out); !ok {
				break
			}
		}
		if ok {
			res = porcupine.Ok
			r.Event("porcupine_timeouts_settled_by_completion_order_witness", 1)
		}
	}
	switch res {
	case porcupine.Ok:
		r.Event("histories_linearizable", 1)
	case porcupine.Illegal:
		h.viol("not-linearizable", "%s history of %d operations has no linearization in the sequential model:\n%s", mode, len(done), h.dump())
		r.Event("histories_not_linearizable", 1)
	default:
		r.Event("porcupine_unknown", 1)
		r.Note("porcupine gave up (timeout) on a %s/%s history of %d operations and the completion order is no witness: inconclusive for that history", h.tgt, mode, len(done))
	}

	// statistics, non-triviality, interleaving signature
	overlap := 0
	for i, a := range done {
		for _, b := range done[i+1:] {
			if b.Call > a.Ret {
				break
			}
			if a.In.Client != b.In.Client {
				overlap++
			}
		}
	}
	waitedOK := 0
	for _, rec := range done {
		k := "op_" + c29OpName[rec.In.Kind]
		switch rec.In.Kind {
		case c29Lock:
			k += []string{"_saw_unset", "_saw_set"}[rec.Out.V]
		case c29Wait:
			k += []string{"_acquired", "_ctx_error", "", "_other_error"}[rec.Out.V]
			if rec.Out.V == 0 {
				waitedOK++
			}
		case c29Try, c29Put:
			k += []string{"_false", "_true"}[rec.Out.V]
		case c29Get:
			k += []string{"_item", "_ctx_error", "_close_error", "_other_error"}[rec.Out.V]
			if rec.Out.V == 0 {
				waitedOK++
			}
		}
		r.Event(k, 1)
	}
	woken := 0
	for _, rec := range h.everParked {
		if rec.Ret != 0 && (rec.Out.V == 0 || rec.Out.V == 2) {
			woken++
		}
	}
	r.Event("parked_then_woken_by_unlock_set_or_put_or_close", int64(woken))
	r.Event("operations", int64(len(done)))
	r.Event("histories_"+h.tgt+"_"+mode, 1)
	byRet := append([]*c29Rec{}, done...)
	sort.Slice(byRet, func(i, j int) bool { return byRet[i].Ret < byRet[j].Ret })
	f := fnv.New64a()
	fmt.Fprintf(f, "%s/%s/", h.tgt, mode)
	for _, rec := range byRet {
		fmt.Fprintf(f, "%d.%d.%d.%d;", rec.In.Client, rec.In.Kind, rec.Out.V, rec.Out.W)
	}
	sig := f.Sum64()
	st.mu.Lock()
	st.interleavings[sig] = struct{}{}
	if overlap > st.maxOverlap {
		st.maxOverlap = overlap
	}
	st.mu.Unlock()
	if overlap > 0 {
		r.Event("histories_with_overlapping_ops", 1)
	}
	r.EvalHash(overlap > 0 && waitedOK > 0 && !aborted, sig)
	st.mu.Lock()
	doSample := len(done) >= 12 && len(done) <= 45 && overlap > 3 && waitedOK > 0 && !st.sampled[h.tgt+mode]
	if doSample {
		st.sampled[h.tgt+mode] = true
	}
	st.mu.Unlock()
	if doSample {
		var s []string
		for _, rec := range done {
			s = append(s, rec.String())
		}
		r.Sample(map[string]any{"target": h.tgt, "mode": mode, "history_by_call_stamp": s})
	}
}

// ---- generators -----------------------------------------------------------------------

func c29Split(rng *rand.Rand, total, nworkers int) []int {
	n := make([]int, nworkers)
	for i := range n {
		n[i] = 1
	}
	for i := nworkers; i < total; i++ {
		n[rng.IntN(nworkers)]++
	}
	return n
}

func c29YieldCount(rng *rand.Rand) int {
	switch rng.IntN(4) {
	case 0:
		return 1
	case 1:
		return rng.IntN(4)
	}
	return 0
}

func c29GateScripts(rng *rand.Rand) [][]c29Step {
	nworkers := 2 + rng.IntN(15)
	if rng.IntN(3) == 0 {
		nworkers = 2 + rng.IntN(3)
	}
	total := 10 + rng.IntN(21) // each step is up to two recorded operations
	if total < nworkers {
		total = nworkers
	}
	pSet := []float64{0.15, 0.5, 0.85}[rng.IntN(3)]
	scripts := make([][]c29Step, nworkers)
	for w, n := range c29Split(rng, total, nworkers) {
		for i := 0; i < n; i++ {
			s := c29Step{Pre: c29YieldCount(rng), CS: c29YieldCount(rng), B: rng.Float64() < pSet, Fn: rng.IntN(4) == 0, Val: rng.IntN(64)}
			switch x := rng.IntN(100); {
			case x < 30:
				s.Kind = c29Lock
			case x < 65:
				s.Kind = c29Wait
			case x < 85:
				s.Kind = c29Try
			default:
				s.Kind = c29Cancel
			}
			scripts[w] = append(scripts[w], s)
		}
	}
	return scripts
}

func c29QueueScripts(rng *rand.Rand) [][]c29Step {
	nworkers := 2 + rng.IntN(9)
	if rng.IntN(3) == 0 {
		nworkers = 2 + rng.IntN(3)
	}
	total := 20 + rng.IntN(41)
	if total < nworkers {
		total = nworkers
	}
	pClose := []int{0, 2, 6}[rng.IntN(3)]
	pPut := 30 + rng.IntN(25)
	next := 0
	scripts := make([][]c29Step, nworkers)
	for w, n := range c29Split(rng, total, nworkers) {
		for i := 0; i < n; i++ {
			s := c29Step{Pre: c29YieldCount(rng)}
			switch x := rng.IntN(100); {
			case x < pClose:
				s.Kind = c29Close
				s.Val = 1 + rng.IntN(90)
			case x < pClose+pPut:
				s.Kind = c29Put
				next++
				s.Val = next // unique per history, < 1000
			case x < 84:
				s.Kind = c29Get
			case x < 92:
				s.Kind = c29Snap
			default:
				s.Kind = c29Cancel
				s.Val = rng.IntN(64)
			}
			scripts[w] = append(scripts[w], s)
		}
	}
	return scripts
}

func c29Shape(scripts [][]c29Step) []string {
	var out []string
	for _, sc := range scripts {
		var sb strings.Builder
		for _, s := range sc {
			sb.WriteString(c29OpName[s.Kind][:1])
			if s.Kind == c29Lock || s.Kind == c29Wait || s.Kind == c29Try {
				sb.WriteString(map[bool]string{true: "+", false: "-"}[s.B])
			}
		}
		out = append(out, sb.String())
	}
	return out
}

// ---- the monitor ----------------------------------------------------------------------

func TestVerif_C29(t *testing.T) {
	r := verifrt.Start(t, "C29")
	defer r.Finish()
	r.SetRule("one case = one concurrent history (2-16 worker goroutines + a controller, PRNG scripts of lock/waitAndLock/lockIfSet/unlock/cancel resp. put/get/close/snapshot/cancel, PRNG yields) on a fresh quic.gate, internal/gate.Gate or quic.queue[int], either inside a synctest bubble (quiescence checks) or as plain goroutines (GOMAXPROCS 1-16). non-trivial = operations of different goroutines overlapped in the stamps AND at least one waiting operation (waitAndLock/get) succeeded; distinct = hash of (target, mode, completion order of (goroutine, op, result)) = interleaving signature")
	r.Assume("sequential models of gate and queue written in the harness from the doc comments; a waiting operation may return its context error whenever its context is done, also when it could have succeeded")
	r.Assume("linearizability decided by porcupine v1.3.0; stamps from one atomic counter, taken by the calling goroutine right before the call and right after the return")
	r.Assume("internal/gate.Gate is driven through its exported API from package quic (no token-channel inspection for that target)")

	st := &c29Stats{interleavings: map[uint64]struct{}{}, sampled: map[string]bool{}}
	violated := map[string]bool{} // target -> bubble phase reported a stuck operation

	type target struct {
		name string
		mk   func(rng *rand.Rand, nclients int) c29Target
		gen  func(rng *rand.Rand) [][]c29Step
	}
	targets := []target{
		{"quicgate", func(rng *rand.Rand, n int) c29Target {
			return &c29GateTarget{initLocked: rng.IntN(2) == 0, initSet: rng.IntN(2) == 0, nclients: n}
		}, c29GateScripts},
		{"igate", func(rng *rand.Rand, n int) c29Target {
			return &c29GateTarget{internal: true, initSet: rng.IntN(2) == 0, nclients: n}
		}, c29GateScripts},
		{"queue", func(rng *rand.Rand, n int) c29Target { return &c29QueueTarget{} }, c29QueueScripts},
	}
	mkTarget := func(tg target, rng *rand.Rand, n int) c29Target {
		x := tg.mk(rng, n)
		if g, ok := x.(*c29GateTarget); ok && !g.internal && !g.initLocked {
			g.initSet = false // newGate() is documented as unlocked with the condition unset
		}
		return x
	}

	nBubble := r.N(400, 8000)
	nPlain := r.N(300, 5000)
	for _, tg := range targets {
		r.Cases("bubble-"+tg.name, nBubble, func(c *verifrt.Case) {
			scripts := tg.gen(c.Rng)
			x := mkTarget(tg, c.Rng, len(scripts)+1)
			c.Describe(map[string]any{"target": tg.name, "mode": "bubble", "workers": len(scripts), "scripts": c29Shape(scripts)})
			h := c29NewHist(r, c, tg.name, len(scripts)+1)
			aborted := c29RunBubble(t, h, x, scripts, c.Rng)
			if aborted {
				violated[tg.name] = true
			}
			h.check(x, "bubble", st, aborted)
		})
	}
	for _, tg := range targets {
		if violated[tg.name] {
			// An operation that never returns would hang a plain-goroutine history until the
			// watchdog and lose the report above.
			r.Note("plain-goroutine histories of %s skipped: its bubble histories already reported a stuck operation", tg.name)
			continue
		}
		r.Cases("plain-"+tg.name, nPlain, func(c *verifrt.Case) {
			scripts := tg.gen(c.Rng)
			x := mkTarget(tg, c.Rng, len(scripts)+1)
			procs := []int{1, 2, 4, 8, 16}[c.Rng.IntN(5)]
			c.Describe(map[string]any{"target": tg.name, "mode": "plain", "workers": len(scripts), "gomaxprocs": procs, "scripts": c29Shape(scripts)})
			prev := runtime.GOMAXPROCS(procs)
			defer runtime.GOMAXPROCS(prev)
			h := c29NewHist(r, c, tg.name, len(scripts)+1)
			c29RunPlain(h, x, scripts, c.Rng)
			h.check(x, "plain", st, false)
		})
	}

	st.mu.Lock()
	r.SetExtra("distinct_interleavings", len(st.interleavings))
	r.SetExtra("max_overlapping_op_pairs_in_one_history", st.maxOverlap)
	st.mu.Unlock()
	if r.Replay == nil {
		total := int64(3 * (nBubble + nPlain))
		r.Require("histories_linearizable", total*95/100)
		r.Require("histories_with_overlapping_ops", total/2)
		r.Require("quiescent_points_with_parked_ops", int64(nBubble))
		r.Require("parked_then_woken_by_unlock_set_or_put_or_close", int64(nBubble)/2)
		r.Require("op_waitAndLock_acquired", int64(nBubble))
		r.Require("op_get_item", int64(nBubble))
		r.Require("op_get_close_error", 20)
	}
}
