//go:build verif

package quic

import (
	"errors"
	"fmt"
	"sync"
	"testing"

	"golang.org/x/net/internal/verifrt"
)

const c30chunk = 4096 // size of a pipebuf (pipe.go)

// c30model is the reference: the window [start,end) and, for every offset ever written
// while inside the window, the latest byte. Offsets are stored relative to origin.
type c30model struct {
	origin     int64
	start, end int64
	val        []byte
	written    []bool
}

func (m *c30model) write(b []byte, off int64) {
	for i, x := range b {
		o := off + int64(i)
		if o < m.start {
			continue // pipe.writeAt: "Writes to offsets before p.start are discarded"
		}
		m.val[o-m.origin] = x
		m.written[o-m.origin] = true
	}
	if e := off + int64(len(b)); e > m.end {
		m.end = e
	}
}

func (m *c30model) discard(off int64) {
	m.start = off
	if off > m.end {
		m.end = off
	}
}

// compare checks got (the bytes the pipe returned for [off, off+len(got))) against the
// model; bytes never written (gaps) are unconstrained.
func (m *c30model) compare(off int64, got []byte) (int64, bool) {
	for i, x := range got {
		o := off + int64(i) - m.origin
		if m.written[o] && m.val[o] != x {
			return off + int64(i), false
		}
	}
	return 0, true
}

func TestVerif_C30(t *testing.T) {
	r := verifrt.Start(t, "C30")
	defer r.Finish()
	// a pipe whose buffer chain has been corrupted can make an operation walk it forever
	// (see verifrt.CaseCPUBudget; a case takes well under a millisecond)
	r.CaseCPUBudget(60, "case-never-finishes:pipe-operation-spins")
	r.SetRule("one case = one history of 40 PRNG ops on a fresh pipe whose window is first moved to a PRNG origin (0 .. 2^61): writeAt (before start / straddling start / inside / at end / past end leaving a gap; 0..3.2 chunks long, biased to chunk boundaries +-1), read/copy of sub-ranges, peek, discardBefore (inside a chunk, exactly on a chunk boundary, at end, past end), availableBuffer + direct fill + end bump as Stream's fast path does (optionally with a discard in between); after every mutating op start/end and the WHOLE window are compared with the model. non-trivial = history with a write crossing a chunk boundary AND an out-of-order write (gap or overwrite inside the window) AND a discard that left live bytes; distinct by hash of the op list")
	r.Assume("callers respect the documented contract: read/copy ranges lie inside [start,end); peek(n) with n <= end-start; discardBefore offsets never move backwards; the availableBuffer fast path fills only the returned slice and no writeAt happens before the end bump (Stream flushes first)")

	const span = 1 << 17 // the history stays within [origin, origin+span)

	modelPool := sync.Pool{New: func() any {
		return &c30model{val: make([]byte, span+4*c30chunk), written: make([]bool, span+4*c30chunk)}
	}}
	run := func(c *verifrt.Case) {
		rng := c.Rng
		origin := []int64{0, 0, 1, 4095, 4096, 1<<32 - 100, 1 << 40, 1<<61 + 12345}[rng.IntN(8)]
		if rng.IntN(4) == 0 {
			origin = int64(rng.Uint64() >> (3 + rng.UintN(50)))
		}
		m := modelPool.Get().(*c30model)
		defer modelPool.Put(m)
		clear(m.written)
		m.origin, m.start, m.end = origin, 0, 0
		var p pipe
		var ops []string
		desc := map[string]any{"origin": origin}
		note := func(f string, a ...any) {
			ops = append(ops, fmt.Sprintf(f, a...))
			desc["ops"] = ops
			c.Describe(desc)
		}
		if origin != 0 {
			note("discardBefore(origin)")
			p.discardBefore(origin)
			m.discard(origin)
		} else {
			m.start, m.end = 0, 0
		}
		var seq byte
		fill := func(b []byte) {
			seq += 37
			x := uint32(seq)*2654435761 + uint32(rng.Uint32())
			for i := range b {
				x ^= x << 13
				x ^= x >> 17
				x ^= x << 5
				b[i] = byte(x)
			}
		}
		bad := false
		fail := func(key, f string, a ...any) {
			c.Violation(key, "%s; history (offsets relative to origin %d): %v", fmt.Sprintf(f, a...), origin, ops)
			bad = true
		}
		// chunkEdge returns an absolute offset on a real buffer boundary inside/near the window.
		chunkEdge := func() int64 {
			base := m.start
			if p.head != nil {
				base = p.head.off
			}
			maxk := (m.end-base)/c30chunk + 1
			return base + c30chunk*rng.Int64N(maxk+1)
		}
		within := func(lo, hi int64) int64 { // PRNG value in [lo,hi], biased to the ends and to chunk edges
			if hi <= lo {
				return lo
			}
			switch rng.IntN(6) {
			case 0:
				return lo
			case 1:
				return hi
			case 2:
				e := chunkEdge() + int64(rng.IntN(3)) - 1
				if e >= lo && e <= hi {
					return e
				}
			}
			return lo + rng.Int64N(hi-lo+1)
		}
		verifyWindow := func(after string) {
			if p.start != m.start || p.end != m.end {
				fail("window-bounds", "after %s: pipe window [%d,%d), model [%d,%d)", after, p.start-origin, p.end-origin, m.start-origin, m.end-origin)
				return
			}
			n := int(m.end - m.start)
			off := m.start
			total := 0
			err := p.read(m.start, n, func(b []byte) error {
				if at, ok := m.compare(off, b); !ok {
					fail("read-wrong-byte", "after %s: read of whole window returned %#x at offset %d, model has %#x", after, b[at-off], at-origin, m.val[at-origin])
					return errors.New("stop")
				}
				off += int64(len(b))
				total += len(b)
				return nil
			})
			if err == nil && total != n {
				fail("read-length", "after %s: read(start,%d) delivered %d bytes", after, n, total)
			}
		}

		var crossed, outOfOrder, liveDiscard bool
		var nWrite, nRead, nPeek, nDiscard, nFast, nBytes, nGap, nBefore, nPeekShort, nEdgeDiscard int64
		for step := 0; step < 40 && !bad; step++ {
			room := origin + span - m.end // how far the window may still grow
			k := rng.IntN(20)
			switch {
			case k < 9 && room > 4*c30chunk: // writeAt
				var n int
				switch rng.IntN(5) {
				case 0:
					n = rng.IntN(8)
				case 1:
					n = c30chunk + rng.IntN(3) - 1
				case 2:
					n = rng.IntN(13000)
				default:
					n = rng.IntN(3000)
				}
				var off int64
				kind := rng.IntN(10)
				switch {
				case kind < 3: // append at end
					off = m.end
				case kind < 5: // inside the window (overwrite)
					off = within(m.start, m.end)
				case kind < 7: // starting before the window
					back := int64(rng.IntN(6000))
					off = m.start - back
					if off < 0 {
						off = 0
					}
				case kind < 9: // past the end, leaving a gap
					off = m.end + 1 + int64(rng.IntN(2*c30chunk+2))
				default: // land exactly on / next to a buffer edge
					off = chunkEdge() + int64(rng.IntN(3)) - 1 - int64(rng.IntN(2)*n)
					if off < 0 {
						off = 0
					}
				}
				b := make([]byte, n)
				fill(b)
				note("writeAt(len=%d, off=%d)", n, off-origin)
				if off > m.end {
					nGap++
					outOfOrder = true
				} else if off < m.end && off+int64(n) > m.start {
					outOfOrder = true
				}
				if off < m.start {
					nBefore++
				}
				lo := max(off, m.start)
				if hi := off + int64(n); hi > lo && p.head != nil && (lo-p.head.off)/c30chunk != (hi-1-p.head.off)/c30chunk {
					crossed = true
				} else if p.head == nil && hi-lo > c30chunk {
					crossed = true
				}
				p.writeAt(b, off)
				m.write(b, off)
				nWrite++
				nBytes += int64(n)
				verifyWindow(ops[len(ops)-1])
			case k < 12: // copy of a sub-range
				if m.end == m.start {
					continue
				}
				a := within(m.start, m.end-1)
				e := within(a, m.end)
				note("copy(%d,%d)", a-origin, e-origin)
				got := make([]byte, e-a)
				p.copy(a, got)
				if at, ok := m.compare(a, got); !ok {
					fail("copy-wrong-byte", "copy(%d,len %d) returned %#x at offset %d, model has %#x", a-origin, e-a, got[at-a], at-origin, m.val[at-origin])
				}
				nRead++
			case k < 13: // read whose callback stops early: the error must come back
				if m.end-m.start < 2 {
					continue
				}
				note("read-with-error")
				sentinel := errors.New("sentinel")
				calls := 0
				err := p.read(m.start, int(m.end-m.start), func(b []byte) error { calls++; return sentinel })
				if err != sentinel || calls != 1 {
					fail("read-error-propagation", "read callback error: got %v after %d calls", err, calls)
				}
				nRead++
			case k < 15: // peek
				n := within(0, m.end-m.start)
				note("peek(%d)", n)
				got := p.peek(n)
				if int64(len(got)) > n {
					fail("peek-too-long", "peek(%d) returned %d bytes", n, len(got))
				} else if at, ok := m.compare(m.start, got); !ok {
					fail("peek-wrong-byte", "peek(%d) returned %#x at offset %d, model has %#x", n, got[at-m.start], at-origin, m.val[at-origin])
				}
				if n > 0 && len(got) == 0 {
					nPeekShort++
				}
				nPeek++
			case k < 18: // discardBefore
				var off int64
				switch rng.IntN(8) {
				case 0:
					off = m.end
				case 1:
					off = m.end + int64(rng.IntN(2*c30chunk))
				case 2, 3:
					off = chunkEdge()
					if off >= m.start {
						nEdgeDiscard++
					}
				default:
					off = within(m.start, m.end)
				}
				if off < m.start {
					off = m.start
				}
				if off > origin+span {
					off = origin + span
				}
				note("discardBefore(%d)", off-origin)
				if off > m.start && off < m.end {
					liveDiscard = true
				}
				p.discardBefore(off)
				m.discard(off)
				nDiscard++
				verifyWindow(ops[len(ops)-1])
			default: // Stream's write fast path
				buf := p.availableBuffer()
				if len(buf) == 0 || room < c30chunk {
					continue
				}
				n := 1 + rng.IntN(len(buf))
				if rng.IntN(3) == 0 {
					n = len(buf)
				}
				b := make([]byte, n)
				fill(b)
				copy(buf, b)
				at := m.end
				mid := int64(-1)
				if rng.IntN(3) == 0 && m.end > m.start { // an ACK discards acked data meanwhile
					mid = within(m.start, m.end)
					p.discardBefore(mid)
					m.discard(mid)
				}
				p.end += int64(n)
				note("availableBuffer: fill %d of %d at %d, discardBefore(%d) in between, end+=%d", n, len(buf), at-origin, mid-origin, n)
				m.write(b, at)
				nFast++
				nBytes += int64(n)
				verifyWindow(ops[len(ops)-1])
			}
		}
		// drain so the buffers go back to the pool (and the last discard path is exercised)
		p.discardBefore(m.end)
		m.discard(m.end)
		if p.start != m.start || p.end != m.end {
			fail("window-bounds", "after final discardBefore(end): pipe [%d,%d) model [%d,%d)", p.start-origin, p.end-origin, m.start-origin, m.end-origin)
		}

		r.Eval(crossed && outOfOrder && liveDiscard, origin, ops)
		r.Event("ops_writeAt", nWrite)
		r.Event("ops_copy_or_read", nRead)
		r.Event("ops_peek", nPeek)
		r.Event("ops_discardBefore", nDiscard)
		r.Event("ops_fastpath_availableBuffer", nFast)
		r.Event("bytes_written", nBytes)
		r.Event("writes_leaving_gap", nGap)
		r.Event("writes_starting_before_window", nBefore)
		r.Event("discards_on_buffer_edge", nEdgeDiscard)
		r.Event("peek_empty_although_window_nonempty", nPeekShort)
		if crossed {
			r.Event("histories_with_chunk_crossing_write", 1)
		}
		if c.Index < 2 {
			r.Sample(map[string]any{"origin": origin, "ops": ops})
		}
	}
	r.CasesParallel("histories", r.N(8000, 250000), 0, run)

	r.Require("ops_writeAt", 10000)
	r.Require("ops_discardBefore", 10000)
	r.Require("ops_fastpath_availableBuffer", 1000)
	r.Require("writes_leaving_gap", 1000)
	r.Require("writes_starting_before_window", 1000)
	r.Require("discards_on_buffer_edge", 1000)
	r.Require("histories_with_chunk_crossing_write", 1000)
}
