//go:build verif

package quic

import (
	"bytes"
	"crypto/tls"
	"fmt"
	"math/rand/v2"

	"golang.org/x/net/internal/verifrt"
)

var c28suites = []uint16{tls.TLS_AES_128_GCM_SHA256, tls.TLS_AES_256_GCM_SHA384, tls.TLS_CHACHA20_POLY1305_SHA256}

func c28secret(rng *rand.Rand, suite uint16) []byte {
	if suite == tls.TLS_AES_256_GCM_SHA384 {
		return c28rand(rng, 48)
	}
	return c28rand(rng, 32)
}

// c28pn picks (pnum, largest acked by sender, largest received by receiver) consistent
// with the packet-number coding contract (C23): acked < pnum, acked <= received < pnum.
func c28pn(rng *rand.Rand) (pnum, acked, recvd packetNumber) {
	gap := int64([]uint64{1, 1 << 7, 1 << 15, 1 << 23, 1<<31 - 1}[rng.IntN(5)]) - int64(rng.IntN(3))
	if gap < 1 || rng.IntN(3) == 0 {
		gap = 1 + rng.Int64N(1<<uint(1+rng.IntN(30)))
	}
	p := int64(c28int(rng, c28maxVarint))
	if rng.IntN(3) == 0 {
		p = int64(rng.IntN(300))
	}
	a := p - gap
	if a < -1 {
		a = -1
	}
	l := a + rng.Int64N(p-a)
	return packetNumber(p), packetNumber(a), packetNumber(l)
}

type c28long struct {
	p      longPacket
	acked  packetNumber
	recvd  packetNumber
	keys   fixedKeys
	suite  uint16
	wire   []byte
	paylen int
}

func (x *c28long) String() string {
	return fmt.Sprintf("type=%v version=%#x num=%d acked=%d receiver_largest=%d dcid=%x scid=%x token=%x payload_len=%d suite=%#x wire=%x", x.p.ptype, x.p.version, x.p.num, x.acked, x.recvd, x.p.dstConnID, x.p.srcConnID, x.p.extra, x.paylen, x.suite, x.wire)
}

// c28buildLong writes one protected long-header packet with w (appending to the datagram).
func c28buildLong(rng *rand.Rand, w *packetWriter) *c28long {
	x := &c28long{}
	x.suite = c28suites[rng.IntN(3)]
	secret := c28secret(rng, x.suite)
	x.keys.init(x.suite, secret)
	x.p.ptype = []packetType{packetTypeInitial, packetType0RTT, packetTypeHandshake}[rng.IntN(3)]
	x.p.version = uint32(rng.Uint32()) | 1 // never 0 (that is Version Negotiation)
	if rng.IntN(2) == 0 {
		x.p.version = quicVersion1
	}
	x.p.dstConnID = c28rand(rng, []int{0, 1, 8, 20, rng.IntN(21)}[rng.IntN(5)])
	x.p.srcConnID = c28rand(rng, []int{0, 1, 8, 20, rng.IntN(21)}[rng.IntN(5)])
	if x.p.ptype == packetTypeInitial {
		x.p.extra = c28rand(rng, []int{0, 0, 1, 63, 64, 200}[rng.IntN(6)])
	}
	x.p.num, x.acked, x.recvd = c28pn(rng)
	if x.p.ptype == packetTypeInitial && rng.IntN(4) == 0 {
		// real Initial keys
		cid := c28rand(rng, 8+rng.IntN(13))
		x.keys = initialKeys(cid, clientSide).w
		x.suite = tls.TLS_AES_128_GCM_SHA256
	}
	start := len(w.b)
	w.startProtectedLongHeaderPacket(x.acked, x.p)
	if w.pktLim == len(w.b) {
		return nil // no room in this datagram
	}
	n := []int{1, 2, 3, 4, 20, 100, rng.IntN(1000)}[rng.IntN(7)]
	if n < 1 {
		n = 1
	}
	if n > w.avail() {
		n = w.avail()
	}
	if n < 1 {
		w.b = w.b[:start]
		return nil
	}
	pay := c28rand(rng, n)
	pay[0] |= 1 // a PING-like first byte so the payload is not all padding
	w.b = append(w.b, pay...)
	x.p.payload = pay
	x.paylen = n
	sent := w.finishProtectedLongHeaderPacket(x.acked, x.keys, x.p)
	if sent == nil {
		return nil
	}
	x.wire = append([]byte{}, w.b[start:]...)
	return x
}

// c28checkLong parses wire (which starts with the packet, maybe followed by others) and
// compares with x. Returns the length consumed or -1.
func c28checkLong(c *verifrt.Case, x *c28long, wire []byte) int {
	in := c28tight(wire)
	got, n := parseLongHeaderPacket(in, x.keys, x.recvd)
	if n != len(x.wire) {
		c.Violation("long-packet-roundtrip-length", "parseLongHeaderPacket returned n=%d, packet is %d bytes; %s", n, len(x.wire), x)
		return -1
	}
	// the writer pads very short payloads with PADDING frames (zero bytes)
	pay := got.payload
	if len(pay) < len(x.p.payload) || !bytes.Equal(pay[:len(x.p.payload)], x.p.payload) || len(bytes.Trim(pay[len(x.p.payload):], "\x00")) != 0 {
		c.Violation("long-packet-roundtrip-payload", "payload %x came back as %x; %s", x.p.payload, pay, x)
		return n
	}
	if got.ptype != x.p.ptype || got.version != x.p.version || got.num != x.p.num || !bytes.Equal(got.dstConnID, x.p.dstConnID) || !bytes.Equal(got.srcConnID, x.p.srcConnID) || !bytes.Equal(got.extra, x.p.extra) {
		c.Violation("long-packet-roundtrip-fields", "parsed type=%v version=%#x num=%d dcid=%x scid=%x token=%x; %s", got.ptype, got.version, got.num, got.dstConnID, got.srcConnID, got.extra, x)
	}
	if s := skipLongHeaderPacket(c28tight(wire)); s != len(x.wire) {
		c.Violation("skip-long-packet-length", "skipLongHeaderPacket=%d, packet is %d bytes; %s", s, len(x.wire), x)
	}
	if id, ok := dstConnIDForDatagram(c28tight(wire)); !ok || !bytes.Equal(id, x.p.dstConnID) {
		c.Violation("dst-conn-id-for-datagram", "dstConnIDForDatagram=%x,%v; %s", id, ok, x)
	}
	return n
}

func c28packets(r *verifrt.R, k *c28counts) {
	r.CasesParallel("packets-long", r.N(1500, 60000), 0, func(c *verifrt.Case) {
		rng := c.Rng
		var w packetWriter
		w.reset([]int{1200, 1200, 1500, 300, 120 + rng.IntN(200), 9000}[rng.IntN(6)])
		// up to three coalesced long-header packets
		var xs []*c28long
		for i, n := 0, 1+rng.IntN(3); i < n; i++ {
			if x := c28buildLong(rng, &w); x != nil {
				xs = append(xs, x)
			}
		}
		if len(xs) == 0 {
			return
		}
		dgram := append([]byte{}, w.datagram()...)
		c.Describe(map[string]any{"datagram": fmt.Sprintf("%x", dgram), "packets": len(xs), "first": xs[0].String()})
		off := 0
		for _, x := range xs {
			n := c28checkLong(c, x, dgram[off:])
			if n < 0 {
				return
			}
			off += n
			k.add("long_packets_roundtrip", 1)
			k.add(fmt.Sprintf("long_packets_pnumlen_%d", packetNumberLength(x.p.num, x.acked)), 1)
		}
		if off != len(dgram) {
			c.Violation("coalesced-length", "packets cover %d of %d datagram bytes", off, len(dgram))
		}
		// tamper with the first packet alone: every bit (sampled when long), every truncation
		x := xs[0]
		nbits := 8 * len(x.wire)
		step := 1
		if nbits > 2400 {
			step = nbits / 1200
		}
		for bit := rng.IntN(step); bit < nbits; bit += step {
			m := c28tight(x.wire)
			m[bit/8] ^= 1 << (bit % 8)
			if got, n := parseLongHeaderPacket(m, x.keys, x.recvd); n >= 0 && got.ptype == packetTypeRetry {
				// the flip turned the type bits into Retry, whose integrity tag is checked
				// by parseRetryPacket, not here
				if _, ok := parseRetryPacket(m, x.p.dstConnID); ok {
					c.Violation("long-packet-bitflip-accepted-as-retry", "bit %d flipped: accepted as a Retry packet; %s", bit, x)
					break
				}
				k.add("packet_bitflips_became_retry_rejected", 1)
				continue
			} else if n >= 0 {
				c.Violation("long-packet-bitflip-accepted", "bit %d (byte %d) flipped: still parsed (n=%d num=%d payload=%x); %s", bit, bit/8, n, got.num, got.payload, x)
				break
			}
			k.add("packet_bitflips_rejected", 1)
		}
		for cut := 1; cut <= len(x.wire); cut += 1 + len(x.wire)/64 {
			if _, n := parseLongHeaderPacket(c28tight(x.wire[:len(x.wire)-cut]), x.keys, x.recvd); n >= 0 {
				c.Violation("long-packet-truncated-accepted", "packet cut by %d bytes still parsed (n=%d); %s", cut, n, x)
				break
			}
			k.add("packet_truncations_rejected", 1)
		}
		// wrong keys
		var other fixedKeys
		other.init(x.suite, c28secret(rng, x.suite))
		if _, n := parseLongHeaderPacket(c28tight(x.wire), other, x.recvd); n >= 0 {
			c.Violation("long-packet-wrong-key-accepted", "parsed with unrelated keys; %s", x)
		}
		r.EvalBytes(len(x.p.dstConnID) > 0 || x.p.num > 255, dgram)
		if c.Index < 2 {
			r.Sample(map[string]any{"stream": "packets-long", "packet": x.String()})
		}
	})

	r.CasesParallel("packets-short", r.N(1500, 60000), 0, func(c *verifrt.Case) {
		rng := c.Rng
		suite := c28suites[rng.IntN(3)]
		secret := c28secret(rng, suite)
		var kw, kr updatingKeyPair
		kw.init()
		kr.init()
		kw.w.init(suite, secret)
		kw.r.init(suite, secret)
		kr.r.init(suite, secret)
		kr.w.init(suite, secret)
		dcid := c28rand(rng, []int{0, 8, 8, 20, rng.IntN(21)}[rng.IntN(5)])
		pnum, acked, recvd := c28pn(rng)
		if rng.IntN(2) == 0 && pnum > 100 {
			// stay below the first key update so that several packets use phase 0
			pnum, acked, recvd = packetNumber(rng.IntN(90)), -1, -1
		}
		for i, n := 0, 1+rng.IntN(4); i < n && pnum <= maxPacketNumber; i++ {
			var w packetWriter
			w.reset([]int{1200, 1500, 100 + rng.IntN(200)}[rng.IntN(3)])
			w.start1RTTPacket(pnum, acked, dcid)
			if w.pktLim == len(w.b) {
				return
			}
			sz := []int{1, 2, 3, 4, 20, 100, rng.IntN(1000)}[rng.IntN(7)]
			sz = max(1, min(sz, w.avail()))
			pay := c28rand(rng, sz)
			pay[0] |= 1
			w.b = append(w.b, pay...)
			updatingBefore, phaseBefore := kw.updating, kw.phase
			sent := w.finish1RTTPacket(pnum, acked, dcid, &kw)
			if kw.updating {
				// one key update per case: the one-directional harness cannot complete a
				// second one on the reader side
				kw.updateAfter = maxPacketNumber
			}
			if sent == nil {
				c.Violation("short-packet-not-written", "finish1RTTPacket returned nil for a %d-byte payload", sz)
				return
			}
			wire := append([]byte{}, w.datagram()...)
			desc := fmt.Sprintf("num=%d acked=%d receiver_largest=%d dcid=%x payload=%x suite=%#x writer(updating=%v phase=%#x) wire=%x", pnum, acked, recvd, dcid, pay, suite, updatingBefore, phaseBefore, wire)
			c.Describe(desc)
			if sent.size != len(wire) || sent.num != pnum {
				c.Violation("sent-packet-record", "sentPacket size=%d num=%d for %d wire bytes; %s", sent.size, sent.num, len(wire), desc)
			}
			// tampering first (on copies, with a copy of the reader's key state)
			nbits := 8 * len(wire)
			step := 1
			if nbits > 1600 {
				step = nbits / 800
			}
			for bit := rng.IntN(step); bit < nbits; bit += step {
				krc := kr
				m := c28tight(wire)
				m[bit/8] ^= 1 << (bit % 8)
				if got, err := parse1RTTPacket(m, &krc, len(dcid), recvd); err == nil {
					c.Violation("short-packet-bitflip-accepted", "bit %d (byte %d) flipped: still parsed (num=%d payload=%x); %s", bit, bit/8, got.num, got.payload, desc)
					break
				}
				k.add("packet_bitflips_rejected", 1)
			}
			for cut := 1; cut <= len(wire); cut += 1 + len(wire)/48 {
				krc := kr
				if _, err := parse1RTTPacket(c28tight(wire[:len(wire)-cut]), &krc, len(dcid), recvd); err == nil {
					c.Violation("short-packet-truncated-accepted", "packet cut by %d bytes still parsed; %s", cut, desc)
					break
				}
				k.add("packet_truncations_rejected", 1)
			}
			got, err := parse1RTTPacket(c28tight(wire), &kr, len(dcid), recvd)
			if err != nil {
				c.Violation("short-packet-roundtrip-rejected", "parse1RTTPacket: %v; %s", err, desc)
				return
			}
			if got.num != pnum || len(got.payload) < len(pay) || !bytes.Equal(got.payload[:len(pay)], pay) || len(bytes.Trim(got.payload[len(pay):], "\x00")) != 0 {
				c.Violation("short-packet-roundtrip-fields", "parsed num=%d payload=%x; %s", got.num, got.payload, desc)
			}
			k.add("short_packets_roundtrip", 1)
			if kw.updating {
				k.add("short_packets_during_key_update", 1)
			}
			r.EvalBytes(true, wire)
			// next packet: the receiver has seen this one; the peer may have acked it
			recvd = pnum
			if rng.IntN(2) == 0 {
				acked = pnum
				kw.handleAckFor(pnum)
			}
			pnum += 1 + packetNumber(rng.IntN(3))
			if rng.IntN(4) == 0 {
				pnum += packetNumber(rng.IntN(200))
			}
		}
	})

	// Two endpoints talking in both directions through several key updates (RFC 9001 6): each
	// has its own updatingKeyPair, packets are delivered in order (some are lost), every packet
	// carries the acknowledgement of what its sender has received so far, and packet numbers jump
	// past the sender's update threshold - only while neither side is in an update and nothing is
	// in flight, the one moment at which RFC 9001 6.1 certainly permits the next update. Every
	// delivered packet was written with keys its receiver has, so it must decrypt to the packet
	// number and payload that were written, and no authentication failure may be counted.
	r.CasesParallel("packets-short-conversation", r.N(600, 20000), 0, func(c *verifrt.Case) {
		rng := c.Rng
		suite := c28suites[rng.IntN(3)]
		type pkt struct {
			num  packetNumber
			wire []byte
			pay  []byte
			acks []packetNumber // packet numbers of the receiver this packet acknowledges
			desc string
		}
		type end struct {
			name    string
			k       updatingKeyPair
			dcid    []byte // connection id of the PEER (what this endpoint writes into its packets)
			next    packetNumber
			acked   packetNumber   // largest of its packets the peer has acknowledged
			recvd   packetNumber   // largest packet number received
			unacked []packetNumber // received, not yet acknowledged
			queue   []*pkt         // in flight to the peer
			updates int
		}
		sAB, sBA := c28secret(rng, suite), c28secret(rng, suite)
		a, b := &end{name: "A", acked: -1, recvd: -1}, &end{name: "B", acked: -1, recvd: -1}
		a.k.init()
		b.k.init()
		a.k.w.init(suite, sAB)
		b.k.r.init(suite, sAB)
		b.k.w.init(suite, sBA)
		a.k.r.init(suite, sBA)
		a.dcid, b.dcid = c28rand(rng, []int{0, 8, 20}[rng.IntN(3)]), c28rand(rng, []int{0, 8, 20}[rng.IntN(3)])
		a.next, b.next = packetNumber(rng.IntN(140)), packetNumber(rng.IntN(140))
		lossPct := []int{0, 0, 10, 30}[rng.IntN(4)]
		var script []string
		note := func(f string, x ...any) {
			if len(script) < 400 {
				script = append(script, fmt.Sprintf(f, x...))
			}
		}
		send := func(x *end) bool {
			var w packetWriter
			w.reset(1200)
			w.start1RTTPacket(x.next, x.acked, x.dcid)
			if w.pktLim == len(w.b) {
				return true
			}
			pay := c28rand(rng, max(1, min([]int{1, 4, 20, 300}[rng.IntN(4)], w.avail())))
			pay[0] |= 1
			w.b = append(w.b, pay...)
			wasUpdating := x.k.updating
			if w.finish1RTTPacket(x.next, x.acked, x.dcid, &x.k) == nil {
				c.Violation("short-packet-not-written", "finish1RTTPacket returned nil for packet %d of %s", x.next, x.name)
				return false
			}
			if x.k.updating && !wasUpdating {
				x.updates++
				k.add("conversation_key_updates_initiated_locally", 1)
				if x.updates > 1 {
					k.add("conversation_second_or_later_local_key_updates", 1)
				}
			}
			p := &pkt{num: x.next, wire: append([]byte{}, w.datagram()...), pay: pay, acks: x.unacked}
			p.desc = fmt.Sprintf("%s packet %d (largest acked %d, key phase bit %v, sender updating=%v)", x.name, x.next, x.acked, p.wire[0]&keyPhaseBit != 0, wasUpdating)
			x.unacked = nil
			x.queue = append(x.queue, p)
			note("%s sends %d acks=%v bit=%v", x.name, p.num, p.acks, p.wire[0]&keyPhaseBit != 0)
			x.next += 1 + packetNumber(rng.IntN(3))
			return true
		}
		deliver := func(x, y *end) bool { // head of x's queue reaches y
			p := x.queue[0]
			x.queue = x.queue[1:]
			if rng.IntN(100) < lossPct {
				note("%s packet %d lost", x.name, p.num)
				// what it acknowledged is acknowledged again by the next packet
				x.unacked = append(append([]packetNumber{}, p.acks...), x.unacked...)
				k.add("conversation_packets_lost", 1)
				return true
			}
			before := y.k.authFailures
			got, err := parse1RTTPacket(c28tight(p.wire), &y.k, len(x.dcid), y.recvd)
			state := fmt.Sprintf("receiver %s: phase=%#x updating=%v minReceived=%d minSent=%d largest received=%d", y.name, y.k.phase, y.k.updating, y.k.minReceived, y.k.minSent, y.recvd)
			if err != nil {
				c.Describe(map[string]any{"suite": suite, "loss_pct": lossPct, "script": script})
				c.Violation("short-packet-rejected-in-conversation", "%s does not decrypt at its receiver: %v; %s", p.desc, err, state)
				return false
			}
			if y.k.authFailures != before {
				c.Violation("auth-failure-counted-for-valid-packet", "%s decrypted, yet authFailures went from %d to %d; %s", p.desc, before, y.k.authFailures, state)
			}
			if got.num != p.num || len(got.payload) < len(p.pay) || !bytes.Equal(got.payload[:len(p.pay)], p.pay) || len(bytes.Trim(got.payload[len(p.pay):], "\x00")) != 0 {
				c.Describe(map[string]any{"suite": suite, "loss_pct": lossPct, "script": script})
				c.Violation("short-packet-roundtrip-fields", "%s parsed as num=%d payload=%x, written payload %x; %s", p.desc, got.num, got.payload, p.pay, state)
				return false
			}
			k.add("conversation_packets_delivered", 1)
			y.recvd = max(y.recvd, p.num)
			y.unacked = append(y.unacked, p.num)
			for _, n := range p.acks {
				wasUpdating := y.k.updating
				y.k.handleAckFor(n)
				y.acked = max(y.acked, n)
				if wasUpdating && !y.k.updating {
					k.add("conversation_key_updates_completed", 1)
				}
			}
			return true
		}
		for step, n := 0, 60+rng.IntN(200); step < n; step++ {
			x, y := a, b
			if rng.IntN(2) == 0 {
				x, y = b, a
			}
			switch op := rng.IntN(10); {
			case op < 4:
				if len(x.queue) < 8 && !send(x) {
					return
				}
			case op < 9:
				if len(x.queue) > 0 && !deliver(x, y) {
					return
				}
			default:
				if !a.k.updating && !b.k.updating && len(a.queue) == 0 && len(b.queue) == 0 && x.next < x.k.updateAfter && x.k.updateAfter < 1<<40 {
					note("%s jumps from %d to its update threshold %d", x.name, x.next, x.k.updateAfter)
					x.next = x.k.updateAfter + packetNumber(rng.IntN(3))
				}
			}
		}
		for len(a.queue) > 0 || len(b.queue) > 0 {
			if len(a.queue) > 0 && !deliver(a, b) {
				return
			}
			if len(b.queue) > 0 && !deliver(b, a) {
				return
			}
		}
		r.Eval(a.updates+b.updates > 1, "conversation", suite, a.updates, b.updates, a.next, b.next, lossPct)
	})

	// Retry and Version Negotiation
	r.Cases("packets-retry-vn", r.N(500, 20000), func(c *verifrt.Case) {
		rng := c.Rng
		odcid := c28rand(rng, rng.IntN(21))
		p := retryPacket{dstConnID: c28rand(rng, rng.IntN(21)), srcConnID: c28rand(rng, rng.IntN(21)), token: c28rand(rng, 1+rng.IntN(80))}
		wire := encodeRetryPacket(odcid, p)
		c.Describe(map[string]any{"odcid": fmt.Sprintf("%x", odcid), "retry": fmt.Sprintf("%x", wire)})
		got, ok := parseRetryPacket(c28tight(wire), odcid)
		if !ok || !bytes.Equal(got.dstConnID, p.dstConnID) || !bytes.Equal(got.srcConnID, p.srcConnID) || !bytes.Equal(got.token, p.token) {
			c.Violation("retry-roundtrip", "encodeRetryPacket(odcid=%x, dcid=%x scid=%x token=%x)=%x parsed ok=%v %+v", odcid, p.dstConnID, p.srcConnID, p.token, wire, ok, got)
		}
		if getPacketType(wire) != packetTypeRetry {
			c.Violation("retry-packet-type", "getPacketType(%x)=%v", wire, getPacketType(wire))
		}
		for bit := 0; bit < 8*len(wire); bit++ {
			m := c28tight(wire)
			m[bit/8] ^= 1 << (bit % 8)
			if _, ok := parseRetryPacket(m, odcid); ok {
				c.Violation("retry-bitflip-accepted", "Retry %x with bit %d flipped passes the integrity check (odcid %x)", wire, bit, odcid)
				break
			}
			k.add("retry_bitflips_rejected", 1)
		}
		if len(odcid) > 0 {
			o2 := append([]byte{}, odcid...)
			o2[rng.IntN(len(o2))] ^= 1 << rng.IntN(8)
			if _, ok := parseRetryPacket(c28tight(wire), o2); ok {
				c.Violation("retry-wrong-odcid-accepted", "Retry %x validated against a different original DCID %x", wire, o2)
			}
		}
		// Version Negotiation
		var vers []uint32
		for i, n := 0, rng.IntN(6); i < n; i++ {
			vers = append(vers, rng.Uint32())
		}
		d, s := c28rand(rng, rng.IntN(256)), c28rand(rng, rng.IntN(256))
		vn := appendVersionNegotiation(nil, d, s, vers...)
		gd, gs, gv := parseVersionNegotiation(c28tight(vn))
		var wantv []byte
		for _, v := range vers {
			wantv = append(wantv, byte(v>>24), byte(v>>16), byte(v>>8), byte(v))
		}
		if !bytes.Equal(gd, d) || !bytes.Equal(gs, s) || !bytes.Equal(gv, wantv) || getPacketType(vn) != packetTypeVersionNegotiation {
			c.Violation("version-negotiation-roundtrip", "appendVersionNegotiation(dcid=%x scid=%x versions=%x)=%x parsed %x %x %x type %v", d, s, vers, vn, gd, gs, gv, getPacketType(vn))
		}
		k.add("retry_vn_roundtrips", 1)
		r.EvalBytes(true, wire)
	})

	// arbitrary and mutated bytes into every packet-level parser: no panic, no over-read
	r.CasesParallel("packets-arbitrary", r.N(1500, 60000), 0, func(c *verifrt.Case) {
		rng := c.Rng
		suite := c28suites[rng.IntN(3)]
		var fk fixedKeys
		fk.init(suite, c28secret(rng, suite))
		var uk updatingKeyPair
		uk.init()
		sec := c28secret(rng, suite)
		uk.r.init(suite, sec)
		uk.w.init(suite, sec)
		for i := 0; i < 30; i++ {
			var b []byte
			switch rng.IntN(3) {
			case 0:
				b = c28rand(rng, rng.IntN(80))
			case 1: // long-header shaped
				b = []byte{0xc0 | byte(rng.IntN(64))}
				b = append(b, 0, 0, 0, byte(rng.IntN(3)))
				dl, sl := rng.IntN(24), rng.IntN(24)
				b = append(append(b, byte(dl)), c28rand(rng, dl)...)
				b = append(append(b, byte(sl)), c28rand(rng, sl)...)
				if rng.IntN(2) == 0 {
					b = c28appendVarint(b, uint64(rng.IntN(8)))
				}
				b = c28appendVarint(b, uint64(rng.IntN(100)))
				b = append(b, c28rand(rng, rng.IntN(100))...)
				if rng.IntN(3) == 0 {
					b = b[:rng.IntN(len(b)+1)]
				}
			default: // a valid packet, mutated
				var w packetWriter
				w.reset(400)
				if x := c28buildLong(rng, &w); x != nil {
					b = x.wire
					fk = x.keys
					for j := 0; j < 1+rng.IntN(3); j++ {
						b[rng.IntN(min(len(b), 40))] = byte(rng.Uint32())
					}
				}
			}
			c.Describe(map[string]any{"bytes": fmt.Sprintf("%x", b)})
			in := func() []byte { return c28tight(b) }
			if _, n := parseLongHeaderPacket(in(), fk, packetNumber(rng.IntN(100))); n > len(b) {
				c.Violation("long-parser-consumed-past-end", "parseLongHeaderPacket n=%d of %d; %x", n, len(b), b)
			}
			if _, n := parseLongHeaderPacket(in(), fixedKeys{}, 0); n > len(b) { // keys not available yet
				c.Violation("long-parser-consumed-past-end", "parseLongHeaderPacket (no keys) n=%d of %d; %x", n, len(b), b)
			}
			if n := skipLongHeaderPacket(in()); n > len(b) {
				c.Violation("skip-consumed-past-end", "skipLongHeaderPacket=%d of %d; %x", n, len(b), b)
			}
			ukc := uk
			parse1RTTPacket(in(), &ukc, rng.IntN(21), packetNumber(rng.IntN(100)))
			parseGenericLongHeaderPacket(in())
			parseVersionNegotiation(in())
			parseRetryPacket(in(), c28rand(rng, rng.IntN(21)))
			dstConnIDForDatagram(in())
			getPacketType(in())
			k.add("packet_arbitrary_inputs", 1)
			r.EvalBytes(len(b) > 6, b)
		}
	})
}
