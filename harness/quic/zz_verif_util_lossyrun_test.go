//go:build verif

package quic

// Transfer workload on a lossyPair, shared by C19/C20/C25/C32: a set of streams with
// deterministic contents is pushed through the faulty network; the runner itself checks the
// end-to-end delivery contract and reports through callbacks. Identifiers prefixed vlp.

import (
	"context"
	"errors"
	"fmt"
	"io"
	"math/rand/v2"
	"os"
	"sort"
	"strings"
	"sync"
	"sync/atomic"
	"time"

	"golang.org/x/net/internal/verifrt"
)

// vlpIvals is a tiny interval set (own code; deliberately not quic.rangeset).
type vlpIvals struct{ r [][2]int64 } // sorted, disjoint, half-open

func (s *vlpIvals) add(a, b int64) (overlap bool) {
	if a >= b {
		return false
	}
	var out [][2]int64
	placed := false
	for _, iv := range s.r {
		if iv[1] < a {
			out = append(out, iv)
			continue
		}
		if iv[0] > b {
			if !placed {
				out = append(out, [2]int64{a, b})
				placed = true
			}
			out = append(out, iv)
			continue
		}
		if iv[0] < b && a < iv[1] {
			overlap = true
		}
		a = min(a, iv[0])
		b = max(b, iv[1])
	}
	if !placed {
		out = append(out, [2]int64{a, b})
	}
	s.r = out
	return overlap
}

func (s *vlpIvals) covers(a, b int64) bool {
	if a >= b {
		return true
	}
	for _, iv := range s.r {
		if iv[0] <= a && b <= iv[1] {
			return true
		}
	}
	return false
}

func (s *vlpIvals) contiguousEnd() int64 {
	if len(s.r) > 0 && s.r[0][0] == 0 {
		return s.r[0][1]
	}
	return 0
}

func (s *vlpIvals) maxEnd() int64 {
	if len(s.r) == 0 {
		return 0
	}
	return s.r[len(s.r)-1][1]
}

type vlpStreamSpec struct {
	FromClient bool  `json:"from_client"`
	Bidi       bool  `json:"bidi"`
	Fwd        int64 `json:"fwd"` // bytes initiator -> acceptor
	Rev        int64 `json:"rev"` // bytes acceptor -> initiator (bidi)
	ChunkMax   int   `json:"chunk_max"`
	FlushPct   int   `json:"flush_pct"`
	ReadMax    int   `json:"read_max"`
	// C32: reset the forward lane (initiator calls Reset) after ResetAfter bytes written (-1: never);
	// StopAfter: acceptor calls CloseRead after reading that many bytes (-1: never).
	ResetAfter int64 `json:"reset_after"`
	StopAfter  int64 `json:"stop_after"`
	// PauseMs: after the last Write the writer flushes and waits this many virtual ms before
	// it closes, so that the FIN travels in a frame of its own (and, under loss, gets
	// retransmitted together with data the peer already has).
	PauseMs int `json:"pause_ms,omitempty"`
}

type vlpRunConfig struct {
	Faults      vlpFaults       `json:"faults"`
	CliBuf      [3]int64        `json:"cli_buf"` // MaxStreamReadBufferSize, MaxStreamWriteBufferSize, MaxConnReadBufferSize
	SrvBuf      [3]int64        `json:"srv_buf"`
	Streams     []vlpStreamSpec `json:"streams"`
	FaultPhase  int             `json:"fault_phase_ms"` // virtual ms of faults before the network turns clean
	Retry       bool            `json:"retry"`
	CliMaxBidi  int64           `json:"cli_max_bidi,omitempty"`
	CliMaxUni   int64           `json:"cli_max_uni,omitempty"`
	SrvMaxBidi  int64           `json:"srv_max_bidi,omitempty"`
	SrvMaxUni   int64           `json:"srv_max_uni,omitempty"`
	CleanBoundS int             `json:"clean_bound_s"` // virtual seconds allowed after faults stop
}

// vlpLane is one direction of one stream.
type vlpLane struct {
	ID         int64 // stream id
	Lane       uint32
	Total      int64
	Written    atomic.Int64
	Read       atomic.Int64
	WriterDone atomic.Bool // CloseWrite/Close issued
	ReaderDone atomic.Bool
	WClosed    atomic.Bool            // set immediately before the writer's CloseWrite/Close call
	Reset      atomic.Bool            // lane was reset/stopped on purpose (C32 workloads)
	WS, RS     atomic.Pointer[Stream] // writer-side / reader-side stream objects (for the stuck dump)
	ReadErr    atomic.Value           // error that ended the reader (incl. io.EOF), if any
	ResetCode  atomic.Uint64          // code passed to Reset by the writer
	ResetAt    atomic.Int64           // bytes written when Reset was called
}

// vlpDumpStream reads a stream's flow-control state under its own gates (white box), for
// the diagnostic text of a stuck-run violation.
func vlpDumpStream(s *Stream) string {
	if s == nil {
		return "<nil>"
	}
	var out string
	if !s.IsReadOnly() {
		s.outgate.lock()
		out = fmt.Sprintf("out{buf=[%d,%d) flushed=%d win=%d maxsent=%d unsent=%v acked=%v blocked=%v closed=%v reset=%v}", s.out.start, s.out.end, s.outflushed, s.outwin, s.outmaxsent, s.outunsent, s.outacked, s.outblocked, s.outclosed, s.outreset)
		s.outUnlock()
	}
	if !s.IsWriteOnly() {
		s.ingate.lock()
		out += fmt.Sprintf(" in{buf=[%d,%d) win=%d maxbuf=%d size=%d set=%v sendmax=%v closed=%v}", s.in.start, s.in.end, s.inwin, s.inmaxbuf, s.insize, s.inset, s.insendmax, s.inclosed)
		s.inUnlock()
	}
	return out + fmt.Sprintf(" state=%b", s.state.load())
}

func vlpDumpConn(c *Conn) string {
	var out string
	c.runOnLoop(context.Background(), func(now time.Time, c *Conn) {
		out = fmt.Sprintf("outflow{max=%d used=%d} inflow{used=%d sentLimit=%d newLimit=%d credit=%d sent=%v} loss{timer=%v ptoArmed=%v ptoExpired=%v backoff=%d inflight=%d cwnd=%d} alive=%v",
			c.streams.outflow.max, c.streams.outflow.used, c.streams.inflow.usedLimit, c.streams.inflow.sentLimit, c.streams.inflow.newLimit, c.streams.inflow.credit.Load(), c.streams.inflow.sent,
			c.loss.timer.Sub(now), c.loss.ptoTimerArmed, c.loss.ptoExpired, c.loss.ptoBackoffCount, c.loss.cc.bytesInFlight, c.loss.cc.congestionWindow, c.isAlive())
	})
	return out
}

type vlpRunResult struct {
	HandshakeErr error
	Lanes        []*vlpLane
	Stuck        bool
	VirtualMs    int64
	CloseNil     int64
	CloseErr     int64
	Retransmits  int64 // STREAM frames overlapping data already sent (sender tap)
	OutOfOrder   int64 // STREAM frames arriving with off != contiguous end (receiver tap)
	Pair         *vlpPair
}

type vlpViolFunc func(key, format string, a ...any)

func vlpGenFaults(rng *rand.Rand) vlpFaults {
	f := vlpFaults{BaseDelayMs: 1 + rng.IntN(40), MaxConsec: 2 + rng.IntN(3)}
	switch rng.IntN(5) {
	case 0: // clean-ish
		f.JitterMs = rng.IntN(5)
	case 1: // lossy
		f.Loss = 0.05 + rng.Float64()*0.30
		f.JitterMs = rng.IntN(20)
	case 2: // duplicating / reordering
		f.Dup = rng.Float64() * 0.15
		f.Reorder = rng.Float64() * 0.30
		f.ReorderMaxMs = 1 + rng.IntN(80)
		f.JitterMs = rng.IntN(30)
	default: // everything
		f.Loss = rng.Float64() * 0.35
		f.Dup = rng.Float64() * 0.15
		f.Reorder = rng.Float64() * 0.25
		f.ReorderMaxMs = 1 + rng.IntN(120)
		f.JitterMs = rng.IntN(30)
	}
	return f
}

func vlpGenBuf(rng *rand.Rand) [3]int64 {
	pick := func() int64 {
		return []int64{0, 0, 1 << 12, 1 << 14, 1 << 16, 1 << 22, 1000, 1}[rng.IntN(8)]
	}
	return [3]int64{pick(), pick(), pick()}
}

// vlpBudget caps the bytes of a run so that the smallest window among the chosen buffer
// sizes still lets it finish in a few hundred round trips (a 1-byte window moves one byte
// per round trip: legal, but a 1 MiB transfer would need days of virtual time).
func vlpBudget(maxTotal int64, bufs ...[3]int64) int64 {
	w := int64(1 << 20)
	for _, b := range bufs {
		for _, v := range b {
			if v > 0 && v < w {
				w = v
			}
		}
	}
	return min(maxTotal, w*150)
}

func vlpGenStreams(rng *rand.Rand, maxStreams int, maxTotal int64) []vlpStreamSpec {
	n := 1 + rng.IntN(maxStreams)
	// a quarter of the runs are quiet connections: one or two short streams, so that
	// acknowledgements are rare and a lost one is not covered by the next
	quiet := rng.IntN(4) == 0
	if quiet {
		n = 1 + rng.IntN(2)
	}
	var out []vlpStreamSpec
	budget := maxTotal
	size := func() int64 {
		var v int64
		if quiet {
			v = min(1+rng.Int64N(3000), budget)
			budget -= v
			return v
		}
		switch rng.IntN(6) {
		case 0:
			v = 0
		case 1:
			v = 1 + rng.Int64N(16)
		case 2:
			v = rng.Int64N(5000)
		case 3:
			v = rng.Int64N(70000)
		default:
			v = rng.Int64N(max(1, maxTotal/2))
		}
		v = min(v, budget)
		budget -= v
		return v
	}
	for i := 0; i < n; i++ {
		s := vlpStreamSpec{FromClient: rng.IntN(2) == 0, Bidi: rng.IntN(2) == 0, ResetAfter: -1, StopAfter: -1}
		s.Fwd = size()
		if s.Bidi {
			s.Rev = size()
		}
		s.ChunkMax = []int{1, 7, 100, 1200, 4096, 65536}[rng.IntN(6)]
		if s.ChunkMax < 100 && s.Fwd+s.Rev > 20000 {
			s.ChunkMax = 1200
		}
		s.FlushPct = []int{0, 10, 50, 100}[rng.IntN(4)]
		s.ReadMax = []int{1, 13, 512, 4096, 65536}[rng.IntN(5)]
		if s.ReadMax < 512 && s.Fwd+s.Rev > 20000 {
			s.ReadMax = 4096
		}
		if quiet || rng.IntN(3) == 0 {
			s.PauseMs = []int{1, 5, 30, 200, 1500}[rng.IntN(5)]
		}
		out = append(out, s)
	}
	return out
}

func vlpMkConf(buf [3]int64, maxBidi, maxUni int64, retry bool) *Config {
	return &Config{
		MaxStreamReadBufferSize:  buf[0],
		MaxStreamWriteBufferSize: buf[1],
		MaxConnReadBufferSize:    buf[2],
		MaxBidiRemoteStreams:     maxBidi,
		MaxUniRemoteStreams:      maxUni,
		HandshakeTimeout:         120 * time.Second,
		MaxIdleTimeout:           -1,
		RequireAddressValidation: retry,
	}
}

// vlpRunTransfer runs one transfer case. It must be called inside a synctest bubble.
// setup, if non-nil, is called after the endpoints exist and before the handshake, to attach
// tap observers. viol reports violations of the end-to-end delivery contract (C19's oracle);
// monitors for other properties pass a function that records them under a c19- prefixed key
// or ignores them.
func vlpRunTransfer(seed uint64, rc *vlpRunConfig, setup func(p *vlpPair), viol vlpViolFunc) *vlpRunResult {
	res := &vlpRunResult{}
	p, err := vlpNewEndpoints(seed, rc.Faults, vlpMkConf(rc.CliBuf, rc.CliMaxBidi, rc.CliMaxUni, false), vlpMkConf(rc.SrvBuf, rc.SrvMaxBidi, rc.SrvMaxUni, rc.Retry))
	if err != nil {
		res.HandshakeErr = err
		return res
	}
	res.Pair = p
	start := time.Now()

	// tap bookkeeping for retransmission / reordering / coverage-at-Close
	type key struct {
		side string
		id   int64
	}
	var tmu sync.Mutex // tap callbacks already run under tap.mu; tmu protects reads from other goroutines
	sentIv := map[key]*vlpIvals{}
	recvIv := map[key]*vlpIvals{}
	recvFin := map[key]int64{}
	p.Tap.Observe(func(ev *vlpEvent) {
		tmu.Lock()
		defer tmu.Unlock()
		for i := range ev.Frames {
			f := &ev.Frames[i]
			if f.Kind != "stream" {
				continue
			}
			k := key{ev.Side, f.ID}
			if ev.Sent {
				iv := sentIv[k]
				if iv == nil {
					iv = &vlpIvals{}
					sentIv[k] = iv
				}
				if iv.add(f.Off, f.Off+f.Len) {
					res.Retransmits++
				}
			} else {
				iv := recvIv[k]
				if iv == nil {
					iv = &vlpIvals{}
					recvIv[k] = iv
				}
				if f.Len > 0 && f.Off != iv.contiguousEnd() {
					res.OutOfOrder++
				}
				iv.add(f.Off, f.Off+f.Len)
				if f.Fin {
					recvFin[k] = f.Off + f.Len
				}
			}
		}
	})
	if setup != nil {
		setup(p)
	}

	ctx, cancel := context.WithCancel(context.Background())
	defer cancel()
	hctx, hcancel := context.WithTimeout(ctx, 200*time.Second)
	err = p.vlpConnect(hctx)
	hcancel()
	if err != nil {
		res.HandshakeErr = err
		p.vlpClose()
		return res
	}

	var wg verifrt.WG
	var pending atomic.Int64
	specByID := sync.Map{} // stream id -> *laneSet
	type laneSet struct {
		spec *vlpStreamSpec
		fwd  *vlpLane
		rev  *vlpLane
	}
	connOf := func(client bool) *Conn {
		if client {
			return p.Cli
		}
		return p.Srv
	}
	sideName := func(client bool) string {
		if client {
			return "client"
		}
		return "server"
	}

	// receivedAll reports whether receiver `side` has (per its tap) STREAM frames covering
	// [0,total) and a FIN at total for stream id.
	receivedAll := func(side string, id, total int64) (bool, string) {
		tmu.Lock()
		defer tmu.Unlock()
		k := key{side, id}
		iv := recvIv[k]
		if total > 0 && (iv == nil || !iv.covers(0, total)) {
			var got [][2]int64
			if iv != nil {
				got = iv.r
			}
			return false, fmt.Sprintf("receiver %s processed STREAM ranges %v of stream %d, need [0,%d)", side, got, id, total)
		}
		if fin, ok := recvFin[k]; !ok || fin != total {
			return false, fmt.Sprintf("receiver %s has not processed a FIN at %d for stream %d (fin=%v,%v)", side, total, id, fin, ok)
		}
		return true, ""
	}

	writer := func(s *Stream, ln *vlpLane, spec *vlpStreamSpec, rng *rand.Rand, fromInitiator bool, closeAll bool, recvSide string) {
		defer wg.Done()
		defer pending.Add(-1)
		buf := make([]byte, spec.ChunkMax)
		ln.WS.Store(s)
		var off int64
		resetAt := int64(-1)
		if fromInitiator {
			resetAt = spec.ResetAfter
		}
		for off < ln.Total {
			if resetAt >= 0 && off >= resetAt {
				break
			}
			n := int64(1 + rng.IntN(spec.ChunkMax))
			n = min(n, ln.Total-off)
			if resetAt >= 0 {
				n = min(n, max(1, resetAt-off))
			}
			b := buf[:n]
			vlpFill(b, ln.Lane, off)
			wn, err := s.Write(b)
			off += int64(wn)
			ln.Written.Store(off)
			if err != nil {
				if ln.Reset.Load() || spec.StopAfter >= 0 && fromInitiator {
					// the peer stopped reading on purpose: the write side was reset
					ln.Reset.Store(true)
					ln.WriterDone.Store(true)
					return
				}
				viol("write-error", "stream %d lane %d: Write at %d returned (%d,%v)", ln.ID, ln.Lane, off, wn, err)
				ln.WriterDone.Store(true)
				return
			}
			if int64(wn) != n {
				viol("short-write-nil-error", "stream %d: Write(%d bytes) returned (%d,nil)", ln.ID, n, wn)
				ln.WriterDone.Store(true)
				return
			}
			if rng.IntN(100) < spec.FlushPct {
				s.Flush()
			}
		}
		if resetAt >= 0 && off >= resetAt && fromInitiator {
			ln.ResetCode.Store(uint64(1000 + ln.Lane))
			ln.ResetAt.Store(off)
			ln.Reset.Store(true)
			ln.WClosed.Store(true)
			s.Reset(uint64(1000 + ln.Lane))
			ln.WriterDone.Store(true)
			return
		}
		if spec.PauseMs > 0 {
			s.Flush()
			time.Sleep(time.Duration(spec.PauseMs) * time.Millisecond)
		}
		ln.WClosed.Store(true)
		if closeAll {
			// send-only stream: Close waits for the peer's acknowledgement
			err := s.Close()
			ln.WriterDone.Store(true)
			if err == nil {
				res.addClose(true)
				if !ln.Reset.Load() {
					if ok, why := receivedAll(recvSide, ln.ID, ln.Total); !ok {
						viol("close-nil-before-peer-received-all", "Stream.Close returned nil on stream %d but %s", ln.ID, why)
					}
				}
			} else {
				res.addClose(false)
				if !ln.Reset.Load() && spec.StopAfter < 0 {
					viol("close-error-without-reset", "stream %d: Close returned %v although nobody reset the stream", ln.ID, err)
				}
			}
			return
		}
		s.CloseWrite()
		ln.WriterDone.Store(true)
	}

	reader := func(s *Stream, ln *vlpLane, spec *vlpStreamSpec, rng *rand.Rand, isAcceptor bool) {
		defer wg.Done()
		defer pending.Add(-1)
		defer ln.ReaderDone.Store(true)
		ln.RS.Store(s)
		buf := make([]byte, spec.ReadMax)
		var off int64
		stopAt := int64(-1)
		if isAcceptor {
			stopAt = spec.StopAfter
		}
		for {
			if stopAt >= 0 && off >= stopAt {
				ln.Reset.Store(true)
				s.CloseRead()
				return
			}
			n, err := s.Read(buf[:1+rng.IntN(len(buf))])
			for i := 0; i < n; i++ {
				if off+int64(i) >= ln.Total {
					viol("extra-bytes", "stream %d lane %d: read byte at offset %d beyond the %d written", ln.ID, ln.Lane, off+int64(i), ln.Total)
					return
				}
				if want := vlpPattern(ln.Lane, off+int64(i)); buf[i] != want {
					viol("corrupt-or-misordered-byte", "stream %d lane %d: byte at offset %d is %#x, written %#x", ln.ID, ln.Lane, off+int64(i), buf[i], want)
					return
				}
			}
			off += int64(n)
			ln.Read.Store(off)
			if w := ln.Written.Load(); off > w && !ln.WClosed.Load() && off > ln.Total {
				viol("read-ahead-of-write", "stream %d: read %d bytes, only %d written", ln.ID, off, w)
			}
			if err != nil {
				ln.ReadErr.Store(err)
			}
			if err == io.EOF {
				if ln.Reset.Load() {
					// a reset lane must not end in a clean EOF unless all bytes arrived... C32 decides; not C19.
					return
				}
				if off != ln.Total {
					viol("early-eof", "stream %d lane %d: io.EOF after %d of %d bytes", ln.ID, ln.Lane, off, ln.Total)
					return
				}
				if !ln.WClosed.Load() {
					viol("eof-before-writer-closed", "stream %d lane %d: io.EOF although the writer has not closed", ln.ID, ln.Lane)
				}
				if n2, err2 := s.Read(buf); n2 != 0 || err2 == nil {
					viol("bytes-after-eof", "stream %d: Read after io.EOF returned (%d,%v)", ln.ID, n2, err2)
				}
				return
			}
			if err != nil {
				if ln.Reset.Load() || spec.ResetAfter >= 0 {
					return // C32's business
				}
				viol("read-error", "stream %d lane %d: Read at %d returned %v", ln.ID, ln.Lane, off, err)
				return
			}
			if n == 0 {
				viol("read-zero-nil", "stream %d: Read returned (0,nil)", ln.ID)
				return
			}
		}
	}

	// finishBidi closes a bidirectional stream once its local reader and writer are done.
	handle := func(s *Stream, ls *laneSet, isInitiator bool, seedIdx uint64) {
		spec := ls.spec
		rngW := rand.New(rand.NewPCG(seed^0x77, seedIdx*2+1))
		rngR := rand.New(rand.NewPCG(seed^0x99, seedIdx*2))
		myClient := spec.FromClient == isInitiator
		peerSide := sideName(!myClient)
		if !spec.Bidi {
			if isInitiator {
				pending.Add(1)
				wg.Add(1)
				go writer(s, ls.fwd, spec, rngW, true, true, peerSide)
			} else {
				pending.Add(1)
				wg.Add(1)
				go reader(s, ls.fwd, spec, rngR, true)
			}
			return
		}
		wl, rl := ls.fwd, ls.rev
		if !isInitiator {
			wl, rl = ls.rev, ls.fwd
		}
		pending.Add(3)
		wg.Add(3)
		var local verifrt.WG
		local.Add(2)
		go func() { defer local.Done(); writer(s, wl, spec, rngW, isInitiator, false, peerSide) }()
		go func() { defer local.Done(); reader(s, rl, spec, rngR, !isInitiator) }()
		go func() {
			defer wg.Done()
			defer pending.Add(-1)
			local.Wait()
			err := s.Close()
			if err == nil {
				res.addClose(true)
				if !wl.Reset.Load() {
					if ok, why := receivedAll(peerSide, wl.ID, wl.Total); !ok {
						viol("close-nil-before-peer-received-all", "Stream.Close returned nil on stream %d but %s", wl.ID, why)
					}
				}
			} else {
				res.addClose(false)
				if !wl.Reset.Load() && !rl.Reset.Load() && spec.StopAfter < 0 && spec.ResetAfter < 0 {
					viol("close-error-without-reset", "stream %d: Close returned %v although nobody reset the stream", wl.ID, err)
				}
			}
		}()
	}

	// accept loops
	for _, client := range []bool{true, false} {
		conn := connOf(client)
		wg.Add(1)
		go func() {
			defer wg.Done()
			var idx uint64
			for {
				s, err := conn.AcceptStream(ctx)
				if err != nil {
					return
				}
				v, ok := specByID.Load(s.ID())
				if !ok {
					viol("accepted-unknown-stream", "AcceptStream returned stream id %d that nobody opened", s.ID())
					continue
				}
				idx++
				handle(s, v.(*laneSet), false, uint64(s.ID())<<8|1)
			}
		}()
	}
	// initiators
	for i := range rc.Streams {
		spec := &rc.Streams[i]
		pending.Add(1)
		wg.Add(1)
		go func(i int) {
			defer wg.Done()
			defer pending.Add(-1)
			conn := connOf(spec.FromClient)
			var s *Stream
			var err error
			if spec.Bidi {
				s, err = conn.NewStream(ctx)
			} else {
				s, err = conn.NewSendOnlyStream(ctx)
			}
			if err != nil {
				if ctx.Err() == nil {
					viol("newstream-error", "NewStream: %v", err)
				}
				return
			}
			ls := &laneSet{spec: spec, fwd: &vlpLane{ID: s.ID(), Lane: uint32(i*2 + 1), Total: spec.Fwd}}
			if spec.Bidi {
				ls.rev = &vlpLane{ID: s.ID(), Lane: uint32(i*2 + 2), Total: spec.Rev}
			}
			tmu.Lock()
			res.Lanes = append(res.Lanes, ls.fwd)
			if ls.rev != nil {
				res.Lanes = append(res.Lanes, ls.rev)
			}
			tmu.Unlock()
			specByID.Store(s.ID(), ls)
			handle(s, ls, true, uint64(s.ID())<<8)
		}(i)
	}

	// fault phase, then clean phase with a bound in virtual time
	dbg := os.Getenv("VERIF_DEBUG") != ""
	lastDbg := time.Now()
	waitUntil := func(d time.Duration) bool {
		deadline := time.Now().Add(d)
		for time.Now().Before(deadline) {
			time.Sleep(20 * time.Millisecond)
			if pending.Load() == 0 {
				return true
			}
			if dbg && time.Since(lastDbg) >= 10*time.Second {
				lastDbg = time.Now()
				tmu.Lock()
				var st []string
				for _, ln := range res.Lanes {
					st = append(st, fmt.Sprintf("s%d/l%d w%d r%d/%d", ln.ID, ln.Lane, ln.Written.Load(), ln.Read.Load(), ln.Total))
				}
				tmu.Unlock()
				fmt.Printf("DBG t=%ds clean=%v pending=%d dgrams=%v dropped=%v %v\n", time.Since(start)/time.Second, p.Net.clean.Load(), pending.Load(), p.Net.Sent, p.Net.Dropped, st)
			}
		}
		return pending.Load() == 0
	}
	done := waitUntil(time.Duration(rc.FaultPhase) * time.Millisecond)
	p.Net.clean.Store(true)
	if !done {
		bound := rc.CleanBoundS
		if bound == 0 {
			bound = 300
		}
		done = waitUntil(time.Duration(bound) * time.Second)
	}
	res.VirtualMs = time.Since(start).Milliseconds()
	if !done {
		res.Stuck = true
		tmu.Lock()
		var st []string
		for _, ln := range res.Lanes {
			if !ln.ReaderDone.Load() || !ln.WriterDone.Load() {
				st = append(st, fmt.Sprintf("stream %d lane %d: written %d read %d of %d (writerDone=%v readerDone=%v reset=%v)\n   writer side: %s\n   reader side: %s", ln.ID, ln.Lane, ln.Written.Load(), ln.Read.Load(), ln.Total, ln.WriterDone.Load(), ln.ReaderDone.Load(), ln.Reset.Load(), vlpDumpStream(ln.WS.Load()), vlpDumpStream(ln.RS.Load())))
			}
		}
		tmu.Unlock()
		sort.Strings(st)
		viol("stuck-after-faults-stopped", "%d tasks still pending %d virtual ms after start (network clean for the last %d s):\n %s\n client conn: %s\n server conn: %s\n datagrams sent %v dropped %v", pending.Load(), res.VirtualMs, rc.CleanBoundS, strings.Join(st, "\n "), vlpDumpConn(p.Cli), vlpDumpConn(p.Srv), p.Net.Sent, p.Net.Dropped)
	}
	cancel()
	p.vlpClose()
	wg.Wait()
	return res
}

func (r *vlpRunResult) addClose(ok bool) {
	if ok {
		atomic.AddInt64(&r.CloseNil, 1)
	} else {
		atomic.AddInt64(&r.CloseErr, 1)
	}
}

var _ = errors.New
