//go:build verif

package quic

import (
	"fmt"
	"sort"
	"sync"
	"testing"
	"testing/synctest"
	"time"

	"golang.org/x/net/internal/verifrt"
)

// vlpAckShadow: per side and number space, the set of packet numbers the connection has
// processed (its own packet_received events, logged right after shouldProcess and before the
// frames are handled), against which every ACK range it sends is checked.
type vlpAckShadow struct {
	side      string
	processed [numberSpaceCount]map[int64]bool
	acksSent  int64
	ranges    int64
	recvd     int64
}

func vlpNewAckShadow(side string) *vlpAckShadow {
	s := &vlpAckShadow{side: side}
	for i := range s.processed {
		s.processed[i] = map[int64]bool{}
	}
	return s
}

func (s *vlpAckShadow) observe(ev *vlpEvent, viol vlpViolFunc) {
	if ev.Side != s.side {
		return
	}
	if !ev.Sent {
		s.recvd++
		if s.processed[ev.Space][ev.Num] {
			viol("packet-processed-twice", "%s processed %s packet number %d twice", s.side, ev.PType, ev.Num)
		}
		s.processed[ev.Space][ev.Num] = true
		return
	}
	for i := range ev.Frames {
		f := &ev.Frames[i]
		if f.Kind != "ack" {
			continue
		}
		s.acksSent++
		for _, rg := range f.Ranges {
			s.ranges++
			for n := rg[0]; n < rg[1]; n++ {
				if !s.processed[ev.Space][n] {
					viol("ack-for-unreceived-packet", "%s sent an ACK in %s packet %d with range [%d,%d) but never processed packet %d in that space", s.side, ev.PType, ev.Num, rg[0], rg[1], n)
					break
				}
			}
		}
	}
}

func TestVerif_C25(t *testing.T) {
	r := verifrt.Start(t, "C25")
	defer r.Finish()
	r.ExitIfAbnormal()
	r.SetRule("(a) lossy transfers with heavy duplication/reordering; per side+space shadow of processed packet numbers from the qlog tap: no number processed twice, every ACK range sent is a subset of processed numbers. (b) ackState alone vs a model set under PRNG arrival orders/duplicates/ack-of-ack trimming (8-range pruning). (c) scripted peer ACKing sent / never-sent / skipped packet numbers. non-trivial: (a) run with >=1 duplicate datagram delivered and >=1 multi-range ACK; (b) history in which ranges were pruned; (c) all. distinct by counters")
	r.Assume("packet_received is logged after the duplicate check (shouldProcess) and before frame handling, as in conn_recv.go")
	var mu sync.Mutex
	n := r.N(40, 1000)
	r.CasesParallel("lossy-acks", n, 8, func(c *verifrt.Case) {
		f := vlpFaults{BaseDelayMs: 1 + c.Rng.IntN(30), JitterMs: c.Rng.IntN(30), MaxConsec: 3,
			Loss: c.Rng.Float64() * 0.25, Dup: 0.1 + c.Rng.Float64()*0.3, Reorder: c.Rng.Float64() * 0.4, ReorderMaxMs: 1 + c.Rng.IntN(150)}
		cb, sb := vlpGenBuf(c.Rng), vlpGenBuf(c.Rng)
		rc := &vlpRunConfig{Faults: f, CliBuf: cb, SrvBuf: sb, Streams: vlpGenStreams(c.Rng, 6, vlpBudget(400<<10, cb, sb)),
			FaultPhase: []int{2000, 20000, 120000}[c.Rng.IntN(3)], CleanBoundS: 300, Retry: c.Rng.IntN(6) == 0}
		c.Describe(rc)
		var res *vlpRunResult
		shadows := map[int]*vlpAckShadow{} // one per connection
		var multi int64
		synctest.Test(t, func(t *testing.T) {
			res = vlpRunTransfer(c.Rng.Uint64(), rc, func(p *vlpPair) {
				p.Tap.Observe(func(ev *vlpEvent) {
					sh := shadows[ev.Conn]
					if sh == nil {
						sh = vlpNewAckShadow(ev.Side)
						shadows[ev.Conn] = sh
					}
					sh.observe(ev, c.Violation)
					if ev.Sent {
						for i := range ev.Frames {
							if ev.Frames[i].Kind == "ack" && len(ev.Frames[i].Ranges) > 1 {
								multi++
							}
						}
					}
				})
			}, func(key, f string, a ...any) { r.Event("c19_oracle_fired_"+key, 1) })
		})
		if res.HandshakeErr != nil {
			r.Event("handshake_failed", 1)
			return
		}
		nn := res.Pair.Net
		mu.Lock()
		defer mu.Unlock()
		shC, shS := vlpNewAckShadow("client"), vlpNewAckShadow("server") // totals
		for _, sh := range shadows {
			t := shC
			if sh.side == "server" {
				t = shS
			}
			t.recvd += sh.recvd
			t.acksSent += sh.acksSent
			t.ranges += sh.ranges
		}
		if len(shadows) > 2 {
			r.Event("runs_with_extra_server_conn", 1)
		}
		dup := nn.Duped[0] + nn.Duped[1]
		r.Eval(dup > 0 && multi > 0, "lossy", shC.recvd+shS.recvd, shC.acksSent+shS.acksSent, multi, dup)
		r.Event("lossy_runs", 1)
		r.Event("packets_processed", shC.recvd+shS.recvd)
		r.Event("ack_frames_checked", shC.acksSent+shS.acksSent)
		r.Event("ack_ranges_checked", shC.ranges+shS.ranges)
		r.Event("multi_range_acks", multi)
		r.Event("datagrams_duplicated", dup)
		r.Sample(map[string]any{"kind": "lossy", "faults": f, "processed": shC.recvd + shS.recvd, "acks": shC.acksSent + shS.acksSent, "multi_range_acks": multi, "dups": dup})
	})

	// (b) ackState against a model set
	m := r.N(3000, 150000)
	r.CasesParallel("ackstate-model", m, 0, func(c *verifrt.Case) {
		var acks ackState
		received := map[int64]bool{}
		var maxSeen int64 = -1
		var ops []string
		now := time.Unix(1000, 0)
		var sentMax []int64
		pruned := false
		next := int64(c.Rng.IntN(3))
		space := []numberSpace{initialSpace, handshakeSpace, appDataSpace}[c.Rng.IntN(3)]
		nops := 20 + c.Rng.IntN(200)
		for i := 0; i < nops; i++ {
			now = now.Add(time.Duration(c.Rng.IntN(30)) * time.Millisecond)
			switch k := c.Rng.IntN(10); {
			case k < 6: // a packet arrives: new, old, duplicate or far ahead
				var num int64
				switch c.Rng.IntN(6) {
				case 0:
					num = next + int64(c.Rng.IntN(4)) // gap ahead
				case 1:
					num = max(0, maxSeen-int64(c.Rng.IntN(40))) // old
				case 2:
					if maxSeen >= 0 {
						num = c.Rng.Int64N(maxSeen + 1)
					}
				default:
					num = next
				}
				want := !received[num]
				got := acks.shouldProcess(packetNumber(num))
				if got && !want {
					c.Describe(map[string]any{"ops": ops, "num": num})
					c.Violation("ackstate-would-process-twice", "shouldProcess(%d)=true although packet %d was already received; ops: %v; seen=%v", num, num, ops, acks.seen)
					return
				}
				if num > maxSeen && !got {
					c.Describe(map[string]any{"ops": ops, "num": num})
					c.Violation("ackstate-rejects-new-packet", "shouldProcess(%d)=false for a number above everything received (max %d); ops: %v", num, maxSeen, ops)
					return
				}
				if got {
					acks.receive(now, space, packetNumber(num), c.Rng.IntN(4) != 0, ecnBits(c.Rng.IntN(4)))
					received[num] = true
					maxSeen = max(maxSeen, num)
					if num >= next {
						next = num + 1
					}
					ops = append(ops, fmt.Sprintf("recv %d", num))
					r.Event("ackstate_packets_received", 1)
				} else {
					ops = append(ops, fmt.Sprintf("dup/old %d", num))
					r.Event("ackstate_duplicates_refused", 1)
				}
				if want && !got {
					pruned = true // refused a never-received number: only legal below the pruned floor
					if acks.seen.numRanges() > 0 && packetNumber(num) >= acks.seen.min() {
						c.Describe(map[string]any{"ops": ops, "num": num})
						c.Violation("ackstate-refuses-unreceived-above-floor", "shouldProcess(%d)=false, never received and not below the floor %d; ops %v", num, acks.seen.min(), ops)
						return
					}
				}
			case k < 8: // we send an ACK
				nums, _ := acks.acksToSend(now)
				for _, rg := range nums {
					for x := int64(rg.start); x < int64(rg.end); x++ {
						if !received[x] {
							c.Describe(map[string]any{"ops": ops})
							c.Violation("ackstate-acks-unreceived", "acksToSend contains %d, never received; ops %v", x, ops)
							return
						}
					}
				}
				if len(nums) > 0 {
					sentMax = append(sentMax, int64(nums.max()))
					acks.sentAck()
					ops = append(ops, fmt.Sprintf("sendack max=%d ranges=%d", nums.max(), nums.numRanges()))
				}
			default: // the peer acknowledged one of our ACK-carrying packets
				if len(sentMax) > 0 {
					x := sentMax[c.Rng.IntN(len(sentMax))]
					acks.handleAck(packetNumber(x))
					ops = append(ops, fmt.Sprintf("ackofack %d", x))
					r.Event("ackstate_ack_of_ack", 1)
				}
			}
			if acks.seen.numRanges() > 8 {
				c.Describe(map[string]any{"ops": ops})
				c.Violation("ackstate-too-many-ranges", "%d ranges kept", acks.seen.numRanges())
				return
			}
		}
		// closing sweep: nothing ever received may be processable again
		keys := make([]int64, 0, len(received))
		for k := range received {
			keys = append(keys, k)
		}
		sort.Slice(keys, func(i, j int) bool { return keys[i] < keys[j] })
		for _, k := range keys {
			if acks.shouldProcess(packetNumber(k)) {
				c.Describe(map[string]any{"ops": ops, "num": k})
				c.Violation("ackstate-would-process-twice", "after the history shouldProcess(%d)=true although it was received; seen=%v ops=%v", k, acks.seen, ops)
				return
			}
		}
		if pruned {
			r.Event("ackstate_histories_with_pruning", 1)
		}
		r.Eval(pruned, "ackstate", len(ops), len(received), maxSeen)
		if c.Index < 2 {
			r.Sample(map[string]any{"kind": "ackstate", "ops": ops[:min(len(ops), 25)]})
		}
	})

	// (c) scripted peer acknowledging numbers that were / were not sent
	k := r.N(120, 3000)
	r.Cases("scripted-acks", k, func(c *verifrt.Case) {
		side := []connSide{serverSide, clientSide}[c.Rng.IntN(2)]
		npk := []int{3, 10, 40, 120, 300}[c.Rng.IntN(5)]
		mode := c.Rng.IntN(4) // 0 exact, 1 beyond max, 2 skipped number, 3 far beyond
		if mode == 2 {
			npk = 300 // the first skip happens within the first 64..256 packets
		}
		c.Describe(map[string]any{"side": fmt.Sprint(side), "packets": npk, "mode": mode})
		synctest.Test(t, func(t *testing.T) {
			tc := vlpScripted(t, side, permissiveTransportParameters)
			s := newLocalStream(t, tc, uniStream)
			seen := map[int64]bool{}
			var maxNum int64 = -1
			var minNum int64 = -1
			closedEarly := false
			collect := func() {
				for _, p := range vlpReadPackets(tc) {
					if p.ptype == packetType1RTT {
						seen[int64(p.num)] = true
						maxNum = max(maxNum, int64(p.num))
						if minNum < 0 || int64(p.num) < minNum {
							minNum = int64(p.num)
						}
					}
					if _, _, cl := vlpCloseCode(p.frames); cl {
						closedEarly = true
					}
				}
			}
			ackSeen := func(extra ...int64) {
				present := map[int64]bool{}
				for n := range seen {
					present[n] = true
				}
				for _, e := range extra {
					present[e] = true
				}
				var nums []int64
				for n := range present {
					nums = append(nums, n)
				}
				sort.Slice(nums, func(i, j int) bool { return nums[i] < nums[j] })
				var rs []i64range[packetNumber]
				for _, n := range nums {
					if len(rs) > 0 && rs[len(rs)-1].end == packetNumber(n) {
						rs[len(rs)-1].end++
					} else {
						rs = append(rs, i64range[packetNumber]{packetNumber(n), packetNumber(n + 1)})
					}
				}
				if len(rs) > 0 {
					tc.writeFrames(packetType1RTT, debugFrameAck{ranges: rs})
				}
			}
			collect()
			findGap := func() int64 {
				// a gap above the first number this script observed is a deliberately skipped packet
				// number: the scripted peer sees every datagram (earlier 1-RTT packets were consumed
				// by the handshake helper, hence the lower bound)
				for n := maxNum - 1; n > minNum; n-- {
					if !seen[n] {
						return n
					}
				}
				return -1
			}
			var gap int64 = -1
			wantViolation := false
			acted := false
			for i := 0; i < npk && !acted; i++ {
				s.Write([]byte{byte(i)})
				s.Flush()
				collect()
				if g := findGap(); mode == 2 && g >= 0 {
					// Acknowledge the skipped number while the connection still tracks the packets
					// around it. (Once everything up to a later number has been acknowledged the
					// sender forgets that range, and RFC 9000 13.1 only asks for the error "if it is
					// able to detect the condition" - so a late ACK of an old skipped number is not
					// demanded to fail and is not generated.)
					gap = g
					// The sender only keeps state from its oldest in-flight packet on (the repository's own
					// skip test says so): if everything below the skipped number was already acknowledged
					// when it was skipped, its entry is gone and the condition is not detectable.
					tracked := false
					tc.conn.runOnLoop(t.Context(), func(now time.Time, c *Conn) {
						tracked = c.loss.spaces[appDataSpace].start() <= packetNumber(g)
					})
					if !tracked {
						r.Event("scripted_skipped_number_no_longer_tracked", 1)
						seen[g] = true // treat as unknowable from here on
						continue
					}
					ackSeen(gap)
					wantViolation, acted = true, true
					r.Event("scripted_ack_of_skipped_number", 1)
					break
				}
				if i%7 == 6 {
					ackSeen()
					collect()
				}
			}
			if closedEarly {
				c.Violation("legal-ack-rejected", "connection closed while the peer only ACKed packets it had received")
				return
			}
			if !acted {
				switch mode {
				case 0, 2:
					ackSeen()
				case 1:
					ackSeen(maxNum + 1)
					wantViolation = true
				case 3:
					ackSeen(maxNum + 1 + int64(c.Rng.IntN(100000)))
					wantViolation = true
				}
			}
			frames := vlpDrain(tc)
			code, reason, closed := vlpCloseCode(frames)
			switch {
			case wantViolation && !closed:
				c.Violation("ack-of-unsent-not-rejected", "peer ACKed a packet number the connection never sent (mode %d, max sent %d, gap %d) and the connection stayed open", mode, maxNum, gap)
			case wantViolation && code != errProtocolViolation:
				c.Violation("ack-of-unsent-wrong-code", "expected PROTOCOL_VIOLATION, got %v %q", code, reason)
			case !wantViolation && closed:
				c.Violation("legal-ack-rejected", "peer ACKed exactly the packets it received (max %d) and got CONNECTION_CLOSE %v %q", maxNum, code, reason)
			}
			if wantViolation {
				r.Event("scripted_bad_acks_rejected", 1)
			} else {
				r.Event("scripted_exact_acks_accepted", 1)
			}
			r.Event("scripted_packets_seen", int64(len(seen)))
		})
		r.Eval(true, "scripted", side, npk, mode)
	})
	// (d) the ACK frame writer under tight space: whatever room the packet has left, the
	// frame it writes must acknowledge only packet numbers that are in the set it was given
	// (the ranges are delta-encoded, so dropping a range in the middle shifts all later ones).
	// The bytes are decoded by the harness's own varint walker, not by the package's parser.
	aw := r.N(20000, 600000)
	r.CasesParallel("ack-writer-tight-space", 64, 0, func(c *verifrt.Case) {
		for k := 0; k < aw/64; k++ {
			rng := c.Rng
			var seen rangeset[packetNumber]
			model := map[packetNumber]bool{}
			base := packetNumber(rng.Int64N(1 << uint(1+rng.IntN(40))))
			at := base
			for i, n := 0, 1+rng.IntN(12); i < n; i++ {
				gap := []int64{1, 1, 2, 3, 62, 63, 64, 65, 100, 16383, 16384, 20000}[rng.IntN(12)]
				size := []int64{1, 1, 1, 2, 5, 63, 64, 65, 200, 16384}[rng.IntN(10)]
				at += packetNumber(gap)
				seen.add(at, at+packetNumber(size))
				for x := at; x < at+packetNumber(size); x++ {
					model[x] = true
				}
				at += packetNumber(size)
			}
			room := rng.IntN(64)
			if rng.IntN(4) == 0 {
				room = 64 + rng.IntN(1200)
			}
			var w packetWriter
			w.reset(1500)
			w.start1RTTPacket(1, 0, []byte{1, 2, 3, 4})
			w.pktLim = len(w.b) + room
			startLen := len(w.b)
			var ecn ecnCounts
			if rng.IntN(4) == 0 {
				ecn = ecnCounts{t0: rng.IntN(70000), t1: rng.IntN(70), ce: rng.IntN(3)}
			}
			added := w.appendAckFrame(seen, unscaledAckDelay(rng.IntN(1<<uint(rng.IntN(20)))), ecn)
			b := w.b[startLen:]
			if !added {
				if len(b) != 0 {
					c.Violation("ack-writer-reports-nothing-added-but-wrote", "appendAckFrame returned false but appended %d bytes (room %d)", len(b), room)
				}
				r.Event("ack_writer_no_room", 1)
				continue
			}
			if len(b) > room {
				c.Violation("ack-writer-exceeds-room", "ACK frame of %d bytes written with %d bytes available", len(b), room)
			}
			// independent decode (RFC 9000 19.3): type, largest, delay, range count, first range, (gap, len)*
			pos := 0
			bad := false
			vi := func() uint64 {
				if pos >= len(b) {
					bad = true
					return 0
				}
				n := 1 << (b[pos] >> 6)
				if pos+n > len(b) {
					bad = true
					return 0
				}
				v := uint64(b[pos] & 0x3f)
				for i := 1; i < n; i++ {
					v = v<<8 | uint64(b[pos+i])
				}
				pos += n
				return v
			}
			typ := vi()
			largest := int64(vi())
			vi() // delay
			count := vi()
			first := int64(vi())
			type rg struct{ lo, hi int64 }
			rs := []rg{{largest - first, largest}}
			lo := largest - first
			for i := uint64(0); i < count && !bad; i++ {
				gap := int64(vi())
				ln := int64(vi())
				hi := lo - gap - 2
				lo = hi - ln
				rs = append(rs, rg{lo, hi})
			}
			if typ == 3 {
				vi()
				vi()
				vi()
			}
			if bad || pos != len(b) || (typ != 2 && typ != 3) {
				c.Violation("ack-writer-frame-malformed", "ACK frame %x (room %d) does not parse as an ACK frame (consumed %d of %d)", b, room, pos, len(b))
				continue
			}
			if packetNumber(largest) != seen.max() {
				c.Violation("ack-writer-largest-wrong", "ACK frame %x: largest acknowledged %d, largest received %d", b, largest, seen.max())
			}
			for _, g := range rs {
				if g.lo < 0 || g.lo > g.hi {
					c.Violation("ack-writer-range-malformed", "ACK frame %x (room %d): range [%d,%d]; received %v", b, room, g.lo, g.hi, seen)
					break
				}
				if !model[packetNumber(g.lo)] || !model[packetNumber(g.hi)] || !seen.contains(packetNumber(g.lo)) || (g.hi-g.lo < 70000 && func() bool {
					for x := g.lo; x <= g.hi; x++ {
						if !model[packetNumber(x)] {
							return true
						}
					}
					return false
				}()) {
					c.Violation("ack-writer-acknowledges-unreceived-packet", "ACK frame %x written with %d bytes of room acknowledges [%d,%d], not all of which were received; received ranges %v", b, room, g.lo, g.hi, seen)
					break
				}
			}
			r.Event("ack_writer_frames_checked", 1)
			if len(rs) < len(seen) {
				r.Event("ack_writer_frames_truncated_for_room", 1)
			}
			if len(rs) >= 3 {
				r.Event("ack_writer_frames_with_3_or_more_ranges", 1)
			}
			r.EvalHash(len(rs) > 1, uint64(len(b))<<32^uint64(room)<<20^uint64(largest))
		}
	})
	r.Require("ack_writer_frames_checked", 5000)
	r.Require("ack_writer_frames_truncated_for_room", 1000)
	r.Require("ack_writer_frames_with_3_or_more_ranges", 1000)
	r.Require("packets_processed", 2500)
	r.Require("ack_frames_checked", 1000)
	r.Require("multi_range_acks", 50)
	r.Require("datagrams_duplicated", 100)
	r.Require("ackstate_histories_with_pruning", 20)
	r.Require("scripted_bad_acks_rejected", 20)
	r.Require("scripted_exact_acks_accepted", 10)
	r.Require("scripted_ack_of_skipped_number", 2)
}
