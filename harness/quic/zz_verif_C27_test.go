//go:build verif

package quic

// C27: until a QUIC server has validated a client's address, the total size of datagrams it
// sends to that address never exceeds three times the total size of datagrams it has
// received from that address.
//
// The oracle only counts datagram sizes on the fake network of the lossyPair harness
// (vlpNet): every datagram the server endpoint writes is debited to its destination address
// at the moment of the write (whatever its fate), every datagram handed to the server
// endpoint is credited to its source address at the moment of delivery. Identifiers c27*.
//
// The client is a real Endpoint whose datagrams pass through a reshaping man in the middle
// (c27Mitm): a per-datagram script can drop, truncate, pad (datagram padding after the last
// long-header packet, which a client is free to add), duplicate, bit-flip, delay or re-source
// (spoofed source address) each of the first k datagrams; the tail is either silence (the
// spoofed / vanished client) or honest delivery through the PRNG fault injector. Additional
// junk datagrams (unknown version, short-header noise, bogus tokens, undecryptable Handshake
// packets) are injected on a timeline.

import (
	"context"
	"crypto/ed25519"
	"crypto/tls"
	"crypto/x509"
	"crypto/x509/pkix"
	"encoding/asn1"
	"encoding/binary"
	"fmt"
	"math/big"
	"math/rand/v2"
	"net/netip"
	"os"
	"sort"
	"strings"
	"sync"
	"testing"
	"testing/synctest"
	"time"

	"golang.org/x/net/internal/verifrt"
)

// ---- server certificate chains of a chosen size ----

// c27Cert builds a deterministic Ed25519 certificate chain (fixed-length signatures, so the
// size of the server's handshake flight is a function of the parameters alone). leafPad
// bytes go into a private non-critical extension of the leaf; extra further self-signed
// certificates of extraPad bytes of padding each are appended to the chain (the client does
// not verify the chain, it only has to parse it).
func c27Cert(seed uint64, leafPad, extra, extraPad int) (tls.Certificate, int, error) {
	mk := func(i int, pad int) ([]byte, ed25519.PrivateKey, error) {
		var s [32]byte
		binary.LittleEndian.PutUint64(s[:], seed)
		binary.LittleEndian.PutUint64(s[8:], uint64(i)+1)
		key := ed25519.NewKeyFromSeed(s[:])
		tmpl := &x509.Certificate{
			SerialNumber: big.NewInt(int64(i) + 1),
			Subject:      pkix.Name{CommonName: fmt.Sprintf("c27-%d", i)},
			NotBefore:    time.Unix(946000000, 0),
			NotAfter:     time.Unix(4102444800, 0),
			KeyUsage:     x509.KeyUsageDigitalSignature,
			DNSNames:     []string{"localhost"},
		}
		if pad > 0 {
			tmpl.ExtraExtensions = []pkix.Extension{{Id: asn1.ObjectIdentifier{1, 3, 6, 1, 4, 1, 55555, 27}, Value: make([]byte, pad)}}
		}
		der, err := x509.CreateCertificate(nil, tmpl, tmpl, key.Public(), key)
		return der, key, err
	}
	leaf, key, err := mk(0, leafPad)
	if err != nil {
		return tls.Certificate{}, 0, err
	}
	cert := tls.Certificate{Certificate: [][]byte{leaf}, PrivateKey: key}
	total := len(leaf)
	for i := 1; i <= extra; i++ {
		der, _, err := mk(i, extraPad)
		if err != nil {
			return tls.Certificate{}, 0, err
		}
		cert.Certificate = append(cert.Certificate, der)
		total += len(der)
	}
	return cert, total, nil
}

// ---- case description ----

type c27Step struct {
	Drop    bool `json:"drop,omitempty"`
	Trunc   int  `json:"trunc,omitempty"`    // cut the datagram to this many bytes
	Pad     int  `json:"pad,omitempty"`      // append this many zero bytes of datagram padding
	Copies  int  `json:"copies,omitempty"`   // deliver this many copies (0/1 = one)
	FlipBit int  `json:"flip_bit,omitempty"` // >0: flip bit (FlipBit-1) mod datagram bits
	Spoof   bool `json:"spoof,omitempty"`    // send from the alternate source address
	DelayMs int  `json:"delay_ms,omitempty"`
}

type c27Junk struct {
	AtMs  int    `json:"at_ms"`
	Kind  string `json:"kind"` // vn | short | badtoken | newinitial | tinyinitial | hsjunk | zeros | replay-first | replay-last | coalesced-initials
	Size  int    `json:"size"`
	Spoof bool   `json:"spoof,omitempty"`
}

type c27Config struct {
	Kind           string    `json:"kind"`
	LeafPad        int       `json:"leaf_pad"`
	ChainExtra     int       `json:"chain_extra"`
	ChainExtraPad  int       `json:"chain_extra_pad"`
	DefaultCert    bool      `json:"default_cert,omitempty"` // the repository's test certificate
	BigClientHello bool      `json:"big_client_hello,omitempty"`
	ALPNBytes      int       `json:"alpn_bytes,omitempty"`
	Retry          bool      `json:"retry,omitempty"`
	ResetKey       bool      `json:"reset_key,omitempty"`
	SrvHandshakeS  int       `json:"srv_handshake_timeout_s"`
	Steps          []c27Step `json:"steps"`
	Tail           string    `json:"tail"`     // drop | deliver
	TailPad        int       `json:"tail_pad"` // datagram padding added to every client datagram of the tail that has no short-header packet
	S2C            string    `json:"s2c"`      // deliver | drop (the PRNG faults below apply to both directions)
	Faults         vlpFaults `json:"faults"`
	FaultPhaseMs   int       `json:"fault_phase_ms"`
	Junk           []c27Junk `json:"junk,omitempty"`
	RunS           int       `json:"run_s"`
	NetSeed        uint64    `json:"net_seed"`
	CertSeed       uint64    `json:"cert_seed"`
	AltRouted      bool      `json:"alt_routed"`            // whether the spoofed source address has a listener
	ChainBytes     int       `json:"chain_bytes,omitempty"` // filled in by the run: DER bytes of the generated chain
}

// ---- oracle ----

type c27Addr struct {
	recv, sent  int64
	slack       int64 // overshoot already reported (so that a later, different overshoot is still seen)
	validated   bool
	validatedBy string
	retrySent   bool
	nSent       int64
	nRecv       int64
	blocked     bool  // allowance < 128 after some server send
	partial     bool  // 128 <= allowance < 1200 after some server send
	peakNum     int64 // sent, recv at the highest sent/recv ratio
	peakDen     int64
	lastRecvAt  time.Time
	probes      int64 // server datagrams sent >= 900 virtual ms after the last credit
	overshoots  int64
	// Key classification only (never the verdict): bytes delivered from this address at the
	// current virtual instant, which the server may or may not have processed before a send
	// at the same instant; and the overshoot a padded Initial probe would have caused had
	// they not been processed yet (the implementation clamps its allowance at zero, i.e.
	// forgives that debt, so it can surface later as an overshoot of another shape).
	instant      time.Time
	instantBytes int64
	maskedDebt   int64
}

type c27Log struct {
	T     int64  `json:"t_ms"`
	Dir   string `json:"dir"`
	Addr  string `json:"addr"`
	Size  int    `json:"size"`
	Fate  string `json:"fate"`
	Types string `json:"types"`
	Note  string `json:"note,omitempty"`
}

type c27Oracle struct {
	mu       sync.Mutex // all hooks run under vlpNet.mu already; mu guards reads from the driver goroutine
	start    time.Time
	addrs    map[netip.AddrPort]*c27Addr
	junkSeq  map[uint64]bool // C2S datagram sequence numbers that are harness-made junk (can never validate)
	origHS   map[uint64]bool // C2S sequence numbers whose pre-tamper original contained a Handshake packet
	nextJunk bool
	nextHS   bool
	log      []c27Log
	viol     func(key, detail string)
	nviol    int
	violText []string

	// dbgLimits, if set (VERIF_DEBUG, never under -race), returns the white-box
	// antiAmplificationLimit of the server connections to an address; diagnostics only.
	dbgLimits func(to netip.AddrPort) string

	checked, credited                     int64
	retries, vns, resets, noroute, masked int64
}

func c27NewOracle(viol func(key, detail string)) *c27Oracle {
	return &c27Oracle{start: time.Now(), addrs: map[netip.AddrPort]*c27Addr{}, junkSeq: map[uint64]bool{}, origHS: map[uint64]bool{}, viol: viol}
}

func (o *c27Oracle) addr(a netip.AddrPort) *c27Addr {
	s := o.addrs[a]
	if s == nil {
		s = &c27Addr{}
		o.addrs[a] = s
	}
	return s
}

// c27Walk walks the unprotected header fields of the packets coalesced in one datagram
// (RFC 9000 §17.2: form bit, version, DCID, SCID, [token], Length). It is deliberately
// liberal: whatever an endpoint could conceivably reach by skipping packets is reported.
// types: 'I' initial, '0' 0-RTT, 'H' handshake, 'R' retry, 'V' version negotiation,
// 'S' short header (extends to the end of the datagram), 'Z' zero padding to the end.
func c27Walk(b []byte) (types string, initialToken int) {
	initialToken = -1
	rdVar := func(b []byte) (uint64, int) {
		if len(b) == 0 {
			return 0, -1
		}
		l := 1 << (b[0] >> 6)
		if len(b) < l {
			return 0, -1
		}
		v := uint64(b[0] & 0x3f)
		for i := 1; i < l; i++ {
			v = v<<8 | uint64(b[i])
		}
		return v, l
	}
	for len(b) > 0 {
		if b[0]&0x80 == 0 {
			if b[0] == 0 {
				return types + "Z", initialToken
			}
			return types + "S", initialToken
		}
		if len(b) < 7 {
			return types + "?", initialToken
		}
		if b[1]|b[2]|b[3]|b[4] == 0 {
			return types + "V", initialToken
		}
		p := 5
		p += 1 + int(b[p])
		if p >= len(b) {
			return types + "?", initialToken
		}
		p += 1 + int(b[p])
		if p > len(b) {
			return types + "?", initialToken
		}
		t := "I0HR"[(b[0]>>4)&3]
		if t == 'R' {
			return types + "R", initialToken
		}
		if t == 'I' {
			tl, k := rdVar(b[p:])
			if k < 0 || uint64(len(b)-p-k) < tl {
				return types + "?", initialToken
			}
			if initialToken < 0 {
				initialToken = int(tl)
			}
			p += k + int(tl)
		}
		ln, k := rdVar(b[p:])
		if k < 0 || uint64(len(b)-p-k) < ln {
			return types + "?", initialToken
		}
		p += k + int(ln)
		types += string(t)
		b = b[p:]
	}
	return types, initialToken
}

func (o *c27Oracle) ms() int64 { return time.Since(o.start).Milliseconds() }

// onSend is vlpNet.OnSend (called under the network mutex, synchronously inside Write).
func (o *c27Oracle) onSend(rec vlpDgramRec, b []byte) {
	o.mu.Lock()
	defer o.mu.Unlock()
	types, _ := c27Walk(b)
	if rec.Dir == vlpC2S {
		note := ""
		if o.nextJunk {
			o.junkSeq[rec.Seq] = true
			note = "junk"
		}
		if o.nextHS {
			o.origHS[rec.Seq] = true
		}
		o.nextJunk, o.nextHS = false, false
		if !rec.Delivered {
			o.logf(c27Log{T: o.ms(), Dir: "c2s", Addr: rec.From.String(), Size: rec.Size, Fate: rec.Fate, Types: types, Note: note})
		}
		return
	}
	// server -> rec.To
	a := o.addr(rec.To)
	switch {
	case strings.HasPrefix(types, "R"):
		o.retries++
	case strings.HasPrefix(types, "V"):
		o.vns++
	case strings.HasPrefix(types, "S") && a.nRecv > 0 && !a.validated && rec.Size <= 42:
		o.resets++ // a short-header datagram to an unvalidated address: stateless reset (or 1-RTT data)
	}
	if rec.Fate == "no-route" {
		o.noroute++
	}
	note := ""
	if o.dbgLimits != nil {
		defer func(i int) {
			if i < len(o.log) {
				o.log[i].Note += " impl-limit-after=" + o.dbgLimits(rec.To)
			}
		}(len(o.log))
	}
	if !a.validated {
		before := 3*a.recv + a.slack - a.sent
		a.sent += int64(rec.Size)
		a.nSent++
		o.checked++
		if !a.lastRecvAt.IsZero() && time.Since(a.lastRecvAt) >= 900*time.Millisecond {
			a.probes++
		}
		// padded(allow): the packets of this datagram (one of them an Initial) fit in an
		// allowance of 128..1199 bytes; the zero padding of the datagram to exactly 1200
		// bytes is what exceeds it
		padded := func(allow int64) bool {
			return strings.Contains(types, "I") && strings.HasSuffix(types, "Z") && rec.Size == 1200 && allow >= 128 && allow < 1200 && int64(c27Unpadded(b)) <= allow
		}
		if a.sent-a.slack > 3*a.recv {
			over := a.sent - a.slack - 3*a.recv
			a.overshoots++
			var key string
			switch {
			case padded(before):
				key = "initial-datagram-padded-to-1200-beyond-partial-allowance"
			case a.maskedDebt > 0 && (over <= a.maskedDebt || padded(before+a.maskedDebt)):
				// consequence of an earlier padded Initial probe that went out at the very
				// instant a client datagram was queued for the server: the oracle had already
				// credited that datagram, the connection had not, overshot its own allowance
				// and clamped it at zero
				key = "overshoot-after-padded-initial-probe-raced-a-queued-client-datagram"
			case before < 128:
				key = "sent-while-allowance-exhausted:" + c27First(types)
			default:
				key = "datagram-larger-than-allowance:" + c27First(types)
			}
			note = fmt.Sprintf("OVERSHOOT by %d (allowance before this datagram: %d)", over, before)
			detail := fmt.Sprintf("server sent a %d-byte datagram (packets %q) to unvalidated address %v at t=%dms: total sent %d > 3 x total received %d = %d (allowance left before this datagram: %d bytes; overshoot %d bytes)",
				rec.Size, types, rec.To, o.ms(), a.sent, a.recv, 3*a.recv, before, over)
			o.nviol++
			o.violText = append(o.violText, key+": "+detail)
			o.logf(c27Log{T: o.ms(), Dir: "s2c", Addr: rec.To.String(), Size: rec.Size, Fate: rec.Fate, Types: types, Note: note})
			o.viol(key, detail+"\n"+o.history(60))
			a.slack = a.sent - 3*a.recv
			a.maskedDebt = max(0, a.maskedDebt-over)
			if strings.HasPrefix(types, "R") {
				a.retrySent = true
			}
			return
		}
		if a.instantBytes > 0 && a.instant.Equal(time.Now()) {
			if strict := before - 3*a.instantBytes; padded(strict) {
				a.maskedDebt += int64(rec.Size) - strict
				note = fmt.Sprintf("padded Initial datagram at the instant %d client bytes were queued: exceeds the allowance by %d if they were not processed yet", a.instantBytes, int64(rec.Size)-strict)
				o.masked++
			}
		}
		if a.recv > 0 && a.sent*a.peakDen > a.peakNum*a.recv || a.peakDen == 0 && a.recv > 0 {
			a.peakNum, a.peakDen = a.sent, a.recv
		}
		switch left := 3*a.recv + a.slack - a.sent; {
		case left < 128:
			a.blocked = true
		case left < 1200:
			a.partial = true
		}
	} else {
		note = "address validated: not counted"
	}
	if strings.HasPrefix(types, "R") {
		a.retrySent = true
	}
	o.logf(c27Log{T: o.ms(), Dir: "s2c", Addr: rec.To.String(), Size: rec.Size, Fate: rec.Fate, Types: types, Note: note})
}

// c27Unpadded is the length of the datagram without its trailing zero bytes.
func c27Unpadded(b []byte) int {
	n := len(b)
	for n > 0 && b[n-1] == 0 {
		n--
	}
	return n
}

func c27First(types string) string {
	if types == "" {
		return "none"
	}
	return map[byte]string{'I': "initial", '0': "0rtt", 'H': "handshake", 'R': "retry", 'V': "version-negotiation", 'S': "short-header", 'Z': "zeros", '?': "unparsable"}[types[0]]
}

// onDeliver is vlpNet.OnDeliverRec: one call per copy handed to the receiving endpoint.
func (o *c27Oracle) onDeliver(rec vlpDgramRec, b []byte) {
	if rec.Dir != vlpC2S {
		return
	}
	o.mu.Lock()
	defer o.mu.Unlock()
	a := o.addr(rec.From)
	types, tok := c27Walk(b)
	note := ""
	if o.junkSeq[rec.Seq] {
		note = "junk"
	}
	if !a.validated {
		a.recv += int64(len(b))
		a.nRecv++
		a.lastRecvAt = time.Now()
		if !a.instant.Equal(a.lastRecvAt) {
			a.instant, a.instantBytes = a.lastRecvAt, 0
		}
		a.instantBytes += int64(len(b))
		o.credited++
		// Conservative validation decision from unprotected header bits: stopping the
		// accounting early can only weaken the check.
		if !o.junkSeq[rec.Seq] {
			switch {
			case strings.Contains(types, "H") || o.origHS[rec.Seq]:
				a.validated, a.validatedBy = true, "handshake-packet-delivered"
			case a.retrySent && tok > 0:
				a.validated, a.validatedBy = true, "initial-with-token-after-retry"
			}
			if a.validated {
				note = "VALIDATES (" + a.validatedBy + ")"
			}
		}
	}
	o.logf(c27Log{T: o.ms(), Dir: "c2s", Addr: rec.From.String(), Size: len(b), Fate: "delivered/" + rec.Fate, Types: types, Note: note})
}

func (o *c27Oracle) logf(l c27Log) {
	if len(o.log) < 4000 {
		o.log = append(o.log, l)
	}
}

func (o *c27Oracle) history(max int) string {
	var sb strings.Builder
	sb.WriteString("datagram history (t virtual ms, direction, address, size, fate, packet types):\n")
	lg := o.log
	if len(lg) > max {
		fmt.Fprintf(&sb, "  … %d earlier datagrams omitted …\n", len(lg)-max)
		lg = lg[len(lg)-max:]
	}
	for _, l := range lg {
		fmt.Fprintf(&sb, "  t=%-7d %s %-15s %5d %-18s %-6s %s\n", l.T, l.Dir, l.Addr, l.Size, l.Fate, l.Types, l.Note)
	}
	return sb.String()
}

// ---- the reshaping man in the middle on the client's socket ----

type c27Mitm struct {
	inner *vlpPC // registered on the network at the client's address
	alt   *vlpPC // alternate (spoofed) source address
	o     *c27Oracle
	cfg   *c27Config

	emitMu    sync.Mutex // serialises tagged writes; never taken while a network or oracle lock is held
	mu        sync.Mutex
	k         int
	captured  [][]byte // the client's original datagrams
	coalesced int      // coalesced-initials datagrams built so far (packet numbers)
	stop      chan struct{}
	wg        verifrt.WG
	acts      map[string]int64
}

func (m *c27Mitm) Close() error              { return m.inner.Close() }
func (m *c27Mitm) LocalAddr() netip.AddrPort { return m.inner.LocalAddr() }
func (m *c27Mitm) Read(f func(*datagram))    { m.inner.Read(f) }

func c27HasShort(types string) bool { return strings.ContainsAny(types, "S?") }

// emit writes b to the network from the chosen source, tagging the send for the oracle.
func (m *c27Mitm) emit(b []byte, spoof, junk, origHS bool, delay time.Duration) {
	pc := m.inner
	if spoof {
		pc = m.alt
	}
	send := func() {
		select {
		case <-m.stop:
			return
		default:
		}
		// nextJunk/nextHS are consumed by onSend inside this Write; emitMu serialises writers.
		m.emitMu.Lock()
		m.o.mu.Lock()
		m.o.nextJunk, m.o.nextHS = junk, origHS
		m.o.mu.Unlock()
		pc.Write(datagram{b: b, peerAddr: vlpServerAddr})
		m.emitMu.Unlock()
	}
	if delay <= 0 {
		send()
		return
	}
	m.wg.Add(1)
	go func() {
		defer m.wg.Done()
		tm := time.NewTimer(delay)
		select {
		case <-tm.C:
			send()
		case <-m.stop:
			tm.Stop()
		}
	}()
}

func (m *c27Mitm) Write(d datagram) error {
	select {
	case <-m.stop:
		return nil
	default:
	}
	m.mu.Lock()
	k := m.k
	m.k++
	orig := append([]byte(nil), d.b...)
	if len(m.captured) < 64 {
		m.captured = append(m.captured, orig)
	}
	m.mu.Unlock()
	types, _ := c27Walk(orig)
	hs := strings.Contains(types, "H")
	count := func(s string) {
		m.mu.Lock()
		m.acts[s]++
		m.mu.Unlock()
	}
	if k >= len(m.cfg.Steps) {
		if m.cfg.Tail == "drop" {
			count("tail_dropped")
			return nil
		}
		b := orig
		if m.cfg.TailPad > 0 && !c27HasShort(types) && len(b) < 1472 {
			b = append(b, make([]byte, min(m.cfg.TailPad, 1472-len(b)))...)
			count("tail_padded")
		}
		count("tail_forwarded")
		m.emit(b, false, false, hs, 0)
		return nil
	}
	st := m.cfg.Steps[k]
	if st.Drop {
		count("step_dropped")
		return nil
	}
	b := orig
	if st.Trunc > 0 && st.Trunc < len(b) {
		b = b[:st.Trunc]
		count("step_truncated")
	}
	if st.Pad > 0 && !c27HasShort(types) && len(b) < 1472 {
		b = append(append([]byte(nil), b...), make([]byte, min(st.Pad, 1472-len(b)))...)
		count("step_padded")
	}
	if st.FlipBit > 0 {
		b = append([]byte(nil), b...)
		bit := (st.FlipBit - 1) % (len(b) * 8)
		b[bit/8] ^= 1 << (bit % 8)
		count("step_bitflipped")
	}
	if st.Spoof {
		count("step_spoofed_source")
	}
	copies := max(1, st.Copies)
	if copies > 1 {
		count("step_duplicated")
	}
	for i := 0; i < copies; i++ {
		m.emit(b, st.Spoof, false, hs, time.Duration(st.DelayMs+i*3)*time.Millisecond)
	}
	count("step_forwarded")
	return nil
}

// junk builds a harness-made datagram that can never validate an address.
func (m *c27Mitm) junk(rng *rand.Rand, j c27Junk) []byte {
	size := min(max(j.Size, 1), 1472)
	b := make([]byte, size)
	for i := range b {
		b[i] = byte(rng.Uint32())
	}
	m.mu.Lock()
	var first []byte
	if len(m.captured) > 0 {
		first = m.captured[0]
	}
	m.mu.Unlock()
	hdr := func(typeBits byte, version uint32, dcid, scid []byte, token []byte) []byte {
		h := []byte{0xc0 | typeBits<<4 | byte(rng.IntN(4))}
		h = binary.BigEndian.AppendUint32(h, version)
		h = append(h, byte(len(dcid)))
		h = append(h, dcid...)
		h = append(h, byte(len(scid)))
		h = append(h, scid...)
		if typeBits == 0 {
			h = append(h, byte(len(token))) // < 64: one-byte varint
			h = append(h, token...)
		}
		return h
	}
	rnd := func(n int) []byte {
		x := make([]byte, n)
		for i := range x {
			x[i] = byte(rng.Uint32())
		}
		return x
	}
	put := func(h []byte) []byte {
		// long header + 2-byte Length covering the rest of the datagram
		rest := size - len(h) - 2
		if rest < 1 {
			return b
		}
		h = append(h, 0x40|byte(rest>>8), byte(rest))
		copy(b, h)
		return b
	}
	switch j.Kind {
	case "vn": // unknown version -> Version Negotiation
		return put(hdr(byte(rng.IntN(4)), 0x1a2a3a4a+uint32(rng.IntN(1000))<<8, rnd(8), rnd(rng.IntN(9)), nil))
	case "short": // short-header noise for an unknown connection id -> stateless reset (if configured)
		b[0] = 0x40 | b[0]&0x3f
		return b
	case "badtoken": // Initial with a token nobody issued
		return put(hdr(0, 1, rnd(8+rng.IntN(8)), rnd(rng.IntN(9)), rnd(1+rng.IntN(60))))
	case "tinyinitial": // token-less Initial in a datagram far below 1200 bytes (must be discarded: RFC 9000 14.1)
		return put(hdr(0, 1, rnd(8), nil, nil))
	case "newinitial": // Initial with a fresh DCID and undecryptable payload
		return put(hdr(0, 1, rnd(8+rng.IntN(8)), rnd(rng.IntN(9)), nil))
	case "hsjunk": // Handshake-type packet for the client's connection, undecryptable
		if len(first) > 6+int(first[5]) {
			dcid := first[6 : 6+int(first[5])]
			return put(hdr(2, 1, dcid, rnd(8), nil))
		}
		return put(hdr(2, 1, rnd(8), rnd(8), nil))
	case "zeros":
		clear(b)
		return b
	case "coalesced-initials":
		// One datagram with several genuine, ack-eliciting Initial packets (a PING each, packet
		// numbers of their own) for the client's connection: Initial keys follow from the
		// connection id the client chose, so anybody on the path can write them. The datagram
		// earns three times its size once, however many packets it carries.
		if len(first) > 7+int(first[5]) {
			dcid := first[6 : 6+int(first[5])]
			q := 6 + int(first[5])
			if q+1+int(first[q]) > len(first) {
				return b
			}
			scid := first[q+1 : q+1+int(first[q])]
			keys := initialKeys(dcid, clientSide)
			var w packetWriter
			w.reset(max(size, 1200))
			m.mu.Lock()
			base := packetNumber(500 + 10*m.coalesced)
			m.coalesced++
			m.mu.Unlock()
			for i, k := 0, 2+rng.IntN(4); i < k; i++ {
				lp := longPacket{ptype: packetTypeInitial, version: quicVersion1, num: base + packetNumber(i), dstConnID: dcid, srcConnID: scid}
				w.startProtectedLongHeaderPacket(-1, lp)
				w.appendPingFrame()
				w.finishProtectedLongHeaderPacket(-1, keys.w, lp)
			}
			d := append([]byte(nil), w.datagram()...)
			for len(d) < max(size, 1200) {
				d = append(d, 0)
			}
			return d
		}
		return b
	}
	return b
}

// replay returns a copy of one of the client's genuine datagrams (first or latest), padded.
func (m *c27Mitm) replay(j c27Junk) []byte {
	m.mu.Lock()
	defer m.mu.Unlock()
	if len(m.captured) == 0 {
		return nil
	}
	b := m.captured[0]
	if j.Kind == "replay-last" {
		b = m.captured[len(m.captured)-1]
	}
	b = append([]byte(nil), b...)
	if types, _ := c27Walk(b); !c27HasShort(types) && j.Size > len(b) {
		b = append(b, make([]byte, min(j.Size, 1472)-len(b))...)
	}
	return b
}

// ---- one run ----

type c27Result struct {
	o          *c27Oracle
	net        *vlpNet
	acts       map[string]int64
	dialErr    error
	dialed     bool
	accepted   bool
	wbBlocked  int // white-box samples: server conns with antiAmplificationLimit < minPacketSize
	wbPartial  int
	wbUnlim    int
	wbConns    int
	clientDgr  int
	chainBytes int
	err        error
}

func c27Run(cfg *c27Config, viol func(key, detail string)) *c27Result {
	res := &c27Result{}
	rng := rand.New(rand.NewPCG(cfg.NetSeed, 27))
	net := vlpNewNet(cfg.NetSeed, cfg.Faults)
	res.net = net
	o := c27NewOracle(viol)
	res.o = o
	net.OnSend = o.onSend
	net.OnDeliverRec = o.onDeliver
	dropS2C := cfg.S2C == "drop"
	// the PRNG fault injector works on both directions until FaultPhaseMs
	net.clean.Store(cfg.Faults.Loss == 0 && cfg.Faults.Dup == 0 && cfg.Faults.Reorder == 0)
	net.Filter = func(dir int, seq uint64, b []byte) bool { return !(dir == vlpS2C && dropS2C) }

	// configs
	srvTLS := newTestTLSConfig(serverSide)
	if !cfg.DefaultCert {
		cert, total, err := c27Cert(cfg.CertSeed, cfg.LeafPad, cfg.ChainExtra, cfg.ChainExtraPad)
		if err != nil {
			res.err = err
			return res
		}
		srvTLS.Certificates = []tls.Certificate{cert}
		res.chainBytes = total
		cfg.ChainBytes = total
	}
	cliTLS := newTestTLSConfig(clientSide)
	if cfg.BigClientHello {
		cliTLS.CurvePreferences = nil
		srvTLS.CurvePreferences = nil
	}
	alpn := []string{"c27"}
	for n := cfg.ALPNBytes; n > 0; n -= 40 {
		alpn = append(alpn, strings.Repeat("p", min(n, 40))+fmt.Sprint(n))
	}
	cliTLS.NextProtos = alpn
	srvTLS.NextProtos = []string{"c27"}
	srvConf := &Config{TLSConfig: srvTLS, RequireAddressValidation: cfg.Retry, MaxIdleTimeout: -1,
		HandshakeTimeout: time.Duration(cfg.SrvHandshakeS) * time.Second}
	if cfg.ResetKey {
		for i := range srvConf.StatelessResetKey {
			srvConf.StatelessResetKey[i] = byte(i*7 + 1)
		}
	}
	cliConf := &Config{TLSConfig: cliTLS, MaxIdleTimeout: -1, HandshakeTimeout: 900 * time.Second}

	altAddr := netip.MustParseAddrPort("10.0.0.66:6666")
	srvPC := net.newPC(vlpServerAddr, vlpS2C)
	cliPC := net.newPC(vlpClientAddr, vlpC2S)
	altPC := &vlpPC{n: net, addr: altAddr, dir: vlpC2S, in: make(chan vlpItem, 4096), done: make(chan struct{})}
	if cfg.AltRouted {
		altPC = net.newPC(altAddr, vlpC2S)
	}
	mitm := &c27Mitm{inner: cliPC, alt: altPC, o: o, cfg: cfg, stop: make(chan struct{}), acts: map[string]int64{}}
	// whoever owns the alternate address ignores what it gets
	sink := make(chan struct{})
	go func() {
		for {
			select {
			case <-altPC.in:
			case <-sink:
				return
			}
		}
	}()

	srvEP, err := newEndpoint(srvPC, srvConf, nil)
	if err != nil {
		res.err = err
		close(sink)
		return res
	}
	cliEP, err := newEndpoint(mitm, cliConf, nil)
	if err != nil {
		res.err = err
		srvEP.Close(vlpCanceled())
		close(sink)
		return res
	}

	if os.Getenv("VERIF_DEBUG") != "" {
		o.dbgLimits = func(to netip.AddrPort) string {
			var out []string
			srvEP.connsMu.Lock()
			for c := range srvEP.conns {
				if c.peerAddr == to {
					out = append(out, fmt.Sprint(c.loss.antiAmplificationLimit)) // racy read: debugging aid only
				}
			}
			srvEP.connsMu.Unlock()
			return strings.Join(out, ",")
		}
	}
	ctx, cancel := context.WithCancel(context.Background())
	var mu sync.Mutex
	var cli, srv *Conn
	var bg verifrt.WG
	bg.Add(2)
	go func() {
		defer bg.Done()
		c, err := srvEP.Accept(ctx)
		mu.Lock()
		if err == nil {
			srv, res.accepted = c, true
		}
		mu.Unlock()
	}()
	go func() {
		defer bg.Done()
		c, err := cliEP.Dial(ctx, "udp", vlpServerAddr.String(), cliConf)
		mu.Lock()
		if err == nil {
			cli, res.dialed = c, true
		} else {
			res.dialErr = err
		}
		mu.Unlock()
	}()

	// timeline: junk injections, the end of the fault phase, white-box samples
	sample := func() {
		var conns []*Conn
		srvEP.connsMu.Lock()
		for c := range srvEP.conns {
			conns = append(conns, c)
		}
		srvEP.connsMu.Unlock()
		for _, c := range conns {
			lim := -1
			if c.runOnLoop(ctx, func(now time.Time, c *Conn) { lim = c.loss.antiAmplificationLimit }) != nil {
				continue
			}
			res.wbConns++
			switch {
			case lim == antiAmplificationUnlimited:
				res.wbUnlim++
			case lim < minPacketSize:
				res.wbBlocked++
			case lim < paddedInitialDatagramSize:
				res.wbPartial++
			}
		}
	}
	type ev struct {
		at   int
		junk *c27Junk
		what string
	}
	var evs []ev
	for i := range cfg.Junk {
		evs = append(evs, ev{at: cfg.Junk[i].AtMs, junk: &cfg.Junk[i]})
	}
	if cfg.FaultPhaseMs > 0 {
		evs = append(evs, ev{at: cfg.FaultPhaseMs, what: "clean"})
	}
	for _, at := range []int{700, 3500, cfg.RunS*1000 - 1} {
		if at > 0 && at < cfg.RunS*1000 {
			evs = append(evs, ev{at: at, what: "sample"})
		}
	}
	sort.SliceStable(evs, func(i, j int) bool { return evs[i].at < evs[j].at })
	start := time.Now()
	for _, e := range evs {
		if e.at > cfg.RunS*1000 {
			break
		}
		if d := time.Duration(e.at)*time.Millisecond - time.Since(start); d > 0 {
			time.Sleep(d)
		}
		synctest.Wait()
		switch {
		case e.junk != nil && strings.HasPrefix(e.junk.Kind, "replay"):
			if b := mitm.replay(*e.junk); b != nil {
				types, _ := c27Walk(b)
				mitm.emit(b, e.junk.Spoof, false, strings.Contains(types, "H"), 0)
				mitm.mu.Lock()
				mitm.acts["junk_"+e.junk.Kind]++
				mitm.mu.Unlock()
			}
		case e.junk != nil:
			mitm.emit(mitm.junk(rng, *e.junk), e.junk.Spoof, true, false, 0)
			mitm.mu.Lock()
			mitm.acts["junk_"+e.junk.Kind]++
			mitm.mu.Unlock()
		case e.what == "clean":
			net.clean.Store(true)
		case e.what == "sample":
			sample()
		}
	}
	if d := time.Duration(cfg.RunS)*time.Second - time.Since(start); d > 0 {
		time.Sleep(d)
	}
	synctest.Wait()

	// teardown
	close(mitm.stop)
	mitm.wg.Wait()
	cancel()
	bg.Wait()
	mu.Lock()
	if cli != nil {
		cli.Abort(nil)
	}
	if srv != nil {
		srv.Abort(nil)
	}
	mu.Unlock()
	cliEP.Close(vlpCanceled())
	srvEP.Close(vlpCanceled())
	// let every connection loop finish (their last writes add delivery goroutines) before
	// waiting for the delivery goroutines
	synctest.Wait()
	net.vlpStop()
	close(sink)
	altPC.Close()
	synctest.Wait()
	mitm.mu.Lock()
	res.acts = mitm.acts
	res.clientDgr = mitm.k
	mitm.mu.Unlock()
	return res
}

// ---- case generator ----

func c27Gen(rng *rand.Rand, thorough bool) *c27Config {
	cfg := &c27Config{NetSeed: rng.Uint64(), CertSeed: uint64(rng.IntN(4)), S2C: "deliver", Tail: "drop", AltRouted: rng.IntN(2) == 0}
	// server flight size: certificate chains from a few hundred bytes to several datagrams
	switch rng.IntN(8) {
	case 0:
		cfg.DefaultCert = true
	case 1, 2:
		cfg.LeafPad = rng.IntN(900)
	case 3, 4:
		cfg.LeafPad = rng.IntN(2600)
	case 5:
		cfg.LeafPad = rng.IntN(600)
		cfg.ChainExtra = 1 + rng.IntN(3)
		cfg.ChainExtraPad = rng.IntN(1200)
	default:
		cfg.LeafPad = rng.IntN(6000)
		cfg.ChainExtra = rng.IntN(3)
		cfg.ChainExtraPad = rng.IntN(2500)
	}
	cfg.BigClientHello = rng.IntN(5) == 0
	if rng.IntN(4) == 0 {
		cfg.ALPNBytes = rng.IntN(600)
	}
	cfg.Retry = rng.IntN(6) == 0
	cfg.ResetKey = rng.IntN(3) == 0
	cfg.SrvHandshakeS = []int{0, 0, 30, 120, 600}[rng.IntN(5)]
	pad := func() int {
		switch rng.IntN(6) {
		case 0:
			return 0
		case 1:
			return []int{1, 32, 50, 52, 80, 150, 157, 200, 250, 272}[rng.IntN(10)]
		default:
			return rng.IntN(273)
		}
	}
	kind := rng.IntN(10)
	switch {
	case kind < 4:
		// a client that sends 1..k datagrams (possibly padded beyond 1200, duplicated,
		// truncated, from a spoofed source) and then goes silent
		cfg.Kind = "silent-after-k"
		k := 1 + rng.IntN(4)
		untampered := rng.IntN(3) == 0 // nothing but loss and delay happens to the real client's datagrams
		for i := 0; i < k; i++ {
			st := c27Step{Pad: pad()}
			if untampered {
				st = c27Step{Drop: i > 0 && rng.IntN(4) == 0}
				if rng.IntN(5) == 0 {
					st.DelayMs = rng.IntN(3000)
				}
				cfg.Steps = append(cfg.Steps, st)
				continue
			}
			switch rng.IntN(12) {
			case 0:
				st.Drop = true
			case 1:
				st.Trunc = 100 + rng.IntN(1300)
			case 2:
				st.Copies = 2 + rng.IntN(3)
			case 3:
				st.FlipBit = 1 + rng.IntN(1200*8)
			case 4:
				st.DelayMs = rng.IntN(3000)
			}
			if rng.IntN(8) == 0 {
				st.Spoof = true
			}
			cfg.Steps = append(cfg.Steps, st)
		}
		cfg.S2C = []string{"deliver", "drop", "deliver"}[rng.IntN(3)]
		cfg.Faults = vlpFaults{BaseDelayMs: rng.IntN(50)}
		cfg.RunS = []int{12, 40, 130, 300}[rng.IntN(4)]
	case kind < 6:
		// the whole client is an off-path attacker's puppet: every datagram is re-sourced
		cfg.Kind = "one-shot-spoofed"
		cfg.Steps = []c27Step{{Pad: pad(), Spoof: true, Copies: 1 + rng.IntN(2)}}
		if rng.IntN(3) == 0 {
			cfg.Steps = append(cfg.Steps, c27Step{Pad: pad(), Spoof: true})
		}
		cfg.Faults = vlpFaults{BaseDelayMs: rng.IntN(50)}
		cfg.RunS = []int{12, 40, 130, 300}[rng.IntN(4)]
	case kind < 8:
		// honest client over a lossy network, optionally with a consistent datagram size > 1200
		cfg.Kind = "honest-lossy"
		cfg.Tail = "deliver"
		cfg.TailPad = pad()
		cfg.Faults = vlpFaults{BaseDelayMs: 1 + rng.IntN(60), JitterMs: rng.IntN(40), MaxConsec: 2 + rng.IntN(4),
			Loss: rng.Float64() * 0.5, Dup: rng.Float64() * 0.25, Reorder: rng.Float64() * 0.3, ReorderMaxMs: 1 + rng.IntN(400)}
		cfg.FaultPhaseMs = []int{500, 3000, 9000, 30000}[rng.IntN(4)]
		cfg.RunS = cfg.FaultPhaseMs/1000 + 40
		if cfg.SrvHandshakeS == 0 {
			cfg.SrvHandshakeS = 120
		}
	default:
		// partially delivered flights followed by honest delivery: the handshake limps on
		cfg.Kind = "partial-then-honest"
		cfg.Tail = "deliver"
		cfg.TailPad = pad()
		k := 1 + rng.IntN(6)
		for i := 0; i < k; i++ {
			st := c27Step{Pad: pad()}
			switch rng.IntN(6) {
			case 0, 1:
				st.Drop = true
			case 2:
				st.Trunc = 100 + rng.IntN(1300)
			case 3:
				st.Copies = 2 + rng.IntN(3)
			case 4:
				st.DelayMs = rng.IntN(5000)
			}
			cfg.Steps = append(cfg.Steps, st)
		}
		cfg.Faults = vlpFaults{BaseDelayMs: 1 + rng.IntN(60), MaxConsec: 2, Loss: rng.Float64() * 0.3, Dup: rng.Float64() * 0.2}
		cfg.FaultPhaseMs = []int{3000, 20000, 60000}[rng.IntN(3)]
		cfg.RunS = cfg.FaultPhaseMs/1000 + 60
		if cfg.SrvHandshakeS == 0 {
			cfg.SrvHandshakeS = 600
		}
	}
	if cfg.BigClientHello && cfg.Kind != "honest-lossy" && len(cfg.Steps) > 0 && rng.IntN(2) == 0 {
		// a two-datagram ClientHello of which only one half arrives
		cfg.Steps[rng.IntN(min(2, len(cfg.Steps)))].Drop = true
	}
	// junk on the timeline
	nj := 0
	if rng.IntN(5) < 2 {
		nj = 1 + rng.IntN(6)
	}
	for i := 0; i < nj; i++ {
		j := c27Junk{AtMs: rng.IntN(cfg.RunS * 1000), Spoof: rng.IntN(3) == 0,
			Kind: []string{"vn", "short", "badtoken", "newinitial", "hsjunk", "zeros", "replay-first", "replay-first", "replay-last", "tinyinitial", "coalesced-initials", "coalesced-initials"}[rng.IntN(12)]}
		if cfg.Retry && rng.IntN(3) == 0 {
			j.Kind = "tinyinitial"
		}
		switch rng.IntN(4) {
		case 0:
			j.Size = 22 + rng.IntN(1178)
		case 1:
			j.Size = 1200
		default:
			j.Size = 1200 + rng.IntN(273)
		}
		if j.Kind == "tinyinitial" {
			j.Size = 21 + rng.IntN(30)
		}
		cfg.Junk = append(cfg.Junk, j)
	}
	sort.Slice(cfg.Junk, func(a, b int) bool { return cfg.Junk[a].AtMs < cfg.Junk[b].AtMs })
	return cfg
}

func TestVerif_C27(t *testing.T) {
	r := verifrt.Start(t, "C27")
	defer r.Finish()
	r.ExitIfAbnormal()
	r.SetRule("case = PRNG (server certificate chain size -> size of the server's first flight; client datagram sizes 1200..1472 via datagram padding; ClientHello in 1 or 2 datagrams; Retry on/off; stateless-reset key on/off; server handshake timeout 10-600 s) x client behaviour {silent after k scripted datagrams (dropped / truncated / padded / duplicated / bit-flipped / delayed / spoofed-source), one-shot spoofed, honest over a lossy network, partially delivered flights then honest} x junk datagrams on a timeline (unknown version, short-header noise, bogus token, fresh undecryptable Initial, undecryptable Handshake, zeros), run between two real Endpoints in a synctest bubble for 12-300 virtual seconds (PTO back-offs). Oracle after EVERY server datagram: bytes sent to an address <= 3 x bytes delivered from it, until a datagram with a Handshake packet (or, after a Retry to that address, an Initial with a token) from that address has been delivered. non-trivial = the allowance of some unvalidated address dropped below 128 bytes (server blocked by the limit) at least once; distinct by (kind, chain bytes, per-address totals)")
	r.Assume("datagram sizes and fates are taken from the fake network only; a datagram is credited when it is handed to the server endpoint's receive queue, debited when the server endpoint writes it")
	r.Assume("validation is decided conservatively from unprotected header bits (first delivered Handshake-type packet, or Initial with a token after a Retry); harness-made junk with random payload is assumed not to pass AEAD")
	n := r.N(400, 6000)
	var mu sync.Mutex
	r.CasesParallel("amplification", n, 8, func(c *verifrt.Case) {
		cfg := c27Gen(c.Rng, r.Thorough())
		c.Describe(cfg)
		var res *c27Result
		synctest.Test(t, func(t *testing.T) {
			res = c27Run(cfg, func(key, detail string) { c.Violation(key, "%s", detail) })
		})
		if res.err != nil {
			r.Event("setup_failed", 1)
			r.Note("case %d: setup failed: %v", c.Index, res.err)
			return
		}
		o := res.o
		mu.Lock()
		defer mu.Unlock()
		var blocked, partial, validated bool
		var sig []any
		var probes int64
		addrs := make([]netip.AddrPort, 0, len(o.addrs))
		for a := range o.addrs {
			addrs = append(addrs, a)
		}
		sort.Slice(addrs, func(i, j int) bool { return addrs[i].Compare(addrs[j]) < 0 })
		for _, ap := range addrs {
			a := o.addrs[ap]
			blocked = blocked || a.blocked
			partial = partial || a.partial
			validated = validated || a.validated
			probes += a.probes
			sig = append(sig, ap, a.sent, a.recv, a.validated)
			if a.peakDen > 0 && a.peakNum == 3*a.peakDen {
				r.Event("addresses_peaking_at_exactly_3x", 1)
			}
			if a.validatedBy != "" {
				r.Event("validated_by_"+a.validatedBy, 1)
			}
		}
		r.Eval(blocked, append([]any{cfg.Kind, res.chainBytes}, sig...)...)
		r.Event("runs", 1)
		r.Event("runs_"+cfg.Kind, 1)
		r.Event("server_datagrams_checked", o.checked)
		r.Event("client_datagrams_credited", o.credited)
		r.Event("client_datagrams_written", int64(res.clientDgr))
		r.Event("server_datagrams_after_900ms_silence_(pto_probes)", probes)
		r.Event("retry_datagrams", o.retries)
		r.Event("version_negotiation_datagrams", o.vns)
		r.Event("short_datagrams_to_unvalidated_(stateless_reset)", o.resets)
		r.Event("server_datagrams_to_unrouted_address", o.noroute)
		r.Event("padded_initial_probes_racing_a_queued_client_datagram", o.masked)
		r.Event("datagrams_dropped_by_fault_injector", res.net.Dropped[0]+res.net.Dropped[1])
		r.Event("datagrams_duplicated_by_fault_injector", res.net.Duped[0]+res.net.Duped[1])
		r.Event("datagrams_reordered_by_fault_injector", res.net.Reordered[0]+res.net.Reordered[1])
		for k, v := range res.acts {
			r.Event("mitm_"+k, v)
		}
		if blocked {
			r.Event("runs_server_blocked_by_limit", 1)
		}
		if partial {
			r.Event("runs_with_partial_allowance_128_to_1199", 1)
		}
		if validated {
			r.Event("runs_address_validated", 1)
		}
		if res.dialed {
			r.Event("handshakes_completed", 1)
		} else if cfg.Tail == "deliver" {
			r.Event("honest_handshakes_not_completed", 1)
			r.Event("honest_handshakes_not_completed_"+cfg.Kind, 1)
			if cfg.Kind == "honest-lossy" {
				r.Note("case %d (%s): handshake not completed in %d virtual s: dial error %v; retry=%v big_ch=%v faults=%+v", c.Index, cfg.Kind, cfg.RunS, res.dialErr, cfg.Retry, cfg.BigClientHello, cfg.Faults)
			}
		}
		r.Event("whitebox_conn_samples", int64(res.wbConns))
		r.Event("whitebox_samples_blocked_(limit<128)", int64(res.wbBlocked))
		r.Event("whitebox_samples_partial_(128<=limit<1200)", int64(res.wbPartial))
		r.Event("whitebox_samples_unlimited", int64(res.wbUnlim))
		if o.nviol > 0 {
			r.Event("runs_with_overshoot", 1)
			only1200, untampered := true, len(cfg.Junk) == 0 && cfg.TailPad == 0
			for _, l := range o.log {
				if l.Dir == "c2s" && strings.HasPrefix(l.Fate, "delivered") && l.Size != 1200 {
					only1200 = false
				}
			}
			for _, st := range cfg.Steps {
				if st.Trunc > 0 || st.Pad > 0 || st.FlipBit > 0 || st.Spoof || st.Copies > 1 {
					untampered = false
				}
			}
			if only1200 {
				r.Event("runs_with_overshoot_all_client_datagrams_exactly_1200", 1)
				r.Note("case %d (%s, chain %d B, retry=%v): overshoot although every delivered client datagram was exactly 1200 bytes: %s\n%s", c.Index, cfg.Kind, res.chainBytes, cfg.Retry, strings.Join(o.violText, " | "), o.history(30))
			}
			if untampered {
				// only drops/delays of a real client's datagrams: nothing but loss is needed
				r.Event("runs_with_overshoot_client_datagrams_untampered", 1)
				r.Note("case %d (%s, chain %d B, retry=%v): overshoot with an untampered real client (only loss/delay): %s", c.Index, cfg.Kind, res.chainBytes, cfg.Retry, strings.Join(o.violText, " | "))
			}
		}
		if c.Index < 3 || (blocked && c.Index%37 == 0) {
			tot := map[string]string{}
			for _, ap := range addrs {
				a := o.addrs[ap]
				tot[ap.String()] = fmt.Sprintf("sent=%d recv=%d validated=%v(%s) blocked=%v partial=%v probes=%d", a.sent, a.recv, a.validated, a.validatedBy, a.blocked, a.partial, a.probes)
			}
			lg := o.log
			if len(lg) > 14 {
				lg = lg[:14]
			}
			r.Sample(map[string]any{"kind": cfg.Kind, "chain_bytes": res.chainBytes, "steps": cfg.Steps, "tail": cfg.Tail, "retry": cfg.Retry, "totals": tot, "first_datagrams": lg})
		}
	})
	r.Require("runs", int64(n*9/10))
	r.Require("server_datagrams_checked", 600)
	r.Require("client_datagrams_credited", 500)
	r.Require("runs_server_blocked_by_limit", 30)
	r.Require("runs_with_partial_allowance_128_to_1199", 10)
	r.Require("server_datagrams_after_900ms_silence_(pto_probes)", 50)
	r.Require("runs_address_validated", 20)
	r.Require("retry_datagrams", 5)
	r.Require("version_negotiation_datagrams", 5)
}
