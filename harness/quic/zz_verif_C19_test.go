//go:build verif

package quic

import (
	"fmt"
	"sync"
	"testing"
	"testing/synctest"

	"golang.org/x/net/internal/verifrt"
)

func TestVerif_C19(t *testing.T) {
	r := verifrt.Start(t, "C19")
	defer r.Finish()
	r.ExitIfAbnormal()
	r.SetRule("case = PRNG (fault profile: loss<=35%, dup<=15%, reorder<=30%, delay/jitter, consecutive-drop cap 2-4; buffer-size configs per side; 1-N streams of all four kinds with PRNG sizes, write chunking, Flush pattern and read sizes) run between two real Endpoints in a synctest bubble; non-trivial = run in which the sender retransmitted at least one STREAM range AND the receiver saw at least one out-of-order STREAM arrival; distinct by (streams, bytes, retransmits, out-of-order count, virtual duration)")
	r.Assume("the qlog tap (Config.QLogLogger) reports every packet the connection processes; cross-checked against the number of QUIC packets parsed from the datagrams on the simulated wire")
	r.Assume("fault decisions are a function of (seed, direction, datagram sequence number); goroutine scheduling inside the bubble is not replayed bit-exactly")
	n := r.N(240, 3000)
	maxStreams, maxTotal := 8, int64(600<<10)
	if r.Thorough() {
		maxStreams, maxTotal = 24, 2<<20
	}
	var mu sync.Mutex
	r.CasesParallel("transfer", n, 8, func(c *verifrt.Case) {
		cb, sb := vlpGenBuf(c.Rng), vlpGenBuf(c.Rng)
		rc := &vlpRunConfig{
			Faults:      vlpGenFaults(c.Rng),
			CliBuf:      cb,
			SrvBuf:      sb,
			Streams:     vlpGenStreams(c.Rng, maxStreams, vlpBudget(maxTotal, cb, sb)),
			FaultPhase:  []int{200, 2000, 20000, 120000}[c.Rng.IntN(4)],
			Retry:       c.Rng.IntN(5) == 0,
			CleanBoundS: 300,
		}
		c.Describe(rc)
		var res *vlpRunResult
		wire := [2]int64{}
		synctest.Test(t, func(t *testing.T) {
			res = vlpRunTransfer(c.Rng.Uint64(), rc, func(p *vlpPair) {
				p.Net.OnSend = func(rec vlpDgramRec, b []byte) {
					_, types := vlpCountPackets(b)
					for _, ty := range types {
						if ty != 0xb && ty != 0xff { // Retry / Version Negotiation come from the endpoint, not a connection
							wire[rec.Dir]++
						}
					}
				}
			}, c.Violation)
		})
		if res.HandshakeErr != nil {
			r.Event("handshake_failed", 1)
			r.Note("handshake failed: %v (faults %+v)", res.HandshakeErr, rc.Faults)
			return
		}
		// tap honesty: every packet on the wire was logged as sent by its connection
		tp := res.Pair.Tap
		if tp.Packets[0][1] != wire[vlpC2S] || tp.Packets[1][1] != wire[vlpS2C] {
			c.Violation("tap-misses-packets", "packets on the wire c2s=%d s2c=%d, packet_sent events client=%d server=%d", wire[vlpC2S], wire[vlpS2C], tp.Packets[0][1], tp.Packets[1][1])
		}
		var bytes int64
		for _, ln := range res.Lanes {
			bytes += ln.Read.Load()
		}
		nt := res.Retransmits > 0 && res.OutOfOrder > 0
		r.Eval(nt, len(rc.Streams), bytes, res.Retransmits, res.OutOfOrder, res.VirtualMs)
		nn := res.Pair.Net
		mu.Lock()
		defer mu.Unlock()
		r.Event("runs_completed", 1)
		r.Event("streams", int64(len(rc.Streams)))
		for _, sp := range rc.Streams {
			if sp.PauseMs > 0 {
				r.Event("fin_in_own_frame_after_pause", 1)
			}
		}
		r.Event("lanes", int64(len(res.Lanes)))
		r.Event("bytes_delivered_and_verified", bytes)
		r.Event("close_returned_nil_checked", res.CloseNil)
		r.Event("stream_retransmissions", res.Retransmits)
		r.Event("out_of_order_arrivals", res.OutOfOrder)
		r.Event("datagrams", nn.Sent[0]+nn.Sent[1])
		r.Event("datagrams_dropped", nn.Dropped[0]+nn.Dropped[1])
		r.Event("datagrams_duplicated", nn.Duped[0]+nn.Duped[1])
		r.Event("datagrams_held_back", nn.Reordered[0]+nn.Reordered[1])
		r.Event("packets_logged", tp.Packets[0][0]+tp.Packets[0][1]+tp.Packets[1][0]+tp.Packets[1][1])
		if res.Stuck {
			r.Event("stuck", 1)
		}
		r.Sample(map[string]any{"faults": rc.Faults, "streams": len(rc.Streams), "bytes": bytes, "retransmits": res.Retransmits,
			"out_of_order": res.OutOfOrder, "virtual_ms": res.VirtualMs, "dropped": nn.Dropped, "dup": nn.Duped,
			"first_stream": fmt.Sprintf("%+v", rc.Streams[0])})
	})
	r.Require("runs_completed", int64(n*8/10))
	r.Require("stream_retransmissions", 10)
	r.Require("out_of_order_arrivals", 10)
	r.Require("close_returned_nil_checked", 10)
	r.Require("fin_in_own_frame_after_pause", 20)
}
