//go:build verif

package quic

import (
	"context"
	"fmt"
	"sync"
	"testing"
	"testing/synctest"
	"time"

	"golang.org/x/net/internal/verifrt"
)

func TestVerif_C19(t *testing.T) {
	r := verifrt.Start(t, "C19")
	defer r.Finish()
	r.ExitIfAbnormal()
	r.SetRule("case = PRNG (fault profile: loss<=35%, dup<=15%, reorder<=30%, delay/jitter, consecutive-drop cap 2-4; buffer-size configs per side; 1-N streams of all four kinds with PRNG sizes, write chunking, Flush pattern and read sizes) run between two real Endpoints in a synctest bubble; non-trivial = run in which the sender retransmitted at least one STREAM range AND the receiver saw at least one out-of-order STREAM arrival; distinct by (streams, bytes, retransmits, out-of-order count, virtual duration)")
	r.Assume("the qlog tap (Config.QLogLogger) reports every packet the connection processes; cross-checked against the number of QUIC packets parsed from the datagrams on the simulated wire")
	r.Assume("fault decisions are a function of (seed, direction, datagram sequence number); goroutine scheduling inside the bubble is not replayed bit-exactly")
	n := r.N(240, 1500)
	maxStreams, maxTotal := 8, int64(600<<10)
	if r.Thorough() {
		maxStreams, maxTotal = 24, 2<<20
	}
	var mu sync.Mutex
	r.CasesParallel("transfer", n, 8, func(c *verifrt.Case) {
		cb, sb := vlpGenBuf(c.Rng), vlpGenBuf(c.Rng)
		rc := &vlpRunConfig{
			Faults:      vlpGenFaults(c.Rng),
			CliBuf:      cb,
			SrvBuf:      sb,
			Streams:     vlpGenStreams(c.Rng, maxStreams, vlpBudget(maxTotal, cb, sb)),
			FaultPhase:  []int{200, 2000, 20000, 120000}[c.Rng.IntN(4)],
			Retry:       c.Rng.IntN(5) == 0,
			CleanBoundS: 300,
		}
		c.Describe(rc)
		var res *vlpRunResult
		wire := [2]int64{}
		synctest.Test(t, func(t *testing.T) {
			res = vlpRunTransfer(c.Rng.Uint64(), rc, func(p *vlpPair) {
				p.Net.OnSend = func(rec vlpDgramRec, b []byte) {
					_, types := vlpCountPackets(b)
					for _, ty := range types {
						if ty != 0xb && ty != 0xff { // Retry / Version Negotiation come from the endpoint, not a connection
							wire[rec.Dir]++
						}
					}
				}
			}, c.Violation)
		})
		if res.HandshakeErr != nil {
			r.Event("handshake_failed", 1)
			r.Note("handshake failed: %v (faults %+v)", res.HandshakeErr, rc.Faults)
			return
		}
		// tap honesty: every packet on the wire was logged as sent by its connection
		tp := res.Pair.Tap
		if tp.Packets[0][1] != wire[vlpC2S] || tp.Packets[1][1] != wire[vlpS2C] {
			c.Violation("tap-misses-packets", "packets on the wire c2s=%d s2c=%d, packet_sent events client=%d server=%d", wire[vlpC2S], wire[vlpS2C], tp.Packets[0][1], tp.Packets[1][1])
		}
		var bytes int64
		for _, ln := range res.Lanes {
			bytes += ln.Read.Load()
		}
		nt := res.Retransmits > 0 && res.OutOfOrder > 0
		r.Eval(nt, len(rc.Streams), bytes, res.Retransmits, res.OutOfOrder, res.VirtualMs)
		nn := res.Pair.Net
		mu.Lock()
		defer mu.Unlock()
		r.Event("runs_completed", 1)
		r.Event("streams", int64(len(rc.Streams)))
		for _, sp := range rc.Streams {
			if sp.PauseMs > 0 {
				r.Event("fin_in_own_frame_after_pause", 1)
			}
		}
		r.Event("lanes", int64(len(res.Lanes)))
		r.Event("bytes_delivered_and_verified", bytes)
		r.Event("close_returned_nil_checked", res.CloseNil)
		r.Event("stream_retransmissions", res.Retransmits)
		r.Event("out_of_order_arrivals", res.OutOfOrder)
		r.Event("datagrams", nn.Sent[0]+nn.Sent[1])
		r.Event("datagrams_dropped", nn.Dropped[0]+nn.Dropped[1])
		r.Event("datagrams_duplicated", nn.Duped[0]+nn.Duped[1])
		r.Event("datagrams_held_back", nn.Reordered[0]+nn.Reordered[1])
		r.Event("packets_logged", tp.Packets[0][0]+tp.Packets[0][1]+tp.Packets[1][0]+tp.Packets[1][1])
		if res.Stuck {
			r.Event("stuck", 1)
		}
		r.Sample(map[string]any{"faults": rc.Faults, "streams": len(rc.Streams), "bytes": bytes, "retransmits": res.Retransmits,
			"out_of_order": res.OutOfOrder, "virtual_ms": res.VirtualMs, "dropped": nn.Dropped, "dup": nn.Duped,
			"first_stream": fmt.Sprintf("%+v", rc.Streams[0])})
	})
	// (b) one sending stream against a scripted receiver (the repository's testConn, which
	// owns the peer's keys): the script writes, flushes and closes at PRNG points, drops a
	// PRNG subset of the packets the connection sends, acknowledges exactly the packets it
	// kept (after PRNG delays), and lets virtual time pass up to the loss timer. Then the
	// network turns perfect: within a bounded number of timer rounds the receiver must hold
	// every byte and the FIN. Deterministic (no goroutine races), so a case replays exactly;
	// it reaches the sender-side corners the random network rarely hits (a FIN in a packet of
	// its own, probes that truncate a frame, partial acknowledgements).
	ns := r.N(1500, 24000)
	r.CasesParallel("scripted-receiver", ns, 0, func(c *verifrt.Case) {
		rng := c.Rng
		side := []connSide{clientSide, serverSide}[rng.IntN(2)]
		styp := []streamType{bidiStream, uniStream}[rng.IntN(2)]
		total := []int{0, 1, 100, 1100, 1174, 1175, 1300, 2400, 3000, 5000, 12000}[rng.IntN(11)]
		if rng.IntN(3) == 0 {
			total = rng.IntN(20000)
		}
		dropPct := []int{0, 20, 40, 60}[rng.IntN(4)]
		c.Describe(map[string]any{"side": fmt.Sprint(side), "type": fmt.Sprint(styp), "total": total, "drop_pct": dropPct})
		var log []string
		note := func(f string, a ...any) {
			if len(log) < 200 {
				log = append(log, fmt.Sprintf(f, a...))
			}
		}
		synctest.Test(t, func(t *testing.T) {
			tc, s := newTestConnAndLocalStream(t, side, styp, permissiveTransportParameters)
			tc.conn.keysAppData.updateAfter = maxPacketNumber // key updates need the peer's cooperation: C34 covers them
			got := make([]byte, total)
			var have vlpIvals
			fin, finAt := false, int64(-1)
			var kept rangeset[packetNumber]
			var unacked []packetNumber
			bad := false
			deliver := func(drop bool) int {
				n := 0
				for _, p := range vlpReadPackets(tc) {
					if p.ptype != packetType1RTT {
						continue
					}
					n++
					if drop && rng.IntN(100) < dropPct {
						note("drop pkt %d %v", p.num, p.frames)
						r.Event("scripted_packets_dropped", 1)
						continue
					}
					kept.add(p.num, p.num+1)
					unacked = append(unacked, p.num)
					for _, f := range p.frames {
						sf, ok := f.(debugFrameStream)
						if !ok || sf.id != s.id {
							continue
						}
						end := sf.off + int64(len(sf.data))
						if end > int64(total) {
							c.Violation("scripted-data-beyond-what-was-written", "STREAM [%d,%d) fin=%v in packet %d, only %d bytes were written", sf.off, end, sf.fin, p.num, total)
							bad = true
							continue
						}
						for i, b := range sf.data {
							if b != vlpPattern(77, sf.off+int64(i)) {
								c.Violation("scripted-corrupt-byte", "STREAM frame in packet %d: byte at offset %d is %#x, written %#x", p.num, sf.off+int64(i), b, vlpPattern(77, sf.off+int64(i)))
								bad = true
								break
							}
						}
						copy(got[sf.off:], sf.data)
						have.add(sf.off, end)
						if sf.fin {
							if end != int64(total) {
								c.Violation("scripted-fin-at-wrong-offset", "FIN at %d in packet %d, %d bytes were written", end, p.num, total)
								bad = true
							}
							fin, finAt = true, end
						}
						note("keep pkt %d STREAM [%d,%d) fin=%v", p.num, sf.off, end, sf.fin)
					}
				}
				return n
			}
			ack := func() {
				if len(unacked) == 0 {
					return
				}
				unacked = unacked[:0]
				tc.writeFrames(packetType1RTT, debugFrameAck{ranges: append([]i64range[packetNumber](nil), kept...)})
				note("ack %v", kept)
			}
			sleepToTimer := func(max time.Duration) {
				var when time.Time
				tc.conn.runOnLoop(context.Background(), func(now time.Time, conn *Conn) { when = conn.loss.timer })
				d := max
				if !when.IsZero() {
					if u := time.Until(when); u > 0 && u < max {
						d = u + time.Millisecond
					}
				}
				time.Sleep(d)
			}
			written, closed := 0, false
			for step := 0; step < 40 && !(closed && written == total && rng.IntN(4) == 0); step++ {
				switch op := rng.IntN(10); {
				case op < 3 && written < total:
					n := min(total-written, 1+rng.IntN([]int{50, 1200, 1300, 4000}[rng.IntN(4)]))
					b := make([]byte, n)
					vlpFill(b, 77, int64(written))
					if m, err := s.Write(b); err != nil || m != n {
						c.Violation("scripted-write-error", "Write(%d bytes at %d) = %d, %v", n, written, m, err)
						return
					}
					written += n
					note("write %d (total %d)", n, written)
					if rng.IntN(2) == 0 {
						s.Flush()
					}
				case op < 4 && written == total && !closed:
					s.Flush()
					if rng.IntN(2) == 0 {
						deliver(true) // the data leaves before the close: the FIN gets a frame of its own
					}
					s.CloseWrite()
					closed = true
					note("closewrite")
				case op < 6:
					deliver(true)
				case op < 8:
					ack()
				default:
					sleepToTimer(time.Duration(1+rng.IntN(2000)) * time.Millisecond)
				}
			}
			if written < total {
				b := make([]byte, total-written)
				vlpFill(b, 77, int64(written))
				if m, err := s.Write(b); err != nil || m != len(b) {
					c.Violation("scripted-write-error", "final Write(%d bytes at %d) = %d, %v", len(b), written, m, err)
					return
				}
				written = total
			}
			if !closed {
				s.CloseWrite()
			}
			// perfect network from here on
			rounds := 0
			for ; rounds < 80 && !(fin && have.covers(0, int64(total)) || bad); rounds++ {
				deliver(false)
				ack()
				sleepToTimer(30 * time.Second)
			}
			if !bad && !(fin && (total == 0 || have.covers(0, int64(total)))) {
				c.Violation("scripted-receiver-never-completes", "after %d loss-timer rounds on a perfect network the receiver has ranges %v of [0,%d) and fin=%v(at %d); sender stream: %s; script: %v", rounds, have.r, total, fin, finAt, vlpDumpStream(s), log)
			}
			r.Event("scripted_receiver_runs", 1)
			r.Event("scripted_clean_rounds_needed", int64(rounds))
			if rounds > 1 {
				r.Event("scripted_runs_needing_retransmission_after_faults", 1)
			}
		})
		r.Eval(dropPct > 0 && total > 0, "scripted", side, styp, total, dropPct, len(log))
	})
	r.Require("scripted_receiver_runs", int64(ns*9/10))
	r.Require("scripted_packets_dropped", 500)
	r.Require("scripted_runs_needing_retransmission_after_faults", 100)
	r.Require("runs_completed", int64(n*6/10))
	r.Require("stream_retransmissions", 10)
	r.Require("out_of_order_arrivals", 10)
	r.Require("close_returned_nil_checked", 10)
	r.Require("fin_in_own_frame_after_pause", 20)
}
