//go:build verif

package quic

import (
	"fmt"
	"math"
	"testing"

	"golang.org/x/net/internal/verifrt"
)

// c24model is the mathematical set: in[i] says whether base+i is a member. Every range the
// workload uses lies inside [base, base+u], so the model is complete.
type c24model struct {
	base int64
	u    int
	in   []bool
}

func (m *c24model) set(a, b int, v bool) {
	for i := a; i < b; i++ {
		m.in[i] = v
	}
}

// runs returns the maximal runs of members as relative [a,b) pairs.
func (m *c24model) runs() [][2]int {
	var out [][2]int
	i := 0
	for i < m.u {
		if !m.in[i] {
			i++
			continue
		}
		j := i
		for j < m.u && m.in[j] {
			j++
		}
		out = append(out, [2]int{i, j})
		i = j
	}
	return out
}

func (m *c24model) toRangeset() rangeset[int64] {
	var s rangeset[int64]
	for _, r := range m.runs() {
		s = append(s, i64range[int64]{m.base + int64(r[0]), m.base + int64(r[1])})
	}
	return s
}

func c24fmt(s rangeset[int64], base int64) string {
	out := "{"
	for i, r := range s {
		if i > 0 {
			out += " "
		}
		out += fmt.Sprintf("[%d,%d)", r.start-base, r.end-base)
	}
	return out + "}+" + fmt.Sprint(base)
}

// c24check compares the rangeset with the model completely. It returns the first broken
// oracle as (key, detail) or "".
func c24check(s rangeset[int64], m *c24model) (string, string) {
	// structure: sorted, non-empty, disjoint, non-adjacent
	for i, r := range s {
		if r.start >= r.end {
			return "structure-empty-range", fmt.Sprintf("range %d is [%d,%d)", i, r.start-m.base, r.end-m.base)
		}
		if i > 0 {
			p := s[i-1]
			switch {
			case p.end > r.start:
				return "structure-unsorted-or-overlap", fmt.Sprintf("ranges %d,%d", i-1, i)
			case p.end == r.start:
				return "structure-adjacent", fmt.Sprintf("ranges %d,%d touch at %d", i-1, i, r.start-m.base)
			}
		}
	}
	runs := m.runs()
	// membership + rangeContaining for every universe point and one point on each side
	runOf := make([]int, m.u)
	for i := range runOf {
		runOf[i] = -1
	}
	for k, r := range runs {
		for i := r[0]; i < r[1]; i++ {
			runOf[i] = k
		}
	}
	for i := -1; i <= m.u; i++ {
		if (i == -1 && m.base == math.MinInt64) || (i == m.u && m.base+int64(m.u-1) == math.MaxInt64) {
			continue
		}
		v := m.base + int64(i)
		want := i >= 0 && i < m.u && m.in[i]
		if got := s.contains(v); got != want {
			return "contains", fmt.Sprintf("contains(base+%d)=%v, model %v", i, got, want)
		}
		rc := s.rangeContaining(v)
		if !want {
			if rc != (i64range[int64]{0, 0}) {
				return "rangeContaining-nonmember", fmt.Sprintf("rangeContaining(base+%d)=[%d,%d), want [0,0)", i, rc.start, rc.end)
			}
			continue
		}
		wr := runs[runOf[i]]
		if rc.start != m.base+int64(wr[0]) || rc.end != m.base+int64(wr[1]) {
			return "rangeContaining-member", fmt.Sprintf("rangeContaining(base+%d)=[%d,%d), want [%d,%d) (relative)", i, rc.start-m.base, rc.end-m.base, wr[0], wr[1])
		}
		if !rc.contains(v) || rc.size() != int64(wr[1]-wr[0]) {
			return "i64range-methods", fmt.Sprintf("range [%d,%d): contains(%d)=%v size=%d", rc.start-m.base, rc.end-m.base, i, rc.contains(v), rc.size())
		}
	}
	if s.numRanges() != len(runs) {
		return "numRanges", fmt.Sprintf("numRanges=%d, model has %d runs", s.numRanges(), len(runs))
	}
	var wmin, wmax, wend, wsize int64
	if len(runs) > 0 {
		wmin = m.base + int64(runs[0][0])
		wend = m.base + int64(runs[len(runs)-1][1])
		wmax = wend - 1
		for _, r := range runs {
			wsize += int64(r[1] - r[0])
		}
	}
	if s.min() != wmin {
		return "min", fmt.Sprintf("min=%d want %d", s.min(), wmin)
	}
	if s.max() != wmax {
		return "max", fmt.Sprintf("max=%d want %d", s.max(), wmax)
	}
	if s.end() != wend {
		return "end", fmt.Sprintf("end=%d want %d", s.end(), wend)
	}
	if s.size() != wsize {
		return "size", fmt.Sprintf("size=%d want %d", s.size(), wsize)
	}
	// isrange: true exactly for the single run (or (0,0) on the empty set)
	switch len(runs) {
	case 0:
		if !s.isrange(0, 0) {
			return "isrange-empty", "isrange(0,0) false on the empty set"
		}
		if s.isrange(m.base, m.base+1) {
			return "isrange-empty", "isrange(base,base+1) true on the empty set"
		}
	case 1:
		a, b := m.base+int64(runs[0][0]), m.base+int64(runs[0][1])
		if !s.isrange(a, b) {
			return "isrange-single", fmt.Sprintf("isrange(%d,%d) false for the only run", a-m.base, b-m.base)
		}
		if s.isrange(a, b-1) || s.isrange(a+1, b) || (b < math.MaxInt64 && s.isrange(a, b+1)) || (a > math.MinInt64 && s.isrange(a-1, b)) {
			return "isrange-single", fmt.Sprintf("isrange true for a range differing from the only run [%d,%d)", a-m.base, b-m.base)
		}
	default:
		if s.isrange(wmin, wend) || s.isrange(wmin, m.base+int64(runs[0][1])) {
			return "isrange-multi", "isrange true although the set has several runs"
		}
	}
	return "", ""
}

func TestVerif_C24(t *testing.T) {
	r := verifrt.Start(t, "C24")
	defer r.Finish()
	r.SetRule("one case = one history of 30 PRNG ops (add / sub / removeranges as ackState uses it) over a universe of 8..200 consecutive integers translated by a PRNG base (0, small, +-2^62, MinInt64, MaxInt64-u); op endpoints biased to existing range boundaries +-1; empty [x,x) ranges included; after every op the complete observable state is compared with a bitmap model. non-trivial = history with at least one add that coalesced two or more ranges AND one sub that split a range; distinct by hash of (base class, op list)")
	r.Assume("callers pass start<=end (add/sub with start>end is outside the contract and never generated); removeranges(i,j) is called with 0<=i<=j<=len as acks.go does")

	nOps := 30
	run := func(c *verifrt.Case, withEmptySub bool) {
		rng := c.Rng
		u := []int{8, 12, 20, 32, 64, 200}[rng.IntN(6)]
		var base int64
		bclass := rng.IntN(8)
		switch bclass {
		case 0:
			base = 0
		case 1:
			base = int64(rng.IntN(3)) - 1 - int64(rng.IntN(u)) // window straddles 0
		case 2:
			base = 1<<62 - int64(rng.IntN(u+1))
		case 3:
			base = -(1 << 62) - int64(rng.IntN(u+1))
		case 4:
			base = math.MinInt64
		case 5:
			base = math.MaxInt64 - int64(u)
		case 6:
			base = int64(rng.Uint64() >> 2)
		default:
			base = -int64(rng.Uint64() >> 2)
		}
		m := &c24model{base: base, u: u, in: make([]bool, u)}
		var s rangeset[int64]
		var ops []string
		desc := map[string]any{"base": base, "universe": u}
		var nAdd, nSub, nRem, nEmpty, nCoalesce, nSplit, nPoints int64
		maxRanges := 0

		pick := func() int {
			// a relative endpoint in [0,u], biased to existing boundaries
			if len(s) > 0 && rng.IntN(3) != 0 {
				rg := s[rng.IntN(len(s))]
				v := rg.start
				if rng.IntN(2) == 0 {
					v = rg.end
				}
				rel := int(v-base) + rng.IntN(3) - 1
				if rel < 0 {
					rel = 0
				}
				if rel > u {
					rel = u
				}
				return rel
			}
			return rng.IntN(u + 1)
		}

		// pickRange returns relative [a,b) with a<=b; three quarters of the ranges are short (1..4) so
		// that the set fragments; empty ranges appear with probability ~1/15 when allowed.
		pickRange := func(allowEmpty bool) (int, int) {
			for {
				a, b := pick(), pick()
				if a > b {
					a, b = b, a
				}
				if rng.IntN(4) != 0 {
					if rng.IntN(2) == 0 {
						a = rng.IntN(u)
					}
					b = a + 1 + rng.IntN(3)
					if b > u {
						b = u
					}
				}
				if allowEmpty && rng.IntN(15) == 0 {
					b = a
				}
				if a == b && (!allowEmpty || rng.IntN(4) != 0) {
					continue
				}
				return a, b
			}
		}

		for step := 0; step < nOps; step++ {
			before := len(m.runs())
			var op string
			emptySub := false
			k := rng.IntN(20)
			switch {
			case k < 10: // add
				a, b := pickRange(true)
				op = fmt.Sprintf("add(%d,%d)", a, b)
				ops = append(ops, op)
				desc["ops"] = ops
				c.Describe(desc)
				s.add(base+int64(a), base+int64(b))
				m.set(a, b, true)
				nAdd++
				if a == b {
					nEmpty++
				}
				if len(m.runs()) < before {
					nCoalesce++
				}
			case k < 19: // sub
				a, b := pickRange(withEmptySub)
				op = fmt.Sprintf("sub(%d,%d)", a, b)
				ops = append(ops, op)
				desc["ops"] = ops
				c.Describe(desc)
				s.sub(base+int64(a), base+int64(b))
				m.set(a, b, false)
				nSub++
				if a == b {
					nEmpty++
					emptySub = true
				}
				if len(m.runs()) > before {
					nSplit++
				}
			default: // removeranges(i,j), the ackState pruning path
				i := 0
				if rng.IntN(2) == 0 {
					i = rng.IntN(len(s) + 1)
				}
				j := i + rng.IntN(len(s)-i+1)
				op = fmt.Sprintf("removeranges(%d,%d)", i, j)
				ops = append(ops, op)
				desc["ops"] = ops
				c.Describe(desc)
				runs := m.runs()
				if len(runs) == len(s) { // always true unless an earlier violation was repaired wrongly
					for _, rr := range runs[i:j] {
						m.set(rr[0], rr[1], false)
					}
				}
				s.removeranges(i, j)
				nRem++
			}
			if len(s) > maxRanges {
				maxRanges = len(s)
			}
			nPoints += int64(u + 2)
			if key, detail := c24check(s, m); key != "" {
				if emptySub {
					// an empty sub must leave the set and its representation alone
					key = "empty-sub-" + key
				}
				c.Violation(key, "after %s (step %d): %s; rangeset %s; history %v", op, step, detail, c24fmt(s, base), ops)
				// repair from the model so the rest of the history is still checked
				s = m.toRangeset()
				r.Event("repaired_after_violation", 1)
			}
		}
		r.Eval(nCoalesce > 0 && nSplit > 0, withEmptySub, bclass, base, u, ops)
		r.Event("ops_add", nAdd)
		r.Event("ops_sub", nSub)
		r.Event("ops_removeranges", nRem)
		r.Event("ops_with_empty_range", nEmpty)
		r.Event("adds_coalescing_ranges", nCoalesce)
		r.Event("subs_splitting_a_range", nSplit)
		r.Event("points_compared", nPoints)
		r.Event(fmt.Sprintf("histories_baseclass_%d", bclass), 1)
		if maxRanges >= 4 {
			r.Event("histories_reaching_4_ranges", 1)
		}
		if maxRanges >= 8 {
			r.Event("histories_reaching_8_ranges", 1)
		}
		if c.Index < 3 {
			r.Sample(map[string]any{"base": base, "universe": u, "ops": ops, "final": c24fmt(s, base)})
		}
	}
	// Main stream: add (incl. empty [x,x), which add documents as a no-op), non-empty sub, removeranges.
	r.CasesParallel("histories", r.N(100000, 3000000), 0, func(c *verifrt.Case) { run(c, false) })
	// Same, plus sub of an empty range [x,x), which must change nothing.
	r.CasesParallel("histories-with-empty-sub", r.N(20000, 600000), 0, func(c *verifrt.Case) { run(c, true) })

	// Exhaustive small space: every pair of operations over a 6-point universe applied to
	// every subset (as a starting set built from the model).
	r.Cases("exhaustive-u6", 1, func(c *verifrt.Case) {
		const u = 6
		var n int64
		for _, base := range []int64{0, -3, math.MaxInt64 - u, math.MinInt64} {
			for mask := 0; mask < 1<<u; mask++ {
				for a := 0; a <= u; a++ {
					for b := a; b <= u; b++ {
						for kind := 0; kind < 2; kind++ {
							m := &c24model{base: base, u: u, in: make([]bool, u)}
							for i := 0; i < u; i++ {
								m.in[i] = mask>>i&1 == 1
							}
							s := m.toRangeset()
							op := "add"
							if kind == 0 {
								s.add(base+int64(a), base+int64(b))
								m.set(a, b, true)
							} else {
								op = "sub"
								s.sub(base+int64(a), base+int64(b))
								m.set(a, b, false)
							}
							n++
							if key, detail := c24check(s, m); key != "" {
								if kind == 1 && a == b {
									key = "empty-sub-" + key
								}
								c.Describe(map[string]any{"base": base, "start_mask": mask, "op": op, "a": a, "b": b})
								c.Violation(key, "start set mask %06b (bit i = base+i), %s(%d,%d): %s; rangeset %s", mask, op, a, b, detail, c24fmt(s, base))
							}
						}
					}
				}
			}
		}
		r.Event("exhaustive_single_ops", n)
		r.EvalHash(true, 0xe6)
	})
	r.Require("adds_coalescing_ranges", 1000)
	r.Require("subs_splitting_a_range", 1000)
	r.Require("ops_removeranges", 1000)
	r.Require("exhaustive_single_ops", 10000)
}
