//go:build verif

package quic

import (
	"bytes"
	"crypto/hmac"
	"crypto/sha256"
	"fmt"
	"math/rand/v2"
	"net/netip"
	"sync"
	"testing"
	"time"

	"golang.org/x/crypto/chacha20poly1305"
	"golang.org/x/net/internal/verifrt"
)

func c31bytes(rng *rand.Rand, n int) []byte {
	b := make([]byte, n)
	for i := range b {
		b[i] = byte(rng.Uint32())
	}
	return b
}

func c31retryState(rng *rand.Rand) *retryState {
	// same construction as retryState.init, with a PRNG key so that the case is
	// determined by the seed (the token nonce still comes from crypto/rand inside makeToken)
	aead, err := chacha20poly1305.NewX(c31bytes(rng, chacha20poly1305.KeySize))
	if err != nil {
		panic(err)
	}
	return &retryState{aead: aead}
}

func c31addr(rng *rand.Rand) netip.AddrPort {
	port := uint16(rng.Uint32())
	switch rng.IntN(8) {
	case 0:
		port = 0
	case 1:
		port = 65535
	case 2:
		port = 443
	}
	if rng.IntN(2) == 0 {
		var a [4]byte
		copy(a[:], c31bytes(rng, 4))
		return netip.AddrPortFrom(netip.AddrFrom4(a), port)
	}
	var a [16]byte
	copy(a[:], c31bytes(rng, 16))
	if rng.IntN(4) == 0 { // fe80::/64 style sparse address
		a = [16]byte{0xfe, 0x80, 15: byte(rng.Uint32())}
	}
	return netip.AddrPortFrom(netip.AddrFrom16(a), port)
}

func c31flip(b []byte, bit int) []byte {
	o := append([]byte{}, b...)
	o[bit/8] ^= 1 << (bit % 8)
	return o
}

func c31flipAddr(ap netip.AddrPort, bit int) netip.AddrPort {
	s := c31flip(ap.Addr().AsSlice(), bit)
	a, _ := netip.AddrFromSlice(s)
	return netip.AddrPortFrom(a, ap.Port())
}

type c31ctx struct {
	now   time.Time
	scid  []byte // client's source connection ID (part of the additional data)
	odcid []byte // original destination connection ID (sealed in the token)
	addr  netip.AddrPort
	token []byte
	rscid []byte // Retry source connection ID = first 20 nonce bytes; client echoes it as DCID
}

func (x *c31ctx) String() string {
	return fmt.Sprintf("now=%d.%09d scid=%x odcid=%x addr=%v token=%x retry_scid=%x", x.now.Unix(), x.now.Nanosecond(), x.scid, x.odcid, x.addr, x.token, x.rscid)
}

func c31issue(rng *rand.Rand, rs *retryState) (*c31ctx, error) {
	x := &c31ctx{}
	var sec int64
	switch rng.IntN(8) {
	case 0:
		sec = int64(rng.IntN(20)) - 10 // around the epoch, incl. negative Unix times
	case 1:
		sec = 1<<31 - 5 + int64(rng.IntN(10))
	case 2:
		sec = 253402300799 - int64(rng.IntN(100)) // end of year 9999
	case 3:
		sec = -int64(rng.Uint64() >> 34) // before 1970
	default:
		sec = 1_600_000_000 + int64(rng.Uint64()>>34)
	}
	nsec := int64(rng.IntN(1_000_000_000))
	switch rng.IntN(5) {
	case 0:
		nsec = 0
	case 1:
		nsec = 999_999_999
	}
	x.now = time.Unix(sec, nsec)
	x.scid = c31bytes(rng, []int{0, 1, 4, 8, 8, 16, 20, rng.IntN(21)}[rng.IntN(8)])
	x.odcid = c31bytes(rng, []int{0, 8, 8, 12, 20, rng.IntN(21)}[rng.IntN(6)])
	x.addr = c31addr(rng)
	var err error
	x.token, x.rscid, err = rs.makeToken(x.now, x.scid, x.odcid, x.addr)
	return x, err
}

func TestVerif_C31(t *testing.T) {
	r := verifrt.Start(t, "C31")
	defer r.Finish()
	r.SetRule("retry: one case = one PRNG issuance context (key, issue time incl. pre-1970/2038/9999 and sub-second parts, client SCID 0..20 B, original DCID 0..20 B, IPv4/IPv6 address, port) and ALL its single-bit mutations of token, address, port, client SCID and echoed Retry SCID, length changes, cross-context swaps, wrong key, and 20 presentation times around both ends of the validity period. non-trivial = baseline accepted and every mutation class evaluated; distinct by context. stateless reset: PRNG (key, cid) pairs with repeat, fresh-generator, interleaving, 1-bit cid/key changes, length extension and a global collision table")
	r.Assume("token validity rule taken from retry.go's documentation: issue time is stored in whole seconds (t0 = floor_sec(issue)); presentations later than t0+5s or earlier than t0-5s must be rejected; presentations in [issue, t0+5s) with unchanged context must be accepted; exactly +-5s and the tolerated-past-skew zone (t0-5s, issue) may go either way. IPv4 vs IPv4-mapped-IPv6 spelling of one address may go either way (counted). makeToken draws its nonce from crypto/rand, so token bytes differ between runs; the oracle does not depend on them")

	var mu sync.Mutex
	count := map[string]int64{}
	ev := func(k string, n int64) { mu.Lock(); count[k] += n; mu.Unlock() }

	r.CasesParallel("retry", r.N(1500, 60000), 0, func(c *verifrt.Case) {
		rng := c.Rng
		rs := c31retryState(rng)
		x, err := c31issue(rng, rs)
		if err != nil {
			r.Note("makeToken failed: %v", err)
			return
		}
		c.Describe(x.String())
		if len(x.rscid) != maxConnIDLen {
			c.Violation("retry-scid-length", "makeToken returned a %d-byte connection ID: %s", len(x.rscid), x)
			return
		}
		// baseline, at the moment of issue and a little later
		for _, d := range []time.Duration{0, time.Nanosecond, time.Second, 3 * time.Second} {
			od, ok := rs.validateToken(x.now.Add(d), x.token, x.scid, x.rscid, x.addr)
			if !ok {
				c.Violation("valid-token-rejected", "presented %v after issue with unchanged context: rejected; %s", d, x)
				return
			}
			if !bytes.Equal(od, x.odcid) {
				c.Violation("wrong-original-dcid", "validateToken returned odcid %x, issued for %x; %s", od, x.odcid, x)
				return
			}
		}
		reject := func(class, what string, token, scid, dcid []byte, addr netip.AddrPort) {
			if od, ok := rs.validateToken(x.now, token, scid, dcid, addr); ok {
				c.Violation("accepted-modified-"+class, "%s accepted (odcid %x): presented token=%x scid=%x dcid=%x addr=%v; issued %s", what, od, token, scid, dcid, addr, x)
			}
			ev("rejections_checked_"+class, 1)
		}
		// token: every bit, truncations, extensions, empty
		for bit := 0; bit < 8*len(x.token); bit++ {
			reject("token", fmt.Sprintf("token with bit %d flipped", bit), c31flip(x.token, bit), x.scid, x.rscid, x.addr)
		}
		for cut := 1; cut <= len(x.token); cut++ {
			reject("token", fmt.Sprintf("token truncated by %d", cut), x.token[:len(x.token)-cut], x.scid, x.rscid, x.addr)
			if cut < len(x.token) {
				reject("token", fmt.Sprintf("token without its first %d bytes", cut), x.token[cut:], x.scid, x.rscid, x.addr)
			}
		}
		reject("token", "token with a byte appended", append(append([]byte{}, x.token...), byte(rng.Uint32())), x.scid, x.rscid, x.addr)
		reject("token", "nil token", nil, x.scid, x.rscid, x.addr)
		// address and port
		for bit := 0; bit < x.addr.Addr().BitLen(); bit++ {
			reject("address", fmt.Sprintf("address bit %d flipped", bit), x.token, x.scid, x.rscid, c31flipAddr(x.addr, bit))
		}
		for bit := 0; bit < 16; bit++ {
			reject("port", fmt.Sprintf("port bit %d flipped", bit), x.token, x.scid, x.rscid, netip.AddrPortFrom(x.addr.Addr(), x.addr.Port()^(1<<bit)))
		}
		if other := c31addr(rng); other != x.addr {
			reject("address", "unrelated address", x.token, x.scid, x.rscid, other)
		}
		// address family games: the first/last 4 bytes of a v6 address as v4, a v4 address zero-extended
		if x.addr.Addr().Is4() {
			a4 := x.addr.Addr().As4()
			var a16 [16]byte
			copy(a16[:], a4[:])
			reject("address", "IPv4 address zero-extended to 16 bytes", x.token, x.scid, x.rscid, netip.AddrPortFrom(netip.AddrFrom16(a16), x.addr.Port()))
			mapped := netip.AddrPortFrom(netip.AddrFrom16(x.addr.Addr().As16()), x.addr.Port())
			if _, ok := rs.validateToken(x.now, x.token, x.scid, x.rscid, mapped); ok {
				ev("v4_token_accepted_from_v4mapped_v6", 1)
			} else {
				ev("v4_token_rejected_from_v4mapped_v6", 1)
			}
		} else {
			a16 := x.addr.Addr().As16()
			reject("address", "first 4 bytes of the IPv6 address as IPv4", x.token, x.scid, x.rscid, netip.AddrPortFrom(netip.AddrFrom4([4]byte(a16[:4])), x.addr.Port()))
			reject("address", "last 4 bytes of the IPv6 address as IPv4", x.token, x.scid, x.rscid, netip.AddrPortFrom(netip.AddrFrom4([4]byte(a16[12:])), x.addr.Port()))
		}
		// bytes moved between SCID and address (additional-data framing)
		if len(x.scid) > 0 && x.addr.Addr().Is4() {
			a4 := x.addr.Addr().As4()
			moved := netip.AddrPortFrom(netip.AddrFrom4([4]byte{x.scid[len(x.scid)-1], a4[0], a4[1], a4[2]}), uint16(a4[3])<<8|x.addr.Port()>>8)
			reject("scid", "last SCID byte shifted into the address", x.token, x.scid[:len(x.scid)-1], x.rscid, moved)
		}
		// the same bytes of (client SCID, address) split differently across the two fields and
		// the two address families: 12 bytes move between the SCID and a 16-byte address
		if x.addr.Addr().Is6() && !x.addr.Addr().Is4In6() && len(x.scid)+12 <= maxConnIDLen {
			a16 := x.addr.Addr().As16()
			scid2 := append(append([]byte{}, x.scid...), a16[:12]...)
			reject("reframed", "SCID extended by the first 12 address bytes, last 4 address bytes presented as IPv4", x.token, scid2, x.rscid, netip.AddrPortFrom(netip.AddrFrom4([4]byte(a16[12:])), x.addr.Port()))
		}
		if x.addr.Addr().Is4() && len(x.scid) >= 12 {
			a4 := x.addr.Addr().As4()
			var a16 [16]byte
			copy(a16[:12], x.scid[len(x.scid)-12:])
			copy(a16[12:], a4[:])
			reject("reframed", "last 12 SCID bytes moved in front of the IPv4 address to form an IPv6 address", x.token, x.scid[:len(x.scid)-12], x.rscid, netip.AddrPortFrom(netip.AddrFrom16(a16), x.addr.Port()))
		}
		// client source connection ID
		for bit := 0; bit < 8*len(x.scid); bit++ {
			reject("scid", fmt.Sprintf("client SCID bit %d flipped", bit), x.token, c31flip(x.scid, bit), x.rscid, x.addr)
		}
		if len(x.scid) > 0 {
			reject("scid", "client SCID shortened", x.token, x.scid[:len(x.scid)-1], x.rscid, x.addr)
			reject("scid", "empty client SCID", x.token, nil, x.rscid, x.addr)
		}
		if len(x.scid) < maxConnIDLen {
			reject("scid", "client SCID with a zero byte appended", x.token, append(append([]byte{}, x.scid...), 0), x.rscid, x.addr)
		}
		// Retry source connection ID echoed as destination connection ID
		for bit := 0; bit < 8*len(x.rscid); bit++ {
			reject("retry-scid", fmt.Sprintf("Retry SCID bit %d flipped", bit), x.token, x.scid, c31flip(x.rscid, bit), x.addr)
		}
		reject("retry-scid", "Retry SCID shortened", x.token, x.scid, x.rscid[:len(x.rscid)-1], x.addr)
		reject("retry-scid", "Retry SCID extended", x.token, x.scid, append(append([]byte{}, x.rscid...), 0), x.addr)
		reject("retry-scid", "original DCID presented instead of the Retry SCID", x.token, x.scid, x.odcid, x.addr)
		// second issuance for the same context: tokens are not interchangeable with the other CID
		if tok2, rscid2, err := rs.makeToken(x.now, x.scid, x.odcid, x.addr); err == nil {
			if _, ok := rs.validateToken(x.now, tok2, x.scid, rscid2, x.addr); !ok {
				c.Violation("valid-token-rejected", "second token for the same context rejected; %s", x)
			}
			reject("swap", "token of issuance 1 with Retry SCID of issuance 2", x.token, x.scid, rscid2, x.addr)
			reject("swap", "token of issuance 2 with Retry SCID of issuance 1", tok2, x.scid, x.rscid, x.addr)
		}
		// another context under the same key: its token must not work here and vice versa
		if y, err := c31issue(rng, rs); err == nil && (y.addr != x.addr || !bytes.Equal(y.scid, x.scid)) {
			if od, ok := rs.validateToken(x.now, y.token, x.scid, y.rscid, x.addr); ok {
				c.Violation("accepted-modified-swap", "token issued for %s accepted (odcid %x) in context %s", y, od, x)
			}
			ev("rejections_checked_swap", 1)
		}
		// another key
		rs2 := c31retryState(rng)
		if od, ok := rs2.validateToken(x.now, x.token, x.scid, x.rscid, x.addr); ok {
			c.Violation("accepted-under-other-key", "token accepted by a retryState with a different key (odcid %x); %s", od, x)
		}
		ev("rejections_checked_key", 1)

		// presentation time
		t0 := time.Unix(x.now.Unix(), 0) // the whole second stored in the token
		sub := x.now.Sub(t0)             // 0 <= sub < 1s
		const V = 5 * time.Second
		ds := []time.Duration{-time.Hour, -V - time.Second, -V - time.Millisecond, -V - 1, -V, -V + 1, -time.Second, -1, 0, sub, sub + 1,
			time.Second, V - time.Millisecond, V - 1, V, V + 1, V + time.Millisecond, V + time.Second, time.Hour, 24 * 365 * time.Hour,
			time.Duration(rng.Int64N(int64(12*time.Second))) - 6*time.Second}
		for _, d := range ds {
			at := t0.Add(d)
			od, ok := rs.validateToken(at, x.token, x.scid, x.rscid, x.addr)
			switch {
			case d > V:
				ev("time_after_validity", 1)
				if ok {
					c.Violation("expired-token-accepted", "presented %v after the token's second t0 (validity 5s): accepted; %s", d, x)
				}
			case d < -V:
				ev("time_before_issue_beyond_skew", 1)
				if ok {
					c.Violation("future-token-accepted", "presented %v before the token's second t0 (tolerated skew 5s): accepted; %s", -d, x)
				}
			case d == V || d == -V:
				if ok {
					ev("time_exact_boundary_accepted", 1)
				} else {
					ev("time_exact_boundary_rejected", 1)
				}
			case d >= sub:
				ev("time_inside_validity", 1)
				if !ok {
					c.Violation("valid-token-rejected", "presented at t0%+v (issue was t0+%v, validity 5s): rejected; %s", d, sub, x)
				} else if !bytes.Equal(od, x.odcid) {
					c.Violation("wrong-original-dcid", "validateToken returned odcid %x, issued for %x; %s", od, x.odcid, x)
				}
			default:
				if ok {
					ev("time_past_skew_accepted", 1)
				} else {
					ev("time_past_skew_rejected", 1)
				}
			}
		}
		r.Eval(true, x.now.UnixNano(), x.scid, x.odcid, x.addr)
		if c.Index < 3 {
			r.Sample(map[string]any{"issue_unix": x.now.Unix(), "issue_nsec": x.now.Nanosecond(), "scid": fmt.Sprintf("%x", x.scid), "odcid": fmt.Sprintf("%x", x.odcid), "addr": x.addr.String(), "token_len": len(x.token)})
		}
	})

	// Clock offsets so large that time.Time.Sub saturates (more than ~292 years).
	r.Cases("retry-extreme-clock", r.N(50, 500), func(c *verifrt.Case) {
		rng := c.Rng
		rs := c31retryState(rng)
		x, err := c31issue(rng, rs)
		if err != nil {
			return
		}
		c.Describe(x.String())
		for _, years := range []int{250, 293, 300, 1000, 5000} {
			for _, sign := range []int{-1, 1} {
				at := x.now.AddDate(sign*years, 0, 0)
				_, ok := rs.validateToken(at, x.token, x.scid, x.rscid, x.addr)
				ev("time_extreme_offsets", 1)
				if ok {
					key := "expired-token-accepted"
					if sign < 0 {
						key = "future-token-accepted"
					}
					if years > 292 {
						key += "-beyond-duration-range"
					}
					c.Violation(key, "presented at %v, i.e. %d years %s issue (%v): accepted; %s", at.UTC(), years, map[int]string{-1: "before", 1: "after"}[sign], x.now.UTC(), x)
				}
			}
		}
		r.Eval(true, "extreme", x.now.UnixNano(), x.addr)
	})

	// ---- stateless reset tokens ----
	type origin struct {
		key [32]byte
		cid string
	}
	seen := map[statelessResetToken]origin{}
	var seenMu sync.Mutex
	record := func(c *verifrt.Case, tok statelessResetToken, key [32]byte, cid []byte) {
		seenMu.Lock()
		defer seenMu.Unlock()
		o, ok := seen[tok]
		if ok && (o.key != key || o.cid != string(cid)) {
			c.Violation("reset-token-collision", "token %x for key %x cid %x equals the token for key %x cid %x", tok, key, cid, o.key, []byte(o.cid))
		}
		seen[tok] = origin{key, string(cid)}
	}
	r.CasesParallel("stateless-reset", r.N(4000, 100000), 0, func(c *verifrt.Case) {
		rng := c.Rng
		var key [32]byte
		copy(key[:], c31bytes(rng, 32))
		if rng.IntN(6) == 0 { // sparse key
			key = [32]byte{}
			key[rng.IntN(32)] = 1 << rng.IntN(8)
		}
		cid := c31bytes(rng, []int{0, 1, 4, 8, 8, 20, rng.IntN(21)}[rng.IntN(7)])
		c.Describe(map[string]any{"key": fmt.Sprintf("%x", key), "cid": fmt.Sprintf("%x", cid)})
		var g statelessResetTokenGenerator
		g.init(key)
		if !g.canReset {
			c.Violation("reset-nonzero-key-disabled", "generator with non-zero key %x reports canReset=false", key)
		}
		t1 := g.tokenForConnID(cid)
		record(c, t1, key, cid)
		other := c31bytes(rng, 1+rng.IntN(20))
		tOther := g.tokenForConnID(other) // interleaved use of the same generator
		if t2 := g.tokenForConnID(cid); t2 != t1 {
			c.Violation("reset-token-not-deterministic", "key %x cid %x: %x, then (after a token for cid %x) %x", key, cid, t1, other, t2)
		}
		var g2 statelessResetTokenGenerator
		g2.init(key)
		if t3 := g2.tokenForConnID(cid); t3 != t1 {
			c.Violation("reset-token-differs-across-generators", "key %x cid %x: %x vs fresh generator %x", key, cid, t1, t3)
		}
		if !bytes.Equal(other, cid) {
			if tOther == t1 {
				c.Violation("reset-token-same-for-different-cid", "key %x: cids %x and %x give %x", key, cid, other, t1)
			}
			record(c, tOther, key, other)
		}
		for bit := 0; bit < 8*len(cid); bit++ {
			fc := c31flip(cid, bit)
			if g.tokenForConnID(fc) == t1 {
				c.Violation("reset-token-same-for-different-cid", "key %x: cid %x and cid with bit %d flipped give the same token %x", key, cid, bit, t1)
			}
			ev("reset_cid_bitflips", 1)
		}
		for _, ext := range [][]byte{append(append([]byte{}, cid...), 0), append([]byte{0}, cid...)} {
			if len(ext) <= maxConnIDLen && g.tokenForConnID(ext) == t1 {
				c.Violation("reset-token-same-for-different-cid", "key %x: cid %x and extended cid %x give the same token", key, cid, ext)
			}
		}
		if len(cid) > 0 && g.tokenForConnID(cid[:len(cid)-1]) == t1 {
			c.Violation("reset-token-same-for-different-cid", "key %x: cid %x and its prefix give the same token", key, cid)
		}
		for bit := 0; bit < 256; bit++ {
			k2 := key
			k2[bit/8] ^= 1 << (bit % 8)
			if k2 == ([32]byte{}) {
				continue // the all-zero key means "pick a random key"
			}
			var gk statelessResetTokenGenerator
			gk.init(k2)
			if gk.tokenForConnID(cid) == t1 {
				c.Violation("reset-token-same-for-different-key", "cid %x: key %x and key with bit %d flipped give the same token %x", cid, key, bit, t1)
			}
			ev("reset_key_bitflips", 1)
		}
		// The caller's memory is the caller's: the endpoint hands in a slice of a pooled receive
		// buffer that holds another datagram a moment later. Same buffer, new contents, must give
		// the token of the new contents.
		if len(cid) > 0 {
			buf := append([]byte(nil), cid...)
			if ta := g.tokenForConnID(buf); ta != t1 {
				c.Violation("reset-token-not-deterministic", "key %x cid %x: %x, then %x for a copy of the cid", key, cid, t1, ta)
			}
			next := c31bytes(rng, len(cid))
			copy(buf, next)
			var g3 statelessResetTokenGenerator
			g3.init(key)
			want := g3.tokenForConnID(append([]byte(nil), next...))
			if tb := g.tokenForConnID(buf); tb != want {
				c.Violation("reset-token-depends-on-reused-caller-buffer", "key %x: token for cid %x computed in the buffer that held cid %x during the previous call is %x, a fresh generator gives %x (token of the earlier cid: %x)", key, next, cid, tb, want, t1)
			}
			ev("reset_tokens_from_reused_buffer", 1)
		}
		// the token for cid again, after all that traffic through g
		if t4 := g.tokenForConnID(cid); t4 != t1 {
			c.Violation("reset-token-not-deterministic", "key %x cid %x: %x at first, %x after %d other tokens", key, cid, t1, t4, 8*len(cid)+4)
		}
		r.Eval(len(cid) > 0, "reset", key, cid)
		ev("reset_contexts", 1)
		if c.Index < 2 {
			r.Sample(map[string]any{"key": fmt.Sprintf("%x", key), "cid": fmt.Sprintf("%x", cid), "token": fmt.Sprintf("%x", t1)})
		}
	})
	// zero key: random secret, no resets, but still a function of the CID within the generator
	r.Cases("stateless-reset-zero-key", 20, func(c *verifrt.Case) {
		var g statelessResetTokenGenerator
		g.init([32]byte{})
		if g.canReset {
			c.Violation("reset-zero-key-enabled", "generator with the all-zero key reports canReset=true")
		}
		cid := c31bytes(c.Rng, 8)
		a := g.tokenForConnID(cid)
		g.tokenForConnID(c31bytes(c.Rng, 5))
		if b := g.tokenForConnID(cid); a != b {
			c.Violation("reset-token-not-deterministic", "zero-key generator: cid %x gives %x then %x", cid, a, b)
		}
		// "differ for different keys": without a configured key every generator picks its own
		// random secret, so two of them agree on a token with probability 2^-128, and none of
		// them uses a key an outsider can know (the all-zero key it was handed).
		var g2 statelessResetTokenGenerator
		g2.init([32]byte{})
		if b := g2.tokenForConnID(cid); a == b {
			c.Violation("reset-token-same-for-independent-random-keys", "two generators initialised without a configured key give the same token %x for cid %x", a, cid)
		}
		mac := hmac.New(sha256.New, make([]byte, 32))
		mac.Write(cid)
		if sum := mac.Sum(nil); bytes.Equal(sum[:len(a)], a[:]) {
			c.Violation("reset-token-from-all-zero-key", "generator initialised without a configured key gives HMAC-SHA256(all-zero key, cid) = %x for cid %x: the secret is not random", a, cid)
		}
		ev("reset_zero_key_generators_compared", 1)
		r.Eval(true, "zero", c.Index)
	})
	// one generator used from many goroutines (meaningful under -race): same answers as sequentially
	r.Cases("stateless-reset-concurrent", r.N(20, 200), func(c *verifrt.Case) {
		var key [32]byte
		copy(key[:], c31bytes(c.Rng, 32))
		var g statelessResetTokenGenerator
		g.init(key)
		cids := make([][]byte, 64)
		want := make([]statelessResetToken, len(cids))
		for i := range cids {
			cids[i] = c31bytes(c.Rng, 1+c.Rng.IntN(20))
			want[i] = g.tokenForConnID(cids[i])
		}
		c.Describe(map[string]any{"key": fmt.Sprintf("%x", key)})
		var wg sync.WaitGroup
		var bad sync.Map
		for w := 0; w < 8; w++ {
			wg.Add(1)
			go func(w int) {
				defer wg.Done()
				for rep := 0; rep < 4; rep++ {
					for i := range cids {
						j := (i*7 + w*13 + rep) % len(cids)
						if got := g.tokenForConnID(cids[j]); got != want[j] {
							bad.Store(j, got)
						}
					}
				}
			}(w)
		}
		wg.Wait()
		bad.Range(func(k, v any) bool {
			j := k.(int)
			c.Violation("reset-token-concurrent-mismatch", "key %x cid %x: sequential %x, concurrent %x", key, cids[j], want[j], v)
			return false
		})
		ev("reset_concurrent_tokens", 8*4*64)
		r.Eval(true, "conc", key)
	})

	mu.Lock()
	for k, v := range count {
		r.Event(k, v)
	}
	mu.Unlock()
	r.Require("rejections_checked_token", 100000)
	r.Require("rejections_checked_address", 10000)
	r.Require("rejections_checked_port", 10000)
	r.Require("rejections_checked_scid", 10000)
	r.Require("rejections_checked_retry-scid", 100000)
	r.Require("rejections_checked_swap", 1000)
	r.Require("time_after_validity", 1000)
	r.Require("time_before_issue_beyond_skew", 1000)
	r.Require("time_inside_validity", 1000)
	r.Require("reset_contexts", 1000)
	r.Require("reset_key_bitflips", 100000)
}
