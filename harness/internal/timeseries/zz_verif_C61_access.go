//go:build verif

package timeseries

import "time"

// Read-only accessors for the C61 monitor (golang.org/x/net/trace, white-box on the histogram
// observable, needs the bucket grid of every level to build bucket-aligned ranges). This file
// is not part of golang/net: the vcheck driver adds it through `go test -overlay` and it only
// builds with the `verif` tag. It reads state, it never changes it.

// VerifLevel describes one resolution level: its newest bucket ends at End, every bucket spans
// Size and there are NumBuckets of them.
type VerifLevel struct {
	End        time.Time
	Size       time.Duration
	NumBuckets int
}

func (ts *timeSeries) VerifLevels() []VerifLevel {
	out := make([]VerifLevel, len(ts.levels))
	for i, l := range ts.levels {
		out[i] = VerifLevel{End: l.end, Size: l.size, NumBuckets: ts.numBuckets}
	}
	return out
}

// VerifPendingTime is the timestamp under which not yet bucketed observations are held.
func (ts *timeSeries) VerifPendingTime() time.Time { return ts.pendingTime }
