//go:build verif

package quicwire

import (
	"bytes"
	"fmt"
	"testing"

	"golang.org/x/net/internal/verifrt"
)

// refVarint is the RFC 9000 §16 encoding written from the text: two length bits, then the
// value big-endian in 6, 14, 30 or 62 bits.
func refVarint(v uint64) []byte {
	var n int
	switch {
	case v < 1<<6:
		n = 1
	case v < 1<<14:
		n = 2
	case v < 1<<30:
		n = 4
	default:
		n = 8
	}
	out := make([]byte, n)
	for i := n - 1; i >= 0; i-- {
		out[i] = byte(v)
		v >>= 8
	}
	switch n {
	case 2:
		out[0] |= 0x40
	case 4:
		out[0] |= 0x80
	case 8:
		out[0] |= 0xc0
	}
	return out
}

func refDecode(b []byte) (uint64, int) {
	if len(b) == 0 {
		return 0, -1
	}
	n := 1 << (b[0] >> 6)
	if len(b) < n {
		return 0, -1
	}
	v := uint64(b[0] & 0x3f)
	for i := 1; i < n; i++ {
		v = v<<8 | uint64(b[i])
	}
	return v, n
}

// tight returns a copy of b whose capacity equals its length and which sits at the end of
// its allocation, so that reading past the end panics (and is seen by checkptr under -race).
func tight(b []byte) []byte {
	buf := make([]byte, 64+len(b))
	t := buf[64:]
	copy(t, b)
	return t[:len(b):len(b)]
}

func TestVerif_C22(t *testing.T) {
	r := verifrt.Start(t, "C22")
	defer r.Finish()
	r.SetRule("values: every v<2^16, every 2^k-1,2^k,2^k+1 (k<=62), PRNG values per size class; byte inputs: every strict prefix of each encoding + encodings followed by junk + random bytes. non-trivial = value not in the 1-byte class, or byte input with a multi-byte prefix; distinct by value / input bytes")
	r.Assume("reference encoder/decoder written from RFC 9000 section 16 in the harness")

	checkValue := func(c *verifrt.Case, v uint64) {
		c.Describe(map[string]any{"value": v})
		want := refVarint(v)
		got := AppendVarint(nil, v)
		if !bytes.Equal(got, want) {
			c.Violation("append-not-shortest-form", "AppendVarint(%d)=%x want %x", v, got, want)
		}
		if s := SizeVarint(v); s != len(want) {
			c.Violation("sizevarint", "SizeVarint(%d)=%d want %d", v, s, len(want))
		}
		pre := []byte{0xaa, 0xbb}
		if g2 := AppendVarint(append([]byte{}, pre...), v); !bytes.Equal(g2[:2], pre) || !bytes.Equal(g2[2:], want) {
			c.Violation("append-clobbers-prefix", "AppendVarint(prefix,%d)=%x", v, g2)
		}
		junk := byte(c.Rng.Uint32())
		in := tight(append(append([]byte{}, got...), junk, junk^0xff))
		dv, n := ConsumeVarint(in)
		if dv != v || n != len(want) {
			c.Violation("consume-roundtrip", "ConsumeVarint(%x)=(%d,%d) want (%d,%d)", in, dv, n, v, len(want))
		}
		iv, n2 := ConsumeVarintInt64(in)
		if iv != int64(v) || n2 != len(want) || iv < 0 {
			c.Violation("consume-int64", "ConsumeVarintInt64(%x)=(%d,%d)", in, iv, n2)
		}
		// every strict prefix must be reported short, never read past
		for k := 0; k < len(got); k++ {
			p := tight(got[:k])
			if _, n := ConsumeVarint(p); n >= 0 {
				c.Violation("consume-short-accepted", "ConsumeVarint(%x) (prefix %d of %x) returned n=%d", p, k, got, n)
			}
		}
		r.EvalHash(v >= 64, v)
		r.Event(fmt.Sprintf("values_size%d", len(want)), 1)
	}

	r.Cases("small-exhaustive", 1, func(c *verifrt.Case) {
		for v := uint64(0); v < 1<<16; v++ {
			checkValue(c, v)
		}
	})
	r.Cases("boundaries", 1, func(c *verifrt.Case) {
		for k := 0; k <= 62; k++ {
			for _, d := range []int64{-2, -1, 0, 1, 2} {
				v := int64(1)<<k + d
				if v < 0 || uint64(v) > MaxVarint {
					continue
				}
				checkValue(c, uint64(v))
			}
		}
		checkValue(c, MaxVarint)
		r.Sample(map[string]any{"value": uint64(MaxVarint), "encoding": fmt.Sprintf("%x", AppendVarint(nil, MaxVarint))})
		r.Sample(map[string]any{"value": 16384, "encoding": fmt.Sprintf("%x", AppendVarint(nil, 16384))})
	})
	// out-of-range values must not be silently encoded
	r.Cases("too-large", 1, func(c *verifrt.Case) {
		for _, v := range []uint64{MaxVarint + 1, 1 << 63, ^uint64(0)} {
			func() {
				defer func() { recover() }()
				b := AppendVarint(nil, v)
				c.Violation("append-accepts-63bit", "AppendVarint(%d) returned %x instead of refusing", v, b)
			}()
			func() {
				defer func() { recover() }()
				s := SizeVarint(v)
				c.Violation("size-accepts-63bit", "SizeVarint(%d) returned %d instead of refusing", v, s)
			}()
			r.Event("too_large_refused", 1)
		}
	})
	n := r.N(200000, 20000000)
	r.CasesParallel("random-values", 16, 0, func(c *verifrt.Case) {
		for i := 0; i < n/16; i++ {
			bits := []int{6, 14, 30, 62}[c.Rng.IntN(4)]
			v := c.Rng.Uint64() >> (64 - bits)
			if c.Rng.IntN(4) == 0 { // close to the top of the class
				v = (uint64(1)<<bits - 1) - c.Rng.Uint64N(1024)%(uint64(1)<<bits)
			}
			checkValue(c, v)
		}
	})
	// arbitrary bytes: accept/reject and value exactly as the reference; no over-read
	r.CasesParallel("random-bytes", 16, 0, func(c *verifrt.Case) {
		for i := 0; i < n/16; i++ {
			l := c.Rng.IntN(11)
			b := make([]byte, l)
			for j := range b {
				b[j] = byte(c.Rng.Uint32())
			}
			in := tight(b)
			c.Describe(map[string]any{"bytes": fmt.Sprintf("%x", in)})
			wv, wn := refDecode(in)
			gv, gn := ConsumeVarint(in)
			if (wn < 0) != (gn < 0) || (wn >= 0 && (wv != gv || wn != gn)) {
				c.Violation("consume-vs-reference", "ConsumeVarint(%x)=(%d,%d), reference (%d,%d)", in, gv, gn, wv, wn)
			}
			if gn >= 0 && gv > MaxVarint {
				c.Violation("consume-out-of-range", "ConsumeVarint(%x) = %d > 2^62-1", in, gv)
			}
			// length-prefixed byte strings
			body, bn := ConsumeVarintBytes(in)
			if wn < 0 || uint64(len(in)-wn) < wv {
				if bn >= 0 {
					c.Violation("varintbytes-short-accepted", "ConsumeVarintBytes(%x) n=%d", in, bn)
				}
			} else if bn != wn+int(wv) || !bytes.Equal(body, in[wn:wn+int(wv)]) {
				c.Violation("varintbytes-wrong", "ConsumeVarintBytes(%x)=(%x,%d)", in, body, bn)
			}
			b8, n8 := ConsumeUint8Bytes(in)
			if len(in) == 0 || int(in[0]) > len(in)-1 {
				if n8 >= 0 {
					c.Violation("uint8bytes-short-accepted", "ConsumeUint8Bytes(%x) n=%d", in, n8)
				}
			} else if n8 != 1+int(in[0]) || !bytes.Equal(b8, in[1:1+int(in[0])]) {
				c.Violation("uint8bytes-wrong", "ConsumeUint8Bytes(%x)=(%x,%d)", in, b8, n8)
			}
			u32, n32 := ConsumeUint32(in)
			if len(in) < 4 {
				if n32 >= 0 {
					c.Violation("uint32-short-accepted", "ConsumeUint32(%x) n=%d", in, n32)
				}
			} else if n32 != 4 || u32 != uint32(in[0])<<24|uint32(in[1])<<16|uint32(in[2])<<8|uint32(in[3]) {
				c.Violation("uint32-wrong", "ConsumeUint32(%x)=(%d,%d)", in, u32, n32)
			}
			u64, n64 := ConsumeUint64(in)
			if len(in) < 8 {
				if n64 >= 0 {
					c.Violation("uint64-short-accepted", "ConsumeUint64(%x) n=%d", in, n64)
				}
			} else {
				var w uint64
				for _, x := range in[:8] {
					w = w<<8 | uint64(x)
				}
				if n64 != 8 || u64 != w {
					c.Violation("uint64-wrong", "ConsumeUint64(%x)=(%d,%d)", in, u64, n64)
				}
			}
			r.EvalBytes(l > 0 && in[0]>>6 != 0, in)
			if gn < 0 {
				r.Event("bytes_rejected", 1)
			} else {
				r.Event("bytes_accepted", 1)
			}
		}
	})
	// byte-string framing round trip
	r.Cases("bytes-roundtrip", r.N(2000, 100000), func(c *verifrt.Case) {
		l := []int{0, 1, 63, 64, 255, 256, 16383, 16384, 70000}[c.Rng.IntN(9)]
		if c.Rng.IntN(2) == 0 {
			l = c.Rng.IntN(300)
		}
		v := make([]byte, l)
		for j := range v {
			v[j] = byte(c.Rng.Uint32())
		}
		c.Describe(map[string]any{"len": l})
		enc := tight(AppendVarintBytes(nil, v))
		got, n := ConsumeVarintBytes(enc)
		if n != len(enc) || !bytes.Equal(got, v) || n != SizeVarint(uint64(l))+l {
			c.Violation("varintbytes-roundtrip", "len %d: consumed %d of %d", l, n, len(enc))
		}
		if _, n := ConsumeVarintBytes(tight(enc[:len(enc)-1])); l > 0 && n >= 0 {
			c.Violation("varintbytes-truncated-accepted", "len %d", l)
		}
		if l <= 255 {
			e8 := tight(AppendUint8Bytes(nil, v))
			g8, n8 := ConsumeUint8Bytes(e8)
			if n8 != l+1 || !bytes.Equal(g8, v) {
				c.Violation("uint8bytes-roundtrip", "len %d", l)
			}
		}
		r.Eval(l > 63, "bytes", l, len(enc))
		r.Event("bytestring_roundtrips", 1)
	})
	r.Require("values_size8", 100)
	r.Require("bytes_rejected", 100)
}
