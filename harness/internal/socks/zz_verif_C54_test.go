//go:build verif

package socks_test

// C54: the SOCKS5 client names exactly the requested destination, returns the bound address the
// server reports, and turns malformed or truncated server replies into errors (never a panic,
// never a hang).
//
// Every case runs one dial (socks.Dialer.DialWithConn, or proxy.SOCKS5 -> Dial / DialContext)
// over a net.Pipe against a harness server inside a testing/synctest bubble. The server parses
// the client's messages with its own RFC 1928 / RFC 1929 decoder and answers with PRNG bytes
// (valid, malformed, truncated, oversized). All waiting is on pipe events; "hang" means: at
// quiescence of the bubble (synctest.Wait) the dial has not returned. No wall clock, no
// deadlines.

import (
	"bytes"
	"context"
	"fmt"
	"io"
	"math/rand/v2"
	"net"
	"net/netip"
	"runtime/debug"
	"strconv"
	"strings"
	"testing"
	"testing/synctest"

	"golang.org/x/net/internal/socks"
	"golang.org/x/net/internal/verifrt"
	"golang.org/x/net/proxy"
)

// ---------------------------------------------------------------------------------------
// reference decoders, written from RFC 1928 sections 3-6 and RFC 1929 section 2

type c54addr struct {
	atyp byte
	ip   []byte // 4 or 16 bytes
	name string
	port int
}

func (a c54addr) String() string {
	switch a.atyp {
	case 1, 4:
		return fmt.Sprintf("atyp%d %v port %d", a.atyp, net.IP(a.ip), a.port)
	}
	return fmt.Sprintf("atyp3 %q(%d bytes) port %d", a.name, len(a.name), a.port)
}

// c54parseReply decodes a server reply (RFC 1928 section 6) from the start of b.
// ok=false: b is not a complete, well-formed, successful reply.
func c54parseReply(b []byte) (a c54addr, consumed int, ok bool, why string) {
	if len(b) < 4 {
		return a, 0, false, "truncated header"
	}
	if b[0] != 5 {
		return a, 0, false, "VER != 5"
	}
	if b[1] != 0 {
		return a, 0, false, "REP != succeeded"
	}
	if b[2] != 0 {
		return a, 0, false, "RSV != 0"
	}
	a.atyp = b[3]
	n := 4
	switch a.atyp {
	case 1:
		if len(b) < n+4+2 {
			return a, 0, false, "truncated IPv4 address"
		}
		a.ip = append([]byte{}, b[n:n+4]...)
		n += 4
	case 4:
		if len(b) < n+16+2 {
			return a, 0, false, "truncated IPv6 address"
		}
		a.ip = append([]byte{}, b[n:n+16]...)
		n += 16
	case 3:
		if len(b) < n+1 {
			return a, 0, false, "truncated FQDN length"
		}
		l := int(b[n])
		n++
		if len(b) < n+l+2 {
			return a, 0, false, "truncated FQDN"
		}
		a.name = string(b[n : n+l])
		n += l
	default:
		return a, 0, false, "unknown ATYP"
	}
	a.port = int(b[n])<<8 | int(b[n+1])
	return a, n + 2, true, ""
}

// what the server saw
type c54seen struct {
	greeting    []byte // VER NMETHODS METHODS
	auth        []byte // RFC 1929 request, raw
	user, pass  string
	authDecoded bool
	reqHeader   []byte // VER CMD RSV ATYP
	req         c54addr
	reqDecoded  bool
	extra       []byte // anything the client sent where the server expected nothing / EOF
	problems    []string
	phase       string // last phase the server reached
}

type c54script struct {
	method      []byte // reply to the greeting (2 bytes when complete)
	methodGoOn  bool   // server continues after it (complete and selects a method it will serve)
	selected    byte
	authReply   []byte
	authGoOn    bool
	reply       []byte // bytes sent after the request (reply + possibly trailing bytes)
	replyChunks []int  // the reply is written in pieces of these sizes (exercises partial reads)
}

// server side of one connection. It never interprets bytes with the package under test.
func c54serve(sc net.Conn, sp *c54script, seen *c54seen, release <-chan struct{}) {
	defer sc.Close()
	problem := func(f string, a ...any) { seen.problems = append(seen.problems, fmt.Sprintf(f, a...)) }
	drain := func() {
		// the client is expected to send nothing more; collect whatever it does send until it
		// closes (or the harness closes) the connection
		b, _ := io.ReadAll(sc)
		seen.extra = append(seen.extra, b...)
	}
	// 1. version identifier / method selection message (RFC 1928 section 3)
	seen.phase = "greeting"
	hd := make([]byte, 2)
	if _, err := io.ReadFull(sc, hd); err != nil {
		return
	}
	ms := make([]byte, int(hd[1]))
	if _, err := io.ReadFull(sc, ms); err != nil {
		problem("greeting truncated: NMETHODS=%d", hd[1])
		return
	}
	seen.greeting = append(hd, ms...)
	seen.phase = "method-reply"
	if _, err := sc.Write(sp.method); err != nil {
		return
	}
	if !sp.methodGoOn {
		if len(sp.method) < 2 {
			sc.Close() // truncated: nothing more will come
		}
		drain()
		return
	}
	// 2. username/password sub-negotiation (RFC 1929 section 2)
	if sp.selected == 2 {
		seen.phase = "auth"
		h := make([]byte, 2)
		if _, err := io.ReadFull(sc, h); err != nil {
			return
		}
		u := make([]byte, int(h[1]))
		if _, err := io.ReadFull(sc, u); err != nil {
			problem("auth request truncated in UNAME")
			return
		}
		pl := make([]byte, 1)
		if _, err := io.ReadFull(sc, pl); err != nil {
			problem("auth request truncated before PLEN")
			return
		}
		p := make([]byte, int(pl[0]))
		if _, err := io.ReadFull(sc, p); err != nil {
			problem("auth request truncated in PASSWD")
			return
		}
		seen.auth = append(append(append(append([]byte{}, h...), u...), pl...), p...)
		seen.user, seen.pass, seen.authDecoded = string(u), string(p), true
		if h[0] != 1 {
			problem("auth request VER=%d, RFC 1929 wants 1", h[0])
		}
		if h[1] == 0 {
			problem("auth request ULEN=0")
		}
		seen.phase = "auth-reply"
		if _, err := sc.Write(sp.authReply); err != nil {
			return
		}
		if !sp.authGoOn {
			if len(sp.authReply) < 2 {
				sc.Close()
			}
			drain()
			return
		}
	}
	// 3. request (RFC 1928 section 4)
	seen.phase = "request"
	rh := make([]byte, 4)
	if _, err := io.ReadFull(sc, rh); err != nil {
		return
	}
	seen.reqHeader = rh
	seen.req.atyp = rh[3]
	switch rh[3] {
	case 1:
		seen.req.ip = make([]byte, 4)
		if _, err := io.ReadFull(sc, seen.req.ip); err != nil {
			problem("request truncated in IPv4 address")
			return
		}
	case 4:
		seen.req.ip = make([]byte, 16)
		if _, err := io.ReadFull(sc, seen.req.ip); err != nil {
			problem("request truncated in IPv6 address")
			return
		}
	case 3:
		l := make([]byte, 1)
		if _, err := io.ReadFull(sc, l); err != nil {
			problem("request truncated before FQDN length")
			return
		}
		nm := make([]byte, int(l[0]))
		if _, err := io.ReadFull(sc, nm); err != nil {
			problem("request truncated in FQDN (length byte %d)", l[0])
			return
		}
		seen.req.name = string(nm)
	default:
		problem("request with ATYP=%d", rh[3])
		return
	}
	pb := make([]byte, 2)
	if _, err := io.ReadFull(sc, pb); err != nil {
		problem("request truncated in port")
		return
	}
	seen.req.port = int(pb[0])<<8 | int(pb[1])
	seen.reqDecoded = true
	// 4. reply
	seen.phase = "reply"
	rest := sp.reply
	_, consumed, ok, _ := c54parseReply(sp.reply)
	if ok {
		// trailing bytes after a complete reply belong to the proxied stream: written together
		// with the reply's last piece, they stay pending in the pipe until the harness reads them
		rest = sp.reply[:consumed]
	}
	for _, n := range sp.replyChunks {
		if n >= len(rest) {
			break
		}
		if _, err := sc.Write(rest[:n]); err != nil {
			return
		}
		rest = rest[n:]
	}
	if ok {
		rest = append(append([]byte{}, rest...), sp.reply[consumed:]...)
	}
	if len(rest) > 0 {
		if _, err := sc.Write(rest); err != nil {
			return
		}
	}
	if !ok {
		sc.Close() // malformed or truncated: nothing more will come
		drain()
		return
	}
	seen.phase = "done"
	<-release // a complete reply was delivered: keep the connection open until the dial is over
}

// ---------------------------------------------------------------------------------------
// generation

type c54case struct {
	Path     string `json:"path"` // DialWithConn | proxy.Dial | proxy.DialContext
	HostKind string `json:"host_kind"`
	Host     string `json:"-"`
	HostQ    string `json:"host_quoted"`
	Port     int    `json:"port"`
	Auth     bool   `json:"auth"`
	User     string `json:"-"`
	Pass     string `json:"-"`
	UserHex  string `json:"user_hex,omitempty"`
	PassHex  string `json:"pass_hex,omitempty"`
	CtxKind  string `json:"ctx"`
	Method   string `json:"method_reply_hex"`
	AuthRep  string `json:"auth_reply_hex,omitempty"`
	Reply    string `json:"reply_hex"`
	ReplyWhy string `json:"reply_kind"`
	Chunks   []int  `json:"reply_chunks,omitempty"`

	wantIP   []byte // requested destination, as the reference understands it
	wantV4in6 bool
	script   c54script
}

func c54name(rng *rand.Rand, n int) string {
	const first = "ghijklmnopqrstuvwxyz" // a letter that is not a hex digit: the name can never be an IP literal
	const rest = "abcdefghijklmnopqrstuvwxyz0123456789-._ABCDEFGHIJKLMNOPQRSTUVWXYZ"
	b := make([]byte, n)
	for i := range b {
		b[i] = rest[rng.IntN(len(rest))]
		if rng.IntN(40) == 0 {
			b[i] = []byte{' ', '%', '~', 0xc3, 0xa9, 0x80, 0xff, '@', '/'}[rng.IntN(9)]
		}
	}
	if n > 0 {
		b[rng.IntN(n)] = first[rng.IntN(len(first))]
	}
	return string(b)
}

func c54ipv6Text(rng *rand.Rand, ip [16]byte) string {
	a := netip.AddrFrom16(ip)
	switch rng.IntN(4) {
	case 0:
		return a.String() // canonical, compressed
	case 1:
		return a.StringExpanded()
	case 2:
		return strings.ToUpper(a.String())
	default:
		// last 32 bits in dotted-quad form (RFC 4291 section 2.2 form 3)
		var g []string
		for i := 0; i < 12; i += 2 {
			g = append(g, strconv.FormatUint(uint64(ip[i])<<8|uint64(ip[i+1]), 16))
		}
		return strings.Join(g, ":") + ":" + fmt.Sprintf("%d.%d.%d.%d", ip[12], ip[13], ip[14], ip[15])
	}
}

func c54gen(rng *rand.Rand, index int) *c54case {
	cs := &c54case{}
	cs.Path = []string{"DialWithConn", "DialWithConn", "proxy.DialContext", "proxy.Dial"}[index%4]
	cs.CtxKind = []string{"background", "background", "cancelable"}[rng.IntN(3)]
	if cs.Path == "proxy.Dial" {
		cs.CtxKind = "background"
	}
	// destination
	switch k := rng.IntN(20); {
	case k < 5:
		cs.HostKind = "ipv4"
		ip := [4]byte{byte(rng.Uint32()), byte(rng.Uint32()), byte(rng.Uint32()), byte(rng.Uint32())}
		if rng.IntN(6) == 0 {
			ip = [][4]byte{{0, 0, 0, 0}, {255, 255, 255, 255}, {127, 0, 0, 1}, {10, 0, 0, 255}}[rng.IntN(4)]
		}
		cs.wantIP = ip[:]
		cs.Host = netip.AddrFrom4(ip).String()
	case k < 10:
		cs.HostKind = "ipv6"
		var ip [16]byte
		for i := range ip {
			ip[i] = byte(rng.Uint32())
		}
		switch rng.IntN(6) {
		case 0: // long zero run
			for i := 2; i < 14; i++ {
				ip[i] = 0
			}
		case 1:
			ip = [16]byte{15: 1} // ::1
		case 2:
			ip = [16]byte{} // ::
		}
		if ip[0] == 0 && ip[1] == 0 && ip[2] == 0 && ip[3] == 0 && ip[4] == 0 && ip[5] == 0 && ip[6] == 0 && ip[7] == 0 && ip[8] == 0 && ip[9] == 0 && ip[10] == 0xff && ip[11] == 0xff {
			cs.wantV4in6 = true
		}
		cs.wantIP = ip[:]
		cs.Host = c54ipv6Text(rng, ip)
	case k < 11:
		cs.HostKind = "ipv4-mapped-ipv6"
		ip := [16]byte{10: 0xff, 11: 0xff, 12: byte(rng.Uint32()), 13: byte(rng.Uint32()), 14: byte(rng.Uint32()), 15: byte(rng.Uint32())}
		cs.wantIP = ip[:]
		cs.wantV4in6 = true
		cs.Host = fmt.Sprintf("::ffff:%d.%d.%d.%d", ip[12], ip[13], ip[14], ip[15])
	case k < 18:
		cs.HostKind = "name"
		n := 1 + rng.IntN(40)
		switch rng.IntN(8) {
		case 0:
			n = 255
		case 1:
			n = 254
		case 2:
			n = 1
		case 3:
			n = 63 + rng.IntN(192)
		case 4:
			n = 128 + rng.IntN(3) - 1 // around the sign bit of the length byte
		}
		cs.Host = c54name(rng, n)
		if rng.IntN(12) == 0 {
			cs.Host = []string{"1.2.3", "256.1.1.1", "1.2.3.4.5", "1.2.3.4x", "xn--bcher-kva.example", "localhost", "example.com."}[rng.IntN(7)]
		}
	default:
		cs.HostKind = "name-too-long"
		n := 256 + rng.IntN(4)
		if rng.IntN(3) == 0 {
			n = 256 + rng.IntN(1000)
		}
		cs.Host = c54name(rng, n)
	}
	cs.Port = 1 + rng.IntN(65535)
	if rng.IntN(4) == 0 {
		cs.Port = []int{1, 80, 255, 256, 443, 0x1234, 0xff00, 0x00ff, 65535, 32768}[rng.IntN(10)]
	}
	// authentication
	cs.Auth = rng.IntN(3) == 0
	if cs.Auth {
		ul := 1 + rng.IntN(20)
		pl := rng.IntN(20)
		switch rng.IntN(8) {
		case 0:
			ul = 255
		case 1:
			pl = 255
		case 2:
			pl = 0
		case 3:
			ul, pl = 128, 129
		}
		ub := make([]byte, ul)
		for i := range ub {
			ub[i] = byte(rng.Uint32())
		}
		pb := make([]byte, pl)
		for i := range pb {
			pb[i] = byte(rng.Uint32())
		}
		cs.User, cs.Pass = string(ub), string(pb)
	}
	// server behaviour
	sp := &cs.script
	sp.selected = 0
	if cs.Auth && rng.IntN(4) != 0 {
		sp.selected = 2
	}
	sp.method = []byte{5, sp.selected}
	sp.methodGoOn = true
	if rng.IntN(8) == 0 {
		sp.methodGoOn = false
		switch rng.IntN(6) {
		case 0:
			sp.method = []byte{5, 0xff}
		case 1:
			sp.method = []byte{[]byte{0, 4, 6, 1, 0xff}[rng.IntN(5)], sp.selected}
		case 2:
			sp.method = []byte{5}
		case 3:
			sp.method = nil
		case 4:
			sp.method = []byte{byte(rng.Uint32() | 8), byte(rng.Uint32())} // VER with a bit that 5 does not have
		case 5:
			if cs.Auth {
				sp.method = []byte{5, []byte{1, 3, 0x80, 0xfe}[rng.IntN(4)]} // a method that was never offered
			} else {
				sp.method = []byte{5, 0xff}
			}
		}
	}
	sp.authReply = []byte{1, 0}
	sp.authGoOn = true
	if sp.selected == 2 && rng.IntN(6) == 0 {
		sp.authGoOn = false
		switch rng.IntN(5) {
		case 0:
			sp.authReply = []byte{1, byte(1 + rng.IntN(255))}
		case 1:
			sp.authReply = []byte{[]byte{0, 5, 2, 0xff}[rng.IntN(4)], 0}
		case 2:
			sp.authReply = []byte{1}
		case 3:
			sp.authReply = nil
		case 4:
			sp.authReply = []byte{byte(rng.Uint32() | 2), byte(rng.Uint32())}
		}
	}
	// reply: start from a valid one
	var valid []byte
	switch rng.IntN(3) {
	case 0:
		valid = []byte{5, 0, 0, 1, byte(rng.Uint32()), byte(rng.Uint32()), byte(rng.Uint32()), byte(rng.Uint32())}
	case 1:
		valid = []byte{5, 0, 0, 4}
		for i := 0; i < 16; i++ {
			valid = append(valid, byte(rng.Uint32()))
		}
	case 2:
		l := rng.IntN(30)
		switch rng.IntN(6) {
		case 0:
			l = 255
		case 1:
			l = 0
		case 2:
			l = 127 + rng.IntN(3)
		}
		valid = []byte{5, 0, 0, 3, byte(l)}
		for i := 0; i < l; i++ {
			valid = append(valid, byte(rng.Uint32()))
		}
	}
	valid = append(valid, byte(rng.Uint32()), byte(rng.Uint32()))
	sp.reply = valid
	cs.ReplyWhy = "valid"
	switch k := rng.IntN(20); {
	case k < 8:
	case k < 10:
		cs.ReplyWhy = "valid+trailing"
		tr := make([]byte, 1+rng.IntN(40))
		for i := range tr {
			tr[i] = byte(rng.Uint32())
		}
		sp.reply = append(append([]byte{}, valid...), tr...)
	case k < 14:
		cs.ReplyWhy = "truncated"
		sp.reply = append([]byte{}, valid[:rng.IntN(len(valid))]...)
		if rng.IntN(3) == 0 {
			sp.reply = append([]byte{}, valid[:len(valid)-1-rng.IntN(2)]...)
		}
	case k < 15:
		cs.ReplyWhy = "bad-version"
		sp.reply = append([]byte{}, valid...)
		sp.reply[0] = []byte{0, 4, 6, 1, 0xff}[rng.IntN(5)]
	case k < 16:
		cs.ReplyWhy = "failure-code"
		sp.reply = append([]byte{}, valid...)
		sp.reply[1] = byte(1 + rng.IntN(255))
		if rng.IntN(2) == 0 {
			sp.reply[1] = byte(1 + rng.IntN(9))
		}
	case k < 17:
		cs.ReplyWhy = "nonzero-rsv"
		sp.reply = append([]byte{}, valid...)
		sp.reply[2] = byte(1 + rng.IntN(255))
	case k < 18:
		cs.ReplyWhy = "bad-atyp"
		sp.reply = append([]byte{}, valid...)
		sp.reply[3] = []byte{0, 2, 5, 6, 0x7f, 0x80, 0xff, 0x13}[rng.IntN(8)]
	case k < 19:
		cs.ReplyWhy = "one-byte-changed"
		sp.reply = append([]byte{}, valid...)
		sp.reply[rng.IntN(len(sp.reply))] ^= byte(1 << rng.IntN(8))
		if rng.IntN(2) == 0 {
			sp.reply = sp.reply[:rng.IntN(len(sp.reply)+1)]
		}
	default:
		cs.ReplyWhy = "random-bytes"
		sp.reply = make([]byte, rng.IntN(24))
		for i := range sp.reply {
			sp.reply[i] = byte(rng.Uint32())
			if i < 4 && rng.IntN(2) == 0 {
				sp.reply[i] = []byte{5, 0, 0, 3}[i]
			}
		}
	}
	for left := len(sp.reply); left > 0 && rng.IntN(2) == 0 && len(sp.replyChunks) < 6; {
		n := 1 + rng.IntN(left)
		sp.replyChunks = append(sp.replyChunks, n)
		left -= n
	}
	cs.HostQ = strconv.Quote(cs.Host)
	cs.UserHex, cs.PassHex = fmt.Sprintf("%x", cs.User), fmt.Sprintf("%x", cs.Pass)
	cs.Method = fmt.Sprintf("%x", sp.method)
	if sp.selected == 2 {
		cs.AuthRep = fmt.Sprintf("%x", sp.authReply)
	}
	cs.Reply = fmt.Sprintf("%x", sp.reply)
	cs.Chunks = sp.replyChunks
	return cs
}

// ---------------------------------------------------------------------------------------

type c54fwd struct {
	c        net.Conn
	net, adr string
	calls    int
}

func (f *c54fwd) Dial(network, addr string) (net.Conn, error) {
	f.calls++
	f.net, f.adr = network, addr
	return f.c, nil
}

type c54fwdCtx struct{ c54fwd }

func (f *c54fwdCtx) DialContext(ctx context.Context, network, addr string) (net.Conn, error) {
	return f.Dial(network, addr)
}

type c54outcome struct {
	addr      net.Addr
	conn      net.Conn
	err       error
	panicked  any
	stack     string
	returned  bool
	hung      bool // at quiescence the dial had not returned
	trailing  []byte
	trailErr  error
	fwdCalls  int
	fwdAddr   string
	rawIsPipe bool
}

const c54proxyAddr = "socks-proxy.invalid:1080"

func c54run(t *testing.T, cs *c54case, seen *c54seen, out *c54outcome) {
	synctest.Test(t, func(t *testing.T) {
		cc, sc := net.Pipe()
		release := make(chan struct{})
		srvDone := make(chan struct{})
		dialDone := make(chan struct{})
		go func() {
			defer close(srvDone)
			c54serve(sc, &cs.script, seen, release)
		}()
		ctx := context.Background()
		cancel := func() {}
		if cs.CtxKind == "cancelable" {
			ctx, cancel = context.WithCancel(ctx)
		}
		address := net.JoinHostPort(cs.Host, strconv.Itoa(cs.Port))
		go func() {
			defer close(dialDone)
			defer func() {
				if e := recover(); e != nil {
					out.panicked = e
					out.stack = string(debug.Stack())
				}
			}()
			switch cs.Path {
			case "DialWithConn":
				d := socks.NewDialer("tcp", c54proxyAddr)
				if cs.Auth {
					up := &socks.UsernamePassword{Username: cs.User, Password: cs.Pass}
					d.AuthMethods = []socks.AuthMethod{socks.AuthMethodNotRequired, socks.AuthMethodUsernamePassword}
					d.Authenticate = up.Authenticate
				}
				out.addr, out.err = d.DialWithConn(ctx, cc, "tcp", address)
			default:
				var auth *proxy.Auth
				if cs.Auth {
					auth = &proxy.Auth{User: cs.User, Password: cs.Pass}
				}
				var fwd proxy.Dialer
				f1 := &c54fwd{c: cc}
				f2 := &c54fwdCtx{c54fwd{c: cc}}
				if cs.Port%2 == 0 {
					fwd = f1
				} else {
					fwd = f2
				}
				d, err := proxy.SOCKS5("tcp", c54proxyAddr, auth, fwd)
				if err != nil {
					out.err = err
					break
				}
				if cs.Path == "proxy.Dial" {
					out.conn, out.err = d.Dial("tcp", address)
				} else {
					out.conn, out.err = d.(proxy.ContextDialer).DialContext(ctx, "tcp", address)
				}
				out.fwdCalls = f1.calls + f2.calls
				out.fwdAddr = f1.net + f1.adr + f2.net + f2.adr
				if out.err == nil && out.conn != nil {
					if sc5, ok := out.conn.(*socks.Conn); ok {
						out.addr = sc5.BoundAddr()
						out.rawIsPipe = sc5.Conn == cc
					} else {
						out.rawIsPipe = out.conn == cc
					}
				}
			}
			out.returned = true
		}()
		synctest.Wait() // quiescence: every goroutine of the bubble is blocked on a pipe/channel or gone
		finished := false
		select {
		case <-dialDone:
			finished = true
		default:
		}
		out.hung = !finished
		if finished && out.returned && out.err == nil && out.panicked == nil {
			// bytes that followed a complete reply must still be there, untouched
			if _, consumed, ok, _ := c54parseReply(cs.script.reply); ok && consumed < len(cs.script.reply) {
				buf := make([]byte, len(cs.script.reply)-consumed)
				var n int
				var rerr error
				trailDone := make(chan struct{})
				go func() {
					defer close(trailDone)
					n, rerr = io.ReadFull(cc, buf)
				}()
				synctest.Wait()
				select {
				case <-trailDone:
					out.trailing, out.trailErr = buf[:n], rerr
				default:
					// fewer bytes are left than the server sent after the reply: the reader is stuck
					out.trailErr = fmt.Errorf("read of the %d bytes that followed the reply blocks: some were consumed by the dial", len(buf))
					defer func() { <-trailDone }()
				}
			}
		}
		cancel()
		close(release)
		cc.Close()
		sc.Close()
		<-dialDone
		<-srvDone
	})
}

func TestVerif_C54(t *testing.T) {
	r := verifrt.Start(t, "C54")
	defer r.Finish()
	r.SetRule("one case = one dial through DialWithConn (half), proxy.SOCKS5().DialContext or .Dial over net.Pipe in a synctest bubble: PRNG destination (IPv4, IPv6 in 4 text forms, IPv4-mapped IPv6, names of 1..255 bytes with boundary lengths, names > 255), PRNG port, optional username/password, PRNG server script (valid / valid+trailing / truncated at every offset / bad version / failure code / non-zero RSV / bad ATYP / bit flip / random bytes; bad or truncated method and auth replies). non-trivial = the server decoded a CONNECT request or the reply was not a plain valid one; distinct by (destination, port, credentials, script)")
	r.Assume("harness SOCKS5 server and reply parser written from RFC 1928 sections 3-6 and RFC 1929 section 2; a reply is malformed iff VER != 5, REP != 0, RSV != 0, ATYP not in {1,3,4} or the stream ends before the address and port are complete")
	r.Assume("no hang = at synctest quiescence the dial has returned (the server closes the pipe after a malformed/truncated reply and holds it open after a complete one)")
	r.Note("names longer than 255 bytes: the statement promises nothing; checked: dial fails and no CONNECT request reaches the server (the method negotiation has already happened by then, so DESIGN's 'nothing sent' is narrowed to 'no request sent')")
	r.Note("an IPv6 literal of the IPv4-mapped form (::ffff:a.b.c.d) may be sent as ATYP 1 or ATYP 4 (same host); a server selecting a method that was not offered while no Authenticate func is configured is not generated (outcome unspecified)")

	n := r.N(12000, 400000)
	r.Cases("dials", n, func(c *verifrt.Case) {
		cs := c54gen(c.Rng, c.Index)
		c.Describe(cs)
		seen := &c54seen{}
		out := &c54outcome{}
		c54run(t, cs, seen, out)
		sp := &cs.script
		dest := fmt.Sprintf("%s %q port %d via %s", cs.HostKind, cs.Host, cs.Port, cs.Path)

		if out.panicked != nil {
			c.Violation("client-panic", "%s: panic %v (server script: method=%s auth=%s reply=%s [%s])\n%s", dest, out.panicked, cs.Method, cs.AuthRep, cs.Reply, cs.ReplyWhy, out.stack)
			return
		}
		if out.hung && len(seen.extra) > 0 {
			c.Violation("request-after-failed-negotiation", "%s: after method reply=%s auth reply=%s the client sent %x and waits for an answer", dest, cs.Method, cs.AuthRep, seen.extra)
			return
		}
		if out.hung || !out.returned {
			c.Violation("client-hangs", "%s: at quiescence the dial has not returned; server phase %q, script: method=%s auth=%s reply=%s [%s]", dest, seen.phase, cs.Method, cs.AuthRep, cs.Reply, cs.ReplyWhy)
			return
		}
		for _, p := range seen.problems {
			c.Violation("client-message-malformed", "%s: %s (greeting %x auth %x request header %x)", dest, p, seen.greeting, seen.auth, seen.reqHeader)
		}
		// greeting
		if seen.greeting != nil {
			wantG := []byte{5, 1, 0}
			if cs.Auth {
				wantG = []byte{5, 2, 0, 2}
			}
			if !bytes.Equal(seen.greeting, wantG) {
				c.Violation("greeting-differs", "%s: greeting %x, expected %x", dest, seen.greeting, wantG)
			}
			r.Event("greetings_decoded", 1)
		} else if cs.Path == "DialWithConn" || out.fwdCalls > 0 {
			c.Violation("no-greeting", "%s: the server never received a method selection message (err=%v)", dest, out.err)
		}
		if cs.Path != "DialWithConn" {
			if out.fwdCalls != 1 || out.fwdAddr != "tcp"+c54proxyAddr {
				c.Violation("proxy-forward-dial", "%s: forward dialer called %d times with %q", dest, out.fwdCalls, out.fwdAddr)
			}
			r.Event("dials_via_proxy_SOCKS5", 1)
		}
		// what should have happened
		methodOK := sp.methodGoOn
		authNeeded := methodOK && sp.selected == 2
		authOK := !authNeeded || sp.authGoOn
		tooLong := cs.HostKind == "name-too-long"
		reqExpected := methodOK && authOK && !tooLong
		bound, consumed, replyOK, replyWhy := c54parseReply(sp.reply)
		wantSuccess := reqExpected && replyOK

		// username/password sub-negotiation
		if authNeeded {
			if !seen.authDecoded {
				c.Violation("auth-request-missing", "%s: server selected username/password but decoded no RFC 1929 request (err=%v)", dest, out.err)
			} else {
				if seen.auth[0] != 1 || seen.user != cs.User || seen.pass != cs.Pass {
					c.Violation("auth-request-differs", "%s: RFC 1929 request %x decodes to ver %d user %q pass %q; configured user %q pass %q", dest, seen.auth, seen.auth[0], seen.user, seen.pass, cs.User, cs.Pass)
				}
				r.Event("auth_requests_decoded", 1)
				if len(cs.User) == 255 || len(cs.Pass) == 255 {
					r.Event("auth_255_byte_field", 1)
				}
			}
		} else if seen.authDecoded {
			c.Violation("auth-request-unsolicited", "%s: RFC 1929 request sent although method %d was selected", dest, sp.selected)
		}
		// the CONNECT request
		if reqExpected {
			if !seen.reqDecoded {
				c.Violation("request-missing", "%s: no complete request reached the server (err=%v, server phase %q, header %x)", dest, out.err, seen.phase, seen.reqHeader)
			} else {
				h := seen.reqHeader
				if h[0] != 5 || h[1] != 1 || h[2] != 0 {
					c.Violation("request-header", "%s: request VER/CMD/RSV = %x, want 050100", dest, h[:3])
				}
				if seen.req.port != cs.Port {
					c.Violation("request-port", "%s: server decodes port %d (request %s)", dest, seen.req.port, seen.req)
				}
				switch cs.HostKind {
				case "ipv4":
					if seen.req.atyp != 1 || !bytes.Equal(seen.req.ip, cs.wantIP) {
						c.Violation("request-ipv4", "%s: server decodes %s", dest, seen.req)
					}
					r.Event("requests_decoded_ipv4", 1)
				case "ipv6", "ipv4-mapped-ipv6":
					okv6 := seen.req.atyp == 4 && bytes.Equal(seen.req.ip, cs.wantIP)
					okv4 := cs.wantV4in6 && seen.req.atyp == 1 && bytes.Equal(seen.req.ip, cs.wantIP[12:])
					if !okv6 && !okv4 {
						c.Violation("request-ipv6", "%s (%v): server decodes %s", dest, net.IP(cs.wantIP), seen.req)
					}
					if cs.wantV4in6 {
						r.Event("requests_decoded_ipv4_mapped", 1)
					} else {
						r.Event("requests_decoded_ipv6", 1)
					}
				case "name":
					if seen.req.atyp != 3 || seen.req.name != cs.Host {
						c.Violation("request-fqdn", "%s: server decodes %s", dest, seen.req)
					}
					r.Event("requests_decoded_fqdn", 1)
					if len(cs.Host) >= 254 {
						r.Event("requests_fqdn_254_255_bytes", 1)
					}
				}
				r.Event("requests_decoded", 1)
			}
		} else if seen.reqHeader != nil || len(seen.extra) > 0 {
			key := "request-after-failed-negotiation"
			if tooLong && methodOK && authOK {
				key = "request-for-overlong-name"
			}
			c.Violation(key, "%s: the client went on sending (request header %x, other bytes %x) although method reply=%s auth reply=%s", dest, seen.reqHeader, seen.extra, cs.Method, cs.AuthRep)
		}
		if tooLong {
			r.Event("overlong_names", 1)
		}
		// outcome
		switch {
		case wantSuccess && out.err != nil:
			c.Violation("valid-reply-rejected", "%s: error %v on a well-formed success reply %s (bound %s)", dest, out.err, cs.Reply, bound)
		case !wantSuccess && out.err == nil:
			key := "malformed-reply-accepted"
			why := replyWhy
			switch {
			case tooLong:
				key, why = "overlong-name-accepted", "name longer than 255 bytes"
			case !methodOK:
				key, why = "bad-method-reply-accepted", "method reply "+cs.Method
			case !authOK:
				key, why = "bad-auth-reply-accepted", "auth reply "+cs.AuthRep
			}
			c.Violation(key, "%s: dial succeeded (addr %v) although %s; reply=%s [%s]", dest, out.addr, why, cs.Reply, cs.ReplyWhy)
		case wantSuccess:
			r.Event("dials_succeeded", 1)
			if cs.Path != "proxy.Dial" {
				a, isAddr := out.addr.(*socks.Addr)
				switch {
				case !isAddr || a == nil:
					c.Violation("bound-address-type", "%s: bound address is %T %v", dest, out.addr, out.addr)
				case bound.atyp == 3:
					if a.IP != nil || a.Name != bound.name || a.Port != bound.port {
						c.Violation("bound-address-fqdn", "%s: bound address %+v, server reported %s", dest, *a, bound)
					}
					r.Event("bound_addresses_compared_fqdn", 1)
				default:
					if !bytes.Equal([]byte(a.IP), bound.ip) || a.Name != "" || a.Port != bound.port {
						c.Violation("bound-address-ip", "%s: bound address %+v (IP bytes %x), server reported %s", dest, *a, []byte(a.IP), bound)
					}
					r.Event(fmt.Sprintf("bound_addresses_compared_atyp%d", bound.atyp), 1)
				}
			}
			if cs.Path != "DialWithConn" && !out.rawIsPipe {
				c.Violation("proxy-conn-identity", "%s: returned connection does not wrap the forward dialer's connection", dest)
			}
			if consumed < len(sp.reply) {
				if out.trailErr != nil || !bytes.Equal(out.trailing, sp.reply[consumed:]) {
					c.Violation("stream-bytes-after-reply-consumed", "%s: %d bytes followed the reply; afterwards the connection yields %x (err %v), want %x", dest, len(sp.reply)-consumed, out.trailing, out.trailErr, sp.reply[consumed:])
				}
				r.Event("trailing_stream_bytes_intact", 1)
			}
		default:
			r.Event("dials_failed_as_expected", 1)
			switch {
			case !methodOK:
				r.Event("errors_on_bad_method_reply", 1)
			case !authOK:
				r.Event("errors_on_bad_auth_reply", 1)
			case tooLong:
				r.Event("errors_on_overlong_name", 1)
			default:
				r.Event("errors_on_bad_reply_"+cs.ReplyWhy, 1)
				if replyWhy == "truncated header" || strings.HasPrefix(replyWhy, "truncated") {
					r.Event("errors_on_truncated_reply", 1)
				}
			}
			if out.addr != nil && cs.Path == "DialWithConn" {
				c.Violation("address-with-error", "%s: non-nil address %v together with error %v", dest, out.addr, out.err)
			}
		}
		r.Eval(seen.reqDecoded || cs.ReplyWhy != "valid", cs.Host, cs.Port, cs.User, cs.Pass, cs.Method, cs.AuthRep, cs.Reply, cs.Path)
		if c.Index < 40 && c.Index%7 == 3 {
			r.Sample(map[string]any{"case": cs, "server_decoded_request": seen.req.String(), "error": fmt.Sprint(out.err), "bound": fmt.Sprint(out.addr)})
		}
	})
	r.Require("requests_decoded_ipv4", 500)
	r.Require("requests_decoded_ipv6", 500)
	r.Require("requests_decoded_fqdn", 1000)
	r.Require("requests_fqdn_254_255_bytes", 100)
	r.Require("auth_requests_decoded", 500)
	r.Require("auth_255_byte_field", 50)
	r.Require("dials_succeeded", 1000)
	r.Require("bound_addresses_compared_fqdn", 200)
	r.Require("bound_addresses_compared_atyp1", 200)
	r.Require("bound_addresses_compared_atyp4", 200)
	r.Require("errors_on_truncated_reply", 500)
	r.Require("errors_on_bad_method_reply", 300)
	r.Require("errors_on_bad_auth_reply", 100)
	r.Require("overlong_names", 300)
	r.Require("trailing_stream_bytes_intact", 200)
	r.Require("dials_via_proxy_SOCKS5", 2000)
}
