//go:build verif && race

package http3

const vqsRaceEnabled = true
