//go:build verif

package http3

// C33: QPACK field sections round-trip and the decoder rejects bad input safely.
//
// Every encoded field section travels as the payload of a HEADERS frame on a fresh QUIC
// stream of a real in-memory QUIC connection (synctest bubble) and is decoded by
// qpackDecoder.decode through stream.readFrameHeader/endFrame, exactly the way server.go and
// roundtrip.go drive it. The oracle is qpackref (RFC 9204 walker written for the harness, own
// static table snapshot, hpackref Huffman code).

import (
	"bytes"
	"errors"
	"fmt"
	"io"
	"math/rand/v2"
	"runtime/debug"
	"strings"
	"testing"
	"time"

	"golang.org/x/net/internal/verifrt"
	"golang.org/x/net/internal/verifrt/hpackref"
	"golang.org/x/net/internal/verifrt/qpackref"
)

// ---------- driving the real decoder ----------

type v33Mode struct {
	Cuts     []int // deliver the stream bytes in pieces cut at these offsets
	Trailing bool  // a DATA frame with a marker follows the HEADERS frame
	Longer   int   // the frame header declares this many more octets than are sent before FIN
}

type v33Out struct {
	fields   []qpackref.Field
	err      error
	panicKey string
	panicMsg string
	hdrBad   string // readFrameHeader misbehaved
	after    string // what was wrong after a successful decode ("" = all good)
}

var v33Marker = []byte("\x00MARKER-after-headers\xff")

func v33Wire(payload []byte, m v33Mode) []byte {
	wire := vqsVarint(nil, uint64(frameTypeHeaders), 0)
	wire = vqsVarint(wire, uint64(len(payload)+m.Longer), 0)
	wire = append(wire, payload...)
	if m.Trailing {
		wire = vqsVarint(wire, uint64(frameTypeData), 0)
		wire = vqsVarint(wire, uint64(len(v33Marker)), 0)
		wire = append(wire, v33Marker...)
	}
	return wire
}

// v33Decode sends payload in a HEADERS frame on a new stream and runs the real decoder on
// the receiving side.
func v33Decode(t testing.TB, p *vqsPair, payload []byte, m v33Mode) (out v33Out) {
	wire := v33Wire(payload, m)
	_, st, wait := p.sendUni(t, wire, m.Cuts, true)
	qs := st.stream
	defer wait()
	defer qs.CloseRead()
	func() {
		defer func() {
			if e := recover(); e != nil {
				stk := string(debug.Stack())
				out.panicKey = vqsPanicKey(e, stk)
				out.panicMsg = fmt.Sprintf("%v\n%s", e, stk)
			}
		}()
		ftype, err := st.readFrameHeader()
		if err != nil || ftype != frameTypeHeaders || st.lim != int64(len(payload)+m.Longer) {
			out.hdrBad = fmt.Sprintf("readFrameHeader = %v, %v, lim %d; sent HEADERS length %d", ftype, err, st.lim, len(payload)+m.Longer)
			return
		}
		var dec qpackDecoder
		out.err = dec.decode(st, func(itype indexType, name, value string) error {
			out.fields = append(out.fields, qpackref.Field{Name: name, Value: value, Never: itype == neverIndex})
			if itype != neverIndex && itype != mayIndex {
				out.after = fmt.Sprintf("callback got indexType %#x", byte(itype))
			}
			return nil
		})
		if out.err != nil || out.after != "" {
			return
		}
		if err := st.endFrame(); err != nil {
			out.after = fmt.Sprintf("endFrame after successful decode: %v (lim %d)", err, st.lim)
			return
		}
		if m.Trailing {
			ft, err := st.readFrameHeader()
			if err != nil || ft != frameTypeData || st.lim != int64(len(v33Marker)) {
				out.after = fmt.Sprintf("next frame header after HEADERS = %v, %v, lim %d; want DATA length %d", ft, err, st.lim, len(v33Marker))
				return
			}
			got, err := st.readFrameData()
			if err != nil || !bytes.Equal(got, v33Marker) {
				out.after = fmt.Sprintf("frame after HEADERS carried %q, %v; want the marker", got, err)
				return
			}
			if err := st.endFrame(); err != nil {
				out.after = fmt.Sprintf("endFrame of trailing frame: %v", err)
				return
			}
		}
		if _, err := st.readFrameHeader(); err != io.EOF {
			out.after = fmt.Sprintf("after the last frame readFrameHeader = %v, want io.EOF", err)
		}
	}()
	return out
}

func v33ErrClass(err error) string {
	var code http3Error
	if errors.As(err, &code) {
		return code.Error()
	}
	s := err.Error()
	if len(s) > 40 {
		s = s[:40]
	}
	return "other:" + strings.Join(strings.Fields(s), "_")
}

// ---------- generators ----------

type v33In struct {
	Name, Value string
	Never       bool
}

const v33Token = "abcdefghijklmnopqrstuvwxyzABCDEFGHIJKLMNOPQRSTUVWXYZ0123456789-_.!#$%&'*+^`|~"

func v33Pick[T any](rng *rand.Rand, xs []T) T { return xs[rng.IntN(len(xs))] }

func v33RandString(rng *rand.Rand, n int, alphabet string) string {
	b := make([]byte, n)
	for i := range b {
		if alphabet == "" {
			b[i] = byte(rng.Uint32())
		} else {
			b[i] = alphabet[rng.IntN(len(alphabet))]
		}
	}
	return string(b)
}

func v33MixCase(rng *rand.Rand, s string) string {
	b := []byte(s)
	for i, c := range b {
		if 'a' <= c && c <= 'z' && rng.IntN(2) == 0 {
			b[i] = c - 32
		}
	}
	return string(b)
}

func v33Len(rng *rand.Rand) int {
	switch rng.IntN(10) {
	case 0:
		return 0
	case 1:
		return v33Pick(rng, []int{1, 6, 7, 8, 126, 127, 128, 129, 254, 255, 256, 300})
	case 2:
		return v33Pick(rng, []int{1000, 16383, 16384, 16511, 16512, 20000})
	default:
		return 1 + rng.IntN(40)
	}
}

func v33Value(rng *rand.Rand) string {
	switch rng.IntN(8) {
	case 0: // exactly a static value
		return qpackref.StaticTable[rng.IntN(99)].Value
	case 1: // near miss of a static value
		v := qpackref.StaticTable[rng.IntN(99)].Value
		switch rng.IntN(3) {
		case 0:
			return v + " "
		case 1:
			return strings.ToUpper(v)
		default:
			if len(v) > 0 {
				return v[:len(v)-1]
			}
			return "0"
		}
	case 2: // arbitrary octets: Huffman never pays
		return v33RandString(rng, v33Len(rng), "")
	case 3: // digits: 5- and 6-bit codes
		return v33RandString(rng, v33Len(rng), "0123456789")
	case 4: // symbols with long codes mixed with short ones
		return v33RandString(rng, v33Len(rng), "ae0 \\{}<>^~\x7f\x00\xff")
	default:
		return v33RandString(rng, v33Len(rng), v33Token+" /;=,\"()")
	}
}

// v33Name returns a field name and its class: "ascii" (printable ASCII: must come back lower
// cased), "nonascii" (an octet >= 0x80: must be skipped), "ctrl" (ASCII control octet: the
// statement does not say; either).
func v33Name(rng *rand.Rand, pseudo bool) (string, string) {
	if pseudo {
		n := v33Pick(rng, []string{":method", ":path", ":scheme", ":authority", ":status", ":protocol", ":x-unknown", ":"})
		if rng.IntN(6) == 0 {
			n = v33MixCase(rng, n)
		}
		return n, "ascii"
	}
	switch rng.IntN(12) {
	case 0, 1, 2: // static table name, various spellings
		n := qpackref.StaticTable[rng.IntN(99)].Name
		for n[0] == ':' {
			n = qpackref.StaticTable[rng.IntN(99)].Name
		}
		switch rng.IntN(4) {
		case 0:
			return n, "ascii"
		case 1:
			return v33MixCase(rng, n), "ascii"
		case 2: // canonical MIME form
			b := []byte(n)
			up := true
			for i, c := range b {
				if up && 'a' <= c && c <= 'z' {
					b[i] = c - 32
				}
				up = c == '-'
			}
			return string(b), "ascii"
		default:
			return strings.ToUpper(n), "ascii"
		}
	case 3: // near miss of a static name
		n := qpackref.StaticTable[rng.IntN(99)].Name
		for n[0] == ':' {
			n = qpackref.StaticTable[rng.IntN(99)].Name
		}
		if rng.IntN(2) == 0 {
			return n + "s", "ascii"
		}
		return n[:len(n)-1] + "_", "ascii"
	case 4: // non-ASCII
		base := v33RandString(rng, 1+rng.IntN(8), v33Token)
		i := rng.IntN(len(base) + 1)
		return base[:i] + v33Pick(rng, []string{"\x80", "\xff", "\u00e9", "\u017f", "\u212a", "\xc0\xaf"}) + base[i:], "nonascii"
	case 5: // printable but not a token
		base := v33RandString(rng, 1+rng.IntN(8), v33Token)
		i := 1 + rng.IntN(len(base))
		return base[:i] + v33Pick(rng, []string{" ", ":", "\"", "(", "/", "=", "@", "~", "[", "{"}) + base[i:], "ascii"
	case 6: // control octet
		base := v33RandString(rng, 1+rng.IntN(8), v33Token)
		i := 1 + rng.IntN(len(base))
		return base[:i] + v33Pick(rng, []string{"\x00", "\t", "\n", "\r", "\x1f", "\x7f"}) + base[i:], "ctrl"
	case 7: // length boundaries of the 3-bit prefix and beyond
		return v33RandString(rng, v33Pick(rng, []int{1, 6, 7, 8, 9, 134, 135, 300}), v33Token), "ascii"
	default:
		return v33RandString(rng, 1+rng.IntN(20), v33Token), "ascii"
	}
}

func v33Lower(s string) string {
	b := []byte(s)
	for i, c := range b {
		if 'A' <= c && c <= 'Z' {
			b[i] = c + 32
		}
	}
	return string(b)
}

type v33List struct {
	In     []v33In
	class  []string
	Reject string // "", "empty-name", "pseudo-after-regular": what the decoder has to say
}

func v33GenList(rng *rand.Rand) v33List {
	var l v33List
	np := rng.IntN(5)
	nr := rng.IntN(12)
	if rng.IntN(10) == 0 {
		nr = rng.IntN(40)
	}
	ctrlUsed := false
	add := func(pseudo bool) {
		n, cl := v33Name(rng, pseudo)
		for cl == "ctrl" && ctrlUsed {
			n, cl = v33Name(rng, pseudo)
		}
		if cl == "ctrl" {
			ctrlUsed = true
		}
		l.In = append(l.In, v33In{n, v33Value(rng), rng.IntN(3) == 0})
		l.class = append(l.class, cl)
	}
	for i := 0; i < np; i++ {
		add(true)
	}
	for i := 0; i < nr; i++ {
		add(false)
	}
	// a static (name, value) pair verbatim now and then
	for k := rng.IntN(4); k > 0 && len(l.In) > 0; k-- {
		e := qpackref.StaticTable[rng.IntN(99)]
		i := rng.IntN(len(l.In))
		pseudoSlot := i < np
		if (e.Name[0] == ':') == pseudoSlot && l.class[i] != "ctrl" {
			l.In[i].Name, l.In[i].Value, l.class[i] = e.Name, e.Value, "ascii"
		}
	}
	switch rng.IntN(12) {
	case 0: // an empty name somewhere
		i := rng.IntN(len(l.In) + 1)
		l.In = append(l.In[:i], append([]v33In{{"", v33Value(rng), rng.IntN(2) == 0}}, l.In[i:]...)...)
		l.class = append(l.class[:i], append([]string{"ascii"}, l.class[i:]...)...)
		l.Reject = qpackref.RejEmptyName
	case 1: // a pseudo header after a regular field that is certainly encoded
		regular := -1
		for i := np; i < len(l.In); i++ {
			if l.class[i] == "ascii" {
				regular = i
				break
			}
		}
		if regular >= 0 && !ctrlUsed {
			n, _ := v33Name(rng, true)
			l.In = append(l.In, v33In{n, v33Value(rng), false})
			l.class = append(l.class, "ascii")
			l.Reject = qpackref.RejPseudoAfterReg
		}
	}
	return l
}

// expected computes the decoded list demanded by the statement: names lower-cased, non-ASCII
// names skipped; the single possible control-octet name may be present or absent.
func (l *v33List) expected(ctrlKept bool) []qpackref.Field {
	var out []qpackref.Field
	for i, in := range l.In {
		switch l.class[i] {
		case "nonascii":
			continue
		case "ctrl":
			if !ctrlKept {
				continue
			}
		}
		out = append(out, qpackref.Field{Name: v33Lower(in.Name), Value: in.Value, Never: in.Never})
	}
	return out
}

// v33Foreign writes a valid field section the way some other encoder might: any legal
// spelling of every field (Huffman or not regardless of size, padded integers, name
// references to any entry with the right name, literal names even when the table has them).
func v33Foreign(rng *rand.Rand, bigPad bool) ([]byte, []int) {
	pad := func() int {
		if bigPad && rng.IntN(3) == 0 {
			return 9 + rng.IntN(4)
		}
		if rng.IntN(4) == 0 {
			return 1 + rng.IntN(3)
		}
		return 0
	}
	sign := false
	var db uint64
	b := qpackref.AppendPrefix(nil, 0, sign, db, 0)
	bounds := []int{len(b)} // offsets at which a representation starts, plus the end
	np, nr := rng.IntN(4), rng.IntN(8)
	for i := 0; i < np+nr; i++ {
		if i > 0 {
			bounds = append(bounds, len(b))
		}
		pseudo := i < np
		never := rng.IntN(3) == 0
		switch rng.IntN(3) {
		case 0: // indexed
			idx := rng.IntN(99)
			for (qpackref.StaticTable[idx].Name[0] == ':') != pseudo {
				idx = rng.IntN(99)
			}
			b = qpackref.AppendIndexed(b, true, uint64(idx), pad())
		case 1: // name reference (not necessarily the first entry with that name)
			idx := rng.IntN(99)
			for (qpackref.StaticTable[idx].Name[0] == ':') != pseudo {
				idx = rng.IntN(99)
			}
			v := v33Value(rng)
			b = qpackref.AppendNameRef(b, never, true, uint64(idx), v, rng.IntN(2) == 0, pad(), pad())
		default:
			n, _ := v33Name(rng, pseudo)
			if rng.IntN(3) == 0 {
				n = v33RandString(rng, 1+rng.IntN(10), "") // any octets: the decoder does not judge names
				if pseudo {
					n = ":" + n
				} else if n[0] == ':' {
					n = "x" + n
				}
			}
			v := v33Value(rng)
			b = qpackref.AppendLiteral(b, never, n, rng.IntN(2) == 0, v, rng.IntN(2) == 0, pad(), pad())
		}
	}
	if np+nr > 0 {
		bounds = append(bounds, len(b))
	}
	return b, bounds
}

// v33Bad returns one representation (or prefix) of the named bad kind.
var v33BadKinds = []string{"dyn-indexed", "dyn-nameref", "postbase-indexed", "postbase-nameref", "static-oob-indexed", "static-oob-nameref",
	"string-oversized-name", "string-oversized-value", "huffman-bad-padding", "huffman-eos", "huffman-long-padding", "empty-name", "empty-name-huffman",
	"pseudo-after-regular", "int-extreme-index", "int-extreme-length", "int-truncated"}

func v33ExtremeInt(rng *rand.Rand, n uint, flags byte) []byte {
	mask := uint64(1)<<n - 1
	switch rng.IntN(6) {
	case 0: // just below / at / above 2^62
		return hpackref.AppendInt(nil, n, flags, uint64(1)<<62-1+uint64(rng.IntN(3)), 0)
	case 1: // around 2^63
		return hpackref.AppendInt(nil, n, flags, uint64(1)<<63-2+uint64(rng.IntN(4)), 0)
	case 2: // the top of 64 bits
		return hpackref.AppendInt(nil, n, flags, ^uint64(0)-uint64(rng.IntN(int(mask)+3)), 0)
	case 3: // continuation octets spelling 2^64 - mask + small: wraps to "small" when the prefix is added without a guard
		b := []byte{flags | byte(mask)}
		v := ^uint64(0) - mask + 1 + uint64(rng.IntN(4)) // may wrap to 0..3 itself: then 2^64+k, 10 octets
		for i := 0; i < 9; i++ {
			b = append(b, byte(v&0x7f)|0x80)
			v >>= 7
		}
		return append(b, byte(v)|byte(rng.IntN(2))<<1) // tenth octet: bit 0 (2^63), sometimes an overflowing bit
	case 4: // beyond 64 bits
		return hpackref.AppendIntWrapped(nil, n, flags, mask+uint64(rng.IntN(100)), 9+rng.IntN(3), byte(1+rng.IntN(127)))
	default: // any 64-bit pattern
		return hpackref.AppendInt(nil, n, flags, mask+rng.Uint64()>>uint(rng.IntN(3)), 0)
	}
}

func v33Bad(rng *rand.Rand, kind string) []byte {
	huffTail := func(s string, tail []byte) []byte { return append(hpackref.HuffmanEncode(nil, s), tail...) }
	rawHuff := func(dst []byte, n uint, flags byte, enc []byte) []byte {
		dst = hpackref.AppendInt(dst, n, flags|1<<n, uint64(len(enc)), 0)
		return append(dst, enc...)
	}
	switch kind {
	case "dyn-indexed":
		return qpackref.AppendIndexed(nil, false, uint64(rng.IntN(200)), 0)
	case "dyn-nameref":
		return qpackref.AppendNameRef(nil, rng.IntN(2) == 0, false, uint64(rng.IntN(120)), v33Value(rng), rng.IntN(2) == 0, 0, 0)
	case "postbase-indexed":
		return qpackref.AppendPostBaseIndexed(nil, uint64(rng.IntN(40)))
	case "postbase-nameref":
		return qpackref.AppendPostBaseNameRef(nil, rng.IntN(2) == 0, uint64(rng.IntN(20)), v33Value(rng), rng.IntN(2) == 0)
	case "static-oob-indexed":
		return qpackref.AppendIndexed(nil, true, v33Pick(rng, []uint64{99, 100, 126, 127, 128, 255, 1000, 1 << 20, 1<<31 - 1, 1 << 32, 1<<62 - 1}), rng.IntN(2))
	case "static-oob-nameref":
		return qpackref.AppendNameRef(nil, rng.IntN(2) == 0, true, v33Pick(rng, []uint64{99, 100, 114, 115, 1000, 1 << 32}), v33Value(rng), rng.IntN(2) == 0, 0, 0)
	case "string-oversized-name", "string-oversized-value":
		// built by the caller: needs to be the last thing in the section
		return nil
	case "huffman-bad-padding": // a zero bit in the padding (or, on an octet boundary, an incomplete code)
		str := v33RandString(rng, 1+rng.IntN(12), v33Token)
		enc := hpackref.HuffmanEncode(nil, str)
		if hpackref.HuffmanBits(str)%8 == 0 {
			enc = append(enc, 0xfe)
		} else {
			enc[len(enc)-1] &^= 1
		}
		return rawHuff([]byte{0x23, 'x', '-', 'h'}, 7, 0, enc)
	case "huffman-eos":
		s1, s2 := v33RandString(rng, rng.IntN(6), v33Token), v33RandString(rng, rng.IntN(6), v33Token)
		// s1, then the 30-bit EOS code, then s2, bit by bit
		var bits []byte
		push := func(code uint32, l int) {
			for k := l - 1; k >= 0; k-- {
				bits = append(bits, byte(code>>uint(k)&1))
			}
		}
		for i := 0; i < len(s1); i++ {
			push(hpackref.HuffCode[s1[i]], int(hpackref.HuffLen[s1[i]]))
		}
		push(hpackref.HuffCode[hpackref.EOS], 30)
		for i := 0; i < len(s2); i++ {
			push(hpackref.HuffCode[s2[i]], int(hpackref.HuffLen[s2[i]]))
		}
		for len(bits)%8 != 0 {
			bits = append(bits, 1)
		}
		enc := make([]byte, len(bits)/8)
		for i, bt := range bits {
			enc[i/8] |= bt << uint(7-i%8)
		}
		return rawHuff([]byte{0x23, 'x', '-', 'e'}, 7, 0, enc)
	case "huffman-long-padding":
		return rawHuff([]byte{0x23, 'x', '-', 'p'}, 7, 0, huffTail(v33RandString(rng, rng.IntN(8), v33Token), bytes.Repeat([]byte{0xff}, 1+rng.IntN(3))))
	case "empty-name":
		return qpackref.AppendLiteral(nil, rng.IntN(2) == 0, "", false, v33Value(rng), rng.IntN(2) == 0, 0, 0)
	case "empty-name-huffman":
		return qpackref.AppendLiteral(nil, rng.IntN(2) == 0, "", true, v33Value(rng), rng.IntN(2) == 0, 0, 0)
	case "pseudo-after-regular":
		b := qpackref.AppendLiteral(nil, false, "x-regular", rng.IntN(2) == 0, "1", false, 0, 0)
		if rng.IntN(2) == 0 {
			return qpackref.AppendIndexed(b, true, uint64(v33Pick(rng, []int{0, 1, 15, 17, 22, 25, 63, 71})), 0)
		}
		return qpackref.AppendLiteral(b, false, v33Pick(rng, []string{":path", ":x", ":"}), rng.IntN(2) == 0, "/", false, 0, 0)
	case "int-extreme-index":
		if rng.IntN(2) == 0 {
			return v33ExtremeInt(rng, 6, 0xc0)
		}
		return append(v33ExtremeInt(rng, 4, 0x50), 0x00)
	case "int-extreme-length":
		switch rng.IntN(3) {
		case 0: // name length
			return v33ExtremeInt(rng, 3, 0x20|byte(rng.IntN(2))<<3|byte(rng.IntN(2))<<4)
		case 1: // value length after a name reference
			return append([]byte{0x50 | byte(rng.IntN(15))}, v33ExtremeInt(rng, 7, byte(rng.IntN(2))<<7)...)
		default: // value length after a literal name
			return append([]byte{0x21, 'a'}, v33ExtremeInt(rng, 7, byte(rng.IntN(2))<<7)...)
		}
	case "int-truncated":
		b := hpackref.AppendInt(nil, 6, 0xc0, 63+uint64(rng.IntN(1<<20)), rng.IntN(3))
		b[len(b)-1] |= 0x80
		return b
	}
	panic("unknown bad kind " + kind)
}

// v33Hostile builds one hostile payload; the returned label names the strategy.
func v33Hostile(rng *rand.Rand, enc *qpackEncoder) (payload []byte, label string) {
	base := func() []byte {
		if rng.IntN(3) == 0 {
			l := v33GenList(rng)
			return enc.encode(func(f func(itype indexType, name, value string)) {
				for _, in := range l.In {
					it := indexType(mayIndex)
					if in.Never {
						it = neverIndex
					}
					f(it, in.Name, in.Value)
				}
			})
		}
		b, _ := v33Foreign(rng, false)
		return b
	}
	switch s := rng.IntN(20); {
	case s < 3:
		b, _ := v33Foreign(rng, rng.IntN(4) == 0)
		return b, "valid-foreign"
	case s < 5: // field section prefix variants
		ric := uint64(0)
		switch rng.IntN(4) {
		case 0:
			ric = 1 + uint64(rng.IntN(300))
		case 1:
			ric = rng.Uint64() >> uint(rng.IntN(64))
		}
		b := hpackref.AppendInt(nil, 8, 0, ric, 0)
		if rng.IntN(5) == 0 {
			b = v33ExtremeInt(rng, 8, 0)
		}
		var sign byte
		if rng.IntN(3) == 0 {
			sign = 0x80
		}
		switch rng.IntN(4) {
		case 0:
			b = append(b, v33ExtremeInt(rng, 7, sign)...)
		case 1:
			b = hpackref.AppendInt(b, 7, sign, uint64(rng.IntN(1000)), rng.IntN(12))
		default:
			b = hpackref.AppendInt(b, 7, sign, uint64(rng.IntN(3)), 0)
		}
		f, _ := v33Foreign(rng, false)
		return append(b, f[2:]...), "prefix-variant"
	case s < 11: // one targeted defect inside (or at the end of) a valid section
		kind := v33Pick(rng, v33BadKinds)
		f, bounds := v33Foreign(rng, false)
		switch kind {
		case "string-oversized-name", "string-oversized-value":
			over := uint64(1 + rng.IntN(3))
			if rng.IntN(3) == 0 {
				over = uint64(1) << uint(7+rng.IntN(50))
			}
			body := v33RandString(rng, rng.IntN(20), v33Token)
			if kind == "string-oversized-name" {
				f = hpackref.AppendInt(f, 3, 0x20|byte(rng.IntN(2))<<4, uint64(len(body))+over, 0)
			} else {
				f = append(f, 0x50|byte(rng.IntN(15)))
				f = hpackref.AppendInt(f, 7, 0, uint64(len(body))+over, 0)
			}
			return append(f, body...), "bad:" + kind
		}
		bad := v33Bad(rng, kind)
		// insert between two representations of f: walk f with the reference to find boundaries
		cutAt := len(f)
		if rng.IntN(2) == 0 {
			cutAt = v33Pick(rng, bounds)
		}
		out := append(append(append([]byte{}, f[:cutAt]...), bad...), f[cutAt:]...)
		return out, "bad:" + kind
	case s < 17: // byte-level mutations of a valid section
		b := append([]byte{}, base()...)
		for k := 1 + rng.IntN(3); k > 0; k-- {
			switch m := rng.IntN(7); {
			case len(b) == 0 || m == 0:
				i := rng.IntN(len(b) + 1)
				b = append(b[:i], append([]byte{byte(rng.Uint32())}, b[i:]...)...)
			case m == 1:
				b[rng.IntN(len(b))] ^= 1 << uint(rng.IntN(8))
			case m == 2:
				b[rng.IntN(len(b))] = byte(rng.Uint32())
			case m == 3:
				b = b[:rng.IntN(len(b)+1)]
			case m == 4:
				i := rng.IntN(len(b))
				b = append(b[:i], b[i+1:]...)
			case m == 5:
				i := rng.IntN(len(b))
				j := i + rng.IntN(len(b)-i+1)
				b = append(b[:j:j], b[i:]...)
			default:
				b[rng.IntN(len(b))] = v33Pick(rng, []byte{0x00, 0x7f, 0x80, 0xff, 0x0f, 0x1f, 0x3f, 0x27, 0x2f})
			}
		}
		return b, "mutated"
	default:
		n := rng.IntN(25)
		b := []byte(v33RandString(rng, n, ""))
		if rng.IntN(10) < 7 && n >= 2 {
			b[0], b[1] = 0, 0
		}
		return b, "random"
	}
}

func v33Mode4(rng *rand.Rand, payloadLen int) v33Mode {
	var m v33Mode
	wireLen := payloadLen + 2
	if rng.IntN(5) == 0 && wireLen > 1 {
		n := 1 + rng.IntN(3)
		seen := map[int]bool{}
		for i := 0; i < n; i++ {
			c := rng.IntN(wireLen)
			if !seen[c] {
				seen[c] = true
				m.Cuts = append(m.Cuts, c)
			}
		}
		for i := range m.Cuts { // sort (tiny)
			for j := i + 1; j < len(m.Cuts); j++ {
				if m.Cuts[j] < m.Cuts[i] {
					m.Cuts[i], m.Cuts[j] = m.Cuts[j], m.Cuts[i]
				}
			}
		}
	}
	if rng.IntN(3) == 0 {
		m.Trailing = true
	}
	return m
}

func v33Ins(l []v33In) string {
	var sb strings.Builder
	for _, in := range l {
		fmt.Fprintf(&sb, " {%q:%q never=%v}", in.Name, in.Value, in.Never)
	}
	return sb.String()
}

func v33Hex(b []byte) string {
	if len(b) > 600 {
		return fmt.Sprintf("%x…(%d octets)", b[:600], len(b))
	}
	return fmt.Sprintf("%x", b)
}

func v33Fields(fs []qpackref.Field) string {
	var sb strings.Builder
	for i, f := range fs {
		if i >= 12 {
			fmt.Fprintf(&sb, " …(%d fields)", len(fs))
			break
		}
		v := f.Value
		if len(v) > 60 {
			v = v[:60] + "…"
		}
		fmt.Fprintf(&sb, " {%q:%q never=%v}", f.Name, v, f.Never)
	}
	return sb.String()
}

// ---------- the monitor ----------

// v33StuckLimit: see vqsWatch. A whole batch of 100 payloads takes about a second.
const v33StuckLimit = 150 * time.Second

func TestVerif_C33(t *testing.T) {
	r := verifrt.Start(t, "C33")
	defer r.Finish()
	r.ExitIfAbnormal()
	r.SetRule("round-trip: PRNG field lists (0-4 pseudo + 0-40 regular fields; names: static-table names in any case, near misses, tokens, printable non-tokens, names with an octet >=0x80 (must be skipped), one control-octet name (either); values: static values and near misses, arbitrary octets, digits, long-code symbols, lengths on the 7-bit/3-bit prefix boundaries up to 20000; never-index on a third) encoded by qpackEncoder.encode, carried as a HEADERS frame over a real QUIC stream and decoded by qpackDecoder.decode; hostile: field sections written by a harness encoder in foreign-but-legal spellings, the same with one targeted defect, byte-mutated sections, PRNG octets. non-trivial = a section whose reference walk met at least two representation kinds, or a Huffman string, or a multi-octet integer, or a reject; distinct by payload bytes")
	r.Assume("qpackref (RFC 9204 walker, frozen 99-entry static table, hpackref Huffman code) is correct; it is pinned by the wire vectors quoted in the repository's QPACK tests")
	r.Assume("a section with Sign=1/Required Insert Count=0, an integer >= 2^62 or one with more than 9 continuation octets may be accepted or rejected (not named by the statement)")
	if err := qpackref.SelfCheck(); err != nil {
		t.Fatalf("reference self check failed (inconclusive): %v", err)
	}
	var enc qpackEncoder
	enc.init()

	// --- prefixed integers: append side against the reference reader, read side over a stream ---
	r.Cases("prefixed-int", r.N(4, 60), func(c *verifrt.Case) {
		type tc struct {
			n    uint8
			high byte
			v    uint64
			wire []byte
		}
		var tcs []tc
		addv := func(n uint8, v uint64, pad int) {
			mask := byte(1)<<n - 1
			high := byte(c.Rng.Uint32()) &^ mask
			x := tc{n: n, high: high, v: v}
			if pad < 0 {
				x.wire = appendPrefixedInt(nil, high, n, int64(v))
				i, ok := hpackref.ReadInt(x.wire, uint(n))
				if !ok || i.Huge || i.V != v || i.Len != len(x.wire) || x.wire[0]&^mask != high {
					c.Describe(map[string]any{"prefixLen": n, "value": v, "firstByte": high})
					c.Violation("appendint-wrong", "appendPrefixedInt(nil, %#x, %d, %d) = %x; the reference reads %+v ok=%v", high, n, v, x.wire, i, ok)
				}
				if !bytes.Equal(x.wire, hpackref.AppendInt(nil, uint(n), high, v, 0)) {
					r.Event("appendint_not_shortest", 1)
				}
				r.Event("ints_appended", 1)
			} else {
				x.wire = hpackref.AppendInt(nil, uint(n), high, v, pad)
				r.Event("ints_foreign_spelling", 1)
			}
			tcs = append(tcs, x)
		}
		for n := uint8(1); n <= 8; n++ {
			mask := uint64(1)<<n - 1
			if c.Index == 0 {
				for v := uint64(0); v < 520; v++ {
					addv(n, v, -1)
				}
				for k := uint(0); k <= 62; k++ {
					for _, d := range []int64{-1, 0, 1} {
						v := int64(1)<<k + d
						if v >= 0 && uint64(v) < 1<<62 {
							addv(n, uint64(v), -1)
							addv(n, uint64(v)+mask, -1)
						}
					}
				}
			}
			for i := 0; i < 300; i++ {
				v := c.Rng.Uint64() >> uint(2+c.Rng.IntN(62))
				addv(n, v, -1)
				if v >= mask {
					// minimal has m continuation octets; stay within nine in total
					m := 1
					for rest := v - mask; rest >= 128; rest >>= 7 {
						m++
					}
					if pad := c.Rng.IntN(10 - m); pad > 0 && m+pad <= 9 {
						addv(n, v, pad)
					}
				}
			}
		}
		var wire []byte
		for _, x := range tcs {
			wire = append(wire, x.wire...)
		}
		inner, outer := vqsBubble(t, func(t *testing.T) {
			p := vqsNewPair(t)
			_, st, _ := p.sendUni(t, wire, nil, true)
			defer st.stream.CloseRead()
			for _, x := range tcs {
				fb, got, err := st.readPrefixedInt(x.n)
				if err != nil || got != int64(x.v) || fb != x.wire[0] {
					c.Describe(map[string]any{"prefixLen": x.n, "value": x.v, "wire": fmt.Sprintf("%x", x.wire)})
					c.Violation("readint-wrong", "readPrefixedInt(%d) over %x = %#x, %d, %v; want %#x, %d", x.n, x.wire, fb, got, err, x.wire[0], x.v)
					return // the stream position is unknown now
				}
				r.EvalHash(len(x.wire) > 1, uint64(x.n)<<56^x.v*31^uint64(len(x.wire)))
				r.Event("ints_read_back", 1)
			}
		})
		vqsBubbleTrouble(c, inner, outer)
	})

	// --- round trip ---
	const batch = 100
	var sampled int
	r.CasesParallel("roundtrip", r.N(100, 1000), 8, func(c *verifrt.Case) {
		var prog vqsProgress
		defer vqsWatch(r, c, &prog, v33StuckLimit)()
		inner, outer := vqsBubble(t, func(t *testing.T) {
			p := vqsNewPair(t)
			for k := 0; k < batch; k++ {
				l := v33GenList(c.Rng)
				prog.step(fmt.Sprintf("roundtrip sub %d list=%s", k, v33Ins(l.In)))
				desc := map[string]any{"sub": k, "list": l.In}
				got := enc.encode(func(f func(itype indexType, name, value string)) {
					for _, in := range l.In {
						it := indexType(mayIndex)
						if in.Never {
							it = neverIndex
						}
						f(it, in.Name, in.Value)
					}
				})
				desc["encoded"] = v33Hex(got)
				m := v33Mode4(c.Rng, len(got))
				desc["mode"] = m
				ref := qpackref.Decode(got)
				out := v33Decode(t, p, got, m)
				viol := func(key, f string, a ...any) {
					c.Describe(desc)
					c.Violation(key, "%s\nlist=%+v\nencoded=%s", fmt.Sprintf(f, a...), l.In, v33Hex(got))
				}
				r.Event("rt_lists", 1)
				r.Event("rt_fields_in", int64(len(l.In)))
				switch {
				case out.panicKey != "":
					viol(out.panicKey, "decoder panicked: %s", out.panicMsg)
				case out.hdrBad != "":
					viol("frame-header-misread", "%s", out.hdrBad)
				case l.Reject != "":
					r.Event("rt_encoder_output_must_be_rejected_"+l.Reject, 1)
					if out.err == nil {
						viol("roundtrip-accepts-"+l.Reject, "decoder accepted a section holding %s: %s", l.Reject, v33Fields(out.fields))
					}
					if ref.Reject != l.Reject {
						viol("encoder-output-vs-reference", "reference verdict %q, expected %q", ref.Reject, l.Reject)
					}
				case out.err != nil:
					viol("roundtrip-decode-error", "decode of the encoder's own output failed: %v", out.err)
				default:
					ok := false
					var want []qpackref.Field
					for _, kept := range []bool{false, true} {
						want = l.expected(kept)
						if qpackref.EqualFields(out.fields, want) {
							ok = true
							hasCtrl := false
							for _, cl := range l.class {
								hasCtrl = hasCtrl || cl == "ctrl"
							}
							if hasCtrl {
								if kept {
									r.Event("rt_ctrl_name_encoded", 1)
								} else {
									r.Event("rt_ctrl_name_skipped", 1)
								}
							}
							break
						}
					}
					if !ok {
						key := "roundtrip-fields-differ"
						if len(out.fields) == len(want) {
							for i := range want {
								if out.fields[i] != want[i] {
									switch {
									case out.fields[i].Name != want[i].Name:
										key = "roundtrip-name-differs"
									case out.fields[i].Value != want[i].Value:
										key = "roundtrip-value-differs"
									default:
										key = "roundtrip-never-flag-differs"
									}
									break
								}
							}
						}
						viol(key, "decoded:%s\nwant:   %s", v33Fields(out.fields), v33Fields(want))
					}
					if out.after != "" {
						viol("frame-boundary", "%s", out.after)
					}
					if !ref.Accepted() || len(ref.MayReject) > 0 || ref.NegativeBase {
						viol("encoder-output-vs-reference", "reference verdict on the encoder's output: reject=%q mayReject=%v negBase=%v", ref.Reject, ref.MayReject, ref.NegativeBase)
					} else if !qpackref.EqualFields(ref.Fields, out.fields) {
						viol("encoder-output-vs-reference", "reference decodes the encoder's output to%s\nreal decoder to%s", v33Fields(ref.Fields), v33Fields(out.fields))
					}
					r.Event("rt_fields_out", int64(len(out.fields)))
					skipped := 0
					for _, cl := range l.class {
						if cl == "nonascii" {
							skipped++
						}
					}
					r.Event("rt_nonascii_names_skipped", int64(skipped))
					r.Event("rt_lines_indexed", int64(ref.Indexed))
					r.Event("rt_lines_name_reference", int64(ref.NameRef))
					r.Event("rt_lines_literal_name", int64(ref.Literal))
					r.Event("rt_never_index_lines", int64(ref.NeverLines))
					r.Event("rt_huffman_strings", int64(ref.HuffStrings))
					r.Event("rt_raw_strings", int64(ref.RawStrings))
					r.Event("rt_multi_octet_ints", int64(ref.MultiOctetInts))
					if m.Trailing {
						r.Event("rt_trailing_frame_intact", 1)
					}
					if len(m.Cuts) > 0 {
						r.Event("rt_split_delivery", 1)
					}
				}
				kinds := 0
				for _, n := range []int{ref.Indexed, ref.NameRef, ref.Literal} {
					if n > 0 {
						kinds++
					}
				}
				r.EvalBytes(kinds >= 2 || ref.HuffStrings > 0 || ref.MultiOctetInts > 0 || ref.Reject != "", got)
				if c.Index == 0 && k < 40 && sampled < 2 && len(l.In) >= 3 && len(l.In) <= 5 && len(got) < 120 && l.Reject == "" {
					sampled++
					r.Sample(map[string]any{"stream": "roundtrip", "list": v33Ins(l.In), "encoded": v33Hex(got), "decoded": v33Fields(out.fields)})
				}
			}
		})
		vqsBubbleTrouble(c, inner, outer)
	})

	// --- hostile ---
	var hsampled int
	r.CasesParallel("hostile", r.N(400, 4000), 8, func(c *verifrt.Case) {
		var prog vqsProgress
		defer vqsWatch(r, c, &prog, v33StuckLimit)()
		inner, outer := vqsBubble(t, func(t *testing.T) {
			p := vqsNewPair(t)
			for k := 0; k < batch; k++ {
				payload, label := v33Hostile(c.Rng, &enc)
				m := v33Mode4(c.Rng, len(payload))
				if !m.Trailing && c.Rng.IntN(15) == 0 {
					m.Longer = 1 + c.Rng.IntN(4)
				}
				prog.step(fmt.Sprintf("hostile sub %d strategy=%s mode=%+v payload=%s", k, label, m, v33Hex(payload)))
				ref := qpackref.Decode(payload)
				out := v33Decode(t, p, payload, m)
				desc := map[string]any{"sub": k, "strategy": label, "payload": v33Hex(payload), "mode": m, "reference": map[string]any{"reject": ref.Reject, "at": ref.RejectAt, "mayReject": ref.MayReject, "negativeBase": ref.NegativeBase}}
				viol := func(key, f string, a ...any) {
					c.Describe(desc)
					c.Violation(key, "%s\nstrategy=%s mode=%+v payload=%s\nreference: reject=%q at %d mayReject=%v negBase=%v fields:%s", fmt.Sprintf(f, a...), label, m, v33Hex(payload),
						ref.Reject, ref.RejectAt, ref.MayReject, ref.NegativeBase, v33Fields(ref.Fields))
				}
				r.Event("hostile_payloads", 1)
				r.Event("hostile_strategy_"+label, 1)
				cls := ref.Reject
				if i := strings.IndexByte(cls, ':'); i > 0 {
					r.Event("ref_reject_"+cls, 1) // detailed Huffman class as well
					cls = cls[:i]
				}
				if cls != "" {
					r.Event("ref_reject_"+cls, 1)
				} else {
					r.Event("ref_accept", 1)
				}
				switch {
				case out.panicKey != "":
					viol(out.panicKey, "decoder panicked: %s", out.panicMsg)
				case out.hdrBad != "":
					viol("frame-header-misread", "%s", out.hdrBad)
				case out.err == nil: // accepted
					r.Event("impl_accepted", 1)
					switch {
					case m.Longer > 0:
						viol("accepts-frame-cut-short-by-fin", "decoder accepted a HEADERS frame whose declared length exceeds the stream by %d: %s", m.Longer, v33Fields(out.fields))
					case cls != "":
						viol("accepts-"+cls, "decoder accepted what the reference rejects (%s): %s", ref.Reject, v33Fields(out.fields))
					case !qpackref.EqualFields(ref.Fields, out.fields):
						viol("decoded-differs-from-reference", "real decoder:%s", v33Fields(out.fields))
					case out.after != "":
						viol("frame-boundary", "%s", out.after)
					default:
						if m.Trailing {
							r.Event("trailing_frame_intact", 1)
						}
						if ref.NegativeBase {
							r.Event("lenient_negative_base_accepted", 1)
						}
						if len(ref.MayReject) > 0 {
							r.Event("lenient_big_or_long_integer_accepted", 1)
						}
						r.Event("fields_compared", int64(len(out.fields)))
					}
				default: // rejected
					r.Event("impl_rejected", 1)
					r.Event("impl_error_"+v33ErrClass(out.err), 1)
					switch {
					case cls != "" || m.Longer > 0:
						if m.Longer > 0 {
							r.Event("frame_cut_short_by_fin_rejected", 1)
						}
					case ref.NegativeBase:
						r.Event("lenient_negative_base_rejected", 1)
					case len(ref.MayReject) > 0:
						r.Event("lenient_big_or_long_integer_rejected", 1)
					default:
						viol("rejects-valid-section", "decoder failed (%v, after delivering%s) on a section the reference accepts", out.err, v33Fields(out.fields))
					}
				}
				if len(m.Cuts) > 0 {
					r.Event("split_delivery", 1)
				}
				kinds := 0
				for _, n := range []int{ref.Indexed, ref.NameRef, ref.Literal} {
					if n > 0 {
						kinds++
					}
				}
				r.EvalBytes(kinds >= 2 || ref.HuffStrings > 0 || ref.MultiOctetInts > 0 || ref.Reject != "", payload)
				if c.Index == 0 && hsampled < 4 && strings.HasPrefix(label, "bad:") && len(payload) < 60 {
					hsampled++
					es := "<nil>"
					if out.err != nil {
						es = out.err.Error()
					}
					r.Sample(map[string]any{"stream": "hostile", "strategy": label, "payload": v33Hex(payload), "reference": ref.Reject, "decoder_error": es})
				}
			}
		})
		vqsBubbleTrouble(c, inner, outer)
	})

	r.Require("ints_read_back", 10000)
	r.Require("rt_lists", int64(r.N(100, 1000)*batch*9/10))
	r.Require("rt_lines_indexed", 500)
	r.Require("rt_lines_name_reference", 500)
	r.Require("rt_lines_literal_name", 500)
	r.Require("rt_never_index_lines", 500)
	r.Require("rt_huffman_strings", 500)
	r.Require("rt_raw_strings", 500)
	r.Require("rt_nonascii_names_skipped", 100)
	r.Require("rt_trailing_frame_intact", 100)
	r.Require("hostile_payloads", int64(r.N(400, 4000)*batch*9/10))
	for _, k := range []string{qpackref.RejRIC, qpackref.RejDynIndexed, qpackref.RejDynNameRef, qpackref.RejPostBaseIndexed, qpackref.RejPostBaseNameRef,
		qpackref.RejStaticOOB, qpackref.RejStringOversized, qpackref.RejHuffman, qpackref.RejEmptyName, qpackref.RejPseudoAfterReg, qpackref.RejTruncated} {
		r.Require("ref_reject_"+k, 50)
	}
	r.Require("ref_accept", 500)
	r.Require("fields_compared", 1000)
	r.Require("trailing_frame_intact", 100)
	r.Require("frame_cut_short_by_fin_rejected", 50)
}
