//go:build verif

package http3

// vhn: a fault-injecting in-memory datagram network at the net.PacketConn level, for HTTP/3
// monitors that run real quic.Endpoints (quic.NewEndpoint(pc, config)) inside a
// testing/synctest bubble. Same fault model as the QUIC monitors' lossyPair (package quic,
// not importable from here): per datagram a hash of (seed, direction, sequence number)
// decides deliver / drop / duplicate / hold back (reorder) / jitter; consecutive drops per
// direction are capped; SetClean turns the faults off ("eventually lets traffic through").
//
// Everything here must be created inside the bubble (channels and timers are bubble-bound).
// Every top-level identifier is prefixed vhn.

import (
	"net"
	"net/netip"
	"sync"
	"sync/atomic"
	"time"

	"golang.org/x/net/internal/verifrt"
)

type vhnFaults struct {
	Loss         float64 `json:"loss"`    // P(drop)
	Dup          float64 `json:"dup"`     // P(duplicate)
	Reorder      float64 `json:"reorder"` // P(extra hold-back so that later datagrams overtake)
	ReorderMaxMs int     `json:"reorder_max_ms"`
	BaseDelayMs  int     `json:"base_delay_ms"`
	JitterMs     int     `json:"jitter_ms"`
	MaxConsec    int     `json:"max_consec"` // cap on consecutive drops per direction
}

const (
	vhnC2S = 0
	vhnS2C = 1
)

type vhnNet struct {
	seed   uint64
	mu     sync.Mutex
	faults vhnFaults
	clean  atomic.Bool
	eps    map[netip.AddrPort]*vhnPC
	seq    [2]uint64
	consec [2]int

	// Filter, if set, is consulted first for every datagram (under mu): returning false drops
	// it (counted under Filtered, not under Dropped). For scripted loss patterns.
	Filter func(dir int, b []byte) bool

	stop    chan struct{}
	stopMu  sync.Once
	stopped bool
	wg      verifrt.WG

	// counters (read them after Stop, or under mu)
	Sent, Dropped, Duped, Reordered, Delivered, Filtered [2]int64
	Bytes                                                [2]int64
	// FaultySent counts datagrams written while the fault phase was active.
	FaultySent [2]int64
}

type vhnItem struct {
	b    []byte
	from netip.AddrPort
}

// vhnPC is one endpoint's socket. It implements net.PacketConn.
type vhnPC struct {
	n      *vhnNet
	addr   netip.AddrPort
	dir    int // direction of the datagrams this socket writes
	in     chan vhnItem
	done   chan struct{}
	closed sync.Once
}

func vhnNew(seed uint64, f vhnFaults) *vhnNet {
	if f.MaxConsec <= 0 {
		f.MaxConsec = 3
	}
	return &vhnNet{seed: seed, faults: f, eps: map[netip.AddrPort]*vhnPC{}, stop: make(chan struct{})}
}

// NewConn returns a socket bound to addr whose outgoing datagrams are counted under dir.
func (n *vhnNet) NewConn(addr netip.AddrPort, dir int) *vhnPC {
	pc := &vhnPC{n: n, addr: addr, dir: dir, in: make(chan vhnItem, 8192), done: make(chan struct{})}
	n.mu.Lock()
	n.eps[addr] = pc
	n.mu.Unlock()
	return pc
}

// SetClean ends the fault phase: from now on every datagram is delivered once, after the
// base delay.
func (n *vhnNet) SetClean() { n.clean.Store(true) }

// Stop abandons pending deliveries and waits for the delivery goroutines.
func (n *vhnNet) Stop() {
	n.mu.Lock()
	n.stopped = true // no delivery goroutine is started from here on (wg.Add vs wg.Wait)
	n.mu.Unlock()
	n.stopMu.Do(func() { close(n.stop) })
	n.wg.Wait()
}

func vhnMix(a, b, c uint64) uint64 {
	x := a*0x9e3779b97f4a7c15 ^ b*0xbf58476d1ce4e5b9 ^ c*0x94d049bb133111eb
	x ^= x >> 30
	x *= 0xbf58476d1ce4e5b9
	x ^= x >> 27
	x *= 0x94d049bb133111eb
	x ^= x >> 31
	return x
}

func vhnU(h uint64) float64 { return float64(h>>11) / float64(1<<53) }

func (pc *vhnPC) ReadFrom(p []byte) (int, net.Addr, error) {
	select {
	case it := <-pc.in:
		return copy(p, it.b), net.UDPAddrFromAddrPort(it.from), nil
	case <-pc.done:
		return 0, nil, net.ErrClosed
	}
}

func (pc *vhnPC) WriteTo(p []byte, addr net.Addr) (int, error) {
	select {
	case <-pc.done:
		return 0, net.ErrClosed
	default:
	}
	var ap netip.AddrPort
	switch a := addr.(type) {
	case *net.UDPAddr:
		ap = a.AddrPort()
		ap = netip.AddrPortFrom(ap.Addr().Unmap(), ap.Port())
	default:
		var err error
		if ap, err = netip.ParseAddrPort(addr.String()); err != nil {
			return 0, err
		}
	}
	n := pc.n
	b := append([]byte(nil), p...)
	n.mu.Lock()
	dst := n.eps[ap]
	dir := pc.dir
	seq := n.seq[dir]
	n.seq[dir]++
	n.Sent[dir]++
	n.Bytes[dir] += int64(len(b))
	h := vhnMix(n.seed, uint64(dir)+1, seq)
	delay := time.Duration(n.faults.BaseDelayMs) * time.Millisecond
	copies := 1
	if dst == nil || n.stopped {
		copies = 0 // sent into the void
	} else if n.Filter != nil && !n.Filter(dir, b) {
		copies = 0
		n.Filtered[dir]++
	} else if !n.clean.Load() {
		n.FaultySent[dir]++
		f := n.faults
		if f.JitterMs > 0 {
			delay += time.Duration(vhnU(vhnMix(h, 1, 0))*float64(f.JitterMs)*1000) * time.Microsecond
		}
		switch u := vhnU(vhnMix(h, 2, 0)); {
		case u < f.Loss && n.consec[dir] < f.MaxConsec:
			copies = 0
			n.consec[dir]++
			n.Dropped[dir]++
		case u < f.Loss+f.Dup:
			copies = 2
			n.Duped[dir]++
			n.consec[dir] = 0
		case u < f.Loss+f.Dup+f.Reorder:
			delay += time.Duration(1+vhnU(vhnMix(h, 3, 0))*float64(f.ReorderMaxMs)) * time.Millisecond
			n.Reordered[dir]++
			n.consec[dir] = 0
		default:
			n.consec[dir] = 0
		}
	}
	if copies > 0 { // never Add(0) inside a bubble: see the quic lossypair helper
		n.wg.Add(copies)
	}
	n.mu.Unlock()
	for i := 0; i < copies; i++ {
		dl := delay
		if i > 0 {
			dl += time.Duration(1+vhnU(vhnMix(h, 4, uint64(i)))*40) * time.Millisecond
		}
		go func(dl time.Duration) {
			defer n.wg.Done()
			if dl > 0 {
				// time stops in a bubble once its root goroutine returns, so a pending
				// delivery must be abandonable
				tm := time.NewTimer(dl)
				select {
				case <-tm.C:
				case <-n.stop:
					tm.Stop()
					return
				}
			}
			select {
			case dst.in <- vhnItem{b: b, from: pc.addr}:
				n.mu.Lock()
				n.Delivered[dir]++
				n.mu.Unlock()
			case <-dst.done:
			case <-n.stop:
			}
		}(dl)
	}
	return len(p), nil
}

func (pc *vhnPC) Close() error {
	pc.closed.Do(func() { close(pc.done) })
	return nil
}

func (pc *vhnPC) LocalAddr() net.Addr              { return net.UDPAddrFromAddrPort(pc.addr) }
func (pc *vhnPC) SetDeadline(time.Time) error      { return nil }
func (pc *vhnPC) SetReadDeadline(time.Time) error  { return nil }
func (pc *vhnPC) SetWriteDeadline(time.Time) error { return nil }
