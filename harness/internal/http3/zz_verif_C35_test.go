//go:build verif

package http3

// C35: HTTP/3 stream framing never leaks bytes across frame boundaries.
//
// A scripted QUIC peer writes raw bytes on request, control and other unidirectional streams of
// a real in-memory QUIC connection (synctest bubble). The other end runs the real
// serverConn / clientConn stream handlers (genericConn.handleRequestStream,
// genericConn.handleUnidirectionalStream, clientConn.RoundTrip and the body readers they
// create). A reference frame walker written from RFC 9114 section 7.1 (varint type, varint
// length, payload) over the same bytes predicts which bytes are DATA payload, which frames have
// to be skipped, and where a frame is cut short by the end of the stream.
//
// The goroutines that the implementation would start itself (server.newServerConn ->
// genericConn.acceptStreams -> go handle...Stream) are started by the harness instead, running
// the very same functions under recover(): a panic on an implementation-owned goroutine would
// otherwise take the whole monitor down with it.

import (
	"bytes"
	"context"
	"errors"
	"fmt"
	"io"
	"math/rand/v2"
	"net/http"
	"runtime/debug"
	"strings"
	"sync"
	"testing"
	"testing/synctest"
	"time"

	"golang.org/x/net/internal/verifrt"
	"golang.org/x/net/internal/verifrt/qpackref"
	"golang.org/x/net/quic"
)

// ---------- reference frame walker (RFC 9114 section 7.1, RFC 9000 section 16) ----------

// v35Varint reads a QUIC varint at the start of b. n > 0: octets used; n == 0: b is empty;
// n < 0: b ends inside the varint.
func v35Varint(b []byte) (v uint64, n int) {
	if len(b) == 0 {
		return 0, 0
	}
	n = 1 << (b[0] >> 6)
	if len(b) < n {
		return 0, -1
	}
	v = uint64(b[0] & 0x3f)
	for i := 1; i < n; i++ {
		v = v<<8 | uint64(b[i])
	}
	return v, n
}

type v35Frame struct {
	Type    uint64
	Decl    uint64 // declared payload length
	Payload []byte // payload octets present on the stream (len <= Decl)
	Cut     bool   // the stream ends inside the payload
	Start   int    // offset of the frame header
}

const (
	v35TailClean     = "clean"      // the stream ends on a frame boundary
	v35TailInType    = "in-type"    // ... inside the type varint
	v35TailAfterType = "after-type" // ... between the type and the length field
	v35TailInLength  = "in-length"  // ... inside the length varint
	v35TailInPayload = "in-payload" // ... inside the payload (the last frame has Cut set)
)

func v35Parse(b []byte) (frames []v35Frame, tail string) {
	pos := 0
	for pos < len(b) {
		start := pos
		ty, n := v35Varint(b[pos:])
		if n < 0 {
			return frames, v35TailInType
		}
		pos += n
		l, n := v35Varint(b[pos:])
		if n == 0 {
			return frames, v35TailAfterType
		}
		if n < 0 {
			return frames, v35TailInLength
		}
		pos += n
		f := v35Frame{Type: ty, Decl: l, Start: start}
		if l > uint64(len(b)-pos) {
			f.Payload, f.Cut = b[pos:], true
			frames = append(frames, f)
			return frames, v35TailInPayload
		}
		f.Payload = b[pos : pos+int(l)]
		pos += int(l)
		frames = append(frames, f)
	}
	return frames, v35TailClean
}

// frame type classes
func v35Known(t uint64) bool {
	switch t {
	case 0x0, 0x1, 0x3, 0x4, 0x5, 0x7, 0xd:
		return true
	}
	return false
}

// HTTP/2 frame types without an HTTP/3 counterpart are reserved (RFC 9114 7.2.8): a receiver
// may skip them or fail; the walker stops predicting there.
func v35H2Reserved(t uint64) bool { return t == 0x2 || t == 0x6 || t == 0x8 || t == 0x9 }

// body outcome classes
const (
	v35Eof          = "eof"            // the body ends cleanly
	v35TrailersEof  = "trailers-eof"   // valid trailers: the body ends cleanly there
	v35FrameError   = "frame-error"    // a frame is cut short inside its payload / inside a header varint
	v35CutAfterType = "cut-after-type" // the stream ends between a frame's type and length
	v35Unexpected   = "unexpected"     // a known frame that may not appear here
	v35TrailersCut  = "trailers-cut"   // a trailing HEADERS frame cut short by the end of the stream
	v35TrailersBad  = "trailers-bad"   // complete trailing HEADERS frame whose field section is invalid
	v35Unspecified  = "unspecified"    // reserved HTTP/2 type or a field section only leniently valid: no prediction
)

type v35Pred struct {
	Outcome    string
	BodyMin    []byte // every octet of the complete DATA frames before the outcome
	BodyMax    []byte // BodyMin plus the octets present of a DATA frame that is cut short
	Skipped    int    // unknown frames (complete) that had to be skipped before the outcome
	DataFrames int
	At         int // index of the frame that decided the outcome (len(frames) = the tail)
}

// v35PredictBody interprets the frames that follow the message's HEADERS frame.
func v35PredictBody(frames []v35Frame, tail string) v35Pred {
	var p v35Pred
	for i, f := range frames {
		p.At = i
		switch {
		case f.Type == 0x0:
			if f.Cut {
				p.BodyMax = append(append([]byte{}, p.BodyMin...), f.Payload...)
				p.Outcome = v35FrameError
				return p
			}
			p.BodyMin = append(p.BodyMin, f.Payload...)
			p.DataFrames++
		case f.Type == 0x1:
			p.BodyMax = p.BodyMin
			ref := qpackref.Decode(f.Payload)
			if f.Cut {
				// the octets present may already be wrong before the cut is reached
				switch {
				case ref.NegativeBase || len(ref.MayReject) > 0:
					p.Outcome = v35Unspecified
				case ref.Accepted() || ref.Reject == qpackref.RejTruncated || ref.Reject == qpackref.RejStringOversized:
					p.Outcome = v35TrailersCut
				default:
					p.Outcome = v35TrailersBad
				}
				return p
			}
			switch {
			case !ref.Accepted():
				p.Outcome = v35TrailersBad
			case ref.NegativeBase || len(ref.MayReject) > 0:
				p.Outcome = v35Unspecified
			default:
				p.Outcome = v35TrailersEof
			}
			return p
		case v35Known(f.Type):
			p.BodyMax = p.BodyMin
			p.Outcome = v35Unexpected
			return p
		case v35H2Reserved(f.Type):
			p.BodyMax = p.BodyMin
			p.Outcome = v35Unspecified
			return p
		default:
			if f.Cut {
				p.BodyMax = p.BodyMin
				p.Outcome = v35FrameError
				return p
			}
			p.Skipped++
		}
	}
	p.At = len(frames)
	p.BodyMax = p.BodyMin
	switch tail {
	case v35TailClean:
		p.Outcome = v35Eof
	case v35TailAfterType:
		p.Outcome = v35CutAfterType
	default:
		p.Outcome = v35FrameError
	}
	return p
}

// ---------- wire writers ----------

func v35AppendFrame(dst []byte, rng *rand.Rand, ty uint64, decl uint64, payload []byte) []byte {
	size := func(v uint64) int {
		min := 1
		switch {
		case v >= 1<<30:
			min = 8
		case v >= 1<<14:
			min = 4
		case v >= 1<<6:
			min = 2
		}
		if rng == nil || rng.IntN(4) != 0 {
			return min
		}
		s := []int{1, 2, 4, 8}[rng.IntN(4)]
		if s < min {
			s = min
		}
		return s
	}
	dst = vqsVarint(dst, ty, size(ty))
	dst = vqsVarint(dst, decl, size(decl))
	return append(dst, payload...)
}

// field sections the implementation is known (C33) to decode
var (
	// :method POST, :scheme https, :path /, :authority example.com
	v35ReqFields = func() []byte {
		b := qpackref.AppendPrefix(nil, 0, false, 0, 0)
		b = qpackref.AppendIndexed(b, true, 20, 0)
		b = qpackref.AppendIndexed(b, true, 23, 0)
		b = qpackref.AppendIndexed(b, true, 1, 0)
		return qpackref.AppendNameRef(b, false, true, 0, "example.com", true, 0, 0)
	}()
	// :status 200
	v35RespFields = qpackref.AppendIndexed(qpackref.AppendPrefix(nil, 0, false, 0, 0), true, 25, 0)
	// x-trailer: done
	v35TrailerFields = qpackref.AppendLiteral(qpackref.AppendPrefix(nil, 0, false, 0, 0), false, "x-trailer", true, "done", false, 0, 0)
)

func v35UnknownType(rng *rand.Rand) uint64 {
	for {
		var t uint64
		switch rng.IntN(4) {
		case 0, 1: // reserved for greasing: 0x1f*N + 0x21
			n := uint64(rng.IntN(4))
			if rng.IntN(3) == 0 {
				n = rng.Uint64N((1<<62 - 0x21) / 0x1f)
			}
			t = 0x1f*n + 0x21
		case 2:
			t = 0xa + uint64(rng.IntN(0x36)) // small unassigned values
		default:
			t = rng.Uint64() >> uint(2+rng.IntN(56))
		}
		if t < 1<<62 && !v35Known(t) && !v35H2Reserved(t) {
			return t
		}
	}
}

func v35Payload(rng *rand.Rand, n int) []byte {
	b := make([]byte, n)
	switch rng.IntN(3) {
	case 0: // looks like frame headers: a reader that loses the frame boundary re-parses it
		for i := range b {
			b[i] = []byte{0x00, 0x01, 0x02, 0x04, 0x07, 0x21, 0x40, 0x05}[rng.IntN(8)]
		}
	case 1:
		for i := range b {
			b[i] = byte('a' + rng.IntN(26))
		}
	default:
		for i := range b {
			b[i] = byte(rng.Uint32())
		}
	}
	return b
}

func v35DataLen(rng *rand.Rand) int {
	switch rng.IntN(12) {
	case 0:
		return 0
	case 1:
		return []int{1, 63, 64, 65, 1199, 1200, 1201}[rng.IntN(7)]
	case 2:
		return []int{16383, 16384, 20000}[rng.IntN(3)]
	default:
		return 1 + rng.IntN(200)
	}
}

// v35BodyFrames writes a PRNG sequence of frames for the part of a request/response stream
// that follows the initial HEADERS frame.
func v35BodyFrames(dst []byte, rng *rand.Rand) []byte {
	n := rng.IntN(8)
	for i := 0; i < n; i++ {
		lie := func(actual int) uint64 {
			if rng.IntN(12) != 0 {
				return uint64(actual)
			}
			switch rng.IntN(4) {
			case 0:
				return uint64(actual + 1 + rng.IntN(5))
			case 1:
				if actual > 0 {
					return uint64(rng.IntN(actual))
				}
				return 1
			case 2:
				return uint64(actual) + uint64(1)<<uint(8+rng.IntN(54))
			default:
				return 1<<62 - 1
			}
		}
		switch s := rng.IntN(20); {
		case s < 9:
			p := v35Payload(rng, v35DataLen(rng))
			dst = v35AppendFrame(dst, rng, 0x0, lie(len(p)), p)
		case s < 15:
			l := rng.IntN(60)
			if rng.IntN(4) == 0 {
				l = 0
			}
			p := v35Payload(rng, l)
			dst = v35AppendFrame(dst, rng, v35UnknownType(rng), lie(len(p)), p)
		case s < 17:
			p := v35Payload(rng, rng.IntN(10))
			dst = v35AppendFrame(dst, rng, []uint64{0x3, 0x4, 0x5, 0x7, 0xd}[rng.IntN(5)], uint64(len(p)), p)
		case s < 19:
			if i < n-1 && rng.IntN(2) == 0 {
				continue // keep trailers rare before the end
			}
			var p []byte
			switch rng.IntN(6) {
			case 0: // empty field section: the decoder has to read past the frame end
				p = nil
			case 1: // an integer that continues past the frame end
				p = append([]byte{}, v35TrailerFields[:2]...)
				p = append(p, 0x27)
			case 2:
				p = v35Payload(rng, 2+rng.IntN(10))
				p[0], p[1] = 0, 0
			default:
				p = v35TrailerFields
			}
			dst = v35AppendFrame(dst, rng, 0x1, lie(len(p)), p)
		default: // HTTP/2 types: no prediction beyond them
			dst = v35AppendFrame(dst, rng, []uint64{0x2, 0x6, 0x8, 0x9}[rng.IntN(4)], 1, []byte{0})
		}
	}
	return dst
}

func v35Cuts(rng *rand.Rand, n int) []int {
	if n < 2 || rng.IntN(4) != 0 {
		return nil
	}
	a := rng.IntN(n)
	if rng.IntN(2) == 0 {
		return []int{a}
	}
	b := rng.IntN(n)
	if a > b {
		a, b = b, a
	}
	if a == b {
		return []int{a}
	}
	return []int{a, b}
}

// ---------- running the real handlers under recover ----------

type v35Panic struct {
	key, msg string
}

// v35Rec wraps the connection's streamHandler: it records what the handlers return and what
// the connection is aborted with, and passes everything on to the real one.
type v35Rec struct {
	real streamHandler

	mu       sync.Mutex
	returned map[string][]error // handler name -> errors returned
	aborts   []error
	panics   []v35Panic
}

func (h *v35Rec) note(name string, err error) error {
	h.mu.Lock()
	if h.returned == nil {
		h.returned = map[string][]error{}
	}
	h.returned[name] = append(h.returned[name], err)
	h.mu.Unlock()
	return err
}
func (h *v35Rec) handleControlStream(st *stream) error {
	return h.note("control", h.real.handleControlStream(st))
}
func (h *v35Rec) handlePushStream(st *stream) error {
	return h.note("push", h.real.handlePushStream(st))
}
func (h *v35Rec) handleEncoderStream(st *stream) error {
	return h.note("encoder", h.real.handleEncoderStream(st))
}
func (h *v35Rec) handleDecoderStream(st *stream) error {
	return h.note("decoder", h.real.handleDecoderStream(st))
}
func (h *v35Rec) handleRequestStream(st *stream) error {
	return h.note("request", h.real.handleRequestStream(st))
}
func (h *v35Rec) abort(err error) {
	h.mu.Lock()
	h.aborts = append(h.aborts, err)
	h.mu.Unlock()
	h.real.abort(err)
}

// guard runs f on the current goroutine and records a panic instead of dying. st is the
// http3 stream f works on (nil if none): a nil-pointer panic while its QUIC stream has been
// set to nil by stream.recordBytesRead gets a key of its own.
func (h *v35Rec) guard(st *stream, f func()) {
	defer func() {
		if e := recover(); e != nil {
			stk := string(debug.Stack())
			key := vqsPanicKey(e, stk)
			if st != nil && st.stream == nil && strings.Contains(fmt.Sprint(e), "nil pointer dereference") {
				// name the implementation function that touched the nil stream
				fn := "?"
				for _, ln := range strings.Split(stk, "\n") {
					if strings.HasPrefix(ln, "golang.org/x/net/internal/http3.") && !strings.Contains(ln, "v35") && !strings.Contains(ln, "vqs") && !strings.Contains(ln, "(*stream).") {
						fn = strings.TrimPrefix(ln, "golang.org/x/net/internal/http3.")
						if j := strings.LastIndex(fn, "("); j > 0 {
							fn = fn[:j]
						}
						break
					}
				}
				key = "panic-nil-quic-stream-after-frame-overrun@" + fn
			}
			h.mu.Lock()
			h.panics = append(h.panics, v35Panic{key, fmt.Sprintf("%v\n%s", e, stk)})
			h.mu.Unlock()
		}
	}()
	f()
}

func (h *v35Rec) snapshot() (ret map[string][]error, aborts []error, panics []v35Panic) {
	h.mu.Lock()
	defer h.mu.Unlock()
	ret = map[string][]error{}
	for k, v := range h.returned {
		ret[k] = append([]error{}, v...)
	}
	return ret, append([]error{}, h.aborts...), append([]v35Panic{}, h.panics...)
}

// v35Read is what a body consumer saw.
type v35Read struct {
	started bool
	done    bool
	body    []byte
	err     error // the error that ended reading (io.EOF for a clean end)
	reads   int
}

// v35Side is one connection: the implementation on one end, the scripted peer on the other.
type v35Side struct {
	role string // "server": real serverConn, the peer is the client; "client": real clientConn
	impl *quic.Conn
	peer *quic.Conn
	rec  *v35Rec
	gc   *genericConn
	cc   *clientConn

	mu       sync.Mutex
	cur      *v35Read          // the read record of the request stream in flight (server role)
	rng      *rand.Rand        // read sizes for the consumer in flight
	peerBidi chan *quic.Stream // client role: request streams opened by the implementation
	wg       verifrt.WG
}

// consume reads a body to its end with PRNG buffer sizes.
func v35Consume(r io.Reader, rng *rand.Rand, rd *v35Read) {
	rd.started = true
	buf := make([]byte, 4096)
	zero := 0
	for {
		k := 1 + rng.IntN(64)
		if rng.IntN(4) == 0 {
			k = 1 + rng.IntN(len(buf))
		}
		n, err := r.Read(buf[:k])
		rd.reads++
		rd.body = append(rd.body, buf[:n]...)
		if err != nil {
			rd.err = err
			break
		}
		if n == 0 {
			if zero++; zero > 1000 {
				rd.err = errors.New("harness: 1000 empty reads without an error")
				break
			}
		}
	}
	rd.done = true
}

func (s *v35Side) ServeHTTP(w http.ResponseWriter, r *http.Request) {
	s.mu.Lock()
	rd, rng := s.cur, s.rng
	s.mu.Unlock()
	if rd == nil {
		return
	}
	v35Consume(r.Body, rng, rd)
	w.Write([]byte("ok"))
}

// v35NewSide builds a connection pair and starts the implementation on one end exactly the
// way server.newServerConn / transport.newClientConn do, except that the goroutines which run
// the stream handlers are guarded.
func v35NewSide(t testing.TB, role string) *v35Side {
	p := vqsNewPair(t)
	s := &v35Side{role: role, peerBidi: make(chan *quic.Stream, 16)}
	ctx := context.Background()
	var h streamHandler
	if role == "server" {
		s.impl, s.peer = p.srv, p.cli
		sc := &serverConn{qconn: s.impl, handler: s}
		sc.enc.init()
		cs, err := newConnStream(ctx, sc.qconn, streamTypeControl)
		if err != nil {
			t.Fatalf("server control stream: %v", err)
		}
		sc.controlStream = cs
		cs.writeSettings()
		cs.Flush()
		s.gc, h = &sc.genericConn, sc
	} else {
		s.impl, s.peer = p.cli, p.srv
		tr := &transport{
			config:      &quic.Config{TLSConfig: testTLSConfig},
			tr1:         new(http.Transport),
			activeConns: make(map[*clientConn]struct{}),
		}
		cc := &clientConn{tr: tr, qconn: s.impl}
		tr.registerConn(cc)
		cc.enc.init()
		cs, err := newConnStream(ctx, cc.qconn, streamTypeControl)
		if err != nil {
			t.Fatalf("client control stream: %v", err)
		}
		cs.writeSettings()
		cs.Flush()
		s.gc, h, s.cc = &cc.genericConn, cc, cc
	}
	s.rec = &v35Rec{real: h}
	// genericConn.acceptStreams, guarded
	s.wg.Add(1)
	go func() {
		defer s.wg.Done()
		for {
			qs, err := s.impl.AcceptStream(ctx)
			if err != nil {
				return
			}
			st := newStream(qs)
			s.wg.Add(1)
			go func() {
				defer s.wg.Done()
				s.rec.guard(st, func() {
					if qs.IsReadOnly() {
						s.gc.handleUnidirectionalStream(st, s.rec)
					} else {
						s.gc.handleRequestStream(st, s.rec)
					}
				})
			}()
		}
	}()
	// the peer: drain whatever the implementation sends on its own unidirectional streams,
	// hand bidirectional ones (client role: requests) to the case
	s.wg.Add(1)
	go func() {
		defer s.wg.Done()
		for {
			qs, err := s.peer.AcceptStream(ctx)
			if err != nil {
				return
			}
			if qs.IsReadOnly() {
				s.wg.Add(1)
				go func() {
					defer s.wg.Done()
					io.Copy(io.Discard, qs)
				}()
			} else {
				s.peerBidi <- qs
			}
		}
	}()
	return s
}

func (s *v35Side) alive() bool {
	return errors.Is(s.impl.Wait(canceledCtx), context.Canceled) && errors.Is(s.peer.Wait(canceledCtx), context.Canceled)
}

// close tears the connection down and waits for every goroutine of the side.
func (s *v35Side) close() {
	s.impl.Abort(nil)
	s.peer.Abort(nil)
	s.wg.Wait()
}

// write sends wire on qs in pieces and ends the stream (fin) or leaves it open.
func v35Write(qs *quic.Stream, wire []byte, cuts []int, fin bool) (wait func()) {
	done := make(chan struct{})
	go func() {
		defer close(done)
		prev := 0
		for _, c := range append(append([]int{}, cuts...), len(wire)) {
			if prev > 0 || c == 0 {
				time.Sleep(time.Millisecond)
			}
			qs.Write(wire[prev:c])
			qs.Flush()
			prev = c
		}
		if fin {
			qs.CloseWrite()
		}
	}()
	return func() { <-done }
}

func v35Code(err error) string {
	if err == nil {
		return "nil"
	}
	if err == io.EOF {
		return "EOF"
	}
	var code http3Error
	if errors.As(err, &code) {
		return code.Error()
	}
	var se quic.StreamErrorCode
	if errors.As(err, &se) {
		return "stream-reset:" + http3Error(se).Error()
	}
	var ae *quic.ApplicationError
	if errors.As(err, &ae) {
		return "conn-closed:" + http3Error(ae.Code).Error()
	}
	s := err.Error()
	if len(s) > 50 {
		s = s[:50]
	}
	return "other:" + strings.Join(strings.Fields(s), "_")
}

func v35IsFrameError(err error) bool { return errors.Is(err, errH3FrameError) }

// ---------- one request/response stream case ----------

type v35MsgCase struct {
	Role    string
	Wire    []byte
	Cuts    []int
	Prelude int    // unknown frames in front of the first HEADERS frame
	Kind    string // how the wire was made
}

type v35MsgObs struct {
	read      v35Read
	rtErr     error // client role: what RoundTrip returned
	rtDone    bool
	panics    []v35Panic
	returned  []error // what handleRequestStream returned (server role)
	aborts    []error
	peerErr   error // what ended the peer's reading of the stream
	connErr   error // what the peer's connection says (context.Canceled = still open)
	blocked   bool  // the consumer had not finished at quiescence although the stream was finished
	closeDone bool
}

// v35RunMsg plays one scripted request (server role) or response (client role) stream.
func v35RunMsg(t testing.TB, s *v35Side, mc *v35MsgCase, seed uint64) (o v35MsgObs) {
	ctx := context.Background()
	rd := &v35Read{}
	s.mu.Lock()
	s.cur, s.rng = rd, rand.New(rand.NewPCG(seed, 35))
	s.mu.Unlock()
	ret0, ab0, pn0 := s.rec.snapshot()
	var qs *quic.Stream
	var rtDone chan struct{}
	var rtErr error
	if s.role == "server" {
		var err error
		qs, err = s.peer.NewStream(ctx)
		if err != nil {
			t.Fatalf("peer NewStream: %v", err)
		}
	} else {
		rtDone = make(chan struct{})
		req, _ := http.NewRequest("GET", "https://example.com/", nil)
		rng := s.rng
		s.wg.Add(1)
		go func() {
			defer s.wg.Done()
			defer close(rtDone)
			var rtst *stream
			s.rec.guard(nil, func() {
				resp, err := s.cc.RoundTrip(req)
				rtErr = err
				if err != nil {
					return
				}
				if b, ok := resp.Body.(*transportResponseBody); ok {
					rtst = b.st
				}
				// a second guard so that a nil QUIC stream can be recognised
				s.rec.guard(rtst, func() {
					v35Consume(resp.Body, rng, rd)
					resp.Body.Close()
					o.closeDone = true
				})
			})
		}()
		select {
		case qs = <-s.peerBidi:
		case <-rtDone:
			// RoundTrip gave up before it opened a stream (connection gone)
			o.rtErr = rtErr
			_, _, pn1 := s.rec.snapshot()
			o.panics = pn1[len(pn0):]
			return o
		}
		// the request the client sent is of no interest; drain it in the background
		s.wg.Add(1)
		go func() {
			defer s.wg.Done()
			buf := make([]byte, 1024)
			for {
				if _, err := qs.Read(buf); err != nil {
					return
				}
			}
		}()
	}
	wait := v35Write(qs, mc.Wire, mc.Cuts, true)
	wait()
	synctest.Wait()
	if s.role == "server" {
		// read the response side to its end
		qs.SetReadContext(canceledCtx)
		buf := make([]byte, 1024)
		for {
			_, err := qs.Read(buf)
			if err != nil {
				o.peerErr = err
				break
			}
		}
		o.blocked = rd.started && !rd.done
	} else {
		select {
		case <-rtDone:
			o.rtDone = true
		default:
			o.blocked = true
		}
	}
	o.connErr = s.peer.Wait(canceledCtx)
	// unblock whatever is still waiting on this stream
	qs.CloseRead()
	qs.Reset(uint64(errH3RequestCancelled))
	synctest.Wait()
	if rtDone != nil {
		select {
		case <-rtDone:
		default:
			// still stuck: only closing the connection will free it
			s.impl.Abort(nil)
			<-rtDone
		}
		o.rtErr = rtErr
	}
	s.mu.Lock()
	s.cur = nil
	s.mu.Unlock()
	o.read = *rd
	ret1, ab1, pn1 := s.rec.snapshot()
	o.returned = ret1["request"][len(ret0["request"]):]
	o.aborts = ab1[len(ab0):]
	o.panics = pn1[len(pn0):]
	return o
}

// v35AltFields builds a syntactically valid QPACK field section from a pool of fields that steer
// the message handling (content-length, expect, trailer, te, connection-specific fields, odd
// pseudo-header sets).
func v35AltFields(rng *rand.Rand, role string) []byte {
	b := qpackref.AppendPrefix(nil, 0, false, 0, 0)
	lit := func(n, v string) {
		b = qpackref.AppendLiteral(b, rng.IntN(4) == 0, n, rng.IntN(2) == 0, v, rng.IntN(2) == 0, 0, 0)
	}
	pick := func(xs ...string) string { return xs[rng.IntN(len(xs))] }
	if role == "client" {
		if rng.IntN(8) != 0 {
			lit(":status", pick("200", "200", "204", "304", "100", "103", "101", "404", "500", "99", "1000", "abc", ""))
		}
	} else {
		if rng.IntN(10) != 0 {
			lit(":method", pick("GET", "POST", "POST", "HEAD", "CONNECT", "OPTIONS", "PUT", ""))
		}
		if rng.IntN(10) != 0 {
			lit(":scheme", pick("https", "https", "http", "ftp", ""))
		}
		if rng.IntN(10) != 0 {
			lit(":path", pick("/", "/a?b=c", "*", "", "no-slash", "/%zz"))
		}
		if rng.IntN(10) != 0 {
			lit(":authority", pick("example.com", "example.com:443", "", "[::1]", "a b"))
		}
		if rng.IntN(12) == 0 {
			lit(":protocol", "websocket")
		}
	}
	// the fields that select the body handling, in every combination
	switch rng.IntN(4) {
	case 0:
		lit("content-length", "0")
	case 1:
		lit("content-length", pick("3", "10"))
	}
	if rng.IntN(2) == 0 {
		lit("expect", "100-continue")
	}
	if rng.IntN(3) == 0 {
		lit("trailer", "x-trailer")
	}
	for i, n := 0, rng.IntN(6); i < n; i++ {
		switch rng.IntN(14) {
		case 0:
			lit("content-length", pick("0", "0", "1", "3", "10", "100000", "-1", "x", "18446744073709551616", "3, 3"))
		case 1:
			lit("expect", pick("100-continue", "100-continue", "100-Continue", "other"))
		case 2:
			lit("trailer", pick("x-trailer", "x-trailer, x-other", "content-length", ""))
		case 3:
			lit("te", pick("trailers", "gzip"))
		case 4:
			lit(pick("connection", "transfer-encoding", "upgrade", "keep-alive", "proxy-connection"), pick("close", "chunked", "h2c", "x"))
		case 5:
			lit("host", pick("example.com", "other.example", ""))
		case 6:
			lit("cookie", pick("a=b", "c=d; e=f", ""))
		case 7:
			lit(pick("X-Upper", "x y", "", "x\x00y", ":late-pseudo"), "v")
		case 8:
			lit("x-value", pick("a\r\nb", "\x00", " lead", "trail ", strings.Repeat("v", 5000)))
		case 9:
			lit("content-type", pick("text/plain", "application/octet-stream"))
		case 10:
			lit("content-encoding", pick("gzip", "identity"))
		case 11:
			lit("priority", pick("u=1, i", "u=9", "??"))
		case 12:
			lit("accept-encoding", "gzip")
		default:
			lit("x-"+pick("a", "b", "c"), pick("1", "2", ""))
		}
	}
	return b
}

// v35GenMsg makes a request (server role) or response (client role) stream.
func v35GenMsg(rng *rand.Rand, role string) *v35MsgCase {
	mc := &v35MsgCase{Role: role, Kind: "frames"}
	hdr := v35ReqFields
	if role == "client" {
		hdr = v35RespFields
	}
	var w []byte
	if rng.IntN(8) == 0 {
		mc.Prelude = 1 + rng.IntN(2)
		for i := 0; i < mc.Prelude; i++ {
			p := v35Payload(rng, rng.IntN(20))
			w = v35AppendFrame(w, rng, v35UnknownType(rng), uint64(len(p)), p)
		}
	}
	switch rng.IntN(30) {
	case 0: // HEADERS with an empty payload
		w = v35AppendFrame(w, rng, 0x1, 0, nil)
		mc.Kind = "empty-headers"
	case 1: // DATA first
		w = v35AppendFrame(w, rng, 0x0, 3, []byte("abc"))
		w = v35AppendFrame(w, rng, 0x1, uint64(len(hdr)), hdr)
		mc.Kind = "data-first"
	case 2: // field section whose last integer continues past the frame end
		p := append(append([]byte{}, hdr...), 0x27)
		w = v35AppendFrame(w, rng, 0x1, uint64(len(p)), p)
		mc.Kind = "headers-int-overrun"
	case 3, 4, 5:
		// Another well-formed field section: no prediction is made for the message it starts
		// (the oracle compares the HEADERS payload with the fixed one), the handlers must
		// simply survive whatever combination of fields a peer chooses.
		alt := v35AltFields(rng, role)
		w = v35AppendFrame(w, rng, 0x1, uint64(len(alt)), alt)
		mc.Kind = "other-fields"
	default:
		w = v35AppendFrame(w, rng, 0x1, uint64(len(hdr)), hdr)
	}
	w = v35BodyFrames(w, rng)
	switch rng.IntN(10) {
	case 0, 1, 2: // end the stream at an arbitrary offset
		w = w[:rng.IntN(len(w)+1)]
		mc.Kind += "+cut"
	case 3: // flip a byte
		if len(w) > 0 {
			w[rng.IntN(len(w))] ^= 1 << uint(rng.IntN(8))
			mc.Kind += "+flip"
		}
	}
	mc.Wire = w
	mc.Cuts = v35Cuts(rng, len(w))
	return mc
}

// v35CheckMsg compares what happened with the walker's prediction.
func v35CheckMsg(r *verifrt.R, mc *v35MsgCase, o *v35MsgObs, viol func(key, f string, a ...any)) (nontrivial bool) {
	for _, p := range o.panics {
		viol(p.key, "panic while handling the stream: %s", p.msg)
	}
	frames, tail := v35Parse(mc.Wire)
	hdr := v35ReqFields
	if mc.Role == "client" {
		hdr = v35RespFields
	}
	// the part in front of the message's HEADERS frame
	i := 0
	for i < len(frames) && !v35Known(frames[i].Type) && !v35H2Reserved(frames[i].Type) && !frames[i].Cut {
		i++
	}
	prelude := i
	validHeaders := i < len(frames) && frames[i].Type == 0x1 && !frames[i].Cut && bytes.Equal(frames[i].Payload, hdr)
	served := o.read.started
	if mc.Role == "client" {
		served = o.rtDone && o.rtErr == nil
	}
	r.Event(mc.Role+"_streams", 1)
	if len(o.panics) > 0 {
		r.Event(mc.Role+"_streams_with_panic", 1)
		return true
	}
	if !validHeaders {
		// no prediction for the message itself; the handlers must simply survive
		r.Event(mc.Role+"_no_valid_headers", 1)
		if i < len(frames) && frames[i].Type == 0x0 && served {
			viol("served-a-message-that-starts-with-data", "%s role: consumer ran although the first known frame is DATA", mc.Role)
		}
		if mc.Role == "client" && o.rtErr != nil {
			r.Event("client_roundtrip_error_"+v35Code(o.rtErr), 1)
		}
		for _, e := range o.returned {
			r.Event("server_request_handler_returned_"+v35Code(e), 1)
		}
		return len(frames) > 0
	}
	if !served {
		if prelude > 0 {
			r.Event(mc.Role+"_unknown_before_headers_not_served", 1)
			viol(mc.Role+"-unknown-frame-before-headers-not-skipped", "%d unknown frame(s) precede a valid HEADERS frame; the message was not served (handler returned %v, RoundTrip error %v, aborts %v)", prelude, o.returned, o.rtErr, o.aborts)
			return true
		}
		viol("valid-message-not-served", "a stream that starts with a valid HEADERS frame was not served (handler returned %v, RoundTrip error %v, aborts %v, blocked=%v)", o.returned, o.rtErr, o.aborts, o.blocked)
		return true
	}
	if prelude > 0 {
		r.Event(mc.Role+"_unknown_before_headers_skipped", int64(prelude))
	}
	p := v35PredictBody(frames[i+1:], tail)
	r.Event("outcome_"+p.Outcome, 1)
	r.Event(mc.Role+"_outcome_"+p.Outcome, 1)
	r.Event("data_frames_delivered", int64(p.DataFrames))
	r.Event("unknown_frames_skipped", int64(p.Skipped))
	r.Event("body_octets_checked", int64(len(o.read.body)))
	r.Event("body_read_calls", int64(o.read.reads))
	if o.blocked || !o.read.done {
		viol("read-blocked-after-fin", "the body consumer was still blocked at quiescence although the peer had finished the stream (outcome %s, %d octets read)", p.Outcome, len(o.read.body))
		return true
	}
	got := o.read.body
	if p.Outcome != v35Unspecified {
		switch {
		case !bytes.HasPrefix(p.BodyMax, got):
			// find the first octet that is not DATA payload
			k := 0
			for k < len(got) && k < len(p.BodyMax) && got[k] == p.BodyMax[k] {
				k++
			}
			viol("body-has-octets-from-outside-data-frames", "body differs from the DATA payloads at octet %d: got %d octets %x…, DATA payloads on the stream %d octets %x… (outcome %s)", k, len(got), v35Head(got[k:]), len(p.BodyMax), v35Head(p.BodyMax[min(k, len(p.BodyMax)):]), p.Outcome)
		case len(got) < len(p.BodyMin):
			viol("body-lost-data-octets", "body has %d octets, the complete DATA frames before the %s hold %d", len(got), p.Outcome, len(p.BodyMin))
		}
	}
	e := o.read.err
	r.Event("read_end_"+p.Outcome+"_"+v35Code(e), 1)
	switch p.Outcome {
	case v35Eof, v35TrailersEof:
		if e != io.EOF {
			key := "clean-body-ended-with-error"
			if p.Skipped > 0 {
				key = "unknown-frame-not-skipped"
			}
			viol(key, "the body (%d DATA frames, %d unknown frames to skip, outcome %s) ended with %v", p.DataFrames, p.Skipped, p.Outcome, e)
		} else if p.Skipped > 0 {
			r.Event("clean_end_after_skipping_unknown", 1)
		}
	case v35FrameError:
		switch {
		case e == io.EOF:
			viol("truncated-frame-read-as-clean-eof", "the stream ends inside a frame (%s) but the body ended with io.EOF", v35Where(frames[i+1:], tail, p))
		case !v35IsFrameError(e):
			viol("truncated-frame-wrong-error-class", "the stream ends inside a frame (%s); the body ended with %v, not an H3_FRAME_ERROR", v35Where(frames[i+1:], tail, p), e)
		default:
			r.Event("truncated_frame_reported_as_frame_error", 1)
		}
	case v35CutAfterType:
		switch {
		case e == io.EOF:
			viol("frame-cut-after-type-read-as-clean-eof", "the stream ends between the type and the length of a frame; the body ended with io.EOF")
		case !v35IsFrameError(e):
			viol("truncated-frame-wrong-error-class", "the stream ends between the type and the length of a frame; the body ended with %v", e)
		default:
			r.Event("truncated_frame_reported_as_frame_error", 1)
		}
	case v35TrailersCut:
		switch {
		case e == io.EOF:
			viol("truncated-trailers-read-as-clean-eof", "the trailing HEADERS frame is cut short; the body ended with io.EOF")
		case v35IsFrameError(e):
			r.Event("truncated_trailers_reported_as_frame_error", 1)
		case errors.Is(e, errQPACKDecompressionFailed):
			r.Event("truncated_trailers_reported_as_qpack_error", 1)
		default:
			viol("truncated-frame-wrong-error-class", "the trailing HEADERS frame is cut short; the body ended with %v", e)
		}
	case v35Unexpected, v35TrailersBad:
		if e == io.EOF {
			viol("bad-frame-in-body-read-as-clean-eof", "outcome %s (%s) but the body ended with io.EOF", p.Outcome, v35Where(frames[i+1:], tail, p))
		}
	}
	return p.DataFrames+p.Skipped > 0 || p.Outcome != v35Eof
}

func v35Head(b []byte) []byte {
	if len(b) > 24 {
		return b[:24]
	}
	return b
}

func v35Where(frames []v35Frame, tail string, p v35Pred) string {
	if p.At < len(frames) {
		f := frames[p.At]
		return fmt.Sprintf("frame %d: type %#x declared %d octets, %d present", p.At, f.Type, f.Decl, len(f.Payload))
	}
	return "tail " + tail
}

// ---------- unidirectional streams ----------

type v35UniCase struct {
	Role string
	Wire []byte // including the stream type
	Cuts []int
	Fin  bool
	Kind string
}

// control stream expectation classes
const (
	v35CtlOpen       = "stays-open"  // everything complete, no FIN: nothing may fail
	v35CtlError      = "error"       // some error, the statement does not say which
	v35CtlFrameError = "frame-error" // a frame over-read: H3_FRAME_ERROR
	v35CtlCut        = "cut"         // FIN inside a frame: H3_FRAME_ERROR or H3_CLOSED_CRITICAL_STREAM
	v35CtlUnspec     = "unspecified" // GOAWAY / reserved HTTP/2 type: no prediction
)

// v35PredictControl interprets the octets that follow the stream type of a control stream.
func v35PredictControl(b []byte, fin bool) (class string, skipped int, why string) {
	frames, tail := v35Parse(b)
	cutClass := func() string {
		if fin {
			return v35CtlCut
		}
		return v35CtlOpen // still waiting for the rest
	}
	if len(frames) == 0 {
		if tail == v35TailClean {
			if fin {
				return v35CtlError, 0, "empty control stream"
			}
			return v35CtlOpen, 0, ""
		}
		if fin {
			return v35CtlError, 0, "first frame header cut: no SETTINGS"
		}
		return v35CtlOpen, 0, ""
	}
	if frames[0].Type != 0x4 {
		return v35CtlError, 0, "first frame is not SETTINGS"
	}
	// SETTINGS payload: identifier/value varint pairs
	f := frames[0]
	_, n1 := v35Varint(b)
	_, n2 := v35Varint(b[n1:])
	beyond := len(b) - (n1 + n2 + len(f.Payload)) // octets on the stream after the SETTINGS payload
	// crossing: a varint starts inside the frame (or right at its end, for a value) and needs
	// `need` octets from beyond it
	crossing := func(need int, what string) (string, int, string) {
		switch {
		case f.Cut:
			return cutClass(), 0, "SETTINGS cut inside " + what
		case beyond >= need:
			return v35CtlFrameError, 0, what + " crosses the end of the SETTINGS frame"
		case fin:
			return v35CtlCut, 0, what + " crosses the end of the SETTINGS frame and of the stream"
		}
		return v35CtlOpen, 0, ""
	}
	pos := 0
	for pos < len(f.Payload) {
		id, n := v35Varint(f.Payload[pos:])
		if n < 0 {
			return crossing(1<<(f.Payload[pos]>>6)-(len(f.Payload)-pos), "a setting identifier")
		}
		pos += n
		_, n = v35Varint(f.Payload[pos:])
		if n == 0 {
			// the value starts right after the frame: its length is in the first octet beyond
			need := 1
			if beyond > 0 {
				need = 1 << (b[len(b)-beyond] >> 6)
			}
			return crossing(need, "a setting value")
		}
		if n < 0 {
			return crossing(1<<(f.Payload[pos]>>6)-(len(f.Payload)-pos), "a setting value")
		}
		pos += n
		if id >= 2 && id <= 5 {
			return v35CtlError, 0, "reserved HTTP/2 setting"
		}
	}
	if f.Cut {
		return cutClass(), 0, "SETTINGS cut between settings"
	}
	for _, f := range frames[1:] {
		switch {
		case f.Type == 0x7:
			return v35CtlUnspec, skipped, "GOAWAY"
		case f.Type == 0xd:
			return v35CtlUnspec, skipped, "MAX_PUSH_ID"
		case v35Known(f.Type):
			return v35CtlError, skipped, fmt.Sprintf("frame type %#x on the control stream", f.Type)
		case v35H2Reserved(f.Type):
			return v35CtlUnspec, skipped, "reserved HTTP/2 frame type"
		case f.Cut:
			return cutClass(), skipped, "unknown frame cut short"
		default:
			skipped++
		}
	}
	switch {
	case tail != v35TailClean:
		return cutClass(), skipped, "frame header cut (" + tail + ")"
	case fin:
		return v35CtlError, skipped, "control stream closed"
	}
	return v35CtlOpen, skipped, ""
}

func v35GenUni(rng *rand.Rand, role string) *v35UniCase {
	uc := &v35UniCase{Role: role, Fin: rng.IntN(2) == 0}
	var w []byte
	switch s := rng.IntN(20); {
	case s < 14: // control stream
		uc.Kind = "control"
		w = vqsVarint(w, 0, []int{0, 0, 0, 2, 4, 8}[rng.IntN(6)])
		// SETTINGS
		var pl []byte
		for k := rng.IntN(5); k > 0; k-- {
			var id uint64
			switch rng.IntN(6) {
			case 0:
				id = []uint64{0x1, 0x6, 0x7}[rng.IntN(3)]
			case 1:
				id = 0x1f*uint64(rng.IntN(1000)) + 0x21
			case 2:
				if rng.IntN(4) == 0 {
					id = 2 + uint64(rng.IntN(4))
				} else {
					id = 8 + uint64(rng.IntN(50))
				}
			default:
				id = rng.Uint64() >> uint(2+rng.IntN(60))
			}
			pl = vqsVarint(pl, id, 0)
			pl = vqsVarint(pl, rng.Uint64()>>uint(2+rng.IntN(62)), 0)
		}
		decl := uint64(len(pl))
		switch rng.IntN(12) {
		case 0:
			if len(pl) > 0 {
				decl = uint64(rng.IntN(len(pl))) // pairs cross the declared end
			}
		case 1:
			decl += uint64(1 + rng.IntN(3))
		}
		switch rng.IntN(15) {
		case 0: // something else first
			p := v35Payload(rng, rng.IntN(8))
			w = v35AppendFrame(w, rng, []uint64{0x0, 0x1, 0x7, v35UnknownType(rng)}[rng.IntN(4)], uint64(len(p)), p)
		default:
			w = v35AppendFrame(w, rng, 0x4, decl, pl)
		}
		for k := rng.IntN(6); k > 0; k-- {
			switch s := rng.IntN(12); {
			case s < 8:
				l := rng.IntN(40)
				if rng.IntN(4) == 0 {
					l = 0
				}
				p := v35Payload(rng, l)
				decl := uint64(l)
				if rng.IntN(15) == 0 {
					decl += 1 + uint64(rng.IntN(4))
				}
				w = v35AppendFrame(w, rng, v35UnknownType(rng), decl, p)
			case s < 10:
				p := v35Payload(rng, rng.IntN(6))
				w = v35AppendFrame(w, rng, []uint64{0x0, 0x1, 0x3, 0x4, 0x5}[rng.IntN(5)], uint64(len(p)), p)
			case s < 11:
				w = v35AppendFrame(w, rng, 0x7, 1, []byte{0})
			default:
				w = v35AppendFrame(w, rng, []uint64{0x2, 0x6, 0x8, 0x9, 0xd}[rng.IntN(5)], 1, []byte{0})
			}
		}
		if rng.IntN(4) == 0 {
			w = w[:rng.IntN(len(w)+1)]
			uc.Kind = "control+cut"
		}
	case s < 16: // push / encoder / decoder stream with arbitrary content
		uc.Kind = "qpack-or-push"
		w = vqsVarint(w, uint64(1+rng.IntN(3)), 0)
		w = append(w, v35Payload(rng, rng.IntN(40))...)
	case s < 19: // unknown stream type
		uc.Kind = "unknown-type"
		w = vqsVarint(w, v35UnknownType(rng), 0)
		w = append(w, v35Payload(rng, rng.IntN(40))...)
	default: // the stream type itself is cut short
		uc.Kind = "type-cut"
		w = vqsVarint(nil, uint64(rng.IntN(4)), []int{2, 4, 8}[rng.IntN(3)])
		w = w[:rng.IntN(len(w))]
		uc.Fin = true
	}
	uc.Wire = w
	uc.Cuts = v35Cuts(rng, len(w))
	return uc
}

type v35UniObs struct {
	panics   []v35Panic
	returned map[string][]error
	aborts   []error
	connErr  error
}

func v35RunUni(t testing.TB, s *v35Side, uc *v35UniCase) (o v35UniObs) {
	ret0, ab0, pn0 := s.rec.snapshot()
	qs, err := s.peer.NewSendOnlyStream(context.Background())
	if err != nil {
		t.Fatalf("peer NewSendOnlyStream: %v", err)
	}
	wait := v35Write(qs, uc.Wire, uc.Cuts, uc.Fin)
	wait()
	synctest.Wait()
	o.connErr = s.peer.Wait(canceledCtx)
	ret1, ab1, pn1 := s.rec.snapshot()
	o.returned = map[string][]error{}
	for k, v := range ret1 {
		if len(v) > len(ret0[k]) {
			o.returned[k] = v[len(ret0[k]):]
		}
	}
	o.aborts = ab1[len(ab0):]
	o.panics = pn1[len(pn0):]
	if !uc.Fin {
		qs.Reset(uint64(errH3NoError))
	}
	return o
}

func v35CheckUni(r *verifrt.R, uc *v35UniCase, o *v35UniObs, viol func(key, f string, a ...any)) (nontrivial bool) {
	for _, p := range o.panics {
		viol(p.key, "panic while handling a unidirectional stream: %s", p.msg)
	}
	r.Event("uni_streams", 1)
	r.Event("uni_"+uc.Role+"_"+strings.SplitN(uc.Kind, "+", 2)[0], 1)
	if len(o.panics) > 0 {
		return true
	}
	closed := !errors.Is(o.connErr, context.Canceled)
	stype, n := v35Varint(uc.Wire)
	if n <= 0 || stype != 0 {
		// not a control stream: the statement only asks for survival; note what happened
		if n > 0 && !v35Known(stype) && stype > 3 {
			if closed {
				r.Event("unknown_stream_type_closed_connection", 1)
			} else {
				r.Event("unknown_stream_type_ignored", 1)
			}
		}
		return false
	}
	class, skipped, why := v35PredictControl(uc.Wire[n:], uc.Fin)
	r.Event("control_expect_"+class, 1)
	ret := o.returned["control"]
	var rerr error
	returned := len(ret) > 0
	if returned {
		rerr = ret[0]
	}
	failed := (returned && rerr != nil) || len(o.aborts) > 0 || closed
	// the error the failure was reported with: what the connection was aborted with, else what
	// the handler returned (handleUnidirectionalStream turns a returned io.EOF into an abort)
	var first error
	switch {
	case len(o.aborts) > 0:
		first = o.aborts[0]
	case returned && rerr != nil:
		first = rerr
	}
	r.Event("control_result_"+class+"_"+v35Code(first), 1)
	switch class {
	case v35CtlOpen:
		if failed {
			key := "control-stream-failed-without-cause"
			if skipped > 0 {
				key = "control-unknown-frame-not-skipped"
			}
			viol(key, "complete control stream frames (%d unknown to skip), stream still open: handler returned %v, aborts %v, connection %v", skipped, ret, o.aborts, o.connErr)
		} else if skipped > 0 {
			r.Event("control_unknown_frames_skipped", int64(skipped))
		}
	case v35CtlError:
		if !failed {
			viol("control-stream-error-ignored", "%s: no error (handler returned %v, aborts %v)", why, ret, o.aborts)
		} else if skipped > 0 {
			r.Event("control_unknown_frames_skipped", int64(skipped))
		}
	case v35CtlFrameError:
		switch {
		case !failed:
			viol("control-overread-ignored", "%s: no error", why)
		case !v35IsFrameError(first):
			viol("control-overread-wrong-error-class", "%s: reported as %v, not H3_FRAME_ERROR", why, first)
		default:
			r.Event("control_overread_reported_as_frame_error", 1)
		}
	case v35CtlCut:
		switch {
		case !failed:
			viol("control-truncated-frame-ignored", "%s: no error", why)
		case v35IsFrameError(first):
			r.Event("control_truncated_reported_as_frame_error", 1)
		case errors.Is(first, errH3ClosedCriticalStream):
			r.Event("control_truncated_reported_as_closed_critical_stream", 1)
		default:
			viol("control-truncated-wrong-error-class", "%s: reported as %v", why, first)
		}
	}
	return true
}

// ---------- the monitor ----------

const v35StuckLimit = 150 * time.Second

func TestVerif_C35(t *testing.T) {
	r := verifrt.Start(t, "C35")
	defer r.Finish()
	r.ExitIfAbnormal()
	r.SetRule("PRNG frame sequences written raw by a scripted QUIC peer: request streams to a real serverConn and response streams to a real clientConn.RoundTrip (valid HEADERS, then DATA / unknown (grease 0x1f*N+0x21 and other unassigned types) / known-but-misplaced / trailing HEADERS frames with minimal and non-minimal varints, declared lengths lying in both directions, the stream ended at arbitrary offsets, single bit flips, delivery in 1-3 pieces), control streams (SETTINGS with known, reserved, unknown and over-running settings, then unknown and misplaced frames, with and without FIN), other unidirectional streams; an every-offset sweep over fixed frame sequences. non-trivial = the walker found at least one DATA or unknown frame to act on or predicts a non-clean end; distinct by stream bytes + role")
	r.Assume("the reference frame walker (varint type, varint length, payload) and qpackref; a HEADERS frame cut short inside its field section may be reported as H3_FRAME_ERROR or QPACK_DECOMPRESSION_FAILED; a control stream finished inside a frame as H3_FRAME_ERROR or H3_CLOSED_CRITICAL_STREAM; reserved HTTP/2 frame types, GOAWAY and MAX_PUSH_ID end the prediction")
	r.Assume("the implementation's accept loop (newServerConn/newClientConn + genericConn.acceptStreams) is replaced by a harness copy that runs the same handler functions under recover()")
	if err := qpackref.SelfCheck(); err != nil {
		t.Fatalf("reference self check failed (inconclusive): %v", err)
	}
	const batch = 40
	var mu sync.Mutex
	samples := 0

	runBatch := func(c *verifrt.Case, n int, gen func(k int) (msg *v35MsgCase, uni *v35UniCase)) {
		var prog vqsProgress
		defer vqsWatch(r, c, &prog, v35StuckLimit)()
		inner, outer := vqsBubble(t, func(t *testing.T) {
			sides := map[string]*v35Side{}
			defer func() {
				for _, s := range sides {
					s.close()
				}
			}()
			for k := 0; k < n; k++ {
				msg, uni := gen(k)
				role := ""
				if msg != nil {
					role = msg.Role
				} else {
					role = uni.Role
				}
				s := sides[role]
				if s != nil && !s.alive() {
					s.close()
					s = nil
				}
				if s == nil {
					s = v35NewSide(t, role)
					sides[role] = s
					r.Event("connections", 1)
				}
				if msg != nil {
					prog.step(fmt.Sprintf("%s-role stream %x cuts %v", role, msg.Wire, msg.Cuts))
					o := v35RunMsg(t, s, msg, c.Rng.Uint64())
					viol := func(key, f string, a ...any) {
						c.Describe(map[string]any{"sub": k, "role": role, "kind": msg.Kind, "stream_octets": fmt.Sprintf("%x", msg.Wire), "cuts": msg.Cuts})
						c.Violation(key, "%s\nrole=%s kind=%s cuts=%v stream octets=%x\nframes: %s", fmt.Sprintf(f, a...), role, msg.Kind, msg.Cuts, msg.Wire, v35Describe(msg.Wire))
					}
					nt := v35CheckMsg(r, msg, &o, viol)
					r.EvalBytes(nt, append([]byte(role), msg.Wire...))
					if !errors.Is(o.connErr, context.Canceled) {
						r.Event("peer_saw_"+v35Code(o.connErr), 1)
					}
					if role == "server" && o.peerErr != nil && o.peerErr != io.EOF {
						r.Event("peer_saw_"+v35Code(o.peerErr), 1)
					}
					mu.Lock()
					if samples < 5 && c.Index == 0 && len(msg.Wire) < 100 && nt && len(o.read.body) > 0 {
						samples++
						r.Sample(map[string]any{"role": role, "stream_octets": fmt.Sprintf("%x", msg.Wire), "frames": v35Describe(msg.Wire), "body_read": fmt.Sprintf("%x", o.read.body), "read_ended_with": v35Code(o.read.err)})
					}
					mu.Unlock()
				} else {
					prog.step(fmt.Sprintf("%s-role uni stream %x cuts %v fin %v", role, uni.Wire, uni.Cuts, uni.Fin))
					o := v35RunUni(t, s, uni)
					viol := func(key, f string, a ...any) {
						c.Describe(map[string]any{"sub": k, "role": role, "kind": uni.Kind, "stream_octets": fmt.Sprintf("%x", uni.Wire), "cuts": uni.Cuts, "fin": uni.Fin})
						c.Violation(key, "%s\nrole=%s kind=%s cuts=%v fin=%v stream octets=%x", fmt.Sprintf(f, a...), role, uni.Kind, uni.Cuts, uni.Fin, uni.Wire)
					}
					nt := v35CheckUni(r, uni, &o, viol)
					r.EvalBytes(nt, append([]byte(role+"/uni"), uni.Wire...))
					// a control stream can be opened once per connection
					s.close()
					delete(sides, role)
				}
			}
		})
		vqsBubbleTrouble(c, inner, outer)
	}

	// the smallest streams of each shape of interest, both roles (fixed: no PRNG involved)
	r.Cases("minimal-shapes", 1, func(c *verifrt.Case) {
		var list []*v35MsgCase
		for _, role := range []string{"server", "client"} {
			hdr := v35ReqFields
			if role == "client" {
				hdr = v35RespFields
			}
			h := v35AppendFrame(nil, nil, 0x1, uint64(len(hdr)), hdr)
			add := func(kind string, wire []byte) {
				list = append(list, &v35MsgCase{Role: role, Kind: "minimal:" + kind, Wire: append([]byte{}, wire...)})
			}
			add("headers-only", h)
			add("empty-headers-frame", []byte{0x01, 0x00})
			add("headers+data", append(append([]byte{}, h...), 0x00, 0x02, 'h', 'i'))
			add("headers+empty-trailers-frame", append(append([]byte{}, h...), 0x01, 0x00))
			add("headers+data+type-octet-only", append(append([]byte{}, h...), 0x00, 0x02, 'h', 'i', 0x00))
			add("headers+data-cut", append(append([]byte{}, h...), 0x00, 0x05, 'h', 'i'))
			add("grease+headers+data", append(append([]byte{0x21, 0x00}, h...), 0x00, 0x02, 'h', 'i'))
			add("headers+grease+data+grease", append(append([]byte{}, h...), 0x21, 0x01, 0xff, 0x00, 0x02, 'h', 'i', 0x40, 0x40, 0x00))
			add("headers+data+trailers", append(append(append([]byte{}, h...), 0x00, 0x02, 'h', 'i', 0x01, byte(len(v35TrailerFields))), v35TrailerFields...))
		}
		runBatch(c, len(list), func(k int) (*v35MsgCase, *v35UniCase) {
			r.Event("minimal_shape_cases", 1)
			return list[k], nil
		})
	})

	r.CasesParallel("messages", r.N(120, 900), 8, func(c *verifrt.Case) {
		runBatch(c, batch, func(k int) (*v35MsgCase, *v35UniCase) {
			role := "server"
			if c.Rng.IntN(2) == 0 {
				role = "client"
			}
			return v35GenMsg(c.Rng, role), nil
		})
	})

	r.CasesParallel("uni-streams", r.N(40, 300), 8, func(c *verifrt.Case) {
		runBatch(c, batch, func(k int) (*v35MsgCase, *v35UniCase) {
			role := "server"
			if c.Rng.IntN(2) == 0 {
				role = "client"
			}
			return nil, v35GenUni(c.Rng, role)
		})
	})

	// FIN at every offset of a few fixed message streams
	r.CasesParallel("every-offset", r.N(6, 24), 8, func(c *verifrt.Case) {
		role := []string{"server", "client"}[c.Index%2]
		hdr := v35ReqFields
		if role == "client" {
			hdr = v35RespFields
		}
		var w []byte
		for try := 0; ; try++ {
			w = v35AppendFrame(nil, nil, 0x1, uint64(len(hdr)), hdr)
			if try < 20 {
				w = v35BodyFrames(w, c.Rng)
			}
			w = v35AppendFrame(w, c.Rng, 0x0, 5, []byte("hello"))
			w = v35AppendFrame(w, c.Rng, v35UnknownType(c.Rng), 3, []byte{0, 1, 2})
			w = v35AppendFrame(w, c.Rng, 0x0, 2, []byte("!!"))
			w = v35AppendFrame(w, c.Rng, 0x1, uint64(len(v35TrailerFields)), v35TrailerFields)
			if len(w) <= 300 {
				break
			}
		}
		runBatch(c, len(w)+1, func(k int) (*v35MsgCase, *v35UniCase) {
			r.Event("every_offset_cases", 1)
			return &v35MsgCase{Role: role, Wire: append([]byte{}, w[:k]...), Kind: "every-offset"}, nil
		})
	})

	vqsRaceFinish(r)
	r.Require("server_streams", int64(r.N(120, 900)*batch/4))
	r.Require("client_streams", int64(r.N(120, 900)*batch/4))
	r.Require("body_octets_checked", 200000)
	r.Require("data_frames_delivered", 1000)
	r.Require("unknown_frames_skipped", 600)
	r.Require("outcome_"+v35Eof, 200)
	r.Require("outcome_"+v35FrameError, 200)
	r.Require("outcome_"+v35Unexpected, 100)
	r.Require("outcome_"+v35TrailersEof, 50)
	r.Require("uni_streams", int64(r.N(40, 300)*batch*9/10))
	r.Require("control_expect_"+v35CtlOpen, 50)
	r.Require("control_expect_"+v35CtlFrameError, 10)
	r.Require("control_expect_"+v35CtlCut, 30)
	r.Require("every_offset_cases", 200)
	r.Require("minimal_shape_cases", 18)
}

// v35Describe renders the walker's view of a message stream.
func v35Describe(wire []byte) string {
	frames, tail := v35Parse(wire)
	var sb strings.Builder
	for i, f := range frames {
		if i >= 14 {
			fmt.Fprintf(&sb, " …(%d frames)", len(frames))
			break
		}
		name := fmt.Sprintf("%#x", f.Type)
		switch f.Type {
		case 0:
			name = "DATA"
		case 1:
			name = "HEADERS"
		}
		fmt.Fprintf(&sb, " [%s decl=%d have=%d]", name, f.Decl, len(f.Payload))
	}
	return sb.String() + " tail=" + tail
}
