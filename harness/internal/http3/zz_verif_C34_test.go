//go:build verif

package http3

// C34: HTTP/3 request/response exchanges are delivered faithfully end to end.
//
// A real transport (transport.dial / clientConn.RoundTrip) talks to a real server
// (server.serve) over two real quic.Endpoints joined by the vhn fault-injecting datagram
// network, inside a testing/synctest bubble. Every exchange is scripted by the PRNG on both
// sides (what the client sends and how it chunks it, what the handler answers and how it
// writes/flushes it); both sides record what they observed and the oracle compares each
// observation with the script of the other side. Nothing in the oracle decodes wire bytes.

import (
	"context"
	"fmt"
	"io"
	"log/slog"
	"math/rand/v2"
	"net/http"
	"net/netip"
	"net/url"
	"os"
	"runtime"
	"sort"
	"strconv"
	"strings"
	"sync"
	"sync/atomic"
	"testing"
	"testing/synctest"
	"time"

	"golang.org/x/net/internal/verifrt"
	"golang.org/x/net/quic"
)

// ---- scripts ----

type v34Field struct {
	Name string
	Vals []string
}

const (
	v34ReqNone    = "none"     // nil body
	v34ReqExact   = "declared" // ContentLength == bytes produced
	v34ReqUnknown = "unknown"  // no declared length
	v34ReqShort   = "short"    // declared > produced
	v34ReqLong    = "long"     // declared < produced

	v34RespUndeclared = "undeclared"
	v34RespExact      = "declared"
	v34RespShort      = "short" // Content-Length > bytes written
	v34RespLong       = "long"  // Content-Length < bytes written
)

type v34Exchange struct {
	ID   int
	Seed uint64

	// request
	Method               string
	HostOverrid          string // Request.Host, "" = none
	URLHost              string
	RawPath              string // escaped
	RawQuery             string
	ReqHeaders           []v34Field
	CookiePairs          [][]string // one Cookie header value per element
	UserAgent            string     // "" = not set by the client
	AcceptEnc            string     // "" = not set by the client
	ReqKind              string
	ReqBody              int64 // bytes the body reader produces
	ReqDeclared          int64 // Request.ContentLength
	ReqChunkMax          int
	ReqChunkFixed        int  // > 0: every Read returns exactly this many bytes (the last one the rest)
	ReqEOFWithData       bool // last chunk is returned together with io.EOF
	ReqEOFDelayMs        int  // the body reader pauses that long (virtual) before it reports its end
	ReqStartDelayMs      int  // the client waits that long (virtual) before it starts the round trip
	ReqTrailers          []v34Field
	ReqTrailerUndeclared bool // the body also adds a trailer that was never declared

	// handler
	Duplex               bool  // write the response while reading the request
	RespAfterReq         int64 // duplex: start the response once this many request bytes were read
	ReqReadMax           int
	Status               int
	EarlyHints           bool
	ExplicitWH           bool
	LateMutation         bool
	RespHeaders          []v34Field
	RespKind             string
	RespBody             int64 // bytes the handler tries to write
	RespDeclared         int64 // Content-Length set by the handler, -1 none
	RespChunkMax         int
	RespChunkFixed       int // > 0: every Write of the handler has exactly this length (the last one the rest)
	RespFlushPct         int
	FlushFirst           bool // Flush before the first Write
	RespTrailersDeclared []v34Field
	RespTrailersPrefix   []v34Field
	RespTrailerUnset     string // declared but never set ("" = none)
	RespReadMax          int
}

func (ex *v34Exchange) summary() map[string]any {
	return map[string]any{"id": ex.ID, "method": ex.Method, "path": ex.RawPath, "query": ex.RawQuery, "req_headers": len(ex.ReqHeaders),
		"req_kind": ex.ReqKind, "req_body": ex.ReqBody, "req_declared": ex.ReqDeclared, "req_chunk_max": ex.ReqChunkMax, "req_chunk_fixed": ex.ReqChunkFixed, "req_trailers": len(ex.ReqTrailers),
		"duplex": ex.Duplex, "resp_after_req_bytes": ex.RespAfterReq, "status": ex.Status, "resp_headers": len(ex.RespHeaders), "resp_kind": ex.RespKind, "resp_body": ex.RespBody,
		"resp_declared": ex.RespDeclared, "resp_chunk_max": ex.RespChunkMax, "resp_chunk_fixed": ex.RespChunkFixed, "flush_pct": ex.RespFlushPct, "flush_first": ex.FlushFirst,
		"explicit_writeheader": ex.ExplicitWH, "late_mutation": ex.LateMutation, "early_hints": ex.EarlyHints,
		"resp_trailers_declared": len(ex.RespTrailersDeclared), "resp_trailers_prefix": len(ex.RespTrailersPrefix)}
}

type v34Config struct {
	Faults             vhnFaults
	FaultPhaseMs       int
	CleanBoundS        int
	CliBuf             [3]int64 // MaxStreamReadBufferSize, MaxStreamWriteBufferSize, MaxConnReadBufferSize
	SrvBuf             [3]int64
	DisableCompression bool
	NetSeed            uint64
	Ex                 []*v34Exchange
	// KeyUpdateLossMs > 0 selects the scripted loss pattern instead of PRNG faults: from the
	// client's first 1-RTT packet with a number above KeyUpdateAfter, for that many virtual
	// ms, every client datagram that carries an ack-eliciting packet is lost (pure
	// acknowledgements get through). Afterwards the network is perfect.
	KeyUpdateLossMs int
	KeyUpdateAfter  int64
	// ResetAckLossMs > 0 selects another scripted loss pattern: for that many virtual ms after
	// the client sent its first RESET_STREAM frame every server datagram is lost (so the
	// acknowledgement of the reset is lost and the client retransmits RESET_STREAM).
	ResetAckLossMs int
	// FinLoss selects a third scripted loss pattern: from the client's first STREAM frame on
	// a request stream every server datagram is lost (nothing of the request is
	// acknowledged); the first client packet that carries nothing of a request stream but
	// its FIN (a STREAM frame of length 0) is lost; when the client then sends request
	// stream data again (its PTO probe, which cannot hold all the unacknowledged data) the
	// network turns perfect. The peer then acknowledges everything except the packet with
	// the FIN, which the client has to declare lost and retransmit.
	FinLoss bool
}

func v34Pattern(lane uint32, off int64) byte {
	x := uint32(off)*2654435761 + lane*40503
	return byte(x>>24) ^ byte(x>>13) ^ byte(off>>16) ^ byte(lane)
}

func v34Fill(b []byte, lane uint32, off int64) {
	for i := range b {
		b[i] = v34Pattern(lane, off+int64(i))
	}
}

const v34TokenChars = "abcdefghijklmnopqrstuvwxyz0123456789"

// v34Name returns a header name already in canonical MIME form (so that the client's
// http.Header map holds exactly one spelling of it).
func v34Name(rng *rand.Rand, prefix string) string {
	parts := 1 + rng.IntN(3)
	var sb strings.Builder
	sb.WriteString(prefix)
	for p := 0; p < parts; p++ {
		sb.WriteByte('-')
		l := 1 + rng.IntN(8)
		for i := 0; i < l; i++ {
			ch := v34TokenChars[rng.IntN(len(v34TokenChars))]
			if i == 0 && ch >= 'a' && ch <= 'z' {
				ch -= 'a' - 'A'
			}
			sb.WriteByte(ch)
		}
	}
	return sb.String()
}

func v34Value(rng *rand.Rand) string {
	var l int
	switch rng.IntN(12) {
	case 0:
		return ""
	case 1:
		l = 1000 + rng.IntN(15000)
	case 2, 3:
		l = 60 + rng.IntN(300)
	default:
		l = 1 + rng.IntN(40)
	}
	hi := rng.IntN(20) == 0
	b := make([]byte, l)
	for i := range b {
		switch {
		case hi && rng.IntN(4) == 0:
			b[i] = byte(0x80 + rng.IntN(0x80)) // obs-text
		case rng.IntN(8) == 0 && i > 0 && i < l-1:
			b[i] = ' '
		default:
			b[i] = byte(0x21 + rng.IntN(0x7e-0x21+1))
		}
	}
	return string(b)
}

func v34Fields(rng *rand.Rand, n int, prefix string) []v34Field {
	seen := map[string]bool{}
	var out []v34Field
	for len(out) < n {
		name := v34Name(rng, prefix)
		if seen[name] {
			continue
		}
		seen[name] = true
		f := v34Field{Name: name}
		nv := 1
		if rng.IntN(5) == 0 {
			nv = 2 + rng.IntN(2)
		}
		for i := 0; i < nv; i++ {
			f.Vals = append(f.Vals, v34Value(rng))
		}
		out = append(out, f)
	}
	return out
}

func v34ShortFields(rng *rand.Rand, n int, prefix string) []v34Field {
	fs := v34Fields(rng, n, prefix)
	for i := range fs {
		for j := range fs[i].Vals {
			if len(fs[i].Vals[j]) > 200 {
				fs[i].Vals[j] = fs[i].Vals[j][:200]
				fs[i].Vals[j] = strings.TrimSpace(fs[i].Vals[j])
			}
		}
	}
	return fs
}

func v34Path(rng *rand.Rand) (path, query string) {
	pieces := []string{"a", "b", "Z", "0", "9", "-", ".", "_", "~", "%20", "%2F", "%C3%A9", "%25", "!", "$", "&", "'", "(", ")", "*", "+", ",", ";", "=", ":", "@"}
	var sb strings.Builder
	segs := rng.IntN(5)
	sb.WriteByte('/')
	for s := 0; s < segs; s++ {
		l := 1 + rng.IntN(10)
		for i := 0; i < l; i++ {
			sb.WriteString(pieces[rng.IntN(len(pieces))])
		}
		if s < segs-1 || rng.IntN(3) == 0 {
			sb.WriteByte('/')
		}
	}
	path = sb.String()
	if rng.IntN(2) == 0 {
		qp := []string{"a", "b", "1", "=", "&", "%26", "%3D", "+", "-", ".", "/", "?", ":", "@", "%20"}
		var qb strings.Builder
		l := rng.IntN(30)
		for i := 0; i < l; i++ {
			qb.WriteString(qp[rng.IntN(len(qp))])
		}
		query = qb.String()
	}
	return path, query
}

func v34Size(rng *rand.Rand, maxBody int64) int64 {
	switch rng.IntN(10) {
	case 0:
		return 0
	case 1:
		return 1 + rng.Int64N(16)
	case 2:
		return 500 + rng.Int64N(30) // around the 512-byte response buffer
	case 3, 4:
		return rng.Int64N(5000)
	case 5, 6:
		return rng.Int64N(min(maxBody, 70000) + 1)
	default:
		return rng.Int64N(maxBody + 1)
	}
}

func v34ChunkMax(rng *rand.Rand, size int64) int {
	c := []int{1, 7, 100, 511, 513, 1200, 4096, 65536}[rng.IntN(8)]
	if c < 100 && size > 20000 {
		c = 1200
	}
	if c < 1200 && size > 200000 {
		c = 4096
	}
	return c
}

func v34GenExchange(rng *rand.Rand, id int, maxBody int64, maxHeaders int) *v34Exchange {
	ex := &v34Exchange{ID: id, Seed: rng.Uint64()}
	ex.Method = []string{"GET", "POST", "POST", "PUT", "PATCH", "DELETE", "OPTIONS", "HEAD", "PROPFIND", "M-SEARCH"}[rng.IntN(10)]
	ex.URLHost = []string{"example.tld", "example.tld:8443", "a.b.example.tld", "[2001:db8::1]:443", "192.0.2.7"}[rng.IntN(5)]
	if rng.IntN(4) == 0 {
		ex.HostOverrid = []string{"override.example", "other.example:99"}[rng.IntN(2)]
	}
	ex.RawPath, ex.RawQuery = v34Path(rng)
	nh := 0
	switch rng.IntN(4) {
	case 0:
		nh = 0
	case 1:
		nh = rng.IntN(4)
	default:
		nh = rng.IntN(maxHeaders + 1)
	}
	ex.ReqHeaders = v34Fields(rng, nh, "X-Q")
	if rng.IntN(3) == 0 {
		nc := 1 + rng.IntN(3)
		for i := 0; i < nc; i++ {
			var pairs []string
			np := 1 + rng.IntN(3)
			for j := 0; j < np; j++ {
				pairs = append(pairs, fmt.Sprintf("k%d%d=%x", i, j, rng.Uint32()))
			}
			ex.CookiePairs = append(ex.CookiePairs, pairs)
		}
	}
	if rng.IntN(2) == 0 {
		ex.UserAgent = "verif-agent/" + strconv.Itoa(rng.IntN(100))
	}
	if rng.IntN(3) == 0 {
		ex.AcceptEnc = []string{"identity", "br, deflate"}[rng.IntN(2)]
	}

	// request body
	mismatch := rng.IntN(8) == 0
	switch {
	case mismatch:
		ex.ReqBody = v34Size(rng, maxBody)
		if rng.IntN(2) == 0 || ex.ReqBody < 2 {
			ex.ReqKind = v34ReqShort
			ex.ReqDeclared = ex.ReqBody + 1 + rng.Int64N(1+ex.ReqBody)
		} else {
			ex.ReqKind = v34ReqLong
			ex.ReqDeclared = 1 + rng.Int64N(ex.ReqBody-1)
		}
	case rng.IntN(4) == 0 || ex.Method == "GET" && rng.IntN(2) == 0:
		ex.ReqKind = v34ReqNone
	default:
		ex.ReqBody = v34Size(rng, maxBody)
		if rng.IntN(2) == 0 && ex.ReqBody > 0 {
			ex.ReqKind = v34ReqExact
			ex.ReqDeclared = ex.ReqBody
		} else {
			ex.ReqKind = v34ReqUnknown
			ex.ReqDeclared = []int64{0, -1}[rng.IntN(2)]
		}
	}
	ex.ReqChunkMax = v34ChunkMax(rng, ex.ReqBody)
	ex.ReqEOFWithData = rng.IntN(2) == 0
	if rng.IntN(3) == 0 && ex.ReqKind != v34ReqNone {
		ex.ReqTrailers = v34ShortFields(rng, 1+rng.IntN(4), "X-Qt")
		ex.ReqTrailerUndeclared = rng.IntN(2) == 0
	}

	// handler
	ex.Duplex = rng.IntN(2) == 0
	ex.ReqReadMax = []int{1, 13, 512, 4096, 65536}[rng.IntN(5)]
	if ex.ReqReadMax < 512 && ex.ReqBody > 20000 {
		ex.ReqReadMax = 4096
	}
	ex.Status = []int{200, 200, 200, 200, 201, 404, 500, 418, 204, 304}[rng.IntN(10)]
	ex.EarlyHints = rng.IntN(10) == 0
	ex.ExplicitWH = ex.Status != 200 || rng.IntN(2) == 0
	ex.LateMutation = rng.IntN(2) == 0
	nrh := 0
	switch rng.IntN(4) {
	case 0:
		nrh = 0
	case 1:
		nrh = rng.IntN(4)
	default:
		nrh = rng.IntN(maxHeaders + 1)
	}
	ex.RespHeaders = v34Fields(rng, nrh, "X-P")
	if rng.IntN(2) == 0 {
		ex.RespHeaders = append(ex.RespHeaders, v34Field{Name: "Content-Type", Vals: []string{[]string{"application/x-verif", "text/plain; charset=utf-8"}[rng.IntN(2)]}})
	}
	if rng.IntN(6) == 0 {
		ex.RespHeaders = append(ex.RespHeaders, v34Field{Name: "Set-Cookie", Vals: []string{"a=1; Path=/", "b=2; HttpOnly"}})
	}
	noBody := ex.Status == 204 || ex.Status == 304
	ex.RespDeclared = -1
	rmis := rng.IntN(8) == 0
	switch {
	case noBody:
		ex.RespKind = v34RespUndeclared
		if rng.IntN(2) == 0 {
			ex.RespBody = rng.Int64N(2000) // swallowed (204) or refused (304) by the server
		}
	case rmis && ex.Method != "HEAD":
		ex.RespBody = v34Size(rng, maxBody)
		if rng.IntN(2) == 0 || ex.RespBody < 2 {
			ex.RespKind = v34RespShort
			ex.RespDeclared = ex.RespBody + 1 + rng.Int64N(1+ex.RespBody)
		} else {
			ex.RespKind = v34RespLong
			ex.RespDeclared = rng.Int64N(ex.RespBody)
		}
	default:
		ex.RespBody = v34Size(rng, maxBody)
		if rng.IntN(2) == 0 {
			ex.RespKind = v34RespExact
			ex.RespDeclared = ex.RespBody
		} else {
			ex.RespKind = v34RespUndeclared
		}
	}
	ex.RespChunkMax = v34ChunkMax(rng, ex.RespBody)
	ex.RespFlushPct = []int{0, 0, 10, 50, 100}[rng.IntN(5)]
	ex.FlushFirst = rng.IntN(8) == 0
	if rng.IntN(3) == 0 && ex.Method != "HEAD" && !noBody {
		switch rng.IntN(3) {
		case 0:
			ex.RespTrailersDeclared = v34ShortFields(rng, 1+rng.IntN(3), "X-Pt")
		case 1:
			ex.RespTrailersPrefix = v34ShortFields(rng, 1+rng.IntN(3), "X-Pu")
		default:
			ex.RespTrailersDeclared = v34ShortFields(rng, 1+rng.IntN(3), "X-Pt")
			ex.RespTrailersPrefix = v34ShortFields(rng, 1+rng.IntN(3), "X-Pu")
		}
		if len(ex.RespTrailersDeclared) > 0 && rng.IntN(3) == 0 {
			ex.RespTrailerUnset = "X-Pt-Unset"
		}
	}
	ex.RespReadMax = []int{1, 13, 512, 4096, 65536}[rng.IntN(5)]
	if ex.RespReadMax < 512 && ex.RespBody > 20000 {
		ex.RespReadMax = 4096
	}
	// Frame payloads of exactly a varint-encoding boundary: chunks of a fixed boundary length, which
	// transport and server turn into one DATA frame each when nothing else is buffered.
	fixed := func(body int64) int {
		var ok []int
		for _, n := range []int{63, 64, 65, 16383, 16384, 16384, 16385} {
			if int64(n) <= body {
				ok = append(ok, n)
			}
		}
		if len(ok) == 0 || rng.IntN(4) != 0 {
			return 0
		}
		if len(ok) > 3 && rng.IntN(4) != 0 {
			ok = ok[3:]
		}
		return ok[rng.IntN(len(ok))]
	}
	if f := fixed(ex.ReqBody); f > 0 {
		ex.ReqChunkFixed, ex.ReqChunkMax = f, max(ex.ReqChunkMax, f)
	}
	if f := fixed(ex.RespBody); f > 0 {
		ex.RespChunkFixed, ex.RespChunkMax = f, max(ex.RespChunkMax, f)
	}
	return ex
}

func v34GenFaults(rng *rand.Rand) vhnFaults {
	f := vhnFaults{BaseDelayMs: 1 + rng.IntN(40), MaxConsec: 2 + rng.IntN(3)}
	switch rng.IntN(5) {
	case 0: // clean-ish
		f.JitterMs = rng.IntN(5)
	case 1: // lossy
		f.Loss = 0.03 + rng.Float64()*0.22
		f.JitterMs = rng.IntN(20)
	case 2: // duplicating / reordering
		f.Dup = rng.Float64() * 0.15
		f.Reorder = rng.Float64() * 0.30
		f.ReorderMaxMs = 1 + rng.IntN(80)
		f.JitterMs = rng.IntN(30)
	default: // everything
		f.Loss = rng.Float64() * 0.25
		f.Dup = rng.Float64() * 0.15
		f.Reorder = rng.Float64() * 0.25
		f.ReorderMaxMs = 1 + rng.IntN(120)
		f.JitterMs = rng.IntN(30)
	}
	return f
}

func v34GenBuf(rng *rand.Rand) [3]int64 {
	pick := func() int64 { return []int64{0, 0, 0, 1 << 12, 1 << 14, 1 << 16, 1 << 22}[rng.IntN(7)] }
	return [3]int64{pick(), pick(), pick()}
}

func v34GenConfig(rng *rand.Rand, maxEx int, maxBody int64, maxHeaders int) *v34Config {
	cfg := &v34Config{Faults: v34GenFaults(rng), CliBuf: v34GenBuf(rng), SrvBuf: v34GenBuf(rng), CleanBoundS: 300,
		FaultPhaseMs: []int{200, 2000, 20000, 120000}[rng.IntN(4)], DisableCompression: rng.IntN(3) == 0, NetSeed: rng.Uint64()}
	// the smallest window among the chosen buffer sizes must still let a body finish in a
	// few hundred round trips
	w := int64(1 << 20)
	for _, b := range [][3]int64{cfg.CliBuf, cfg.SrvBuf} {
		for _, v := range b {
			if v > 0 && v < w {
				w = v
			}
		}
	}
	maxBody = min(maxBody, w*100)
	n := 1 + rng.IntN(maxEx)
	for i := 0; i < n; i++ {
		cfg.Ex = append(cfg.Ex, v34GenExchange(rng, i, maxBody, maxHeaders))
	}
	return cfg
}

// ---- observations ----

type v34BodyObs struct {
	Progress atomic.Int64 // == N, readable while the reader runs
	N        int64        // bytes delivered
	BadAt    int64        // first offset whose byte differs from the pattern (-1 none)
	BadGot   byte
	Err      error  // error that ended the reading (io.EOF = clean end)
	AfterEOF string // non-empty: a Read after io.EOF returned something else than (0, error)
	ZeroNil  bool
}

type v34WriteRec struct {
	Len, N int
	Err    error
}

type v34SrvObs struct {
	Calls           atomic.Int32
	Done            atomic.Bool
	Method          string
	Host            string
	ReqURI          string
	Path            string
	RawQuery        string
	Proto           string
	ProtoMajor      int
	CL              int64
	Header          http.Header
	TrailerDeclared []string // keys of r.Trailer before the body was read
	Body            v34BodyObs
	Trailer         http.Header // after the body
	Writes          []v34WriteRec
	SnapHeader      http.Header // what the handler's header map held when the status was committed
	Written         int64       // bytes the handler offered to Write
}

type v34CliObs struct {
	Done       atomic.Bool
	RTErr      error
	Status     int
	Proto      string
	CL         int64
	Header     http.Header
	Body       v34BodyObs
	Trailer    http.Header
	BodyClosed atomic.Bool // the transport closed the request body
}

type v34Run struct {
	cfg        *v34Config
	c          *verifrt.Case
	srv        []*v34SrvObs
	cli        []*v34CliObs
	hwg        verifrt.WG
	srvDone    []chan struct{} // closed when the handler of exchange i returns (made inside the bubble)
	vmu        sync.Mutex
	nviol      int
	connDead   bool
	collateral int
	unknownReq atomic.Int32
}

// errViol reports a failure (error result) of one exchange. When the QUIC connection was
// closed with an error during the run, every exchange in flight fails as a consequence; that
// is reported once, under the connection's own key, not once per victim.
func (run *v34Run) errViol(key, format string, a ...any) {
	if run.connDead {
		run.collateral++
		return
	}
	run.viol(key, format, a...)
}

func (run *v34Run) viol(key, format string, a ...any) {
	run.vmu.Lock()
	defer run.vmu.Unlock()
	run.nviol++
	run.c.Violation(key, format, a...)
}

// v34ReadAll reads rd to its end in PRNG-sized pieces and checks each byte against the
// pattern of lane as it arrives.
func v34ReadAll(rd io.Reader, lane uint32, readMax int, rng *rand.Rand, obs *v34BodyObs, progress func(n int64)) {
	obs.BadAt = -1
	buf := make([]byte, readMax)
	for {
		p := buf[:1+rng.IntN(readMax)]
		n, err := rd.Read(p)
		for i := 0; i < n; i++ {
			if obs.BadAt < 0 {
				if want := v34Pattern(lane, obs.N+int64(i)); p[i] != want {
					obs.BadAt, obs.BadGot = obs.N+int64(i), p[i]
				}
			}
		}
		obs.N += int64(n)
		obs.Progress.Store(obs.N)
		if progress != nil {
			progress(obs.N)
		}
		if err != nil {
			obs.Err = err
			if err == io.EOF {
				if n2, err2 := rd.Read(buf); n2 != 0 || err2 == nil {
					obs.AfterEOF = fmt.Sprintf("(%d,%v)", n2, err2)
				}
			}
			return
		}
		if n == 0 {
			obs.ZeroNil = true
			obs.Err = fmt.Errorf("harness: Read returned (0,nil)")
			return
		}
	}
}

// v34ReqBody is the client's request body: it produces ReqBody pattern bytes in PRNG-sized
// chunks, sets the trailers when it reaches its end, and records Close.
type v34ReqBody struct {
	ex   *v34Exchange
	req  *http.Request
	obs  *v34CliObs
	rng  *rand.Rand
	off  int64
	done bool
}

func (b *v34ReqBody) Read(p []byte) (int, error) {
	if b.done {
		return 0, io.EOF
	}
	if len(p) == 0 {
		return 0, nil
	}
	remain := b.ex.ReqBody - b.off
	if remain == 0 {
		if b.ex.ReqEOFDelayMs > 0 {
			time.Sleep(time.Duration(b.ex.ReqEOFDelayMs) * time.Millisecond)
		}
		b.finish()
		return 0, io.EOF
	}
	n := int64(1 + b.rng.IntN(b.ex.ReqChunkMax))
	if b.ex.ReqChunkFixed > 0 {
		n = int64(b.ex.ReqChunkFixed)
	}
	n = min(n, remain, int64(len(p)))
	v34Fill(p[:n], uint32(2*b.ex.ID), b.off)
	b.off += n
	if b.off == b.ex.ReqBody && b.ex.ReqEOFWithData {
		b.finish()
		return int(n), io.EOF
	}
	return int(n), nil
}

func (b *v34ReqBody) finish() {
	b.done = true
	for _, f := range b.ex.ReqTrailers {
		b.req.Trailer[f.Name] = append([]string(nil), f.Vals...)
	}
	if b.ex.ReqTrailerUndeclared {
		b.req.Trailer["X-Qt-Undeclared"] = []string{"must not travel"}
	}
}

func (b *v34ReqBody) Close() error { b.obs.BodyClosed.Store(true); return nil }

// ---- handler ----

func (run *v34Run) ServeHTTP(w http.ResponseWriter, r *http.Request) {
	run.hwg.Add(1)
	defer run.hwg.Done()
	id, err := strconv.Atoi(r.Header.Get("X-Verif-Id"))
	if err != nil || id < 0 || id >= len(run.cfg.Ex) {
		run.unknownReq.Add(1)
		run.viol("handler-saw-unknown-request", "handler invoked with X-Verif-Id %q (method %s uri %s header %d fields), no such exchange was sent", r.Header.Get("X-Verif-Id"), r.Method, r.RequestURI, len(r.Header))
		return
	}
	ex, obs := run.cfg.Ex[id], run.srv[id]
	if obs.Calls.Add(1) > 1 {
		run.viol("handler-invoked-twice", "exchange %d reached the handler more than once", id)
		return
	}
	defer close(run.srvDone[id])
	defer obs.Done.Store(true)
	obs.Method, obs.Host, obs.ReqURI, obs.Proto, obs.ProtoMajor, obs.CL = r.Method, r.Host, r.RequestURI, r.Proto, r.ProtoMajor, r.ContentLength
	if r.URL != nil {
		obs.Path, obs.RawQuery = r.URL.Path, r.URL.RawQuery
	}
	obs.Header = r.Header.Clone()
	for k := range r.Trailer {
		obs.TrailerDeclared = append(obs.TrailerDeclared, k)
	}
	sort.Strings(obs.TrailerDeclared)

	reached := make(chan struct{})
	var reachedOnce sync.Once
	progress := func(n int64) {
		if ex.RespAfterReq > 0 && n >= ex.RespAfterReq {
			reachedOnce.Do(func() { close(reached) })
		}
	}
	readReq := func() {
		v34ReadAll(r.Body, uint32(2*id), ex.ReqReadMax, rand.New(rand.NewPCG(ex.Seed, 2)), &obs.Body, progress)
		obs.Trailer = r.Trailer.Clone()
	}
	if ex.Duplex {
		done := make(chan struct{})
		go func() {
			defer close(done)
			readReq()
		}()
		defer func() { <-done }()
		if ex.RespAfterReq > 0 {
			// start answering only once that much of the request has been read
			select {
			case <-reached:
			case <-done:
			}
		}
	} else {
		readReq()
	}
	run.writeResponse(w, ex, obs)
}

func (run *v34Run) writeResponse(w http.ResponseWriter, ex *v34Exchange, obs *v34SrvObs) {
	rng := rand.New(rand.NewPCG(ex.Seed, 3))
	h := w.Header()
	for _, f := range ex.RespHeaders {
		h[f.Name] = append([]string(nil), f.Vals...)
	}
	if ex.RespDeclared >= 0 {
		h.Set("Content-Length", strconv.FormatInt(ex.RespDeclared, 10))
	}
	var tnames []string
	for _, f := range ex.RespTrailersDeclared {
		tnames = append(tnames, f.Name)
	}
	if ex.RespTrailerUnset != "" {
		tnames = append(tnames, ex.RespTrailerUnset)
	}
	if len(tnames) > 0 {
		if len(tnames) > 1 && rng.IntN(2) == 0 {
			h.Set("Trailer", strings.Join(tnames[:1], ", "))
			h.Add("Trailer", strings.ToLower(strings.Join(tnames[1:], ",")))
		} else {
			h.Set("Trailer", strings.Join(tnames, ", "))
		}
	}
	if ex.EarlyHints {
		w.WriteHeader(http.StatusEarlyHints)
	}
	committed := false
	commit := func() {
		if committed {
			return
		}
		committed = true
		obs.SnapHeader = h.Clone()
		if ex.LateMutation {
			// documented: changing the header map after WriteHeader/Write has no effect
			h.Set("X-Verif-Late", "must not travel")
			for _, f := range ex.RespHeaders {
				if f.Name != "Content-Type" {
					h[f.Name] = []string{"mutated after the header was committed"}
					break
				}
			}
			if len(ex.RespHeaders) > 1 {
				h.Del(ex.RespHeaders[len(ex.RespHeaders)-1].Name)
			}
		}
	}
	if ex.ExplicitWH {
		w.WriteHeader(ex.Status)
		commit()
	}
	fl, _ := w.(http.Flusher)
	if ex.FlushFirst && fl != nil {
		fl.Flush()
		commit()
	}
	buf := make([]byte, ex.RespChunkMax)
	var off int64
	for off < ex.RespBody {
		n := min(int64(1+rng.IntN(ex.RespChunkMax)), ex.RespBody-off)
		if ex.RespChunkFixed > 0 {
			n = min(int64(ex.RespChunkFixed), ex.RespBody-off)
		}
		b := buf[:n]
		v34Fill(b, uint32(2*ex.ID+1), off)
		wn, err := w.Write(b)
		commit()
		obs.Writes = append(obs.Writes, v34WriteRec{Len: int(n), N: wn, Err: err})
		off += n
		obs.Written = off
		if fl != nil && rng.IntN(100) < ex.RespFlushPct {
			fl.Flush()
		}
	}
	for _, f := range ex.RespTrailersDeclared {
		h[f.Name] = append([]string(nil), f.Vals...)
	}
	for _, f := range ex.RespTrailersPrefix {
		h[http.TrailerPrefix+f.Name] = append([]string(nil), f.Vals...)
	}
	if !committed {
		// the server commits status 200 and the header when the handler returns
		obs.SnapHeader = h.Clone()
	}
}

// ---- client ----

func (run *v34Run) doExchange(ctx context.Context, cc *clientConn, ex *v34Exchange) {
	obs := run.cli[ex.ID]
	defer obs.Done.Store(true)
	raw := "https://" + ex.URLHost + ex.RawPath
	if ex.RawQuery != "" {
		raw += "?" + ex.RawQuery
	}
	u, err := url.Parse(raw)
	if err != nil {
		obs.RTErr = fmt.Errorf("harness: url.Parse(%q): %v", raw, err)
		return
	}
	hdr := http.Header{}
	hdr["X-Verif-Id"] = []string{strconv.Itoa(ex.ID)}
	for _, f := range ex.ReqHeaders {
		hdr[f.Name] = append([]string(nil), f.Vals...)
	}
	for _, pairs := range ex.CookiePairs {
		hdr["Cookie"] = append(hdr["Cookie"], strings.Join(pairs, "; "))
	}
	if ex.UserAgent != "" {
		hdr["User-Agent"] = []string{ex.UserAgent}
	}
	if ex.AcceptEnc != "" {
		hdr["Accept-Encoding"] = []string{ex.AcceptEnc}
	}
	req := &http.Request{Method: ex.Method, URL: u, Host: ex.HostOverrid, Header: hdr, Proto: "HTTP/3.0", ProtoMajor: 3}
	req = req.WithContext(ctx)
	if ex.ReqKind != v34ReqNone {
		req.Body = &v34ReqBody{ex: ex, req: req, obs: obs, rng: rand.New(rand.NewPCG(ex.Seed, 1))}
		req.ContentLength = ex.ReqDeclared
	}
	if len(ex.ReqTrailers) > 0 {
		req.Trailer = http.Header{}
		for _, f := range ex.ReqTrailers {
			req.Trailer[f.Name] = nil
		}
	}
	if ex.ReqStartDelayMs > 0 {
		time.Sleep(time.Duration(ex.ReqStartDelayMs) * time.Millisecond)
	}
	resp, err := cc.RoundTrip(req)
	if err != nil {
		obs.RTErr = err
		return
	}
	obs.Status, obs.Proto, obs.CL = resp.StatusCode, resp.Proto, resp.ContentLength
	obs.Header = resp.Header.Clone()
	v34ReadAll(resp.Body, uint32(2*ex.ID+1), ex.RespReadMax, rand.New(rand.NewPCG(ex.Seed, 4)), &obs.Body, nil)
	obs.Trailer = resp.Trailer.Clone()
	// Closing the response body tells the transport that the caller is done with the whole
	// request (it resets the sending half). A response without body ends before the
	// request body has travelled, so this client closes only once the handler returned.
	select {
	case <-run.srvDone[ex.ID]:
	case <-ctx.Done():
	}
	resp.Body.Close()
}

// ---- one run ----

type v34RunStats struct {
	HandshakeErr error
	StuckIDs     map[int]bool // exchanges that were incomplete when the bound expired
	Stuck        bool
	VirtualMs    int64
	Net          *vhnNet
	Tap          *v34Tap
}

var (
	v34ServerAddr = netip.MustParseAddrPort("10.0.0.1:443")
	v34ClientAddr = netip.MustParseAddrPort("10.0.0.2:5000")
)

// v34Tap receives the qlog events of both endpoints (Config.QLogLogger). The oracle does not
// use it; it serves (a) the evidence (packets, retransmission-relevant loss events), (b) the
// diagnosis of a stuck run (an endpoint that discards every packet it receives after a key
// update gets its own violation key), (c) the scripted loss pattern of the key-update
// scenario, which needs to know which datagram carries an ack-eliciting packet, and (d) with
// VERIF_DEBUG set, a readable trace and a dump of all goroutines written to the run's output
// directory ($VERIF_OUT, else /tmp/C34) when a run gets stuck.
type v34Tap struct {
	mu    sync.Mutex
	t0    time.Time
	Side  [2]v34TapSide // 0 client, 1 server
	lines []string      // debug only
	// OnSent is called (under mu, on the sending connection's loop goroutine, before the
	// datagram is written to the network) for every 1-RTT packet an endpoint sends.
	OnSent func(side int, pnum int64, ackEliciting bool, frames []string)
	// First CONNECTION_CLOSE frame with an error code that either endpoint sent, and whether
	// a RESET_STREAM frame had been sent before it.
	CloseFrame      string
	CloseAfterReset bool
	resetStreamSeen bool
	// Per side: the streams the side sent STREAM frames on, the 1-RTT packets that carried
	// the FIN of a stream, the streams the side reset, and the 1-RTT packets the side
	// declared lost (for the diagnosis of a stall).
	dataSent  [2]map[int64]bool
	finPkts   [2]map[int64][]int64
	resetSent [2]map[int64]bool
	lostPkts  [2]map[int64]bool
}

// v34ParseStreamFrame decodes the qlog rendering of a STREAM frame
// ("STREAM ID=4 FIN Offset=814 Length=0").
func v34ParseStreamFrame(f string) (id int64, fin bool, off, length int64, ok bool) {
	if !strings.HasPrefix(f, "STREAM ID=") {
		return
	}
	for _, w := range strings.Fields(f)[1:] {
		k, v, _ := strings.Cut(w, "=")
		n, _ := strconv.ParseInt(v, 10, 64)
		switch k {
		case "ID":
			id = n
		case "FIN":
			fin = true
		case "Offset":
			off = n
		case "Length":
			length = n
		}
	}
	return id, fin, off, length, true
}

// finNeverRetransmitted lists (under mu) the streams of one side whose FIN travelled only
// in packets that the side itself declared lost, and that the side did not reset: the
// peer can never see the end of such a stream.
func (t *v34Tap) finNeverRetransmitted(side int) []string {
	var out []string
	for id, pkts := range t.finPkts[side] {
		all := !t.resetSent[side][id] && len(pkts) > 0
		for _, p := range pkts {
			all = all && t.lostPkts[side][p]
		}
		if all {
			out = append(out, fmt.Sprintf("stream %d: FIN sent in packets %v, all declared lost", id, pkts))
		}
	}
	sort.Strings(out)
	return out
}

// finNeverSent lists (under mu) the request streams the client sent data on but never a
// FIN nor a RESET_STREAM.
func (t *v34Tap) finNeverSent() []string {
	var out []string
	for id := range t.dataSent[0] {
		if id%4 == 0 && len(t.finPkts[0][id]) == 0 && !t.resetSent[0][id] {
			out = append(out, fmt.Sprintf("stream %d", id))
		}
	}
	sort.Strings(out)
	return out
}

type v34TapSide struct {
	Sent, Received, Discarded, Lost int64
	ConsecDiscarded                 int64 // packets discarded since the last one that was processed
	KeyPhaseSeen                    bool  // processed a 1-RTT packet with the key phase bit set
	MaxSent                         int64
}

type v34TapHandler struct {
	tap  *v34Tap
	side int
}

func (h *v34TapHandler) Enabled(context.Context, slog.Level) bool { return true }
func (h *v34TapHandler) WithGroup(string) slog.Handler            { return h }
func (h *v34TapHandler) WithAttrs(attrs []slog.Attr) slog.Handler { return h }
func (h *v34TapHandler) Handle(_ context.Context, rec slog.Record) error {
	t := h.tap
	var ptype string
	var pnum, flags int64 = -1, 0
	eliciting := false
	var frames []string
	rec.Attrs(func(a slog.Attr) bool {
		switch a.Key {
		case "header":
			if a.Value.Kind() == slog.KindGroup {
				for _, g := range a.Value.Group() {
					switch g.Key {
					case "packet_type":
						ptype = g.Value.String()
					case "packet_number":
						pnum, _ = strconv.ParseInt(g.Value.String(), 10, 64)
					case "flags":
						flags, _ = strconv.ParseInt(g.Value.String(), 10, 64)
					}
				}
			}
		case "frames":
			vals, _ := a.Value.Any().([]slog.Value)
			for _, v := range vals {
				// quic's debug frames print as "NAME field=..."; ACK frames (no String
				// method) print as a struct literal
				s := fmt.Sprint(v.Any())
				frames = append(frames, s)
				if s != "" && s[0] >= 'A' && s[0] <= 'Z' && !strings.HasPrefix(s, "PADDING") && !strings.HasPrefix(s, "ACK") && !strings.HasPrefix(s, "CONNECTION_CLOSE") {
					eliciting = true
				}
			}
		}
		return true
	})
	t.mu.Lock()
	defer t.mu.Unlock()
	sd := &t.Side[h.side]
	switch rec.Message {
	case "transport:packet_sent":
		sd.Sent++
		for _, f := range frames {
			if strings.HasPrefix(f, "RESET_STREAM") {
				t.resetStreamSeen = true
				var id int64
				if _, err := fmt.Sscanf(f, "RESET_STREAM ID=%d", &id); err == nil {
					if t.resetSent[h.side] == nil {
						t.resetSent[h.side] = map[int64]bool{}
					}
					t.resetSent[h.side][id] = true
				}
			}
			if id, fin, _, _, ok := v34ParseStreamFrame(f); ok && ptype == "1RTT" {
				if t.finPkts[h.side] == nil {
					t.finPkts[h.side], t.dataSent[h.side] = map[int64][]int64{}, map[int64]bool{}
				}
				t.dataSent[h.side][id] = true
				if fin {
					t.finPkts[h.side][id] = append(t.finPkts[h.side][id], pnum)
				}
			}
			if strings.HasPrefix(f, "CONNECTION_CLOSE") && !strings.HasPrefix(f, "CONNECTION_CLOSE Code=NO_ERROR") && t.CloseFrame == "" {
				t.CloseFrame, t.CloseAfterReset = "CS"[h.side:h.side+1]+" sent "+f, t.resetStreamSeen
			}
		}
		if ptype == "1RTT" {
			sd.MaxSent = max(sd.MaxSent, pnum)
			if t.OnSent != nil {
				t.OnSent(h.side, pnum, eliciting, frames)
			}
		}
	case "transport:packet_received":
		sd.Received++
		sd.ConsecDiscarded = 0
		if ptype == "1RTT" && flags&0x04 != 0 {
			sd.KeyPhaseSeen = true
		}
	case "connectivity:packet_dropped":
		sd.Discarded++
		sd.ConsecDiscarded++
	case "recovery:packet_lost":
		sd.Lost++
		if ptype == "1RTT" {
			if t.lostPkts[h.side] == nil {
				t.lostPkts[h.side] = map[int64]bool{}
			}
			t.lostPkts[h.side][pnum] = true
		}
	}
	if v34Debug {
		var sb strings.Builder
		fmt.Fprintf(&sb, "%8dms %s %s", time.Since(t.t0).Milliseconds(), "CS"[h.side:h.side+1], rec.Message)
		rec.Attrs(func(a slog.Attr) bool {
			if a.Key == "frames" {
				vals, _ := a.Value.Any().([]slog.Value)
				for _, v := range vals {
					fmt.Fprintf(&sb, " {%v}", v.Any())
				}
			} else {
				fmt.Fprintf(&sb, " %s=%v", a.Key, a.Value)
			}
			return true
		})
		t.lines = append(t.lines, sb.String())
		if len(t.lines) > 20000 {
			t.lines = t.lines[10000:]
		}
	}
	return nil
}

var v34Debug = os.Getenv("VERIF_DEBUG") != ""

var v34DebugDir = func() string {
	if d := os.Getenv("VERIF_OUT"); d != "" {
		return d
	}
	return "/tmp/C34"
}()

func v34QUICConfig(buf [3]int64) *quic.Config {
	return &quic.Config{
		TLSConfig:                testTLSConfig,
		MaxStreamReadBufferSize:  buf[0],
		MaxStreamWriteBufferSize: buf[1],
		MaxConnReadBufferSize:    buf[2],
		HandshakeTimeout:         150 * time.Second,
		MaxIdleTimeout:           -1,
	}
}

// execute runs the scripted exchanges. It must be called inside a synctest bubble.
func (run *v34Run) execute(t *testing.T) *v34RunStats {
	cfg := run.cfg
	st := &v34RunStats{}
	nw := vhnNew(cfg.NetSeed, cfg.Faults)
	for range cfg.Ex {
		run.srvDone = append(run.srvDone, make(chan struct{}))
	}
	st.Net = nw
	start := time.Now()

	srv := &server{config: v34QUICConfig(cfg.SrvBuf), handler: run}
	tap := &v34Tap{t0: start}
	st.Tap = tap
	srv.config.QLogLogger = slog.New(&v34TapHandler{tap: tap, side: 1})
	srvEP, err := quic.NewEndpoint(nw.NewConn(v34ServerAddr, vhnS2C), srv.config)
	if err != nil {
		st.HandshakeErr = err
		return st
	}
	serveDone := make(chan struct{})
	go func() {
		defer close(serveDone)
		srv.serve(srvEP)
	}()
	cliConf := v34QUICConfig(cfg.CliBuf)
	cliConf.QLogLogger = slog.New(&v34TapHandler{tap: tap, side: 0})
	cliEP, err := quic.NewEndpoint(nw.NewConn(v34ClientAddr, vhnC2S), nil)
	if err != nil {
		st.HandshakeErr = err
		srvEP.Close(canceledCtx)
		<-serveDone
		return st
	}
	tr := &transport{endpoint: cliEP, config: cliConf, tr1: &http.Transport{DisableCompression: cfg.DisableCompression}, activeConns: make(map[*clientConn]struct{})}

	ctx, cancel := context.WithCancel(context.Background())
	teardown := func(cc *clientConn) {
		cancel()
		if cc != nil {
			cc.qconn.Abort(nil)
		}
		srv.mu.Lock()
		for sc := range srv.activeConns {
			sc.qconn.Abort(nil)
		}
		srv.mu.Unlock()
		cliEP.Close(canceledCtx)
		srvEP.Close(canceledCtx)
		<-serveDone
		nw.Stop()
		synctest.Wait()
	}

	if cfg.KeyUpdateLossMs > 0 {
		// Scripted loss (see v34Config.KeyUpdateLossMs). The window opens a few packets before
		// the client's packet KeyUpdateAfter; inside it client datagrams with an ack-eliciting
		// packet are lost, and pure acknowledgements are lost too until the server cannot owe
		// an acknowledgement any more (its delayed-ack timer is 25 ms). The window closes
		// once it lasted KeyUpdateLossMs and the server's packet numbers passed
		// KeyUpdateAfter as well (or after 20 s).
		var pendEliciting, winActive, winOver atomic.Bool
		var winStart, lastElicitingPassed, srvMax atomic.Int64 // virtual ms since start / packet number
		nowMs := func() int64 { return time.Since(start).Milliseconds() }
		tap.OnSent = func(side int, pnum int64, eliciting bool, _ []string) {
			if side != 0 {
				srvMax.Store(max(srvMax.Load(), pnum))
				return
			}
			pendEliciting.Store(eliciting)
			if pnum > cfg.KeyUpdateAfter-5 && !winOver.Load() && !winActive.Load() {
				winStart.Store(nowMs())
				winActive.Store(true)
			}
		}
		nw.Filter = func(dir int, b []byte) bool {
			if dir != vhnC2S {
				return true
			}
			e := pendEliciting.Swap(false)
			now := nowMs()
			if winActive.Load() {
				el := now - winStart.Load()
				if el >= int64(cfg.KeyUpdateLossMs) && srvMax.Load() >= cfg.KeyUpdateAfter+8 || el >= 20000 {
					winActive.Store(false)
					winOver.Store(true)
					return true
				}
				if e {
					return false
				}
				return now >= lastElicitingPassed.Load()+int64(cfg.Faults.BaseDelayMs)+30
			}
			if e {
				lastElicitingPassed.Store(now)
			}
			return true
		}
	}
	if cfg.ResetAckLossMs > 0 {
		var armed atomic.Bool
		var lossUntil atomic.Int64
		nowMs := func() int64 { return time.Since(start).Milliseconds() }
		tap.OnSent = func(side int, pnum int64, eliciting bool, frames []string) {
			if side != 0 || armed.Load() {
				return
			}
			for _, f := range frames {
				if strings.HasPrefix(f, "RESET_STREAM") {
					lossUntil.Store(nowMs() + int64(cfg.ResetAckLossMs))
					armed.Store(true)
				}
			}
		}
		nw.Filter = func(dir int, b []byte) bool {
			return !(dir == vhnS2C && armed.Load() && nowMs() < lossUntil.Load())
		}
	}
	if cfg.FinLoss {
		// phase 0: before the request; 1: request under way, server datagrams lost;
		// 2: the packet with nothing but the FIN was sent (and lost); 3: the client sent
		// request stream data again, the network is perfect from that datagram on.
		var phase atomic.Int32
		var pendFinOnly atomic.Bool
		var maxEnd int64 // highest request stream offset sent so far
		tap.OnSent = func(side int, pnum int64, eliciting bool, frames []string) {
			if side != 0 {
				return
			}
			reqData, finOnly, resent := false, false, false
			for _, f := range frames {
				if id, fin, off, length, ok := v34ParseStreamFrame(f); ok && id%4 == 0 {
					reqData = reqData || length > 0
					finOnly = finOnly || fin && length == 0
					resent = resent || length > 0 && off < maxEnd
					maxEnd = max(maxEnd, off+length)
				}
			}
			switch phase.Load() {
			case 0:
				if reqData {
					phase.Store(1)
				}
			case 1:
				if finOnly && !reqData {
					phase.Store(2)
					pendFinOnly.Store(true)
				} else if resent {
					// the probe came before the FIN (the congestion window held it
					// back): the pattern did not materialise, stop interfering
					phase.Store(3)
				}
			case 2:
				if reqData {
					phase.Store(3)
				}
			}
		}
		nw.Filter = func(dir int, b []byte) bool {
			ph := phase.Load()
			if dir == vhnS2C {
				return ph != 1 && ph != 2
			}
			return !pendFinOnly.Swap(false)
		}
	}
	hctx, hcancel := context.WithTimeout(ctx, 200*time.Second)
	cc, err := tr.dial(hctx, v34ServerAddr.String(), nil)
	hcancel()
	if err != nil {
		st.HandshakeErr = err
		teardown(nil)
		return st
	}

	var wg verifrt.WG
	var pending atomic.Int64
	for _, ex := range cfg.Ex {
		wg.Add(1)
		pending.Add(1)
		go func() {
			defer wg.Done()
			defer pending.Add(-1)
			run.doExchange(ctx, cc, ex)
		}()
	}
	waitUntil := func(d time.Duration) bool {
		deadline := time.Now().Add(d)
		for time.Now().Before(deadline) {
			time.Sleep(20 * time.Millisecond)
			if pending.Load() == 0 {
				return true
			}
		}
		return pending.Load() == 0
	}
	done := waitUntil(time.Duration(cfg.FaultPhaseMs) * time.Millisecond)
	nw.SetClean()
	if !done {
		done = waitUntil(time.Duration(cfg.CleanBoundS) * time.Second)
	}
	if done {
		// let the handlers of the last exchanges return (a client can be done first)
		synctest.Wait()
	}
	st.VirtualMs = time.Since(start).Milliseconds()
	if done && v34Debug {
		tap.mu.Lock()
		os.WriteFile(fmt.Sprintf(v34DebugDir+"/done-%s-%d.log", run.c.Stream, run.c.Index), []byte(strings.Join(tap.lines, "\n")), 0o644)
		tap.mu.Unlock()
	}
	if !done {
		st.Stuck = true
		st.StuckIDs = map[int]bool{}
		if v34Debug {
			gbuf := make([]byte, 4<<20)
			gbuf = gbuf[:runtime.Stack(gbuf, true)]
			os.WriteFile(fmt.Sprintf(v34DebugDir+"/goroutines-%s-%d.txt", run.c.Stream, run.c.Index), gbuf, 0o644)
			tap.mu.Lock()
			os.MkdirAll(v34DebugDir, 0o755)
			os.WriteFile(fmt.Sprintf(v34DebugDir+"/stuck-%s-%d.log", run.c.Stream, run.c.Index), []byte(strings.Join(tap.lines, "\n")), 0o644)
			tap.mu.Unlock()
		}
		var stuck []string
		for _, ex := range cfg.Ex {
			co, so := run.cli[ex.ID], run.srv[ex.ID]
			if !co.Done.Load() {
				st.StuckIDs[ex.ID] = true
				stuck = append(stuck, fmt.Sprintf("exchange %d (%s req %s %d/%d resp %s %d/%d): handler calls=%d done=%v read %d; client read %d",
					ex.ID, ex.Method, ex.ReqKind, ex.ReqBody, ex.ReqDeclared, ex.RespKind, ex.RespBody, ex.RespDeclared, so.Calls.Load(), so.Done.Load(), so.Body.Progress.Load(), co.Body.Progress.Load()))
			}
		}
		key := "exchange-stuck-after-faults-stopped"
		tap.mu.Lock()
		tapState := fmt.Sprintf("client tap %+v; server tap %+v", tap.Side[0], tap.Side[1])
		for i, name := range []string{"client", "server"} {
			if sd := tap.Side[i]; sd.ConsecDiscarded >= 3 && sd.KeyPhaseSeen {
				// the endpoint processed packets of the next key phase and since then
				// discards everything its peer sends, on a perfect network
				key = "exchange-stuck-" + name + "-discards-every-packet-after-key-update"
			}
		}
		for i, name := range []string{"client", "server"} {
			if lost := tap.finNeverRetransmitted(i); len(lost) > 0 && key == "exchange-stuck-after-faults-stopped" {
				// the end of a stream was sent only in packets that their sender declared
				// lost, and it never sent it again although the network has been perfect since
				key = "exchange-stuck-" + name + "-stream-fin-lost-never-retransmitted"
				tapState += "; " + name + " " + strings.Join(lost, ", ")
			}
		}
		reqWritten := true
		for _, ex := range cfg.Ex {
			reqWritten = reqWritten && (ex.ReqKind == v34ReqNone || run.cli[ex.ID].BodyClosed.Load())
		}
		if open := tap.finNeverSent(); len(open) > 0 && reqWritten && key == "exchange-stuck-after-faults-stopped" {
			// the transport wrote every request to its end (it closed the request bodies)
			// and reset none of these streams, yet their FIN was never put in a packet
			key = "exchange-stuck-client-stream-fin-never-sent"
			tapState += "; client never sent the FIN of " + strings.Join(open, ", ") + " although every request body was written and closed"
		}
		closed := tap.CloseFrame
		tap.mu.Unlock()
		if closed != "" {
			// The peer closed the connection with an error and its CONNECTION_CLOSE was lost;
			// with the idle timeout disabled the survivor waits forever. Reported by
			// evaluate under the connection's key.
			key = ""
		}
		if key != "" {
			run.viol(key, "%s; %d exchanges incomplete %d virtual ms after start (network clean for the last %d s): %s; datagrams sent %v dropped %v",
				tapState, pending.Load(), st.VirtualMs, cfg.CleanBoundS, strings.Join(stuck, " | "), nw.Sent, nw.Dropped)
		}
	}
	teardown(cc)
	wg.Wait()
	run.hwg.Wait()
	return st
}

// ---- oracle ----

func v34Unescape(s string) string {
	var sb strings.Builder
	for i := 0; i < len(s); i++ {
		if s[i] == '%' && i+2 < len(s) {
			v, err := strconv.ParseUint(s[i+1:i+3], 16, 8)
			if err == nil {
				sb.WriteByte(byte(v))
				i += 2
				continue
			}
		}
		sb.WriteByte(s[i])
	}
	return sb.String()
}

func v34Short(s string) string {
	if len(s) > 80 {
		return fmt.Sprintf("%q…(%d bytes)", s[:80], len(s))
	}
	return fmt.Sprintf("%q", s)
}

func v34EqVals(a, b []string) bool {
	if len(a) != len(b) {
		return false
	}
	for i := range a {
		if a[i] != b[i] {
			return false
		}
	}
	return true
}

func v34ShortVals(v []string) string {
	var s []string
	for _, x := range v {
		s = append(s, v34Short(x))
	}
	return "[" + strings.Join(s, ",") + "]"
}

// checkBody evaluates one direction's body observation. total = bytes the writer produced,
// mismatch = the writer's length disagrees with its declared Content-Length, limit = for an
// over-long body the declared length (the reader must not be given more than that and a
// clean end at exactly limit is acceptable only if allowTrim).
func (run *v34Run) checkBody(side string, id int, obs *v34BodyObs, total int64, mismatch bool, desc string) {
	if obs.BadAt >= 0 {
		run.viol(side+"-body-corrupt", "exchange %d (%s): %s body byte at offset %d is %#x, written %#x", id, desc, side, obs.BadAt, obs.BadGot, v34Pattern(uint32(2*id+map[string]int{"request": 0, "response": 1}[side]), obs.BadAt))
	}
	if obs.N > total {
		run.viol(side+"-body-extended", "exchange %d (%s): reader got %d bytes, only %d were written", id, desc, obs.N, total)
	}
	if obs.AfterEOF != "" {
		run.viol(side+"-body-read-after-eof", "exchange %d (%s): Read after io.EOF returned %s", id, desc, obs.AfterEOF)
	}
	if obs.ZeroNil {
		run.viol(side+"-body-read-zero-nil", "exchange %d (%s): Read returned (0,nil) for a non-empty buffer", id, desc)
		return
	}
	if mismatch {
		return // decided by the caller
	}
	switch {
	case obs.Err == io.EOF && obs.N < total:
		run.viol(side+"-body-truncated-silently", "exchange %d (%s): reader got io.EOF after %d of %d bytes", id, desc, obs.N, total)
	case obs.Err != io.EOF:
		run.errViol(side+"-body-read-error", "exchange %d (%s): reading the %s body failed after %d of %d bytes: %v", id, desc, side, obs.N, total, obs.Err)
	}
}

func (run *v34Run) evaluate(st *v34RunStats, r *verifrt.R) {
	cfg := run.cfg
	if cf := st.Tap.CloseFrame; cf != "" {
		run.connDead = true
		code := "error"
		if i := strings.Index(cf, "Code="); i >= 0 {
			code = strings.Fields(cf[i+5:])[0]
		}
		key := "connection-closed-" + code
		if st.Tap.CloseAfterReset {
			key += "-after-stream-reset"
		}
		var sum []string
		for _, ex := range cfg.Ex {
			sum = append(sum, fmt.Sprintf("%d:%s req=%s/%d/%d resp=%s/%d/%d client-err=%v", ex.ID, ex.Method, ex.ReqKind, ex.ReqBody, ex.ReqDeclared, ex.RespKind, ex.RespBody, ex.RespDeclared, run.cli[ex.ID].RTErr))
		}
		run.viol(key, "the QUIC connection was closed with an error while exchanges were in flight: %s; exchanges: %s", cf, strings.Join(sum, " | "))
		r.Event("connections_closed_with_error", 1)
		defer func() { r.Event("exchange_failures_attributed_to_connection_close", int64(run.collateral)) }()
	}
	for _, ex := range cfg.Ex {
		so, co := run.srv[ex.ID], run.cli[ex.ID]
		desc := fmt.Sprintf("%s %s req=%s/%d/%d resp=%s/%d/%d status=%d", ex.Method, ex.RawPath, ex.ReqKind, ex.ReqBody, ex.ReqDeclared, ex.RespKind, ex.RespBody, ex.RespDeclared, ex.Status)
		if !co.Done.Load() || st.StuckIDs[ex.ID] {
			continue // reported as stuck; what teardown did to it afterwards is not an observation
		}
		reqMismatch := ex.ReqKind == v34ReqShort || ex.ReqKind == v34ReqLong
		invoked := so.Calls.Load() > 0 && so.Done.Load()
		r.Event("exchanges_completed", 1)

		// ---- what the handler saw ----
		if !invoked {
			if !reqMismatch {
				run.errViol("handler-not-invoked", "exchange %d (%s): the handler never ran to completion (calls=%d); RoundTrip error: %v", ex.ID, desc, so.Calls.Load(), co.RTErr)
			} else {
				r.Event("req_mismatch_handler_not_reached", 1)
			}
		} else {
			r.Event("handler_observations_checked", 1)
			if so.Method != ex.Method {
				run.viol("request-method-differs", "exchange %d: handler saw method %q, sent %q", ex.ID, so.Method, ex.Method)
			}
			wantHost := ex.URLHost
			if ex.HostOverrid != "" {
				wantHost = ex.HostOverrid
			}
			if so.Host != wantHost {
				run.viol("request-host-differs", "exchange %d: handler saw Host %q, sent %q", ex.ID, so.Host, wantHost)
			}
			wantURI := ex.RawPath
			if ex.RawQuery != "" {
				wantURI += "?" + ex.RawQuery
			}
			if so.ReqURI != wantURI {
				run.viol("request-uri-differs", "exchange %d: handler saw RequestURI %q, sent %q", ex.ID, so.ReqURI, wantURI)
			}
			if so.Path != v34Unescape(ex.RawPath) || so.RawQuery != ex.RawQuery {
				run.viol("request-url-differs", "exchange %d: handler saw path %q query %q, sent %q / %q", ex.ID, so.Path, so.RawQuery, v34Unescape(ex.RawPath), ex.RawQuery)
			}
			if so.Proto != "HTTP/3.0" || so.ProtoMajor != 3 {
				run.viol("request-proto-differs", "exchange %d: handler saw proto %q major %d", ex.ID, so.Proto, so.ProtoMajor)
			}
			wantCL := int64(-1)
			switch ex.ReqKind {
			case v34ReqNone:
				wantCL = 0
			case v34ReqExact, v34ReqShort, v34ReqLong:
				wantCL = ex.ReqDeclared
			}
			if ex.ReqKind == v34ReqNone {
				// a bodiless request may or may not carry content-length: 0
				if so.CL != 0 && so.CL != -1 {
					run.viol("request-content-length-differs", "exchange %d (%s): handler saw ContentLength %d for a request without body", ex.ID, desc, so.CL)
				}
			} else if so.CL != wantCL {
				run.viol("request-content-length-differs", "exchange %d (%s): handler saw ContentLength %d, want %d", ex.ID, desc, so.CL, wantCL)
			}
			// header fields
			want := map[string][]string{"X-Verif-Id": {strconv.Itoa(ex.ID)}}
			for _, f := range ex.ReqHeaders {
				want[f.Name] = f.Vals
			}
			if len(ex.CookiePairs) > 0 {
				var all []string
				for _, p := range ex.CookiePairs {
					all = append(all, p...)
				}
				want["Cookie"] = []string{strings.Join(all, "; ")}
			}
			if ex.UserAgent != "" {
				want["User-Agent"] = []string{ex.UserAgent}
			}
			if ex.AcceptEnc != "" {
				want["Accept-Encoding"] = []string{ex.AcceptEnc}
			}
			for k, v := range want {
				if got, ok := so.Header[k]; !ok || !v34EqVals(got, v) {
					run.viol("request-header-lost-or-changed", "exchange %d: header %q sent as %s, handler saw %s (present=%v)", ex.ID, k, v34ShortVals(v), v34ShortVals(got), ok)
				}
			}
			for k, got := range so.Header {
				if _, ok := want[k]; ok {
					continue
				}
				switch {
				case k == "Content-Length" && len(got) == 1 && ex.ReqKind != v34ReqUnknown && got[0] == strconv.FormatInt(max(wantCL, 0), 10):
				case k == "User-Agent" && ex.UserAgent == "" && len(got) == 1 && strings.HasPrefix(got[0], "Go-http-client/"):
				case k == "Accept-Encoding" && ex.AcceptEnc == "" && !cfg.DisableCompression && ex.Method != "HEAD" && len(got) == 1 && got[0] == "gzip":
				default:
					run.viol("request-header-never-sent", "exchange %d (%s): handler saw header %q = %s which the client did not send", ex.ID, desc, k, v34ShortVals(got))
				}
			}
			// declared trailer names
			var wantDecl []string
			for _, f := range ex.ReqTrailers {
				wantDecl = append(wantDecl, f.Name)
			}
			sort.Strings(wantDecl)
			if !v34EqVals(so.TrailerDeclared, wantDecl) {
				run.viol("request-trailer-declaration-differs", "exchange %d: handler saw declared trailers %v, client declared %v", ex.ID, so.TrailerDeclared, wantDecl)
			}
			// body
			run.checkBody("request", ex.ID, &so.Body, ex.ReqBody, reqMismatch, desc)
			if reqMismatch {
				r.Event("req_cl_mismatch_checked", 1)
				if so.Body.Err == io.EOF {
					run.viol("request-cl-mismatch-clean-eof", "exchange %d (%s): request body of %d bytes declared as %d ended in a clean io.EOF after %d bytes in the handler", ex.ID, desc, ex.ReqBody, ex.ReqDeclared, so.Body.N)
				}
				if so.Body.N > ex.ReqDeclared {
					run.viol("request-body-beyond-content-length", "exchange %d (%s): handler was given %d body bytes, Content-Length %d", ex.ID, desc, so.Body.N, ex.ReqDeclared)
				}
			} else {
				r.Event("req_bodies_verified", 1)
				if ex.ReqChunkFixed > 0 {
					r.Event(fmt.Sprintf("req_bodies_verified_in_chunks_of_%d", ex.ReqChunkFixed), 1)
				}
				r.Event("req_body_bytes_verified", so.Body.N)
				// trailers (only after a body that ended cleanly; a failed read was reported above)
				for _, f := range ex.ReqTrailers {
					if so.Body.Err != io.EOF {
						break
					}
					if got := so.Trailer[f.Name]; !v34EqVals(got, f.Vals) {
						run.viol("request-trailer-lost-or-changed", "exchange %d: trailer %q sent as %s, handler saw %s", ex.ID, f.Name, v34ShortVals(f.Vals), v34ShortVals(got))
					}
				}
				for k, v := range so.Trailer {
					known := false
					for _, f := range ex.ReqTrailers {
						known = known || f.Name == k
					}
					if !known && len(v) > 0 {
						run.viol("request-trailer-never-declared", "exchange %d: handler saw trailer %q = %s which was not declared/sent", ex.ID, k, v34ShortVals(v))
					}
				}
				if len(ex.ReqTrailers) > 0 && so.Body.Err == io.EOF {
					r.Event("req_trailer_sets_verified", 1)
				}
			}
		}

		// ---- what the client saw ----
		if reqMismatch {
			// The client broke its own declared length; the transport may fail the round
			// trip or hand out whatever response arrived. Nothing to demand here.
			if co.RTErr != nil {
				r.Event("req_mismatch_roundtrip_failed", 1)
			}
			continue
		}
		if co.RTErr != nil {
			run.errViol("roundtrip-error", "exchange %d (%s): RoundTrip failed: %v", ex.ID, desc, co.RTErr)
			continue
		}
		r.Event("client_observations_checked", 1)
		if co.Status != ex.Status {
			run.viol("response-status-differs", "exchange %d (%s): client saw status %d", ex.ID, desc, co.Status)
		}
		if co.Proto != "HTTP/3.0" {
			run.viol("response-proto-differs", "exchange %d: client saw proto %q", ex.ID, co.Proto)
		}
		noBody := ex.Status == 204 || ex.Status == 304
		// header: what the handler's map held when the status was committed
		snap := so.SnapHeader
		if !invoked {
			continue // already reported; without the handler's record nothing can be compared
		}
		for k, v := range snap {
			if k == "Trailer" || strings.HasPrefix(k, http.TrailerPrefix) {
				continue
			}
			if k == "Content-Length" && noBody {
				continue
			}
			if got, ok := co.Header[k]; !ok || !v34EqVals(got, v) {
				run.viol("response-header-lost-or-changed", "exchange %d (%s): handler set %q = %s, client saw %s (present=%v)", ex.ID, desc, k, v34ShortVals(v), v34ShortVals(got), ok)
			}
		}
		for k, got := range co.Header {
			if _, ok := snap[k]; ok || k == "Trailer" {
				continue
			}
			switch {
			case k == "Date" && len(got) == 1:
			case k == "Content-Type" && len(got) == 1 && v34Sniffable(got[0], ex, so.Written):
			case k == "X-Verif-Late":
				run.viol("response-header-set-after-commit-delivered", "exchange %d (%s): header set after WriteHeader/Write reached the client: %q = %s", ex.ID, desc, k, v34ShortVals(got))
			default:
				run.viol("response-header-never-set", "exchange %d (%s): client saw header %q = %s which the handler did not set", ex.ID, desc, k, v34ShortVals(got))
			}
		}
		wantCL := ex.RespDeclared
		if noBody {
			wantCL = co.CL // not scripted
		}
		if co.CL != wantCL {
			run.viol("response-content-length-differs", "exchange %d (%s): client saw ContentLength %d, handler declared %d", ex.ID, desc, co.CL, wantCL)
		}
		// body
		head := ex.Method == "HEAD"
		switch {
		case head || noBody:
			if co.Body.N != 0 {
				run.viol("response-body-where-none-allowed", "exchange %d (%s): client read %d body bytes", ex.ID, desc, co.Body.N)
			}
			if co.Body.Err != io.EOF {
				run.errViol("response-body-read-error", "exchange %d (%s): reading the bodiless response failed: %v", ex.ID, desc, co.Body.Err)
			}
			r.Event("bodiless_responses_checked", 1)
		case ex.RespKind == v34RespShort:
			r.Event("resp_cl_mismatch_checked", 1)
			run.checkBody("response", ex.ID, &co.Body, ex.RespBody, true, desc)
			if co.Body.Err == io.EOF {
				run.viol("response-cl-short-clean-eof", "exchange %d (%s): handler wrote %d bytes under Content-Length %d and the client got a clean io.EOF after %d bytes", ex.ID, desc, ex.RespBody, ex.RespDeclared, co.Body.N)
			} else if co.Body.N == ex.RespBody {
				r.Event("resp_short_all_bytes_then_error", 1)
			}
		case ex.RespKind == v34RespLong:
			r.Event("resp_cl_mismatch_checked", 1)
			run.checkBody("response", ex.ID, &co.Body, ex.RespBody, true, desc)
			if co.Body.N > ex.RespDeclared {
				run.viol("response-body-beyond-content-length", "exchange %d (%s): client was given %d body bytes, Content-Length %d", ex.ID, desc, co.Body.N, ex.RespDeclared)
			}
			if co.Body.Err == io.EOF {
				// acceptable only as the documented ResponseWriter behaviour: the excess was
				// refused at the handler (Write reported an error) and exactly the declared
				// number of bytes travelled
				refused := false
				for _, wr := range so.Writes {
					refused = refused || wr.Err != nil
				}
				if co.Body.N != ex.RespDeclared || !refused {
					run.viol("response-cl-long-silently-cut", "exchange %d (%s): handler wrote %d bytes under Content-Length %d; client got %d bytes and io.EOF; a handler Write reported an error: %v", ex.ID, desc, ex.RespBody, ex.RespDeclared, co.Body.N, refused)
				} else {
					r.Event("resp_long_refused_at_handler", 1)
				}
			}
		default:
			run.checkBody("response", ex.ID, &co.Body, ex.RespBody, false, desc)
			r.Event("resp_bodies_verified", 1)
			if ex.RespChunkFixed > 0 {
				r.Event(fmt.Sprintf("resp_bodies_verified_in_writes_of_%d", ex.RespChunkFixed), 1)
			}
			r.Event("resp_body_bytes_verified", co.Body.N)
		}
		// handler-side Write results
		if !head && !noBody && invoked {
			left := int64(-1)
			if ex.RespDeclared >= 0 {
				left = ex.RespDeclared
			}
			for i, wr := range so.Writes {
				wantN := int64(wr.Len)
				if left >= 0 {
					wantN = min(wantN, left)
					left -= wantN
				}
				if int64(wr.N) != wantN || (wr.Err == nil) != (wantN == int64(wr.Len)) {
					run.errViol("handler-write-result-wrong", "exchange %d (%s): Write #%d of %d bytes returned (%d,%v), want n=%d and an error iff n<len", ex.ID, desc, i, wr.Len, wr.N, wr.Err, wantN)
					break
				}
			}
			r.Event("handler_writes_checked", int64(len(so.Writes)))
		}
		// trailers (only after a body that ended cleanly)
		if co.Body.Err == io.EOF && !head && !noBody {
			for _, f := range append(append([]v34Field(nil), ex.RespTrailersDeclared...), ex.RespTrailersPrefix...) {
				if got := co.Trailer[f.Name]; !v34EqVals(got, f.Vals) {
					key := "response-trailer-lost-or-changed"
					if ex.RespDeclared == 0 && len(ex.RespTrailersDeclared) == 0 && ex.RespTrailerUnset == "" {
						key = "response-undeclared-trailer-lost-with-content-length-0"
					}
					run.viol(key, "exchange %d (%s): handler set trailer %q = %s, client saw %s", ex.ID, desc, f.Name, v34ShortVals(f.Vals), v34ShortVals(got))
				}
			}
			for k, v := range co.Trailer {
				known := false
				for _, f := range ex.RespTrailersDeclared {
					known = known || f.Name == k
				}
				for _, f := range ex.RespTrailersPrefix {
					known = known || f.Name == k
				}
				if !known && len(v) > 0 {
					run.viol("response-trailer-never-set", "exchange %d (%s): client saw trailer %q = %s which the handler did not set", ex.ID, desc, k, v34ShortVals(v))
				}
			}
			if len(ex.RespTrailersDeclared)+len(ex.RespTrailersPrefix) > 0 {
				r.Event("resp_trailer_sets_verified", 1)
			}
		}
		if ex.LateMutation {
			r.Event("late_header_mutations_checked", 1)
		}
	}
}

// v34Sniffable reports whether ct can be the server's sniffed Content-Type: the handler set
// none and ct is what net/http's documented sniffing yields for some prefix (at most 512
// bytes) of the bytes the handler wrote.
func v34Sniffable(ct string, ex *v34Exchange, written int64) bool {
	for _, f := range ex.RespHeaders {
		if f.Name == "Content-Type" {
			return false
		}
	}
	n := min(written, 512)
	buf := make([]byte, n)
	v34Fill(buf, uint32(2*ex.ID+1), 0)
	for k := int64(1); k <= n; k++ {
		if http.DetectContentType(buf[:k]) == ct {
			return true
		}
	}
	return false
}

func TestVerif_C34(t *testing.T) {
	r := verifrt.Start(t, "C34")
	defer r.Finish()
	r.ExitIfAbnormal()
	r.SetRule("case = one HTTP/3 connection (real transport and server over real QUIC endpoints) in a synctest bubble. Stream 'exchange': PRNG fault profile of the datagram network (loss<=25%, dup<=15%, reorder<=30%, jitter, consecutive-drop cap, fault phase 0.2-120 virtual s then clean), QUIC buffer sizes per side, 1-N concurrent exchanges each with method/host/path/query, 0-30 header fields (multi-valued, empty, 16 KiB, obs-text), cookies, request body 0-1 MiB in PRNG chunks with declared/unknown/short/long Content-Length, request trailers, handler mode (read-then-write or duplex), status, response header set, header mutation after commit, response body in PRNG Writes with Flush pattern and declared/undeclared/short/long Content-Length, announced and TrailerPrefix trailers. Streams 'key-update-under-loss', 'reset-retransmitted' and 'fin-lost-after-probe': the same exchanges under a scripted loss pattern (client datagrams with ack-eliciting packets lost around the first QUIC key update; server datagrams lost right after the client reset a request stream; no acknowledgement of a multi-packet request body until the client's PTO probe while the separate packet with the stream's FIN is lost). Stream 'content-length-0-with-trailers': perfect network. One evaluation per exchange; non-trivial = exchange carrying body bytes in at least one direction on a connection whose network dropped, duplicated or held back at least one datagram; distinct by (method, kinds, body sizes, chunking, header counts, fault counters)")
	r.Assume("fault decisions are a function of (seed, direction, datagram sequence number); goroutine scheduling inside the bubble is not replayed bit-exactly")
	r.Assume("net/url, net/http.Header and http.DetectContentType (standard library) are trusted; the harness never decodes HTTP/3 or QPACK bytes")
	r.Assume("a handler that writes more than its declared Content-Length is accepted in the documented net/http way: Write reports an error and exactly the declared bytes travel (or the client read fails)")
	n := r.N(70, 800)
	maxEx, maxBody, maxHeaders := 4, int64(160<<10), 20
	if r.Thorough() {
		maxEx, maxBody, maxHeaders = 6, 1<<20, 30
	}
	var mu sync.Mutex
	runCase := func(c *verifrt.Case, cfg *v34Config) {
		var sum []map[string]any
		for _, ex := range cfg.Ex {
			sum = append(sum, ex.summary())
		}
		c.Describe(map[string]any{"faults": cfg.Faults, "fault_phase_ms": cfg.FaultPhaseMs, "cli_buf": cfg.CliBuf, "srv_buf": cfg.SrvBuf, "disable_compression": cfg.DisableCompression,
			"key_update_loss_ms": cfg.KeyUpdateLossMs, "key_update_after_packet": cfg.KeyUpdateAfter, "reset_ack_loss_ms": cfg.ResetAckLossMs, "fin_loss_script": cfg.FinLoss, "exchanges": sum})
		run := &v34Run{cfg: cfg, c: c}
		for range cfg.Ex {
			run.srv = append(run.srv, &v34SrvObs{})
			run.cli = append(run.cli, &v34CliObs{})
		}
		var st *v34RunStats
		synctest.Test(t, func(t *testing.T) {
			st = run.execute(t)
		})
		mu.Lock()
		defer mu.Unlock()
		if st.HandshakeErr != nil {
			r.Event("handshake_failed", 1)
			r.Note("handshake failed: %v (faults %+v)", st.HandshakeErr, cfg.Faults)
			return
		}
		run.evaluate(st, r)
		nn, tp := st.Net, st.Tap
		if v34Debug && run.nviol > 0 {
			os.MkdirAll(v34DebugDir, 0o755)
			os.WriteFile(fmt.Sprintf(v34DebugDir+"/viol-%s-%d.log", c.Stream, c.Index), []byte(strings.Join(tp.lines, "\n")), 0o644)
		}
		faulted := nn.Dropped[0]+nn.Dropped[1]+nn.Duped[0]+nn.Duped[1]+nn.Reordered[0]+nn.Reordered[1]+nn.Filtered[0]+nn.Filtered[1] > 0
		for _, ex := range cfg.Ex {
			nt := faulted && (ex.ReqBody > 0 || ex.RespBody > 0) && run.cli[ex.ID].Done.Load()
			r.Eval(nt, ex.Method, ex.ReqKind, ex.ReqBody, ex.ReqChunkMax, len(ex.ReqHeaders), ex.RespKind, ex.RespBody, ex.RespChunkMax, ex.RespFlushPct, len(ex.RespHeaders), ex.Status, nn.Dropped, nn.Duped, nn.Reordered, nn.Filtered)
			r.Event("req_kind_"+ex.ReqKind, 1)
			r.Event("resp_kind_"+ex.RespKind, 1)
		}
		r.Event("runs_completed", 1)
		if faulted {
			r.Event("runs_with_network_faults", 1)
		}
		if st.Stuck {
			r.Event("stuck", 1)
		}
		if tp.Side[0].KeyPhaseSeen && tp.Side[1].KeyPhaseSeen {
			r.Event("runs_with_quic_key_update", 1)
			if cfg.KeyUpdateLossMs > 0 && nn.Filtered[0] > 0 {
				r.Event("key_update_under_scripted_loss_runs", 1)
			}
		}
		if cfg.ResetAckLossMs > 0 && nn.Filtered[1] > 0 {
			r.Event("reset_ack_lost_scripted_runs", 1)
		}
		if cfg.FinLoss && nn.Filtered[0] > 0 && tp.Side[0].Lost > 0 {
			r.Event("fin_only_packet_lost_scripted_runs", 1)
		}
		r.Event("datagrams", nn.Sent[0]+nn.Sent[1])
		r.Event("datagrams_dropped", nn.Dropped[0]+nn.Dropped[1]+nn.Filtered[0]+nn.Filtered[1])
		r.Event("datagrams_duplicated", nn.Duped[0]+nn.Duped[1])
		r.Event("datagrams_held_back", nn.Reordered[0]+nn.Reordered[1])
		r.Event("quic_packets_logged", tp.Side[0].Sent+tp.Side[0].Received+tp.Side[1].Sent+tp.Side[1].Received)
		r.Event("quic_packets_declared_lost", tp.Side[0].Lost+tp.Side[1].Lost)
		r.Event("virtual_seconds", st.VirtualMs/1000)
		r.Sample(map[string]any{"faults": cfg.Faults, "fault_phase_ms": cfg.FaultPhaseMs, "key_update_loss_ms": cfg.KeyUpdateLossMs, "exchanges": len(cfg.Ex), "first_exchange": cfg.Ex[0].summary(),
			"datagrams": nn.Sent, "dropped": nn.Dropped, "scripted_drops": nn.Filtered, "dup": nn.Duped, "held_back": nn.Reordered, "virtual_ms": st.VirtualMs})
	}

	// Scripted loss around the first QUIC key update: both sides stream a few hundred KiB
	// (so both pass the implementation's first-key-update point); from the client's packet
	// 101 on, for a PRNG-chosen window, every client datagram carrying an ack-eliciting packet
	// is lost while pure acknowledgements get through; afterwards the network is perfect and
	// the exchange has to complete like any other.
	nk := r.N(4, 16)
	r.CasesParallel("key-update-under-loss", nk, 4, func(c *verifrt.Case) {
		rng := c.Rng
		cfg := &v34Config{Faults: vhnFaults{BaseDelayMs: 5 + rng.IntN(30)}, FaultPhaseMs: 30000, CleanBoundS: 120, NetSeed: rng.Uint64(),
			KeyUpdateLossMs: 1000 + rng.IntN(3000), KeyUpdateAfter: 100}
		ex := v34GenExchange(rng, 0, 1000, 6)
		ex.Method, ex.Duplex, ex.Status, ex.EarlyHints = "POST", true, 200, false
		ex.ReqKind, ex.ReqBody, ex.ReqDeclared, ex.ReqChunkMax, ex.ReqReadMax = v34ReqUnknown, 200000+rng.Int64N(200000), -1, 4096, 65536
		if rng.IntN(2) == 0 {
			ex.ReqKind, ex.ReqDeclared = v34ReqExact, ex.ReqBody
		}
		ex.RespKind, ex.RespBody, ex.RespDeclared, ex.RespChunkMax, ex.RespReadMax, ex.RespFlushPct = v34RespUndeclared, 300000+rng.Int64N(300000), -1, 4096, 65536, 0
		ex.RespAfterReq = 75000 + rng.Int64N(15000) // the client gets ahead in packet numbers, the server catches up during the loss window
		cfg.Ex = []*v34Exchange{ex}
		if rng.IntN(2) == 0 {
			cfg.Ex = append(cfg.Ex, v34GenExchange(rng, 1, 20000, 10))
		}
		runCase(c, cfg)
	})

	// Scripted loss of the acknowledgement of a RESET_STREAM: one exchange whose request body
	// ends before its declared Content-Length (the transport resets the request stream)
	// while the handler reads it in small pieces, next to an innocent exchange with a long
	// response; the server's datagrams are lost for a while right after the reset was sent,
	// so the client retransmits RESET_STREAM. The innocent exchange has to complete.
	nr := r.N(4, 16)
	r.CasesParallel("reset-retransmitted", nr, 4, func(c *verifrt.Case) {
		rng := c.Rng
		cfg := &v34Config{Faults: vhnFaults{BaseDelayMs: 5 + rng.IntN(30)}, FaultPhaseMs: 30000, CleanBoundS: 120, NetSeed: rng.Uint64(), ResetAckLossMs: 500 + rng.IntN(2000)}
		victim := v34GenExchange(rng, 0, 1000, 6)
		victim.Method, victim.Status, victim.EarlyHints = "GET", 200, false
		victim.ReqKind, victim.ReqBody, victim.ReqDeclared, victim.ReqTrailers, victim.ReqTrailerUndeclared = v34ReqNone, 0, 0, nil, false
		victim.RespKind, victim.RespBody, victim.RespDeclared, victim.RespChunkMax, victim.RespReadMax, victim.RespFlushPct = v34RespUndeclared, 150000+rng.Int64N(200000), -1, 4096, 4096, 10
		short := v34GenExchange(rng, 1, 1000, 6)
		short.Method, short.Duplex = "POST", false
		short.ReqKind, short.ReqBody, short.ReqChunkMax, short.ReqReadMax = v34ReqShort, 2000+rng.Int64N(6000), 1200, []int{1, 13}[rng.IntN(2)]
		short.ReqDeclared = short.ReqBody + 1 + rng.Int64N(500)
		short.ReqEOFWithData, short.ReqEOFDelayMs = false, 300+rng.IntN(500) // everything produced so far reaches the handler before the reset
		cfg.Ex = []*v34Exchange{victim, short}
		runCase(c, cfg)
	})

	// Scripted loss of a request stream's FIN: the request body (several packets) is sent,
	// its end follows a little later in a packet of its own (the body reader pauses before
	// it reports io.EOF); no acknowledgement gets through until the client's PTO probe was
	// sent, and the packet with the FIN is lost. The probe cannot hold all the
	// unacknowledged stream data. From the probe on the network is perfect: the server
	// acknowledges everything but the packet with the FIN, the client has to declare that
	// packet lost and send the FIN again, else the handler waits for the end of the body
	// for ever.
	nf := r.N(3, 8)
	r.CasesParallel("fin-lost-after-probe", nf, 4, func(c *verifrt.Case) {
		rng := c.Rng
		cfg := &v34Config{Faults: vhnFaults{BaseDelayMs: 2 + rng.IntN(30)}, FaultPhaseMs: 30000, CleanBoundS: 120, NetSeed: rng.Uint64(), FinLoss: true}
		ex := v34GenExchange(rng, 0, 1000, 6)
		ex.Method, ex.Duplex, ex.EarlyHints = []string{"POST", "PUT"}[rng.IntN(2)], false, false
		// header and body fill more than one packet (the probe has to be cut short) but no
		// more than two: with the FIN packet they fit in the congestion window the client
		// is left with after the handshake (as little as 3000 bytes)
		ex.ReqHeaders, ex.CookiePairs = v34ShortFields(rng, rng.IntN(2), "X-Q"), nil
		ex.ReqKind, ex.ReqBody, ex.ReqDeclared = v34ReqUnknown, 1300+rng.Int64N(400), -1
		if rng.IntN(2) == 0 {
			ex.ReqKind, ex.ReqDeclared = v34ReqExact, ex.ReqBody
		}
		ex.ReqChunkMax, ex.ReqReadMax = []int{1200, 4096, 65536}[rng.IntN(3)], 4096
		ex.ReqTrailers, ex.ReqTrailerUndeclared = nil, false
		ex.ReqEOFWithData, ex.ReqEOFDelayMs = false, 5+rng.IntN(30)
		ex.ReqStartDelayMs = 1000 + rng.IntN(1000) // the handshake is confirmed and acknowledged by then
		cfg.Ex = []*v34Exchange{ex}
		runCase(c, cfg)
	})

	// Responses with an explicit Content-Length: 0 that still carry trailers, on a perfect
	// network: trailers announced in the Trailer header, trailers only known after the header
	// was written (net/http.TrailerPrefix), or both.
	nz := r.N(3, 9)
	r.CasesParallel("content-length-0-with-trailers", nz, 3, func(c *verifrt.Case) {
		rng := c.Rng
		cfg := &v34Config{Faults: vhnFaults{BaseDelayMs: 1 + rng.IntN(20)}, FaultPhaseMs: 5000, CleanBoundS: 60, NetSeed: rng.Uint64()}
		ex := v34GenExchange(rng, 0, 2000, 8)
		if ex.ReqKind == v34ReqShort || ex.ReqKind == v34ReqLong {
			ex.ReqKind, ex.ReqDeclared = v34ReqUnknown, -1
		}
		if ex.Method == "HEAD" {
			ex.Method = "GET"
		}
		ex.Status, ex.EarlyHints = 200, false
		ex.RespKind, ex.RespBody, ex.RespDeclared = v34RespExact, 0, 0
		ex.RespTrailersDeclared, ex.RespTrailersPrefix, ex.RespTrailerUnset = nil, nil, ""
		switch c.Index % 3 {
		case 0:
			ex.RespTrailersPrefix = v34ShortFields(rng, 1+rng.IntN(3), "X-Pu")
		case 1:
			ex.RespTrailersDeclared = v34ShortFields(rng, 1+rng.IntN(3), "X-Pt")
		default:
			ex.RespTrailersDeclared = v34ShortFields(rng, 1+rng.IntN(3), "X-Pt")
			ex.RespTrailersPrefix = v34ShortFields(rng, 1+rng.IntN(3), "X-Pu")
		}
		cfg.Ex = []*v34Exchange{ex}
		runCase(c, cfg)
	})

	// Bodies written in pieces of 16 KiB and more: every piece is a DATA frame whose length field
	// is a four-octet varint, and with a different piece length in every case the frames start at
	// ever different offsets of the QUIC stream, so that the length field comes to lie across the
	// end of a packet's data and across the 4096-octet blocks the receiving stream buffers in.
	// Perfect network; the reader is faster than the network in some cases and slower in others.
	nl := r.N(200, 2500)
	r.CasesParallel("large-frames", nl, 8, func(c *verifrt.Case) {
		rng := c.Rng
		cfg := &v34Config{Faults: vhnFaults{BaseDelayMs: []int{0, 1, 20}[rng.IntN(3)]}, FaultPhaseMs: 5000, CleanBoundS: 120, NetSeed: rng.Uint64()}
		ex := v34GenExchange(rng, 0, 2000, 6)
		if ex.Method == "HEAD" {
			ex.Method = "GET"
		}
		ex.Status, ex.EarlyHints = 200, false
		f := 16384 + rng.IntN(4300)
		ex.RespBody = int64(f)*int64(4+rng.IntN(5)) + int64(rng.IntN(f))
		ex.RespKind, ex.RespDeclared = v34RespExact, ex.RespBody
		if rng.IntN(2) == 0 {
			ex.RespKind, ex.RespDeclared = v34RespUndeclared, -1
		}
		ex.RespChunkFixed, ex.RespChunkMax = f, f
		ex.RespTrailerUnset = ""
		cfg.Ex = []*v34Exchange{ex}
		runCase(c, cfg)
		r.Event("large_frame_cases", 1)
	})
	r.Require("large_frame_cases", int64(nl))

	r.CasesParallel("exchange", n, 8, func(c *verifrt.Case) {
		runCase(c, v34GenConfig(c.Rng, maxEx, maxBody, maxHeaders))
	})
	n += nk + nr + nz + nf + nl
	r.Require("runs_completed", int64(n*6/10))
	r.Require("handler_observations_checked", int64(n))
	r.Require("client_observations_checked", int64(n))
	r.Require("datagrams_dropped", 50)
	r.Require("req_cl_mismatch_checked", 3)
	r.Require("resp_cl_mismatch_checked", 3)
	r.Require("resp_trailer_sets_verified", 3)
	r.Require("req_trailer_sets_verified", 3)
	r.Require("late_header_mutations_checked", 10)
	r.Require("key_update_under_scripted_loss_runs", int64(nk/2))
	r.Require("reset_ack_lost_scripted_runs", int64(nr/2))
	r.Require("fin_only_packet_lost_scripted_runs", int64(nf/2))
}
