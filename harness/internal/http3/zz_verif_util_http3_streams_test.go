//go:build verif

package http3

// Shared by the C33 and C35 monitors: running a function in a synctest bubble with panics
// turned into values, and a connected pair of real QUIC connections over the repository's
// in-memory testNet, on which a harness "peer" writes raw bytes to fresh streams.

import (
	"context"
	"fmt"
	"io"
	"os"
	"regexp"
	"runtime"
	"runtime/debug"
	"strings"
	"sync"
	"sync/atomic"
	"testing"
	"testing/synctest"
	"time"

	"golang.org/x/net/internal/verifrt"
	"golang.org/x/net/quic"
)

// vqsBubble runs fn inside a synctest bubble on a goroutine of its own and converts panics
// (of fn: inner; of the bubble itself, e.g. deadlock: outer) into returned descriptions.
func vqsBubble(tb testing.TB, fn func(t *testing.T)) (inner, outer string) {
	done := make(chan struct{})
	completed := false
	go func() {
		defer close(done)
		defer func() {
			if e := recover(); e != nil {
				outer = fmt.Sprint(e)
				if strings.Contains(outer, "deadlock") {
					// the goroutines that are stuck still exist: show the ones inside bubbles
					buf := make([]byte, 1<<20)
					buf = buf[:runtime.Stack(buf, true)]
					n := 0
					for _, g := range strings.Split(string(buf), "\n\n") {
						if strings.Contains(g, "synctest") && !strings.Contains(g, "vqsBubble") && n < 6 {
							outer += "\n\n" + g
							n++
						}
					}
				}
			} else if !completed && inner == "" {
				outer = "bubble aborted without a panic (t.Fatal/FailNow inside it, or a race report)"
			}
		}()
		synctest.Test(tb.(*testing.T), func(t *testing.T) {
			defer func() {
				if e := recover(); e != nil {
					inner = fmt.Sprintf("%v\n%s", e, debug.Stack())
				}
			}()
			fn(t)
		})
		completed = true
	}()
	<-done
	return
}

// vqsPanicKey builds a stable violation key from a recovered panic value and stack: the
// first line of the message plus the first golang.org/x/net (non-harness) function.
func vqsPanicKey(e any, st string) string {
	msg := fmt.Sprint(e)
	if i := strings.IndexAny(msg, "\n"); i > 0 {
		msg = msg[:i]
	}
	if len(msg) > 60 {
		msg = msg[:60]
	}
	msg = strings.Join(strings.Fields(msg), "_")
	fn := "?"
	for _, ln := range strings.Split(st, "\n") {
		if strings.HasPrefix(ln, "golang.org/x/net/") && !strings.Contains(ln, "verif") && !strings.Contains(ln, "Verif") &&
			!strings.Contains(ln, ".v3") && !strings.Contains(ln, ".vqs") {
			fn = ln
			if j := strings.LastIndex(fn, "("); j > 0 {
				fn = fn[:j]
			}
			fn = strings.TrimPrefix(fn, "golang.org/x/net/")
			break
		}
	}
	return "panic:" + msg + "@" + fn
}

// vqsPair is a client and a server QUIC connection joined by a testNet.
type vqsPair struct {
	cli, srv *quic.Conn
}

// vqsNewPair dials a connection inside the current bubble. Endpoints are closed by t.Cleanup.
func vqsNewPair(t testing.TB) *vqsPair {
	t.Helper()
	config := &quic.Config{
		TLSConfig:            testTLSConfig,
		MaxUniRemoteStreams:  1000,
		MaxBidiRemoteStreams: 1000,
	}
	tn := &testNet{}
	e1 := tn.newQUICEndpoint(t, config)
	e2 := tn.newQUICEndpoint(t, config)
	c1, err := e1.Dial(context.Background(), "udp", e2.LocalAddr().String(), config)
	if err != nil {
		t.Fatal(err)
	}
	c2, err := e2.Accept(context.Background())
	if err != nil {
		t.Fatal(err)
	}
	return &vqsPair{cli: c1, srv: c2}
}

// sendUni opens a client-initiated unidirectional QUIC stream, writes wire to it cut at the
// given offsets (each piece is flushed and delivered before the next one is written),
// optionally ends it with FIN, and returns the receiving end wrapped the way the package wraps
// the streams it accepts.
//
// wait must be called before the bubble's main goroutine returns (a writer still sleeping then
// counts as a deadlock); it returns once every piece has been written.
func (p *vqsPair) sendUni(t testing.TB, wire []byte, cuts []int, fin bool) (w *quic.Stream, rd *stream, wait func()) {
	t.Helper()
	ctx := context.Background()
	w, err := p.cli.NewSendOnlyStream(ctx)
	if err != nil {
		t.Fatalf("NewSendOnlyStream: %v", err)
	}
	finish := func() {
		if fin {
			w.CloseWrite()
		}
	}
	wait = func() {}
	if len(cuts) == 0 {
		w.Write(wire)
		w.Flush()
		finish()
	} else {
		w.Write(wire[:cuts[0]])
		w.Flush()
		done := make(chan struct{})
		wait = func() { <-done }
		go func() {
			defer close(done)
			prev := cuts[0]
			for _, c := range append(append([]int{}, cuts[1:]...), len(wire)) {
				// virtual time only moves once every goroutine of the bubble is blocked, i.e.
				// after everything written so far has been delivered and consumed
				time.Sleep(time.Millisecond)
				w.Write(wire[prev:c])
				w.Flush()
				prev = c
			}
			finish()
		}()
	}
	qs, err := p.srv.AcceptStream(ctx)
	if err != nil {
		t.Fatalf("AcceptStream: %v", err)
	}
	return w, newStream(qs), wait
}

// vqsVarint is the RFC 9000 section 16 encoding written from the text; size 0 = shortest,
// otherwise 1, 2, 4 or 8 octets (the caller guarantees the value fits).
func vqsVarint(dst []byte, v uint64, size int) []byte {
	if size == 0 {
		switch {
		case v < 1<<6:
			size = 1
		case v < 1<<14:
			size = 2
		case v < 1<<30:
			size = 4
		default:
			size = 8
		}
	}
	start := len(dst)
	for i := size - 1; i >= 0; i-- {
		dst = append(dst, byte(v>>(8*uint(i))))
	}
	switch size {
	case 2:
		dst[start] |= 0x40
	case 4:
		dst[start] |= 0x80
	case 8:
		dst[start] |= 0xc0
	}
	return dst
}

// vqsProgress is bumped by a batch before every sub-case; what() describes the sub-case in
// flight.
type vqsProgress struct {
	n    atomic.Int64
	what atomic.Value // string
}

func (p *vqsProgress) step(what string) {
	p.what.Store(what)
	p.n.Add(1)
}

// vqsWatch starts a real-time watchdog (outside any bubble) for one batch. It never judges
// how fast anything is: it fires only when the batch has not reached its next sub-case for
// limit (two orders of magnitude above a whole batch on a loaded machine) AND a goroutine of a
// bubble is at that moment running or runnable (not blocked) inside golang.org/x/net code,
// i.e. the implementation is spinning on the input in flight. That is reported as a violation
// with the spinning stack, results are written and the process exits (a spinning goroutine
// cannot be stopped). Anything else that is stuck is left to the driver's watchdog.
func vqsWatch(r *verifrt.R, c *verifrt.Case, p *vqsProgress, limit time.Duration) (stop func()) {
	quit := make(chan struct{})
	go func() {
		last, since := p.n.Load(), time.Now()
		tick := time.NewTicker(2 * time.Second)
		defer tick.Stop()
		for {
			select {
			case <-quit:
				return
			case <-tick.C:
			}
			if n := p.n.Load(); n != last {
				last, since = n, time.Now()
				continue
			}
			if time.Since(since) < limit {
				continue
			}
			buf := make([]byte, 4<<20)
			buf = buf[:runtime.Stack(buf, true)]
			for _, g := range strings.Split(string(buf), "\n\n") {
				head, _, _ := strings.Cut(g, "\n")
				if !strings.Contains(head, "synctest bubble") || !(strings.Contains(head, "[running") || strings.Contains(head, "[runnable")) {
					continue
				}
				if !strings.Contains(g, "golang.org/x/net/internal/http3.") {
					continue
				}
				what, _ := p.what.Load().(string)
				// key: the outermost implementation function on the spinning stack (the one the
				// harness called), which does not depend on where the sample caught the loop
				entry := "?"
				for _, ln := range strings.Split(g, "\n") {
					if !strings.HasPrefix(ln, "golang.org/x/net/") {
						continue
					}
					if strings.Contains(ln, "verif") || strings.Contains(ln, "Verif") || strings.Contains(ln, ".v3") || strings.Contains(ln, ".vqs") {
						break
					}
					entry = strings.TrimPrefix(ln, "golang.org/x/net/")
					if j := strings.LastIndex(entry, "("); j > 0 {
						entry = entry[:j]
					}
				}
				c.Violation("stuck-running@"+entry, "no progress for %v while a goroutine is spinning in golang.org/x/net code; sub-case in flight: %s\n%s", limit, what, g)
				r.ExitIfAbnormal()
				r.Finish()
				os.Exit(1)
			}
			since = time.Now() // blocked, not spinning: not ours to judge
		}
	}()
	return func() { close(quit) }
}

// vqsBubbleTrouble reports a panic that escaped the per-sub-case recover, or the bubble's own
// failure (deadlock), for the batch.
func vqsBubbleTrouble(c *verifrt.Case, inner, outer string) {
	if inner != "" {
		first, _, _ := strings.Cut(inner, "\n")
		c.Violation(vqsPanicKey(first, inner), "panic inside the bubble of %s/%d: %s", c.Stream, c.Index, inner)
	} else if outer != "" {
		if vqsRaceEnabled && strings.HasPrefix(outer, "bubble aborted") {
			// most likely a race report during this bubble (all its sub-cases were still run)
			n := vqsRaceViolations(c.R, func(key, detail string) {
				c.Violation(key, "%s\n(reported while or before batch %s/%d ran)", detail, c.Stream, c.Index)
			})
			// The report of this bubble may have been read back by a concurrent batch, or may
			// not have reached the log file yet: vqsRaceFinish settles the account.
			vqsRaceLog.mu.Lock()
			vqsRaceLog.found += n
			vqsRaceLog.aborted = append(vqsRaceLog.aborted, fmt.Sprintf("%s/%d", c.Stream, c.Index))
			vqsRaceLog.mu.Unlock()
			return
		}
		c.Violation("bubble-failed", "synctest bubble of %s/%d failed: %s", c.Stream, c.Index, outer)
	}
}

// vqsRaceFinish is called once at the end of a monitor: picks up race reports not yet
// attributed and makes the run inconclusive when the harness itself raced.
func vqsRaceFinish(r *verifrt.R) {
	if !vqsRaceEnabled {
		return
	}
	time.Sleep(time.Second) // (real time) stragglers on their way into the log file
	n := vqsRaceViolations(r, func(key, detail string) { r.Violation(key, "%s", detail) })
	vqsRaceLog.mu.Lock()
	found, aborted := vqsRaceLog.found+n, vqsRaceLog.aborted
	vqsRaceLog.mu.Unlock()
	r.Event("race_reports_read_back", int64(found))
	r.Event("bubbles_ended_by_race_report", int64(len(aborted)))
	if len(aborted) > 0 && found == 0 {
		// (the detector prints a given race once but fails every bubble it recurs in, so the
		// two numbers need not match; with no report at all the aborts are unexplained)
		r.Violation("bubble-failed", "%d bubbles were aborted without a panic (%v) and no race report was found in the log", len(aborted), aborted)
	}
	if r.EventCount("harness_race_reports") > 0 {
		r.Require("run_without_harness_race", 1)
	}
}

// ---- race reports ----
//
// With the race detector on and GORACE=halt_on_error=0 (set in checks.d for the monitors that
// want it) a race does not kill the child: the report goes to stderr, the bubble's T is marked
// failed when the bubble ends and synctest.Test calls FailNow on the parent (which vqsBubble
// turns into "bubble aborted"). The child's stderr is $VERIF_OUT/child.log, so the reports can
// be read back and turned into violations with a narrow key: the innermost golang.org/x/net
// function of each of the two conflicting accesses. A report is only a violation when both
// accesses are in golang/net (non-harness) code; otherwise it is the harness that raced and
// the run is made inconclusive.

var vqsRaceLog struct {
	mu      sync.Mutex
	off     int64
	found   int      // race blocks read back so far
	aborted []string // batches whose bubble was aborted without a panic
}

var vqsRaceFn = regexp.MustCompile(`(?m)^\s+golang\.org/x/net/(\S+)\(\)$`)

// vqsRaceViolations reports the race blocks that appeared in the child's log since the last
// call; it returns how many blocks it found.
func vqsRaceViolations(r *verifrt.R, viol func(key, detail string)) int {
	dir := os.Getenv("VERIF_OUT")
	if dir == "" {
		return 0
	}
	time.Sleep(300 * time.Millisecond) // (real time) let `go test` copy our stderr into the file
	vqsRaceLog.mu.Lock()
	defer vqsRaceLog.mu.Unlock()
	f, err := os.Open(dir + "/child.log")
	if err != nil {
		return 0
	}
	defer f.Close()
	f.Seek(vqsRaceLog.off, 0)
	b, _ := io.ReadAll(f)
	s := string(b)
	// only consume complete blocks
	const bar = "=================="
	n := 0
	for {
		i := strings.Index(s, "WARNING: DATA RACE")
		if i < 0 {
			break
		}
		j := strings.Index(s[i:], bar)
		if j < 0 {
			break // block still being written
		}
		block := s[i : i+j]
		body := strings.TrimPrefix(block, "WARNING: DATA RACE\n")
		consumed := i + j + len(bar)
		s = s[consumed:]
		vqsRaceLog.off += int64(consumed)
		n++
		secs := strings.Split(body, "\n\n")
		var fns []string
		for _, sec := range secs {
			if len(fns) == 2 {
				break
			}
			head, _, _ := strings.Cut(strings.TrimLeft(sec, "\n"), "\n")
			if !strings.Contains(head, " by goroutine ") && !strings.Contains(head, " by main goroutine") {
				continue
			}
			fn := ""
			for _, m := range vqsRaceFn.FindAllStringSubmatch(sec, -1) {
				if strings.Contains(m[1], "verif") || strings.Contains(m[1], "Verif") || strings.Contains(m[1], ".v3") || strings.Contains(m[1], ".vqs") || strings.Contains(m[1], ".vhn") {
					continue
				}
				fn = m[1]
				break
			}
			fns = append(fns, fn)
		}
		if len(fns) == 2 && fns[0] != "" && fns[1] != "" {
			if fns[0] > fns[1] {
				fns[0], fns[1] = fns[1], fns[0]
			}
			viol("race:"+fns[0]+"|"+fns[1], "the race detector reported (both accesses in golang/net code):\n"+block)
		} else {
			r.Event("harness_race_reports", 1)
			r.Note("race report involving harness code only on one side:\n%s", block)
		}
	}
	return n
}
