//go:build verif

package hpackref

import (
	"bytes"
	"encoding/hex"
	"fmt"
	"strings"
)

func unhex(s string) []byte {
	s = strings.Join(strings.Fields(s), "")
	b, err := hex.DecodeString(s)
	if err != nil {
		panic(err)
	}
	return b
}

type step struct {
	enc    string
	fields []Field
	table  []Field // newest first
	size   int64
}

func p(n, v string) Field { return Field{Name: n, Value: v} }

// SelfCheck pins the reference (derived Huffman codes, static table, integer/string
// decoding, dynamic table rules) against the RFC 7541 Appendix C examples. A monitor calls
// it once; a failure means the harness is broken (inconclusive), not the code under test.
func SelfCheck() error {
	if err := huffSelfCheck(); err != nil {
		return err
	}
	// C.4 / C.6 string literals
	huff := []struct{ hex, s string }{
		{"f1e3 c2e5 f23a 6ba0 ab90 f4ff", "www.example.com"},
		{"a8eb 1064 9cbf", "no-cache"},
		{"25a8 49e9 5ba9 7d7f", "custom-key"},
		{"25a8 49e9 5bb8 e8b4 bf", "custom-value"},
		{"6402", "302"},
		{"640e ff", "307"},
		{"aec3 771a 4b", "private"},
		{"d07a be94 1054 d444 a820 0595 040b 8166 e082 a62d 1bff", "Mon, 21 Oct 2013 20:13:21 GMT"},
		{"d07a be94 1054 d444 a820 0595 040b 8166 e084 a62d 1bff", "Mon, 21 Oct 2013 20:13:22 GMT"},
		{"9d29 ad17 1863 c78f 0b97 c8e9 ae82 ae43 d3", "https://www.example.com"},
		{"9bd9 ab", "gzip"},
		{"94e7 821d d7f2 e6c7 b335 dfdf cd5b 3960 d5af 2708 7f36 72c1 ab27 0fb5 291f 9587 3160 65c0 03ed 4ee5 b106 3d50 07",
			"foo=ASDJKHQKBZXOQWEOPIUAXQWEOIU; max-age=3600; version=1"},
	}
	for _, h := range huff {
		want := unhex(h.hex)
		if got := HuffmanEncode(nil, h.s); !bytes.Equal(got, want) {
			return fmt.Errorf("reference HuffmanEncode(%q)=%x, RFC says %x", h.s, got, want)
		}
		if got, why := HuffmanDecode(want); why != "" || got != h.s {
			return fmt.Errorf("reference HuffmanDecode(%x)=%q,%s, RFC says %q", want, got, why, h.s)
		}
	}
	// C.1 integers
	if i, ok := ReadInt([]byte{0x0a}, 5); !ok || i.V != 10 || i.Len != 1 {
		return fmt.Errorf("C.1.1")
	}
	if i, ok := ReadInt([]byte{0x1f, 0x9a, 0x0a}, 5); !ok || i.V != 1337 || i.Len != 3 {
		return fmt.Errorf("C.1.2")
	}
	if i, ok := ReadInt([]byte{0x2a}, 8); !ok || i.V != 42 || i.Len != 1 {
		return fmt.Errorf("C.1.3")
	}
	if !bytes.Equal(AppendInt(nil, 5, 0, 1337, 0), []byte{0x1f, 0x9a, 0x0a}) || !bytes.Equal(AppendInt(nil, 5, 0, 10, 0), []byte{0x0a}) {
		return fmt.Errorf("AppendInt")
	}
	if i, ok := ReadInt(AppendInt(nil, 7, 0x80, 127, 8), 7); !ok || i.V != 127 || i.Len != 10 {
		return fmt.Errorf("padded int")
	}
	if i, ok := ReadInt(AppendIntWrapped(nil, 4, 0x10, 20, 9, 2), 4); !ok || !i.Huge || i.Len != 11 {
		return fmt.Errorf("wrapped int")
	}
	if i, ok := ReadInt(AppendIntWrapped(nil, 5, 0x20, 40, 3, 1), 5); !ok || i.Huge || i.V != 40+1<<21 || i.Len != 5 {
		return fmt.Errorf("wrapped int small")
	}
	if len(StaticTable) != 61 || StaticTable[1] != p(":method", "GET") || StaticTable[60] != p("www-authenticate", "") || StaticTable[15] != p("accept-encoding", "gzip, deflate") {
		return fmt.Errorf("static table")
	}

	www := p(":authority", "www.example.com")
	nc := p("cache-control", "no-cache")
	ck := p("custom-key", "custom-value")
	reqFields := [][]Field{
		{p(":method", "GET"), p(":scheme", "http"), p(":path", "/"), www},
		{p(":method", "GET"), p(":scheme", "http"), p(":path", "/"), www, nc},
		{p(":method", "GET"), p(":scheme", "https"), p(":path", "/index.html"), www, ck},
	}
	reqTables := [][]Field{{www}, {nc, www}, {ck, nc, www}}
	reqSizes := []int64{57, 110, 164}
	c3 := []string{
		"8286 8441 0f77 7777 2e65 7861 6d70 6c65 2e63 6f6d",
		"8286 84be 5808 6e6f 2d63 6163 6865",
		"8287 85bf 400a 6375 7374 6f6d 2d6b 6579 0c63 7573 746f 6d2d 7661 6c75 65",
	}
	c4 := []string{
		"8286 8441 8cf1 e3c2 e5f2 3a6b a0ab 90f4 ff",
		"8286 84be 5886 a8eb 1064 9cbf",
		"8287 85bf 4088 25a8 49e9 5ba9 7d7f 8925 a849 e95b b8e8 b4bf",
	}
	date1 := p("date", "Mon, 21 Oct 2013 20:13:21 GMT")
	date2 := p("date", "Mon, 21 Oct 2013 20:13:22 GMT")
	loc := p("location", "https://www.example.com")
	priv := p("cache-control", "private")
	cookie := p("set-cookie", "foo=ASDJKHQKBZXOQWEOPIUAXQWEOIU; max-age=3600; version=1")
	gz := p("content-encoding", "gzip")
	respFields := [][]Field{
		{p(":status", "302"), priv, date1, loc},
		{p(":status", "307"), priv, date1, loc},
		{p(":status", "200"), priv, date2, loc, gz, cookie},
	}
	respTables := [][]Field{
		{loc, date1, priv, p(":status", "302")},
		{p(":status", "307"), loc, date1, priv},
		{cookie, gz, date2},
	}
	respSizes := []int64{222, 222, 215}
	c5 := []string{
		`4803 3330 3258 0770 7269 7661 7465 611d 4d6f 6e2c 2032 3120 4f63 7420 3230 3133
		 2032 303a 3133 3a32 3120 474d 546e 1768 7474 7073 3a2f 2f77 7777 2e65 7861 6d70 6c65 2e63 6f6d`,
		"4803 3330 37c1 c0bf",
		`88c1 611d 4d6f 6e2c 2032 3120 4f63 7420 3230 3133 2032 303a 3133 3a32 3220 474d
		 54c0 5a04 677a 6970 7738 666f 6f3d 4153 444a 4b48 514b 425a 584f 5157 454f 5049
		 5541 5851 5745 4f49 553b 206d 6178 2d61 6765 3d33 3630 303b 2076 6572 7369 6f6e 3d31`,
	}
	c6 := []string{
		`4882 6402 5885 aec3 771a 4b61 96d0 7abe 9410 54d4 44a8 2005 9504 0b81 66e0 82a6
		 2d1b ff6e 919d 29ad 1718 63c7 8f0b 97c8 e9ae 82ae 43d3`,
		"4883 640e ffc1 c0bf",
		`88c1 6196 d07a be94 1054 d444 a820 0595 040b 8166 e084 a62d 1bff c05a 839b d9ab
		 77ad 94e7 821d d7f2 e6c7 b335 dfdf cd5b 3960 d5af 2708 7f36 72c1 ab27 0fb5 291f
		 9587 3160 65c0 03ed 4ee5 b106 3d50 07`,
	}
	series := []struct {
		name   string
		max    uint32
		enc    []string
		fields [][]Field
		tables [][]Field
		sizes  []int64
	}{
		{"C.3", 4096, c3, reqFields, reqTables, reqSizes},
		{"C.4", 4096, c4, reqFields, reqTables, reqSizes},
		{"C.5", 256, c5, respFields, respTables, respSizes},
		{"C.6", 256, c6, respFields, respTables, respSizes},
	}
	for _, s := range series {
		d := NewDecoder(s.max)
		for i := range s.enc {
			res := d.Decode(unhex(s.enc[i]))
			if res.Err != "" {
				return fmt.Errorf("%s step %d: reference rejects: %s %s", s.name, i, res.Err, res.ErrDetail)
			}
			if !eqFields(res.Fields, s.fields[i]) {
				return fmt.Errorf("%s step %d: reference fields %v, RFC says %v", s.name, i, res.Fields, s.fields[i])
			}
			if !eqFields(d.Dyn, s.tables[i]) || d.Size != s.sizes[i] {
				return fmt.Errorf("%s step %d: reference table %v size %d, RFC says %v size %d", s.name, i, d.Dyn, d.Size, s.tables[i], s.sizes[i])
			}
		}
	}
	// C.2.x single representations
	d := NewDecoder(4096)
	if r := d.Decode(unhex("400a 6375 7374 6f6d 2d6b 6579 0d63 7573 746f 6d2d 6865 6164 6572")); r.Err != "" || len(r.Fields) != 1 || r.Fields[0] != p("custom-key", "custom-header") || d.Size != 55 || r.Reps[0].Kind != 'L' {
		return fmt.Errorf("C.2.1")
	}
	d = NewDecoder(4096)
	if r := d.Decode(unhex("040c 2f73 616d 706c 652f 7061 7468")); r.Err != "" || len(r.Fields) != 1 || r.Fields[0] != p(":path", "/sample/path") || d.Size != 0 || r.Reps[0].Kind != 'N' {
		return fmt.Errorf("C.2.2")
	}
	if r := d.Decode(unhex("1008 7061 7373 776f 7264 0673 6563 7265 74")); r.Err != "" || len(r.Fields) != 1 || r.Fields[0] != (Field{"password", "secret", true}) || d.Size != 0 || r.Reps[0].Kind != 'V' {
		return fmt.Errorf("C.2.3")
	}
	if r := d.Decode([]byte{0x82}); r.Err != "" || len(r.Fields) != 1 || r.Fields[0] != p(":method", "GET") || r.Reps[0].Kind != 'I' {
		return fmt.Errorf("C.2.4")
	}
	return nil
}

func eqFields(a, b []Field) bool {
	if len(a) != len(b) {
		return false
	}
	for i := range a {
		if a[i] != b[i] {
			return false
		}
	}
	return true
}

// EqualFields reports whether two field lists are identical (names, values, Sensitive).
func EqualFields(a, b []Field) bool { return eqFields(a, b) }
