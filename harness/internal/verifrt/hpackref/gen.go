//go:build verif

package hpackref

// Wire-format writers for workload generators (never used as an oracle). Unlike a real
// encoder they can produce every legal spelling: non-minimal integers, Huffman or raw
// strings regardless of which is shorter, any representation type.

// AppendInt appends v with an n-bit prefix; flags are the bits above the prefix in the first
// octet. pad > 0 adds that many redundant continuation octets (0x80) before the final one,
// which is only possible when v >= 2^n-1 (otherwise the prefix alone encodes v and pad is
// ignored).
func AppendInt(dst []byte, n uint, flags byte, v uint64, pad int) []byte {
	mask := uint64(1)<<n - 1
	if v < mask {
		return append(dst, flags|byte(v))
	}
	dst = append(dst, flags|byte(mask))
	v -= mask
	for v >= 128 {
		dst = append(dst, byte(v&0x7f)|0x80)
		v >>= 7
	}
	if pad <= 0 {
		return append(dst, byte(v))
	}
	dst = append(dst, byte(v)|0x80)
	for ; pad > 1; pad-- {
		dst = append(dst, 0x80)
	}
	return append(dst, 0x00)
}

// AppendString appends a string literal, Huffman-coded or raw as asked, with pad redundant
// octets in its length (effective only when the length is >= 127).
func AppendString(dst []byte, s string, huff bool, pad int) []byte {
	if huff {
		enc := HuffmanEncode(nil, s)
		dst = AppendInt(dst, 7, 0x80, uint64(len(enc)), pad)
		return append(dst, enc...)
	}
	dst = AppendInt(dst, 7, 0, uint64(len(s)), pad)
	return append(dst, s...)
}

// AppendIndexed appends an indexed header field representation.
func AppendIndexed(dst []byte, idx uint64, pad int) []byte {
	return AppendInt(dst, 7, 0x80, idx, pad)
}

// AppendLiteral appends a literal representation. kind is 'L', 'N' or 'V'; nameIdx 0 means
// the name is sent as a string.
func AppendLiteral(dst []byte, kind byte, nameIdx uint64, name, value string, nameHuff, valueHuff bool, padIdx, padName, padValue int) []byte {
	switch kind {
	case 'L':
		dst = AppendInt(dst, 6, 0x40, nameIdx, padIdx)
	case 'V':
		dst = AppendInt(dst, 4, 0x10, nameIdx, padIdx)
	default:
		dst = AppendInt(dst, 4, 0x00, nameIdx, padIdx)
	}
	if nameIdx == 0 {
		dst = AppendString(dst, name, nameHuff, padName)
	}
	return AppendString(dst, value, valueHuff, padValue)
}

// AppendSizeUpdate appends a dynamic table size update.
func AppendSizeUpdate(dst []byte, v uint64, pad int) []byte {
	return AppendInt(dst, 5, 0x20, v, pad)
}

// SymbolsByLen[l] lists the byte values whose Huffman code has l bits.
func SymbolsByLen(l int) []byte {
	var out []byte
	for sym := 0; sym < 256; sym++ {
		if int(HuffLen[sym]) == l {
			out = append(out, byte(sym))
		}
	}
	return out
}

// AppendIntWrapped appends the (legal, if absurd) encoding of low + hi*2^(7*chunks) with an
// n-bit prefix: the prefix octet, exactly `chunks` continuation octets carrying low-(2^n-1),
// then one final octet carrying hi. With chunks >= 10 (or 9 and hi >= 2) the value does not
// fit 64 bits, so a decoder that shifts without an overflow check wraps around to low.
// Requires low >= 2^n-1 and low-(2^n-1) < 2^(7*chunks); hi in 1..127.
func AppendIntWrapped(dst []byte, n uint, flags byte, low uint64, chunks int, hi byte) []byte {
	mask := uint64(1)<<n - 1
	dst = append(dst, flags|byte(mask))
	rest := low - mask
	for i := 0; i < chunks; i++ {
		dst = append(dst, byte(rest&0x7f)|0x80)
		rest >>= 7
	}
	return append(dst, hi&0x7f)
}
