//go:build verif

// Package hpackref is an independent, deliberately naive reference for RFC 7541 (HPACK),
// shared by the /verif monitors. It does NOT import golang.org/x/net/http2/hpack.
//
// Frozen data: the static table (RFC 7541 Appendix A) and the 257 Huffman code lengths
// (RFC 7541 Appendix B) were transcribed once from the pinned tree into this file and are
// never read from /repo at run time. The Huffman codes themselves are not stored: they are
// derived from the lengths by canonical construction (huffman.go), and SelfCheck pins the
// result against the RFC 7541 Appendix C examples.
package hpackref

// Field is a header field as the reference sees it.
type Field struct {
	Name, Value string
	Sensitive   bool
}

// Size is the RFC 7541 section 4.1 entry size.
func (f Field) Size() int64 { return int64(len(f.Name)) + int64(len(f.Value)) + 32 }

// StaticTable is RFC 7541 Appendix A; StaticTable[i-1] is index i.
var StaticTable = [61]Field{
	{":authority", "", false},
	{":method", "GET", false},
	{":method", "POST", false},
	{":path", "/", false},
	{":path", "/index.html", false},
	{":scheme", "http", false},
	{":scheme", "https", false},
	{":status", "200", false},
	{":status", "204", false},
	{":status", "206", false},
	{":status", "304", false},
	{":status", "400", false},
	{":status", "404", false},
	{":status", "500", false},
	{"accept-charset", "", false},
	{"accept-encoding", "gzip, deflate", false},
	{"accept-language", "", false},
	{"accept-ranges", "", false},
	{"accept", "", false},
	{"access-control-allow-origin", "", false},
	{"age", "", false},
	{"allow", "", false},
	{"authorization", "", false},
	{"cache-control", "", false},
	{"content-disposition", "", false},
	{"content-encoding", "", false},
	{"content-language", "", false},
	{"content-length", "", false},
	{"content-location", "", false},
	{"content-range", "", false},
	{"content-type", "", false},
	{"cookie", "", false},
	{"date", "", false},
	{"etag", "", false},
	{"expect", "", false},
	{"expires", "", false},
	{"from", "", false},
	{"host", "", false},
	{"if-match", "", false},
	{"if-modified-since", "", false},
	{"if-none-match", "", false},
	{"if-range", "", false},
	{"if-unmodified-since", "", false},
	{"last-modified", "", false},
	{"link", "", false},
	{"location", "", false},
	{"max-forwards", "", false},
	{"proxy-authenticate", "", false},
	{"proxy-authorization", "", false},
	{"range", "", false},
	{"referer", "", false},
	{"refresh", "", false},
	{"retry-after", "", false},
	{"server", "", false},
	{"set-cookie", "", false},
	{"strict-transport-security", "", false},
	{"transfer-encoding", "", false},
	{"user-agent", "", false},
	{"vary", "", false},
	{"via", "", false},
	{"www-authenticate", "", false},
}

// HuffLen is the code length in bits of symbols 0..255 and EOS (256), RFC 7541 Appendix B.
var HuffLen = [257]uint8{
	13, 23, 28, 28, 28, 28, 28, 28, 28, 24, 30, 28, 28, 30, 28, 28,
	28, 28, 28, 28, 28, 28, 30, 28, 28, 28, 28, 28, 28, 28, 28, 28,
	6, 10, 10, 12, 13, 6, 8, 11, 10, 10, 8, 11, 8, 6, 6, 6,
	5, 5, 5, 6, 6, 6, 6, 6, 6, 6, 7, 8, 15, 6, 12, 10,
	13, 6, 7, 7, 7, 7, 7, 7, 7, 7, 7, 7, 7, 7, 7, 7,
	7, 7, 7, 7, 7, 7, 7, 7, 8, 7, 8, 13, 19, 13, 14, 6,
	15, 5, 6, 5, 6, 5, 6, 6, 6, 5, 7, 7, 6, 6, 6, 5,
	6, 7, 6, 5, 5, 6, 7, 7, 7, 7, 7, 15, 11, 14, 13, 28,
	20, 22, 20, 20, 22, 22, 22, 23, 22, 23, 23, 23, 23, 23, 24, 23,
	24, 24, 22, 23, 24, 23, 23, 23, 23, 21, 22, 23, 22, 23, 23, 24,
	22, 21, 20, 22, 22, 23, 23, 21, 23, 22, 22, 24, 21, 22, 23, 23,
	21, 21, 22, 21, 23, 22, 23, 23, 20, 22, 22, 22, 23, 22, 22, 23,
	26, 26, 20, 19, 22, 23, 22, 25, 26, 26, 26, 27, 27, 26, 24, 25,
	19, 21, 26, 27, 27, 26, 27, 24, 21, 21, 26, 26, 28, 27, 27, 27,
	20, 24, 20, 21, 22, 21, 21, 23, 22, 22, 25, 25, 24, 24, 26, 23,
	26, 27, 26, 26, 27, 27, 27, 27, 27, 28, 27, 27, 27, 27, 27, 26,
	30, // EOS
}
