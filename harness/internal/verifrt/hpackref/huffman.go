//go:build verif

package hpackref

import "fmt"

// HuffCode[sym] is the canonical Huffman code of sym, right-aligned, derived from HuffLen:
// codes are handed out in (length, symbol) order, each the previous one plus one, shifted
// left when the length grows. RFC 7541's Appendix B code has exactly this shape (checked by
// SelfCheck through the Appendix C examples, EOS = 30 ones, Kraft sum 1).
var HuffCode [257]uint32

// canonical decoding tables: for each length l, the first code of that length, how many
// codes have that length, and the symbols of that length in symbol order.
var (
	huffFirst [31]uint32
	huffCount [31]uint32
	huffSyms  [31][]int
)

const EOS = 256

func init() {
	code := uint32(0)
	for l := 1; l <= 30; l++ {
		huffFirst[l] = code
		for sym := 0; sym <= 256; sym++ {
			if int(HuffLen[sym]) == l {
				HuffCode[sym] = code
				huffSyms[l] = append(huffSyms[l], sym)
				huffCount[l]++
				code++
			}
		}
		code <<= 1
	}
}

// HuffmanEncode appends the RFC 7541 section 5.2 Huffman encoding of s to dst, one bit at
// a time, padded to an octet boundary with the most significant bits of EOS (ones).
func HuffmanEncode(dst []byte, s string) []byte {
	var cur byte
	nb := 0
	for i := 0; i < len(s); i++ {
		c, l := HuffCode[s[i]], int(HuffLen[s[i]])
		for k := l - 1; k >= 0; k-- {
			cur = cur<<1 | byte(c>>uint(k)&1)
			nb++
			if nb == 8 {
				dst = append(dst, cur)
				cur, nb = 0, 0
			}
		}
	}
	if nb > 0 {
		for nb < 8 {
			cur = cur<<1 | 1
			nb++
		}
		dst = append(dst, cur)
	}
	return dst
}

// HuffmanBits is the number of code bits of s (no padding).
func HuffmanBits(s string) uint64 {
	var n uint64
	for i := 0; i < len(s); i++ {
		n += uint64(HuffLen[s[i]])
	}
	return n
}

// HuffErr classes (all are decoding errors the RFC makes mandatory, section 5.2).
const (
	HuffOK          = ""
	HuffEOS         = "eos-in-string"      // a complete EOS code inside the string
	HuffPadTooLong  = "padding-over-7-bit" // trailing all-ones bits, 8 or more
	HuffPadNotOnes  = "padding-not-eos-prefix"
	HuffIncomplete  = "incomplete-code-8-or-more-bits" // trailing bits >= 8, not all ones
	huffImpossibleX = "no-code-within-30-bits"
)

// HuffmanDecode walks v bit by bit. It accepts exactly the strings that are a sequence of
// complete codes of symbols 0..255 followed by fewer than 8 bits that are all ones.
func HuffmanDecode(v []byte) (string, string) {
	out := make([]byte, 0, len(v)*8/5+1)
	var code uint32
	l := 0
	ones := true // all pending bits are ones
	for _, b := range v {
		for k := 7; k >= 0; k-- {
			bit := uint32(b >> uint(k) & 1)
			code = code<<1 | bit
			l++
			if bit == 0 {
				ones = false
			}
			if l > 30 {
				return "", huffImpossibleX // cannot happen: the code is complete (Kraft sum 1)
			}
			if d := code - huffFirst[l]; code >= huffFirst[l] && d < huffCount[l] {
				sym := huffSyms[l][d]
				if sym == EOS {
					return "", HuffEOS
				}
				out = append(out, byte(sym))
				code, l, ones = 0, 0, true
			}
		}
	}
	if l >= 8 {
		if ones {
			return "", HuffPadTooLong
		}
		return "", HuffIncomplete
	}
	if !ones {
		return "", HuffPadNotOnes
	}
	return string(out), HuffOK
}

// huffSelfCheck verifies the structural facts the derivation relies on.
func huffSelfCheck() error {
	// Kraft sum exactly 1 (in units of 2^-30)
	var sum uint64
	for _, l := range HuffLen {
		if l < 5 || l > 30 {
			return fmt.Errorf("huffman length %d out of range", l)
		}
		sum += 1 << (30 - uint(l))
	}
	if sum != 1<<30 {
		return fmt.Errorf("kraft sum %d != 2^30", sum)
	}
	if HuffCode[EOS] != 1<<30-1 {
		return fmt.Errorf("EOS code %x is not 30 ones", HuffCode[EOS])
	}
	// prefix-freeness by brute force over all pairs
	for a := 0; a <= 256; a++ {
		for b := 0; b <= 256; b++ {
			if a == b || HuffLen[a] > HuffLen[b] {
				continue
			}
			if HuffCode[b]>>(HuffLen[b]-HuffLen[a]) == HuffCode[a] {
				return fmt.Errorf("code of %d is a prefix of code of %d", a, b)
			}
		}
	}
	return nil
}
