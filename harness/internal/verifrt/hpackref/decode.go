//go:build verif

package hpackref

// Int is a decoded RFC 7541 section 5.1 prefixed integer. The reference has no size limit:
// a value that does not fit 63 bits is kept as Huge (larger than any table index, table
// size or available string length can be).
type Int struct {
	V    uint64
	Huge bool // true value >= 2^63
	Len  int  // octets used, including the prefix octet
}

// ReadInt decodes an integer with an n-bit prefix at the start of b. ok=false: b ends
// inside the integer.
func ReadInt(b []byte, n uint) (i Int, ok bool) {
	if len(b) == 0 {
		return i, false
	}
	mask := uint64(1)<<n - 1
	i.V = uint64(b[0]) & mask
	i.Len = 1
	if i.V < mask {
		return i, true
	}
	shift := uint(0)
	for {
		if i.Len >= len(b) {
			return i, false
		}
		c := b[i.Len]
		i.Len++
		if chunk := uint64(c & 0x7f); chunk != 0 {
			if shift > 56 {
				i.Huge = true
			} else {
				add := chunk << shift
				if i.V+add < i.V || i.V+add >= 1<<63 {
					i.Huge = true
				}
				i.V += add
			}
		}
		shift += 7
		if c&0x80 == 0 {
			return i, true
		}
	}
}

// Rep describes one representation found in a header block.
type Rep struct {
	Start, End int  // byte extent in the block
	Kind       byte // 'I' indexed, 'L' literal+incremental indexing, 'N' literal without indexing, 'V' literal never indexed, 'S' size update
	Index      Int  // 'I': the index; literals: the name index (0 = new name); 'S': the new size
	NameHuff   bool
	ValueHuff  bool
	NameRaw    []byte // literal with new name: the string octets as on the wire
	ValueRaw   []byte
	NameLen    Int // declared string lengths
	ValueLen   Int
	HasField   bool  // a field was produced (semantics passed)
	Field      Field // the produced field
	Added      bool  // the field was inserted into the dynamic table
	Evicted    int   // entries evicted while processing this representation
}

// May marks a representation at which an implementation is allowed (but not obliged) to
// give up: limits RFC 7541 leaves to the implementation.
type May struct {
	Rep int
	Why string
}

// Mandatory error classes.
const (
	ErrTruncated     = "truncated-block"
	ErrBadIndex      = "invalid-index"
	ErrBadHuffman    = "invalid-huffman"
	ErrSizeTooLarge  = "size-update-above-allowed"
	ErrStringTooLong = "string-longer-than-configured-max" // documented Decoder contract, not RFC
)

// Result of decoding one header block.
type Result struct {
	Fields    []Field
	FieldRep  []int // Reps index that produced Fields[i]
	Reps      []Rep // every representation whose framing was complete, in order
	Err       string
	ErrDetail string
	ErrRep    int // index in Reps of the failing representation; len(Reps) when the framing itself was incomplete
	May       []May
}

// FieldsBefore is the number of fields produced before representation r started.
func (res *Result) FieldsBefore(r int) int {
	n := 0
	for _, fr := range res.FieldRep {
		if fr < r {
			n++
		}
	}
	return n
}

// Decoder is the reference decoding context: the dynamic table is a plain slice, newest
// entry first (Dyn[0] is index 62).
type Decoder struct {
	Dyn       []Field
	Size      int64
	MaxSize   int64
	Allowed   int64
	MaxStrLen int // 0 = unlimited
}

func NewDecoder(maxSize uint32) *Decoder {
	return &Decoder{MaxSize: int64(maxSize), Allowed: int64(maxSize)}
}

// Clone returns an independent copy.
func (d *Decoder) Clone() *Decoder {
	c := *d
	c.Dyn = append([]Field(nil), d.Dyn...)
	return &c
}

// SetMaxSize is the out-of-band or in-band change of the maximum size (section 4.3).
func (d *Decoder) SetMaxSize(v int64) int {
	d.MaxSize = v
	return d.evictTo(d.MaxSize)
}

func (d *Decoder) evictTo(limit int64) int {
	n := 0
	for d.Size > limit && len(d.Dyn) > 0 {
		last := d.Dyn[len(d.Dyn)-1]
		d.Size -= last.Size()
		d.Dyn = d.Dyn[:len(d.Dyn)-1]
		n++
	}
	return n
}

// Add is section 4.4: evict until the new entry fits, then insert; an entry larger than
// the maximum size empties the table and is not inserted.
func (d *Decoder) Add(f Field) (added bool, evicted int) {
	f.Sensitive = false
	sz := f.Size()
	if sz > d.MaxSize {
		evicted = len(d.Dyn)
		d.Dyn = d.Dyn[:0]
		d.Size = 0
		return false, evicted
	}
	evicted = d.evictTo(d.MaxSize - sz)
	d.Dyn = append(d.Dyn, Field{})
	copy(d.Dyn[1:], d.Dyn)
	d.Dyn[0] = f
	d.Size += sz
	return true, evicted
}

// At resolves an index in the combined address space (section 2.3.3).
func (d *Decoder) At(i Int) (Field, bool) {
	if i.Huge || i.V == 0 {
		return Field{}, false
	}
	if i.V <= uint64(len(StaticTable)) {
		return StaticTable[i.V-1], true
	}
	k := i.V - uint64(len(StaticTable)) - 1
	if k >= uint64(len(d.Dyn)) {
		return Field{}, false
	}
	return d.Dyn[k], true
}

type rawString struct {
	huff bool
	l    Int
	raw  []byte
	end  int
}

// frameString finds the extent of a string literal at b[p:]; ok=false when the block ends
// before the string does.
func frameString(b []byte, p int) (s rawString, ok bool) {
	if p >= len(b) {
		return s, false
	}
	s.huff = b[p]&0x80 != 0
	l, ok := ReadInt(b[p:], 7)
	if !ok {
		return s, false
	}
	s.l = l
	p += l.Len
	if l.Huge || l.V > uint64(len(b)-p) {
		return s, false
	}
	s.raw = b[p : p+int(l.V)]
	s.end = p + int(l.V)
	return s, true
}

// Frame parses only the framing of the representation at b[p:] (no table access, no
// Huffman decoding). ok=false: the block ends inside the representation.
func Frame(b []byte, p int) (r Rep, ok bool) {
	r.Start = p
	c := b[p]
	var n uint
	switch {
	case c&0x80 != 0:
		r.Kind, n = 'I', 7
	case c&0xc0 == 0x40:
		r.Kind, n = 'L', 6
	case c&0xe0 == 0x20:
		r.Kind, n = 'S', 5
	case c&0xf0 == 0x10:
		r.Kind, n = 'V', 4
	default: // 0000xxxx
		r.Kind, n = 'N', 4
	}
	idx, ok := ReadInt(b[p:], n)
	if !ok {
		return r, false
	}
	r.Index = idx
	q := p + idx.Len
	if r.Kind == 'I' || r.Kind == 'S' {
		r.End = q
		return r, true
	}
	if !idx.Huge && idx.V == 0 {
		s, ok := frameString(b, q)
		if !ok {
			return r, false
		}
		r.NameHuff, r.NameRaw, r.NameLen = s.huff, s.raw, s.l
		q = s.end
	}
	s, ok := frameString(b, q)
	if !ok {
		return r, false
	}
	r.ValueHuff, r.ValueRaw, r.ValueLen = s.huff, s.raw, s.l
	r.End = s.end
	return r, true
}

// FrameAll splits a block into representations by framing alone; rest is the offset where
// an incomplete representation starts (len(b) when the block ends on a boundary).
func FrameAll(b []byte) (reps []Rep, rest int) {
	p := 0
	for p < len(b) {
		r, ok := Frame(b, p)
		if !ok {
			return reps, p
		}
		reps = append(reps, r)
		p = r.End
	}
	return reps, p
}

// Decode processes one complete header block against the decoder state. It stops at the
// first mandatory error; the state then reflects everything before the failing
// representation (plus, for ErrStringTooLong on an indexing literal, nothing: the reference
// does not insert a field it refuses).
func (d *Decoder) Decode(b []byte) *Result {
	res := &Result{}
	fail := func(ri int, class, detail string) *Result {
		res.Err, res.ErrDetail, res.ErrRep = class, detail, ri
		return res
	}
	sawField := false
	p := 0
	for p < len(b) {
		r, ok := Frame(b, p)
		ri := len(res.Reps)
		if !ok {
			return fail(ri, ErrTruncated, "block ends inside a representation")
		}
		p = r.End
		res.Reps = append(res.Reps, r)
		rp := &res.Reps[ri]
		if r.Index.Len > 10 {
			res.May = append(res.May, May{ri, "integer-longer-than-10-octets"})
		}
		switch r.Kind {
		case 'S':
			if r.Index.Huge || int64(r.Index.V) > d.Allowed || r.Index.V > 1<<62 {
				return fail(ri, ErrSizeTooLarge, "")
			}
			if sawField {
				res.May = append(res.May, May{ri, "size-update-after-a-field"})
			}
			rp.Evicted = d.SetMaxSize(int64(r.Index.V))
			continue
		case 'I':
			f, ok := d.At(r.Index)
			if !ok {
				return fail(ri, ErrBadIndex, "")
			}
			f.Sensitive = false
			if d.MaxStrLen > 0 && (len(f.Name) > d.MaxStrLen || len(f.Value) > d.MaxStrLen) {
				return fail(ri, ErrStringTooLong, "indexed entry")
			}
			rp.HasField, rp.Field = true, f
			res.Fields = append(res.Fields, f)
			res.FieldRep = append(res.FieldRep, ri)
			sawField = true
			continue
		}
		// literal
		var f Field
		if r.Index.Huge || r.Index.V != 0 {
			nf, ok := d.At(r.Index)
			if !ok {
				return fail(ri, ErrBadIndex, "name index")
			}
			f.Name = nf.Name
		} else {
			if r.NameLen.Len > 10 {
				res.May = append(res.May, May{ri, "integer-longer-than-10-octets"})
			}
			s, why := decodeLiteral(r.NameHuff, r.NameRaw)
			if why != "" {
				return fail(ri, ErrBadHuffman, "name: "+why)
			}
			f.Name = s
			if d.MaxStrLen > 0 && len(r.NameRaw) > d.MaxStrLen && len(s) <= d.MaxStrLen {
				res.May = append(res.May, May{ri, "huffman-octets-longer-than-max-string"})
			}
		}
		if r.ValueLen.Len > 10 {
			res.May = append(res.May, May{ri, "integer-longer-than-10-octets"})
		}
		s, why := decodeLiteral(r.ValueHuff, r.ValueRaw)
		if why != "" {
			return fail(ri, ErrBadHuffman, "value: "+why)
		}
		f.Value = s
		if d.MaxStrLen > 0 && len(r.ValueRaw) > d.MaxStrLen && len(s) <= d.MaxStrLen {
			res.May = append(res.May, May{ri, "huffman-octets-longer-than-max-string"})
		}
		if d.MaxStrLen > 0 && (len(f.Name) > d.MaxStrLen || len(f.Value) > d.MaxStrLen) {
			return fail(ri, ErrStringTooLong, "literal")
		}
		f.Sensitive = r.Kind == 'V'
		if r.Kind == 'L' {
			rp.Added, rp.Evicted = d.Add(f)
		}
		rp.HasField, rp.Field = true, f
		res.Fields = append(res.Fields, f)
		res.FieldRep = append(res.FieldRep, ri)
		sawField = true
	}
	res.ErrRep = len(res.Reps)
	return res
}

func decodeLiteral(huff bool, raw []byte) (string, string) {
	if !huff {
		return string(raw), ""
	}
	return HuffmanDecode(raw)
}
