//go:build verif

// Package verifrt is the small runtime shared by the /verif monitors. It is added to the
// golang.org/x/net module through a `go test -overlay` mapping (it does not exist in the
// repository) and only builds with the `verif` tag.
//
// A monitor is a Go test `TestVerif_<ID>` that calls Start, runs deterministic case lists
// through R.Cases (every case is determined by VERIF_SEED, the stream name and the case
// index, which is what makes a replay file tiny), reports what it observed through
// Eval/Event/Sample, reports broken oracles through Violation, and calls Finish, which
// writes result.json for the vcheck driver.
package verifrt

import (
	"encoding/json"
	"fmt"
	"hash/fnv"
	"math/rand/v2"
	"os"
	"path/filepath"
	"runtime"
	"runtime/debug"
	"sort"
	"strconv"
	"strings"
	"sync"
	"syscall"
	"testing"
	"time"
)

const maxDistinct = 4 << 20
const maxViolationsKept = 25
const maxSamples = 6

type ReplaySpec struct {
	Property string `json:"property"`
	Seed     uint64 `json:"seed"`
	Tier     string `json:"tier"`
	Stream   string `json:"stream"`
	Index    int    `json:"index"`
	Key      string `json:"key,omitempty"`
	Detail   string `json:"detail,omitempty"`
	Case     any    `json:"case,omitempty"`
}

type Violation struct {
	Key    string `json:"key"`
	Detail string `json:"detail"`
	Replay string `json:"replay"`
	Stream string `json:"stream"`
	Index  int    `json:"index"`
}

type KnownHit struct {
	Key   string `json:"key"`
	Desc  string `json:"desc"`
	Count int    `json:"count"`
	First string `json:"first"`
}

type Result struct {
	Property     string           `json:"property"`
	Seed         uint64           `json:"seed"`
	Tier         string           `json:"tier"`
	Evaluations  int64            `json:"evaluations"`
	Distinct     int64            `json:"distinct_nontrivial"`
	Rule         string           `json:"rule"`
	Events       map[string]int64 `json:"events"`
	Samples      []any            `json:"samples"`
	Violations   []Violation      `json:"violations"`
	NViolations  int              `json:"n_violations"`
	Known        []*KnownHit      `json:"known"`
	Inconclusive []string         `json:"inconclusive"`
	Notes        []string         `json:"notes"`
	Assumptions  []string         `json:"assumptions"`
	Extra        map[string]any   `json:"extra"`
	Replaying    bool             `json:"replaying"`
	Finished     bool             `json:"finished"`
}

type R struct {
	T      testing.TB
	ID     string
	Seed   uint64
	Tier   string
	Out    string
	Replay *ReplaySpec

	mu        sync.Mutex
	evals     int64
	distinct  map[uint64]struct{}
	events    map[string]int64
	samples   []any
	viol      []Violation
	nviol     int
	known     map[string]*KnownHit
	knownKeys map[string]string
	notes     []string
	assume    []string
	rule      string
	floors    map[string]int64
	budget    float64 // CaseCPUBudget
	budgetKey string
	running   map[*Case]float64
	finished  bool
	inconc    []string
	extra     map[string]any
	crumb     *os.File
	start     time.Time
	exitAbn   bool
}

// ExitIfAbnormal makes Finish end the process right after writing result.json when the run
// recorded a violation or was inconclusive. Monitors that run synctest bubbles use it: a
// bubble that ended in a deadlock panic leaves goroutines behind, and some packages'
// TestMain (quic) then waits for them until the go test timeout.
func (r *R) ExitIfAbnormal() { r.exitAbn = true }

// Start reads the environment the driver sets. Run outside the driver (plain `go test
// -tags verif`) it uses seed 1, tier quick and a temp dir.
func Start(t testing.TB, id string) *R {
	r := &R{T: t, ID: id, Tier: "quick", Seed: 1,
		distinct: map[uint64]struct{}{}, events: map[string]int64{},
		known: map[string]*KnownHit{}, knownKeys: map[string]string{},
		floors: map[string]int64{}, extra: map[string]any{}, start: time.Now()}
	if s := os.Getenv("VERIF_SEED"); s != "" {
		if v, err := strconv.ParseInt(s, 10, 64); err == nil {
			r.Seed = uint64(v)
		}
	}
	if s := os.Getenv("VERIF_TIER"); s == "thorough" {
		r.Tier = s
	}
	r.Out = os.Getenv("VERIF_OUT")
	if r.Out == "" {
		r.Out = t.TempDir()
	}
	os.MkdirAll(r.Out, 0o755)
	if p := os.Getenv("VERIF_REPLAY"); p != "" {
		b, err := os.ReadFile(p)
		if err != nil {
			t.Fatalf("verif: cannot read replay file: %v", err)
		}
		var rs ReplaySpec
		if err := json.Unmarshal(b, &rs); err != nil {
			t.Fatalf("verif: bad replay file: %v", err)
		}
		r.Replay = &rs
		r.Seed = rs.Seed
		if rs.Tier != "" {
			r.Tier = rs.Tier
		}
	}
	if p := os.Getenv("VERIF_KNOWN"); p != "" {
		if b, err := os.ReadFile(p); err == nil {
			for _, ln := range strings.Split(string(b), "\n") {
				ln = strings.TrimSpace(ln)
				if ln == "" || strings.HasPrefix(ln, "#") || strings.HasPrefix(ln, "fixed:") {
					continue
				}
				f := strings.Fields(ln)
				if len(f) < 2 || f[0] != "property="+id || !strings.HasPrefix(f[1], "key=") {
					continue
				}
				r.knownKeys[strings.TrimPrefix(f[1], "key=")] = strings.Join(f[2:], " ")
			}
		}
	}
	f, err := os.OpenFile(filepath.Join(r.Out, "crumb"), os.O_CREATE|os.O_RDWR|os.O_TRUNC, 0o644)
	if err == nil {
		r.crumb = f
	}
	return r
}

func (r *R) Thorough() bool { return r.Tier == "thorough" }

// N picks a case count by tier.
func (r *R) N(quick, thorough int) int {
	if r.Thorough() {
		return thorough
	}
	return quick
}

func hash64(s string) uint64 {
	h := fnv.New64a()
	h.Write([]byte(s))
	return h.Sum64()
}

// Rand returns the PRNG of (seed, stream, index).
func (r *R) Rand(stream string, index int) *rand.Rand {
	return rand.New(rand.NewPCG(r.Seed*0x9e3779b97f4a7c15+uint64(index)+1, hash64(stream)^(uint64(index)*0xbf58476d1ce4e5b9)))
}

func (r *R) SetRule(s string) { r.mu.Lock(); r.rule = s; r.mu.Unlock() }
func (r *R) Assume(s string)  { r.mu.Lock(); r.assume = append(r.assume, s); r.mu.Unlock() }
func (r *R) Note(f string, a ...any) {
	r.mu.Lock()
	if len(r.notes) < 40 {
		r.notes = append(r.notes, fmt.Sprintf(f, a...))
	}
	r.mu.Unlock()
}
func (r *R) SetExtra(k string, v any) { r.mu.Lock(); r.extra[k] = v; r.mu.Unlock() }

// Require: fewer than min events of this kind at Finish makes the run inconclusive.
func (r *R) Require(kind string, min int64) { r.mu.Lock(); r.floors[kind] = min; r.mu.Unlock() }

func (r *R) Event(kind string, n int64) {
	r.mu.Lock()
	r.events[kind] += n
	r.mu.Unlock()
}

func (r *R) EventCount(kind string) int64 {
	r.mu.Lock()
	defer r.mu.Unlock()
	return r.events[kind]
}

func (r *R) Sample(v any) {
	r.mu.Lock()
	if len(r.samples) < maxSamples {
		r.samples = append(r.samples, v)
	}
	r.mu.Unlock()
}

// EvalHash counts one evaluated case; when nontrivial, h joins the distinct set.
func (r *R) EvalHash(nontrivial bool, h uint64) {
	r.mu.Lock()
	r.evals++
	if nontrivial && len(r.distinct) < maxDistinct {
		r.distinct[h] = struct{}{}
	}
	r.mu.Unlock()
}

// AddEvals counts n evaluated cases at once (for tight enumeration loops that keep a local
// counter per chunk); distinctHashes are the signatures of the non-trivial ones that should
// join the distinct set (may be a subset, may be nil).
func (r *R) AddEvals(n int64, distinctHashes []uint64) {
	r.mu.Lock()
	r.evals += n
	for _, h := range distinctHashes {
		if len(r.distinct) >= maxDistinct {
			break
		}
		r.distinct[h] = struct{}{}
	}
	r.mu.Unlock()
}

func (r *R) Eval(nontrivial bool, sig ...any) {
	var h uint64
	if nontrivial {
		h = hash64(fmt.Sprint(sig...))
	}
	r.EvalHash(nontrivial, h)
}

func (r *R) EvalBytes(nontrivial bool, b []byte) {
	var h uint64
	if nontrivial {
		f := fnv.New64a()
		f.Write(b)
		h = f.Sum64()
	}
	r.EvalHash(nontrivial, h)
}

type Case struct {
	R      *R
	Stream string
	Index  int
	Rng    *rand.Rand
	slot   int
	desc   any
}

// Describe attaches a printable description of the case (kept in replay files / samples).
func (c *Case) Describe(v any) { c.desc = v }

func (c *Case) Violation(key, format string, a ...any) {
	c.R.violation(c, key, fmt.Sprintf(format, a...))
}

// Violation outside any case (e.g. an end-of-run invariant).
func (r *R) Violation(key, format string, a ...any) {
	r.violation(&Case{R: r, Stream: "_global", Index: 0}, key, fmt.Sprintf(format, a...))
}

func (r *R) violation(c *Case, key, detail string) {
	key = strings.Join(strings.Fields(key), "_")
	if len(detail) > 4000 {
		detail = detail[:4000] + "…"
	}
	r.mu.Lock()
	defer r.mu.Unlock()
	if desc, ok := r.knownKeys[key]; ok {
		k := r.known[key]
		if k == nil {
			k = &KnownHit{Key: key, Desc: desc, First: detail}
			r.known[key] = k
		}
		k.Count++
		return
	}
	r.nviol++
	if len(r.viol) >= maxViolationsKept {
		return
	}
	// keep one replay per key
	for _, v := range r.viol {
		if v.Key == key {
			return
		}
	}
	rs := ReplaySpec{Property: r.ID, Seed: r.Seed, Tier: r.Tier, Stream: c.Stream, Index: c.Index, Key: key, Detail: detail, Case: c.desc}
	p := filepath.Join(r.Out, fmt.Sprintf("replay_%02d.json", len(r.viol)))
	b, err := json.MarshalIndent(rs, "", " ")
	if err != nil {
		rs.Case = fmt.Sprintf("%+v", c.desc)
		b, _ = json.MarshalIndent(rs, "", " ")
	}
	os.WriteFile(p, b, 0o644)
	r.viol = append(r.viol, Violation{Key: key, Detail: detail, Replay: p, Stream: c.Stream, Index: c.Index})
	// Also print immediately, so that the line survives a later crash of the child.
	fmt.Printf("VERIF-VIOLATION property=%s key=%s replay=%s\n", r.ID, key, p)
}

func (r *R) writeCrumb(slot int, stream string, index int) {
	if r.crumb == nil {
		return
	}
	var buf [128]byte
	b := append(buf[:0], stream...)
	b = append(b, ' ')
	b = strconv.AppendInt(b, int64(index), 10)
	b = append(b, '\n')
	for len(b) < 128 {
		b = append(b, ' ')
	}
	r.crumb.WriteAt(b[:128], int64(slot)*128)
}

// CaseCPUBudget arms a guard for cases that never finish (a goroutine of the code under test
// spinning, or a bubble that can never become idle): a case that is still running after its
// SHARE of the process's CPU time exceeds sec seconds is reported as a violation (key given by
// the monitor) with the stacks of the goroutines that are running or runnable, the result is
// written and the process exits, because such a case cannot be waited for. The share: every
// 250 ms the CPU time the process burnt since the last tick is divided equally among the cases
// running at that moment (with CasesParallel sixteen run at once, so the process's CPU time as
// such says nothing about one case). CPU time, not wall-clock: a loaded machine slows the
// process down and the budget with it. A normal case takes milliseconds, a heavy one (megabytes
// of input under the race detector) seconds, so sec is chosen in the hundreds.
func (r *R) CaseCPUBudget(sec float64, key string) {
	r.mu.Lock()
	first := r.budget == 0
	r.budget, r.budgetKey = sec, key
	r.mu.Unlock()
	if !first || sec <= 0 {
		return
	}
	go func() {
		last := processCPU()
		for {
			time.Sleep(250 * time.Millisecond)
			now := processCPU()
			r.mu.Lock()
			var late *Case
			if n := len(r.running); n > 0 {
				d := (now - last) / float64(n)
				for c := range r.running {
					r.running[c] += d
					if r.running[c] > r.budget {
						late = c
					}
				}
			}
			last = now
			key, done := r.budgetKey, r.finished
			r.mu.Unlock()
			if done {
				return
			}
			if late == nil {
				continue
			}
			buf := make([]byte, 8<<20)
			buf = buf[:runtime.Stack(buf, true)]
			var busy []string
			for _, g := range strings.Split(string(buf), "\n\n") {
				hd, _, _ := strings.Cut(g, "\n")
				if (strings.Contains(hd, "[running") || strings.Contains(hd, "[runnable")) && strings.Contains(g, "golang.org/x/net/") && !strings.Contains(g, "CaseCPUBudget") {
					if len(g) > 3000 {
						g = g[:3000]
					}
					busy = append(busy, g)
				}
			}
			if len(busy) > 6 {
				busy = busy[:6]
			}
			late.Violation(key, "case %s/%d has not finished although its share of the process's CPU time exceeds %.0f seconds (a normal case takes milliseconds); goroutines that are running or runnable in golang.org/x/net code:\n%s", late.Stream, late.Index, r.budget, strings.Join(busy, "\n\n"))
			r.exitAbn = true
			r.Finish()
			os.Exit(1)
		}
	}()
}

func processCPU() float64 {
	var ru syscall.Rusage
	if syscall.Getrusage(syscall.RUSAGE_SELF, &ru) != nil {
		return 0
	}
	return float64(ru.Utime.Sec+ru.Stime.Sec) + float64(ru.Utime.Usec+ru.Stime.Usec)/1e6
}

func (r *R) runCase(stream string, i, slot int, fn func(c *Case)) {
	c := &Case{R: r, Stream: stream, Index: i, Rng: r.Rand(stream, i), slot: slot}
	r.writeCrumb(slot, stream, i)
	r.mu.Lock()
	if r.budget > 0 {
		if r.running == nil {
			r.running = map[*Case]float64{}
		}
		r.running[c] = 0
	}
	r.mu.Unlock()
	defer func() {
		r.mu.Lock()
		delete(r.running, c)
		r.mu.Unlock()
	}()
	defer func() {
		if e := recover(); e != nil {
			st := string(debug.Stack())
			c.Violation("panic:"+panicKey(e, st), "panic in case %s/%d: %v\n%s", stream, i, e, trimStack(st))
		}
	}()
	fn(c)
}

// panicKey builds a stable signature: the panic value class plus the first golang.org/x/net
// (non-harness) function on the stack.
func panicKey(e any, st string) string {
	msg := fmt.Sprint(e)
	if i := strings.IndexAny(msg, ":\n"); i > 0 && i < 60 {
		msg = msg[:i]
	} else if len(msg) > 60 {
		msg = msg[:60]
	}
	fn := "?"
	for _, ln := range strings.Split(st, "\n") {
		if strings.HasPrefix(ln, "golang.org/x/net/") && !strings.Contains(ln, "verif") && !strings.Contains(ln, "Verif") {
			fn = ln
			if j := strings.Index(fn, "("); j > 0 {
				fn = fn[:j]
			}
			fn = strings.TrimPrefix(fn, "golang.org/x/net/")
			break
		}
	}
	return msg + "@" + fn
}

func trimStack(st string) string {
	lines := strings.Split(st, "\n")
	if len(lines) > 40 {
		lines = lines[:40]
	}
	return strings.Join(lines, "\n")
}

func (r *R) wanted(stream string, i int) bool {
	return r.Replay == nil || (r.Replay.Stream == stream && r.Replay.Index == i)
}

// Cases runs fn for indices 0..n-1 of the named stream, sequentially. In replay mode only
// the recorded case runs.
func (r *R) Cases(stream string, n int, fn func(c *Case)) {
	if r.Replay != nil {
		if r.Replay.Stream == stream {
			r.runCase(stream, r.Replay.Index, 0, fn)
		}
		return
	}
	for i := 0; i < n; i++ {
		r.runCase(stream, i, 0, fn)
	}
}

// CasesParallel is Cases spread over workers goroutines (0 = GOMAXPROCS). fn must only
// touch per-case state plus the (thread-safe) R methods.
func (r *R) CasesParallel(stream string, n, workers int, fn func(c *Case)) {
	if r.Replay != nil {
		r.Cases(stream, n, fn)
		return
	}
	if workers <= 0 {
		workers = runtime.GOMAXPROCS(0)
	}
	if workers > n {
		workers = n
	}
	if workers < 1 {
		return
	}
	var wg sync.WaitGroup
	var next int64
	var mu sync.Mutex
	for w := 0; w < workers; w++ {
		wg.Add(1)
		go func(slot int) {
			defer wg.Done()
			for {
				mu.Lock()
				i := int(next)
				next++
				mu.Unlock()
				if i >= n {
					return
				}
				r.runCase(stream, i, slot, fn)
			}
		}(w)
	}
	wg.Wait()
}

// Finish writes result.json and fails the test if anything was violated.
func (r *R) Finish() {
	r.mu.Lock()
	defer r.mu.Unlock()
	if r.finished {
		return
	}
	r.finished = true
	if r.Replay == nil {
		kinds := make([]string, 0, len(r.floors))
		for k := range r.floors {
			kinds = append(kinds, k)
		}
		sort.Strings(kinds)
		fl := map[string][2]int64{}
		for _, k := range kinds {
			fl[k] = [2]int64{r.events[k], r.floors[k]}
		}
		r.extra["floors_observed_vs_required"] = fl
		for _, k := range kinds {
			if r.events[k] < r.floors[k] {
				r.inconc = append(r.inconc, fmt.Sprintf("event %q observed %d times, floor %d", k, r.events[k], r.floors[k]))
			}
		}
	}
	res := Result{Property: r.ID, Seed: r.Seed, Tier: r.Tier, Evaluations: r.evals, Distinct: int64(len(r.distinct)),
		Rule: r.rule, Events: r.events, Samples: r.samples, Violations: r.viol, NViolations: r.nviol,
		Inconclusive: r.inconc, Notes: r.notes, Assumptions: r.assume, Extra: r.extra, Replaying: r.Replay != nil, Finished: true}
	for _, k := range r.known {
		res.Known = append(res.Known, k)
	}
	sort.Slice(res.Known, func(i, j int) bool { return res.Known[i].Key < res.Known[j].Key })
	b, err := json.MarshalIndent(res, "", " ")
	if err != nil {
		res.Samples = []any{fmt.Sprintf("%+v", r.samples)}
		b, _ = json.MarshalIndent(res, "", " ")
	}
	os.WriteFile(filepath.Join(r.Out, "result.json"), b, 0o644)
	if r.crumb != nil {
		r.crumb.Close()
	}
	for _, v := range r.viol {
		r.T.Errorf("VIOLATION %s key=%s: %s", r.ID, v.Key, v.Detail)
	}
	for _, s := range r.inconc {
		r.T.Logf("INCONCLUSIVE %s: %s", r.ID, s)
	}
	if r.exitAbn && (r.nviol > 0 || len(r.inconc) > 0) {
		fmt.Printf("verif %s: abnormal run (%d violations, %d inconclusive): exiting without package teardown\n", r.ID, r.nviol, len(r.inconc))
		os.Exit(1)
	}
	r.T.Logf("verif %s: %d evaluations, %d distinct non-trivial, %d violations, %d known, events=%v, %.1fs",
		r.ID, r.evals, len(r.distinct), r.nviol, len(r.known), r.events, time.Since(r.start).Seconds())
}

// WG is a wait group for harness goroutines that run inside testing/synctest bubbles. With the
// pinned toolchain (go1.25.0) a sync.WaitGroup used in a bubble was seen, rarely, to abort the
// process ("WaitGroup.Add called from multiple synctest bubbles", with a WaitGroup local to one
// bubble) and to block in Wait without being counted as durably blocked, which freezes the
// bubble's clock. WG waits on a sync.Cond, whose Wait is durably blocking.
type WG struct {
	mu sync.Mutex
	c  *sync.Cond
	n  int
}

func (w *WG) Add(d int) {
	w.mu.Lock()
	if w.c == nil {
		w.c = sync.NewCond(&w.mu)
	}
	w.n += d
	if w.n < 0 {
		w.mu.Unlock()
		panic("verifrt.WG: negative counter")
	}
	if w.n == 0 {
		w.c.Broadcast()
	}
	w.mu.Unlock()
}

func (w *WG) Done() { w.Add(-1) }

func (w *WG) Wait() {
	w.mu.Lock()
	if w.c == nil {
		w.c = sync.NewCond(&w.mu)
	}
	for w.n > 0 {
		w.c.Wait()
	}
	w.mu.Unlock()
}

func (w *WG) Go(f func()) {
	w.Add(1)
	go func() {
		defer w.Done()
		f()
	}()
}
