//go:build verif

// Package sfvref is an independent parser for HTTP Structured Field Values written from the
// parsing algorithms of RFC 9651 section 4.2 (one function per numbered algorithm, the steps
// are quoted in the comments). It does not import the package under test.
//
// Results are reported in the shape golang.org/x/net/internal/httpsfv hands to its callbacks:
// raw substrings of the input for members, bare items and parameter lists, plus the RFC value
// of every bare item.
package sfvref

import (
	"strings"
	"unicode/utf8"
)

// Lenient switches off single steps of the RFC algorithms. The zero value is the RFC. The
// monitor uses non-zero values ONLY to label a disagreement it has already established with
// the strict parser (which deviation explains what the implementation did); they never
// decide whether something is a violation.
type Lenient struct {
	DictNoComma       bool // 4.2.2 step 2.8 "if it is not ',', fail parsing" not enforced
	InnerUnterminated bool // 4.2.1.2 step 4 "end of the Inner List was not found; fail" not enforced when input ends right after "("
	ParamHTAB         bool // 4.2.3.2 step 2.3 discards SP and HTAB instead of SP only
	InnerHTAB         bool // 4.2.1.2 step 3.1 discards SP and HTAB instead of SP only
	NoBase64Check     bool // 4.2.7 step 7 (base64 decoding) skipped
	RejectFFFD        bool // 4.2.10: U+FFFD in the decoded sequence treated as a decoding failure
}

type Kind int

const (
	KInteger Kind = iota + 1
	KDecimal
	KString
	KToken
	KByteSeq
	KBoolean
	KDate
	KDisplayString
)

func (k Kind) String() string {
	return [...]string{"?", "integer", "decimal", "string", "token", "byteseq", "boolean", "date", "displaystring"}[k]
}

// Base64 classes of a byte sequence's content (RFC 9651 4.2.7 step 7 leaves some latitude:
// missing padding and non-zero pad bits SHOULD be tolerated).
const (
	B64Valid     = iota // decodable by any RFC 4648 decoder once padding is synthesized
	B64Grey             // decoder-dependent (odd padding and the like): no verdict demanded
	B64Undecodable      // number of data characters is 1 mod 4: no decoder can produce octets
)

// Bare is a parsed bare item.
type Bare struct {
	Raw  string // exact input substring
	Kind Kind
	Int  int64  // integer value, date seconds, or decimal value times 1000
	Str  string // string (unescaped), token, display string (decoded), byte sequence (raw base64 text)
	Bool bool
	B64  int // for KByteSeq
}

// KV is one parameter.
type KV struct {
	Key string
	Val string // raw bare item, "?1" when the parameter has no value
	B   Bare
}

// Item is a bare item with its parameters.
type Item struct {
	Bare   Bare
	Param  string // raw parameter text, "" when there are none
	Params []KV
}

// Member of a list or dictionary.
type Member struct {
	Key     string // dictionaries only
	Val     string // raw bare item, or the raw inner list without its parameters, or "?1" for a bare dictionary key
	Param   string
	Params  []KV
	IsInner bool
	Inner   []Item // items of the inner list
	Bare    Bare   // when !IsInner
}

type parser struct {
	s   string
	i   int
	len Lenient
	// grey is set when the verdict depended on decoder-dependent base64
	grey bool
}

type fail struct{ why string }

func (p *parser) fail(why string) { panic(fail{why}) }

func (p *parser) empty() bool { return p.i >= len(p.s) }
func (p *parser) peek() byte   { return p.s[p.i] }

func run[T any](s string, l Lenient, f func(p *parser) T) (out T, ok bool, grey bool, why string) {
	p := &parser{s: s, len: l}
	defer func() {
		if e := recover(); e != nil {
			if fl, isFail := e.(fail); isFail {
				ok = false
				why = fl.why
				grey = p.grey
				return
			}
			panic(e)
		}
	}()
	out = f(p)
	if !p.empty() {
		// callers of the sub-algorithms demand that the whole input is consumed
		var zero T
		return zero, false, p.grey, "input not consumed entirely"
	}
	return out, true, p.grey, ""
}

func isDigit(c byte) bool   { return c >= '0' && c <= '9' }
func isLcAlpha(c byte) bool { return c >= 'a' && c <= 'z' }
func isAlpha(c byte) bool   { return isLcAlpha(c) || (c >= 'A' && c <= 'Z') }

// tchar of RFC 9110 section 5.6.2, written out.
func isTchar(c byte) bool {
	if isAlpha(c) || isDigit(c) {
		return true
	}
	switch c {
	case '!', '#', '$', '%', '&', '\'', '*', '+', '-', '.', '^', '_', '`', '|', '~':
		return true
	}
	return false
}

func (p *parser) discardSP() {
	for !p.empty() && p.peek() == ' ' {
		p.i++
	}
}

func (p *parser) discardOWS() {
	for !p.empty() && (p.peek() == ' ' || p.peek() == '\t') {
		p.i++
	}
}

// 4.2.1 Parsing a List
func (p *parser) list() []Member {
	members := []Member{}
	for !p.empty() { // 2
		members = append(members, p.itemOrInnerList()) // 2.1
		p.discardOWS()                                   // 2.2
		if p.empty() {                                   // 2.3
			return members
		}
		if p.peek() != ',' { // 2.4
			p.fail("list: expected comma")
		}
		p.i++
		p.discardOWS() // 2.5
		if p.empty() { // 2.6
			p.fail("list: trailing comma")
		}
	}
	return members // 3
}

// 4.2.1.1 Parsing an Item or Inner List
func (p *parser) itemOrInnerList() Member {
	if !p.empty() && p.peek() == '(' {
		start := p.i
		items := p.bareInnerList()
		raw := p.s[start:p.i]
		ps := p.i
		params := p.parameters()
		return Member{Val: raw, Param: p.s[ps:p.i], Params: params, IsInner: true, Inner: items}
	}
	it := p.item()
	return Member{Val: it.Bare.Raw, Param: it.Param, Params: it.Params, Bare: it.Bare}
}

// 4.2.1.2 Parsing an Inner List, without the parameters of step 3.2 (the caller parses them).
func (p *parser) bareInnerList() []Item {
	if p.empty() || p.peek() != '(' { // 1
		p.fail("inner list: expected (")
	}
	p.i++
	items := []Item{}
	if p.len.InnerUnterminated && p.empty() {
		return items
	}
	for !p.empty() { // 3
		if p.len.InnerHTAB {
			p.discardOWS()
		} else {
			p.discardSP() // 3.1
		}
		if !p.empty() && p.peek() == ')' { // 3.2
			p.i++
			return items
		}
		items = append(items, p.item())                          // 3.3, 3.4
		if p.empty() || (p.peek() != ' ' && p.peek() != ')') { // 3.5
			p.fail("inner list: item not followed by SP or )")
		}
	}
	p.fail("inner list: end not found") // 4
	return nil
}

// 4.2.2 Parsing a Dictionary
func (p *parser) dictionary() []Member {
	members := []Member{}
	for !p.empty() { // 2
		key := p.key() // 2.1
		var m Member
		if !p.empty() && p.peek() == '=' { // 2.2
			p.i++
			m = p.itemOrInnerList()
		} else { // 2.3
			ps := p.i
			params := p.parameters()
			m = Member{Val: "?1", Param: p.s[ps:p.i], Params: params, Bare: Bare{Raw: "?1", Kind: KBoolean, Bool: true}}
		}
		m.Key = key
		// 2.4/2.5: a repeated key overwrites the earlier value. The callback interface under test
		// streams members in order of appearance, so all of them are listed here; Last() applies
		// the overwrite rule.
		members = append(members, m)
		p.discardOWS() // 2.6
		if p.empty() { // 2.7
			return members
		}
		if p.peek() != ',' { // 2.8
			if !p.len.DictNoComma {
				p.fail("dictionary: expected comma")
			}
		} else {
			p.i++
		}
		p.discardOWS() // 2.9
		if p.empty() { // 2.10
			p.fail("dictionary: trailing comma")
		}
	}
	return members // 3
}

// 4.2.3 Parsing an Item
func (p *parser) item() Item {
	b := p.bareItem()
	ps := p.i
	params := p.parameters()
	return Item{Bare: b, Param: p.s[ps:p.i], Params: params}
}

// 4.2.3.1 Parsing a Bare Item
func (p *parser) bareItem() Bare {
	if p.empty() {
		p.fail("bare item: empty")
	}
	start := p.i
	var b Bare
	c := p.peek()
	switch {
	case c == '-' || isDigit(c):
		b = p.integerOrDecimal()
	case c == '"':
		b = p.str()
	case isAlpha(c) || c == '*':
		b = p.token()
	case c == ':':
		b = p.byteSequence()
	case c == '?':
		b = p.boolean()
	case c == '@':
		b = p.date()
	case c == '%':
		b = p.displayString()
	default:
		p.fail("bare item: unrecognised first character")
	}
	b.Raw = p.s[start:p.i]
	return b
}

// 4.2.3.2 Parsing Parameters
func (p *parser) parameters() []KV {
	var params []KV
	for !p.empty() { // 2
		if p.peek() != ';' { // 2.1
			break
		}
		p.i++ // 2.2
		if p.len.ParamHTAB {
			p.discardOWS()
		} else {
			p.discardSP() // 2.3
		}
		k := p.key()                                      // 2.4
		kv := KV{Key: k, Val: "?1", B: Bare{Raw: "?1", Kind: KBoolean, Bool: true}} // 2.5
		if !p.empty() && p.peek() == '=' {                // 2.6
			p.i++
			kv.B = p.bareItem()
			kv.Val = kv.B.Raw
		}
		params = append(params, kv) // 2.7/2.8: listed in order of appearance, see dictionary()
	}
	return params
}

// 4.2.3.3 Parsing a Key
func (p *parser) key() string {
	if p.empty() || (!isLcAlpha(p.peek()) && p.peek() != '*') { // 1
		p.fail("key: bad first character")
	}
	start := p.i
	for !p.empty() { // 3
		c := p.peek()
		if !(isLcAlpha(c) || isDigit(c) || c == '_' || c == '-' || c == '.' || c == '*') {
			break
		}
		p.i++
	}
	return p.s[start:p.i]
}

// 4.2.4 Parsing an Integer or Decimal
func (p *parser) integerOrDecimal() Bare {
	decimal := false
	sign := int64(1)
	num := []byte{}
	if !p.empty() && p.peek() == '-' { // 3
		p.i++
		sign = -1
	}
	if p.empty() { // 4
		p.fail("number: empty")
	}
	if !isDigit(p.peek()) { // 5
		p.fail("number: no digit")
	}
	for !p.empty() { // 6
		c := p.peek()
		p.i++
		if isDigit(c) { // 6.2
			num = append(num, c)
		} else if !decimal && c == '.' { // 6.3
			if len(num) > 12 {
				p.fail("number: more than 12 integer digits in a decimal")
			}
			num = append(num, c)
			decimal = true
		} else { // 6.4
			p.i--
			break
		}
		if !decimal && len(num) > 15 { // 6.5
			p.fail("number: integer longer than 15 digits")
		}
		if decimal && len(num) > 16 { // 6.6
			p.fail("number: decimal longer than 16 characters")
		}
	}
	if !decimal { // 7
		var v int64
		for _, c := range num {
			v = v*10 + int64(c-'0')
		}
		return Bare{Kind: KInteger, Int: sign * v}
	}
	// 8
	if num[len(num)-1] == '.' { // 8.1
		p.fail("number: decimal ends in .")
	}
	dot := strings.IndexByte(string(num), '.')
	frac := num[dot+1:]
	if len(frac) > 3 { // 8.2
		p.fail("number: more than three fractional digits")
	}
	var v int64
	for _, c := range num[:dot] {
		v = v*10 + int64(c-'0')
	}
	for k := 0; k < 3; k++ {
		v *= 10
		if k < len(frac) {
			v += int64(frac[k] - '0')
		}
	}
	return Bare{Kind: KDecimal, Int: sign * v}
}

// 4.2.5 Parsing a String
func (p *parser) str() Bare {
	var out []byte
	if p.empty() || p.peek() != '"' { // 2
		p.fail("string: no opening quote")
	}
	p.i++             // 3
	for !p.empty() { // 4
		c := p.peek()
		p.i++
		switch {
		case c == '\\': // 4.2
			if p.empty() {
				p.fail("string: backslash at end")
			}
			n := p.peek()
			p.i++
			if n != '"' && n != '\\' {
				p.fail("string: bad escape")
			}
			out = append(out, n)
		case c == '"': // 4.3
			return Bare{Kind: KString, Str: string(out)}
		case c <= 0x1f || c >= 0x7f: // 4.4
			p.fail("string: character outside VCHAR/SP")
		default:
			out = append(out, c)
		}
	}
	p.fail("string: no closing quote") // 5
	return Bare{}
}

// 4.2.6 Parsing a Token
func (p *parser) token() Bare {
	if p.empty() || (!isAlpha(p.peek()) && p.peek() != '*') { // 1
		p.fail("token: bad first character")
	}
	start := p.i
	for !p.empty() { // 3
		c := p.peek()
		if !isTchar(c) && c != ':' && c != '/' {
			break
		}
		p.i++
	}
	return Bare{Kind: KToken, Str: p.s[start:p.i]}
}

// ClassifyBase64 says what RFC 9651 4.2.7 step 7 demands for content made of ALPHA, DIGIT, "+",
// "/", "=".
func ClassifyBase64(c string) int {
	data := strings.TrimRight(c, "=")
	pad := len(c) - len(data)
	if strings.IndexByte(data, '=') >= 0 {
		// "=" in the middle
		n := 0
		for i := 0; i < len(c); i++ {
			if c[i] != '=' {
				n++
			}
		}
		if n%4 == 1 {
			return B64Undecodable
		}
		return B64Grey
	}
	switch len(data) % 4 {
	case 1:
		return B64Undecodable
	case 0:
		if pad == 0 {
			return B64Valid
		}
	case 2:
		if pad == 0 || pad == 2 {
			return B64Valid
		}
	case 3:
		if pad == 0 || pad == 1 {
			return B64Valid
		}
	}
	return B64Grey
}

// 4.2.7 Parsing a Byte Sequence
func (p *parser) byteSequence() Bare {
	if p.empty() || p.peek() != ':' { // 1
		p.fail("byte sequence: no opening colon")
	}
	p.i++ // 2
	end := strings.IndexByte(p.s[p.i:], ':')
	if end < 0 { // 3
		p.fail("byte sequence: no closing colon")
	}
	content := p.s[p.i : p.i+end] // 4
	p.i += end + 1                // 5
	for i := 0; i < len(content); i++ { // 6
		c := content[i]
		if !isAlpha(c) && !isDigit(c) && c != '+' && c != '/' && c != '=' {
			p.fail("byte sequence: character outside the base64 alphabet")
		}
	}
	cls := ClassifyBase64(content) // 7
	if !p.len.NoBase64Check {
		switch cls {
		case B64Undecodable:
			p.fail("byte sequence: base64 decoding fails")
		case B64Grey:
			p.grey = true
		}
	}
	return Bare{Kind: KByteSeq, Str: content, B64: cls}
}

// 4.2.8 Parsing a Boolean
func (p *parser) boolean() Bare {
	if p.empty() || p.peek() != '?' { // 1
		p.fail("boolean: no ?")
	}
	p.i++
	if !p.empty() && p.peek() == '1' { // 3
		p.i++
		return Bare{Kind: KBoolean, Bool: true}
	}
	if !p.empty() && p.peek() == '0' { // 4
		p.i++
		return Bare{Kind: KBoolean, Bool: false}
	}
	p.fail("boolean: no value match") // 5
	return Bare{}
}

// 4.2.9 Parsing a Date
func (p *parser) date() Bare {
	if p.empty() || p.peek() != '@' { // 1
		p.fail("date: no @")
	}
	p.i++                     // 2
	n := p.integerOrDecimal() // 3
	if n.Kind == KDecimal {   // 4
		p.fail("date: decimal")
	}
	return Bare{Kind: KDate, Int: n.Int}
}

// validUTF8 decodes per RFC 3629: shortest form only, no surrogates, nothing above U+10FFFF.
// Written out here (not utf8.Valid) so that the check is independent of the helper the
// implementation uses; cross-checked against utf8.Valid below.
func validUTF8(b []byte) bool {
	for i := 0; i < len(b); {
		c := b[i]
		var n int
		var min, cp rune
		switch {
		case c < 0x80:
			i++
			continue
		case c >= 0xc2 && c <= 0xdf:
			n, min, cp = 1, 0x80, rune(c&0x1f)
		case c >= 0xe0 && c <= 0xef:
			n, min, cp = 2, 0x800, rune(c&0x0f)
		case c >= 0xf0 && c <= 0xf4:
			n, min, cp = 3, 0x10000, rune(c&0x07)
		default:
			return false
		}
		if i+n >= len(b) {
			return false
		}
		for k := 1; k <= n; k++ {
			cc := b[i+k]
			if cc&0xc0 != 0x80 {
				return false
			}
			cp = cp<<6 | rune(cc&0x3f)
		}
		if cp < min || cp > 0x10ffff || (cp >= 0xd800 && cp <= 0xdfff) {
			return false
		}
		i += n + 1
	}
	return true
}

// 4.2.10 Parsing a Display String
func (p *parser) displayString() Bare {
	if len(p.s)-p.i < 2 || p.s[p.i] != '%' || p.s[p.i+1] != '"' { // 1
		p.fail("display string: no %\"")
	}
	p.i += 2 // 2
	var arr []byte
	for !p.empty() { // 4
		c := p.peek()
		p.i++
		if c <= 0x1f || c >= 0x7f { // 4.2
			p.fail("display string: character outside VCHAR/SP")
		}
		switch c {
		case '%': // 4.3
			if len(p.s)-p.i < 2 {
				p.fail("display string: truncated escape")
			}
			var oct byte
			for k := 0; k < 2; k++ {
				h := p.s[p.i+k]
				switch {
				case h >= '0' && h <= '9':
					oct = oct<<4 | (h - '0')
				case h >= 'a' && h <= 'f':
					oct = oct<<4 | (h - 'a' + 10)
				default:
					p.fail("display string: escape is not lowercase hex")
				}
			}
			p.i += 2
			arr = append(arr, oct)
		case '"': // 4.4
			if !validUTF8(arr) {
				p.fail("display string: not UTF-8")
			}
			if validUTF8(arr) != utf8.Valid(arr) {
				panic("sfvref: UTF-8 validators disagree")
			}
			if p.len.RejectFFFD && strings.ContainsRune(string(arr), 0xfffd) {
				p.fail("display string: U+FFFD (lenient switch)")
			}
			return Bare{Kind: KDisplayString, Str: string(arr)}
		default: // 4.5
			arr = append(arr, c)
		}
	}
	p.fail("display string: no closing quote") // 5
	return Bare{}
}

// Result of one of the structure parsers.
type Result struct {
	OK      bool
	Grey    bool // verdict rests on decoder-dependent base64: no accept/reject demand
	Why     string
	Members []Member // list, dictionary
	Items   []Item   // item (one element), bare inner list
	Params  []KV     // parameters
}

// List runs 4.2.1 on the whole of s (the sub-algorithm as written: no stripping of leading SP).
func List(s string, l Lenient) Result {
	m, ok, grey, why := run(s, l, (*parser).list)
	return Result{OK: ok, Grey: grey, Why: why, Members: m}
}

// Dictionary runs 4.2.2 on the whole of s.
func Dictionary(s string, l Lenient) Result {
	m, ok, grey, why := run(s, l, (*parser).dictionary)
	return Result{OK: ok, Grey: grey, Why: why, Members: m}
}

// ItemOf runs 4.2.3 on the whole of s.
func ItemOf(s string, l Lenient) Result {
	it, ok, grey, why := run(s, l, (*parser).item)
	r := Result{OK: ok, Grey: grey, Why: why}
	if ok {
		r.Items = []Item{it}
	}
	return r
}

// BareInnerList runs 4.2.1.2 minus the trailing parameters on the whole of s.
func BareInnerList(s string, l Lenient) Result {
	its, ok, grey, why := run(s, l, (*parser).bareInnerList)
	return Result{OK: ok, Grey: grey, Why: why, Items: its}
}

// Parameters runs 4.2.3.2 on the whole of s.
func Parameters(s string, l Lenient) Result {
	ps, ok, grey, why := run(s, l, (*parser).parameters)
	return Result{OK: ok, Grey: grey, Why: why, Params: ps}
}

// BareItem runs 4.2.3.1 on the whole of s.
func BareItem(s string, l Lenient) (Bare, bool, bool) {
	b, ok, grey, _ := run(s, l, (*parser).bareItem)
	return b, ok, grey
}

// TopLevel is the complete algorithm of 4.2 for field_type "list", "dictionary" or "item":
// ASCII only, leading SP discarded, the structure parsed, trailing SP discarded, nothing left.
func TopLevel(fieldType, s string, l Lenient) (ok, grey bool) {
	for i := 0; i < len(s); i++ {
		if s[i] >= 0x80 {
			return false, false
		}
	}
	_, ok, grey, _ = run(s, l, func(p *parser) int {
		p.discardSP()
		switch fieldType {
		case "list":
			p.list()
		case "dictionary":
			p.dictionary()
		case "item":
			p.item()
		default:
			panic("sfvref: unknown field type")
		}
		p.discardSP()
		return 0
	})
	return ok, grey
}

// Last applies the overwrite rule of 4.2.2 step 2.4 and 4.2.3.2 step 2.7: the value of a
// repeated key is the last one.
func Last(ms []Member, key string) (Member, bool) {
	for i := len(ms) - 1; i >= 0; i-- {
		if ms[i].Key == key {
			return ms[i], true
		}
	}
	return Member{}, false
}
