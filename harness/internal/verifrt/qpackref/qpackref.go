//go:build verif

package qpackref

import (
	"encoding/hex"
	"fmt"
	"strings"

	"golang.org/x/net/internal/verifrt/hpackref"
)

// Field is a decoded field line.
type Field struct {
	Name, Value string
	Never       bool // the N bit: never-indexed literal
}

// Reject classes. Every one of them is a condition under which a decoder that advertised a
// dynamic table capacity of zero has to fail the field section (RFC 9204 sections 2.2, 4.5,
// RFC 7541 sections 5.1/5.2, RFC 9114 sections 4.1.2, 4.3).
const (
	RejTruncated       = "truncated"            // the section ends inside an integer / before the prefix is complete
	RejRIC             = "ric-nonzero"          // Required Insert Count != 0 without a dynamic table
	RejDynIndexed      = "dynamic-indexed"      // Indexed Field Line, T=0
	RejDynNameRef      = "dynamic-name-ref"     // Literal Field Line With Name Reference, T=0
	RejPostBaseIndexed = "post-base-indexed"    // 0001xxxx
	RejPostBaseNameRef = "post-base-name-ref"   // 0000Nxxx
	RejStaticOOB       = "static-index-oob"     // static index >= 99
	RejStringOversized = "string-oversized"     // declared string length exceeds what is left of the section
	RejHuffman         = "huffman-invalid"      // + ":" + hpackref Huff* class
	RejEmptyName       = "empty-name"           // zero-length field name
	RejPseudoAfterReg  = "pseudo-after-regular" // ":name" after a regular field
)

// Result is what the reference makes of one encoded field section.
type Result struct {
	Fields   []Field
	Reject   string // "" = accepted; otherwise one of the Rej* classes (first reason met walking left to right)
	RejectAt int    // offset of the representation (or prefix) that was rejected
	// MayReject lists reasons for which an implementation may fail a section the reference
	// walks through: an integer of 2^62 or more, or one spelled with more than nine
	// continuation octets (RFC 9204 4.1.1 only obliges decoders to handle 62-bit integers;
	// RFC 7541 5.1 lets them limit the octet length).
	MayReject []string
	// NegativeBase: Sign bit 1 with Required Insert Count 0. RFC 9204 4.5.1.2 calls such a
	// section invalid; a decoder without a dynamic table never uses Base, so the reference
	// walks on and reports the fact: either outcome is tolerated by the monitors.
	NegativeBase bool

	// shape of the section, for coverage counters
	Indexed, NameRef, Literal  int
	NeverLines                 int
	HuffStrings, RawStrings    int
	MultiOctetInts, PaddedInts int
}

func (r *Result) Accepted() bool { return r.Reject == "" }

type walker struct {
	b   []byte
	pos int
	res *Result
}

// readInt returns the value (saturated: huge=true means >= 2^62) and whether the section
// held the whole integer.
func (w *walker) readInt(n uint) (v uint64, huge, ok bool) {
	i, ok := hpackref.ReadInt(w.b[w.pos:], n)
	if !ok {
		return 0, false, false
	}
	w.pos += i.Len
	huge = i.Huge || i.V >= 1<<62
	if i.Len > 1 {
		w.res.MultiOctetInts++
		// minimal number of continuation octets for this value
		rest := i.V - (uint64(1)<<n - 1)
		min := 1
		for rest >= 128 {
			rest >>= 7
			min++
		}
		if !i.Huge && i.Len-1 > min {
			w.res.PaddedInts++
		}
	}
	if huge {
		w.res.MayReject = append(w.res.MayReject, "integer>=2^62")
	} else if i.Len-1 > 9 {
		w.res.MayReject = append(w.res.MayReject, "integer-over-9-continuation-octets")
	}
	return i.V, huge, true
}

// readString reads a string literal whose first octet is at w.pos, with an n-bit length
// prefix and the H bit right above it.
func (w *walker) readString(n uint) (s string, rej string) {
	if w.pos >= len(w.b) {
		return "", RejTruncated
	}
	h := w.b[w.pos]&(1<<n) != 0
	l, huge, ok := w.readInt(n)
	if !ok {
		return "", RejTruncated
	}
	if huge || l > uint64(len(w.b)-w.pos) {
		return "", RejStringOversized
	}
	raw := w.b[w.pos : w.pos+int(l)]
	w.pos += int(l)
	if h {
		w.res.HuffStrings++
		dec, cls := hpackref.HuffmanDecode(raw)
		if cls != hpackref.HuffOK {
			return "", RejHuffman + ":" + cls
		}
		return dec, ""
	}
	w.res.RawStrings++
	return string(raw), ""
}

// Decode walks one encoded field section (the payload of a HEADERS frame) as a decoder that
// has no dynamic table must.
func Decode(b []byte) *Result {
	res := &Result{}
	w := &walker{b: b, res: res}
	fail := func(at int, why string) *Result {
		res.Reject, res.RejectAt = why, at
		return res
	}
	// Encoded Field Section Prefix (4.5.1): Required Insert Count (8+), S + Delta Base (7+).
	ric, huge, ok := w.readInt(8)
	if !ok {
		return fail(0, RejTruncated)
	}
	if ric != 0 || huge {
		return fail(0, RejRIC)
	}
	if w.pos >= len(b) {
		return fail(w.pos, RejTruncated)
	}
	sign := b[w.pos]&0x80 != 0
	if _, _, ok = w.readInt(7); !ok {
		return fail(1, RejTruncated)
	}
	if sign {
		res.NegativeBase = true
	}
	sawRegular := false
	for w.pos < len(b) {
		at := w.pos
		fb := b[at]
		var f Field
		switch {
		case fb&0x80 != 0: // 1 T index(6+)
			idx, huge, ok := w.readInt(6)
			if !ok {
				return fail(at, RejTruncated)
			}
			if fb&0x40 == 0 {
				return fail(at, RejDynIndexed)
			}
			if huge || idx >= uint64(len(StaticTable)) {
				return fail(at, RejStaticOOB)
			}
			f = Field{StaticTable[idx].Name, StaticTable[idx].Value, false}
			res.Indexed++
		case fb&0xc0 == 0x40: // 01 N T nameindex(4+)
			idx, huge, ok := w.readInt(4)
			if !ok {
				return fail(at, RejTruncated)
			}
			if fb&0x10 == 0 {
				return fail(at, RejDynNameRef)
			}
			if huge || idx >= uint64(len(StaticTable)) {
				return fail(at, RejStaticOOB)
			}
			v, rej := w.readString(7)
			if rej != "" {
				return fail(at, rej)
			}
			f = Field{StaticTable[idx].Name, v, fb&0x20 != 0}
			res.NameRef++
		case fb&0xe0 == 0x20: // 001 N H namelen(3+)
			n, rej := w.readString(3)
			if rej != "" {
				return fail(at, rej)
			}
			v, rej := w.readString(7)
			if rej != "" {
				return fail(at, rej)
			}
			f = Field{n, v, fb&0x10 != 0}
			res.Literal++
		case fb&0xf0 == 0x10:
			return fail(at, RejPostBaseIndexed)
		default: // 0000 N nameindex(3+)
			return fail(at, RejPostBaseNameRef)
		}
		if f.Name == "" {
			return fail(at, RejEmptyName)
		}
		if f.Name[0] == ':' {
			if sawRegular {
				return fail(at, RejPseudoAfterReg)
			}
		} else {
			sawRegular = true
		}
		if f.Never {
			res.NeverLines++
		}
		res.Fields = append(res.Fields, f)
	}
	return res
}

// ---- wire writers for workload generators (never used as an oracle) ----

// AppendPrefix appends the Encoded Field Section Prefix.
func AppendPrefix(dst []byte, ric uint64, sign bool, deltaBase uint64, pad int) []byte {
	dst = hpackref.AppendInt(dst, 8, 0, ric, pad)
	var s byte
	if sign {
		s = 0x80
	}
	return hpackref.AppendInt(dst, 7, s, deltaBase, pad)
}

// AppendIndexed appends an Indexed Field Line (static=true sets T).
func AppendIndexed(dst []byte, static bool, idx uint64, pad int) []byte {
	fl := byte(0x80)
	if static {
		fl |= 0x40
	}
	return hpackref.AppendInt(dst, 6, fl, idx, pad)
}

// AppendString appends a string literal with an n-bit length prefix; flags are the bits above
// the H bit in the first octet.
func AppendString(dst []byte, n uint, flags byte, s string, huff bool, pad int) []byte {
	if huff {
		enc := hpackref.HuffmanEncode(nil, s)
		dst = hpackref.AppendInt(dst, n, flags|1<<n, uint64(len(enc)), pad)
		return append(dst, enc...)
	}
	dst = hpackref.AppendInt(dst, n, flags, uint64(len(s)), pad)
	return append(dst, s...)
}

// AppendNameRef appends a Literal Field Line With Name Reference.
func AppendNameRef(dst []byte, never, static bool, idx uint64, value string, huff bool, padIdx, padLen int) []byte {
	fl := byte(0x40)
	if never {
		fl |= 0x20
	}
	if static {
		fl |= 0x10
	}
	dst = hpackref.AppendInt(dst, 4, fl, idx, padIdx)
	return AppendString(dst, 7, 0, value, huff, padLen)
}

// AppendLiteral appends a Literal Field Line With Literal Name.
func AppendLiteral(dst []byte, never bool, name string, nameHuff bool, value string, valueHuff bool, padName, padValue int) []byte {
	fl := byte(0x20)
	if never {
		fl |= 0x10
	}
	dst = AppendString(dst, 3, fl, name, nameHuff, padName)
	return AppendString(dst, 7, 0, value, valueHuff, padValue)
}

// AppendPostBaseIndexed appends an Indexed Field Line With Post-Base Index.
func AppendPostBaseIndexed(dst []byte, idx uint64) []byte {
	return hpackref.AppendInt(dst, 4, 0x10, idx, 0)
}

// AppendPostBaseNameRef appends a Literal Field Line With Post-Base Name Reference.
func AppendPostBaseNameRef(dst []byte, never bool, idx uint64, value string, huff bool) []byte {
	fl := byte(0)
	if never {
		fl |= 0x08
	}
	dst = hpackref.AppendInt(dst, 3, fl, idx, 0)
	return AppendString(dst, 7, 0, value, huff, 0)
}

// NameIndex returns the lowest static index whose name is name, or -1.
func NameIndex(name string) int {
	for i, e := range StaticTable {
		if e.Name == name {
			return i
		}
	}
	return -1
}

// ---- self check ----

func unhex(s string) []byte {
	b, err := hex.DecodeString(strings.ReplaceAll(s, " ", ""))
	if err != nil {
		panic(err)
	}
	return b
}

// SelfCheck pins the reference against wire vectors quoted in the repository's QPACK tests
// (qpack_decode_test.go / qpack_encode_test.go, which took them from Google QUICHE's
// qpack_encoder_test.cc / qpack_decoder_test.cc) and against structural facts of RFC 9204
// Appendix A. The vectors were copied as text; nothing is read from /repo at run time.
func SelfCheck() error {
	if err := hpackref.SelfCheck(); err != nil {
		return fmt.Errorf("hpackref: %v", err)
	}
	f := func(n, v string) Field { return Field{n, v, false} }
	a127 := strings.Repeat("a", 127)
	good := []struct {
		enc  string
		want []Field
	}{
		{"0000", nil},
		{"000023666f6f00", []Field{f("foo", "")}},
		{"000023666f6f03626172", []Field{f("foo", "bar")}},
		{"0000" + "23666f6f03626172" + "2700666f6f62616172" + "7f00" + strings.Repeat("61", 127), []Field{f("foo", "bar"), f("foobaar", a127)}},
		{"000023666f6f0462610a72", []Field{f("foo", "ba\nr")}},
		{"00002f0125a849e95ba97d7f8925a849e95bb8e8b4bf", []Field{f("custom-key", "custom-value")}},
		{"0000" + "2f0125a849e95ba97d7f" + "8925a849e95bb8e8b4bf" + "2703637573746f6d2d6b6579" + "0c637573746f6d2d76616c7565" +
			"2f0125a849e95ba97d7f" + "0c637573746f6d2d76616c7565" + "2703637573746f6d2d6b6579" + "8925a849e95bb8e8b4bf",
			[]Field{f("custom-key", "custom-value"), f("custom-key", "custom-value"), f("custom-key", "custom-value"), f("custom-key", "custom-value")}},
		// the static-table vector: pins entries 12, 15 (name), 17, 20, 31
		{"0000d1d45f00055452414345dfcc5f108621e9aec2a11f5c8294e75f1000", []Field{
			f(":method", "GET"), f(":method", "POST"), f(":method", "TRACE"), f("accept-encoding", "gzip, deflate, br"),
			f("location", ""), f("accept-encoding", "compress"), f("location", "foo"), f("accept-encoding", "")}},
		// encoder vectors
		{"00002a94e703626172", []Field{f("foo", "bar")}},
		{"0000d1dfcc", []Field{f(":method", "GET"), f("accept-encoding", "gzip, deflate, br"), f("location", "")}},
		{"0000d45f108621e9aec2a11f5c8294e7", []Field{f(":method", "POST"), f("accept-encoding", "compress"), f("location", "foo")}},
		{"00005f000554524143455f1000", []Field{f(":method", "TRACE"), f("accept-encoding", "")}},
		{"00007f0000", []Field{{":method", "", true}}},
		{"000031610162", []Field{{"a", "b", true}}},
	}
	for _, g := range good {
		r := Decode(unhex(g.enc))
		if !r.Accepted() || !EqualFields(r.Fields, g.want) || len(r.MayReject) != 0 || r.NegativeBase {
			return fmt.Errorf("qpackref: vector %s decoded to %+v (reject %q), want %+v", g.enc, r.Fields, r.Reject, g.want)
		}
	}
	bad := []struct{ enc, why string }{
		{"00002003666f6f", RejEmptyName},
		{"00002000", RejEmptyName},
		{"000027ffffffffffffffffffff", RejTruncated},
		{"000027ffff7f", RejStringOversized},
		{"000023666f6f7fffffffffffffffffffff", RejTruncated},
		{"000023666f6f7fffff7f", RejStringOversized},
		{"00002366", RejStringOversized},
		{"00002f0125a849e95ba97d7e8925a849e95bb8e8b4bf", RejHuffman + ":" + hpackref.HuffPadNotOnes},
		{"00002f0125a849e95ba97d7f8925a849e95bb8e8b4be", RejHuffman + ":" + hpackref.HuffPadNotOnes},
		{"00002f0225a849e95ba97d7fff8925a849e95bb8e8b4bf", RejHuffman + ":" + hpackref.HuffPadTooLong},
		{"00002f0125a849e95ba97d7f8a25a849e95bb8e8b4bfff", RejHuffman + ":" + hpackref.HuffPadTooLong},
		{"0000ff23ff24", RejStaticOOB},
		{"000027ffffffffffffffff7f", RejStringOversized},
		{"0000ffffffffffffffffff7f", RejStaticOOB},
		{"0100", RejRIC},
		{"000081", RejDynIndexed},
		{"00004100", RejDynNameRef},
		{"000010", RejPostBaseIndexed},
		{"00000000", RejPostBaseNameRef},
		{"0000226162016351" + "00", RejPseudoAfterReg}, // "ab: c" then ":path" by name reference
	}
	for _, c := range bad {
		r := Decode(unhex(c.enc))
		if r.Reject != c.why {
			return fmt.Errorf("qpackref: vector %s: reject %q, want %q", c.enc, r.Reject, c.why)
		}
	}
	// Appendix A structure
	seen := map[Entry]bool{}
	for i, e := range StaticTable {
		if e.Name == "" || strings.ToLower(e.Name) != e.Name {
			return fmt.Errorf("qpackref: static entry %d has a bad name %q", i, e.Name)
		}
		if seen[e] {
			return fmt.Errorf("qpackref: static entry %d duplicated", i)
		}
		seen[e] = true
	}
	for name, idx := range map[string]int{":authority": 0, ":path": 1, ":method": 15, ":scheme": 22, ":status": 24, "accept": 29,
		"content-type": 44, "x-frame-options": 97, "location": 12, "accept-encoding": 31, "user-agent": 95} {
		if NameIndex(name) != idx {
			return fmt.Errorf("qpackref: first static index of %q is %d, want %d", name, NameIndex(name), idx)
		}
	}
	// writers and walker agree on every representation
	var b []byte
	b = AppendPrefix(b, 0, false, 0, 0)
	b = AppendIndexed(b, true, 98, 0)
	b = AppendIndexed(b, true, 63, 2)
	b = AppendNameRef(b, true, true, 95, "curl/8", true, 1, 0)
	b = AppendLiteral(b, false, "x-long-name", false, strings.Repeat("v", 300), true, 0, 0)
	b = AppendLiteral(b, true, "k", true, "", false, 0, 0)
	r := Decode(b)
	want := []Field{{"x-frame-options", "sameorigin", false}, {":status", "100", false}, {"user-agent", "curl/8", true},
		{"x-long-name", strings.Repeat("v", 300), false}, {"k", "", true}}
	// (":status" after "x-frame-options" is a pseudo header after a regular one)
	if r.Reject != RejPseudoAfterReg {
		return fmt.Errorf("qpackref: writer/walker: reject %q, want %q", r.Reject, RejPseudoAfterReg)
	}
	b = AppendPrefix(nil, 0, false, 0, 0)
	b = AppendIndexed(b, true, 63, 2)
	b = AppendIndexed(b, true, 98, 0)
	b = AppendNameRef(b, true, true, 95, "curl/8", true, 1, 0)
	b = AppendLiteral(b, false, "x-long-name", false, strings.Repeat("v", 300), true, 0, 0)
	b = AppendLiteral(b, true, "k", true, "", false, 0, 0)
	want[0], want[1] = want[1], want[0]
	r = Decode(b)
	if !r.Accepted() || !EqualFields(r.Fields, want) || r.PaddedInts != 2 || r.Indexed != 2 || r.NameRef != 1 || r.Literal != 2 || r.NeverLines != 2 {
		return fmt.Errorf("qpackref: writer/walker disagree: %+v", r)
	}
	return nil
}

// EqualFields compares two field lists element-wise.
func EqualFields(a, b []Field) bool {
	if len(a) != len(b) {
		return false
	}
	for i := range a {
		if a[i] != b[i] {
			return false
		}
	}
	return true
}
