//go:build verif

// Package h2ref is an independent HTTP/2 frame reader/writer written from RFC 9113 §4.1 and §6
// (plus RFC 9218 §7.1 for PRIORITY_UPDATE). It is reference code for the /verif monitors: it
// uses only the standard library and must never import golang.org/x/net/http2.
//
// Layers:
//
//	Frame, ReadFrame, ParseAll, AppendFrame, AppendHeader   raw 9-byte header + payload
//	Frame.Data/Headers/PushPromise/… (and free-function aliases)  per-type payload layout
//	Append<Type>                                             per-type builders
//	Validate, OrderChecker                                   RFC-mandated per-frame / ordering errors
//
// The API is append-only: existing names keep their meaning.
package h2ref

import (
	"encoding/binary"
	"errors"
	"fmt"
	"io"
)

// Frame types (RFC 9113 §6, RFC 9218 §7.1).
const (
	TypeData           uint8 = 0x0
	TypeHeaders        uint8 = 0x1
	TypePriority       uint8 = 0x2
	TypeRSTStream      uint8 = 0x3
	TypeSettings       uint8 = 0x4
	TypePushPromise    uint8 = 0x5
	TypePing           uint8 = 0x6
	TypeGoAway         uint8 = 0x7
	TypeWindowUpdate   uint8 = 0x8
	TypeContinuation   uint8 = 0x9
	TypePriorityUpdate uint8 = 0x10
)

// Flags. Their meaning depends on the frame type.
const (
	FlagEndStream  uint8 = 0x1  // DATA, HEADERS
	FlagAck        uint8 = 0x1  // SETTINGS, PING
	FlagEndHeaders uint8 = 0x4  // HEADERS, PUSH_PROMISE, CONTINUATION
	FlagPadded     uint8 = 0x8  // DATA, HEADERS, PUSH_PROMISE
	FlagPriority   uint8 = 0x20 // HEADERS
)

// Error codes (RFC 9113 §7).
const (
	ErrNo                 uint32 = 0x0
	ErrProtocol           uint32 = 0x1
	ErrInternal           uint32 = 0x2
	ErrFlowControl        uint32 = 0x3
	ErrSettingsTimeout    uint32 = 0x4
	ErrStreamClosed       uint32 = 0x5
	ErrFrameSize          uint32 = 0x6
	ErrRefusedStream      uint32 = 0x7
	ErrCancel             uint32 = 0x8
	ErrCompression        uint32 = 0x9
	ErrConnect            uint32 = 0xa
	ErrEnhanceYourCalm    uint32 = 0xb
	ErrInadequateSecurity uint32 = 0xc
	ErrHTTP11Required     uint32 = 0xd
)

// SETTINGS identifiers (RFC 9113 §6.5.2, RFC 8441, RFC 9218).
const (
	SettingHeaderTableSize       uint16 = 0x1
	SettingEnablePush            uint16 = 0x2
	SettingMaxConcurrentStreams  uint16 = 0x3
	SettingInitialWindowSize     uint16 = 0x4
	SettingMaxFrameSize          uint16 = 0x5
	SettingMaxHeaderListSize     uint16 = 0x6
	SettingEnableConnectProtocol uint16 = 0x8
	SettingNoRFC7540Priorities   uint16 = 0x9
)

const (
	HeaderLen          = 9
	MaxFrameLen        = 1<<24 - 1
	DefaultMaxFrameLen = 1 << 14
	MaxStreamID        = 1<<31 - 1
	MaxWindow          = 1<<31 - 1
	// ClientPreface is the 24-byte client connection preface (RFC 9113 §3.4).
	ClientPreface = "PRI * HTTP/2.0\r\n\r\nSM\r\n\r\n"
)

// TypeName returns the RFC name of a frame type.
func TypeName(t uint8) string {
	switch t {
	case TypeData:
		return "DATA"
	case TypeHeaders:
		return "HEADERS"
	case TypePriority:
		return "PRIORITY"
	case TypeRSTStream:
		return "RST_STREAM"
	case TypeSettings:
		return "SETTINGS"
	case TypePushPromise:
		return "PUSH_PROMISE"
	case TypePing:
		return "PING"
	case TypeGoAway:
		return "GOAWAY"
	case TypeWindowUpdate:
		return "WINDOW_UPDATE"
	case TypeContinuation:
		return "CONTINUATION"
	case TypePriorityUpdate:
		return "PRIORITY_UPDATE"
	}
	return fmt.Sprintf("UNKNOWN_0x%x", t)
}

// A Frame is one HTTP/2 frame exactly as it is on the wire.
//
// Length is the 24-bit length field; for frames produced by ReadFrame/ParseAll it always
// equals len(Payload). R is the reserved bit in front of the stream identifier (senders must
// leave it 0, receivers must ignore it).
type Frame struct {
	Length   uint32
	Type     uint8
	Flags    uint8
	StreamID uint32
	Payload  []byte
	R        bool
}

func (f Frame) Has(flag uint8) bool { return f.Flags&flag == flag }

func (f Frame) String() string {
	return fmt.Sprintf("%s(len=%d flags=0x%x stream=%d)", TypeName(f.Type), f.Length, f.Flags, f.StreamID)
}

// ParseHeader decodes a 9-byte frame header (Payload is left nil). b must have >= 9 bytes.
func ParseHeader(b []byte) Frame {
	_ = b[8]
	sid := binary.BigEndian.Uint32(b[5:9])
	return Frame{
		Length:   uint32(b[0])<<16 | uint32(b[1])<<8 | uint32(b[2]),
		Type:     b[3],
		Flags:    b[4],
		StreamID: sid & MaxStreamID,
		R:        sid>>31 == 1,
	}
}

// ReadFrame reads one frame. It returns io.EOF when r is at end before the first header
// byte and io.ErrUnexpectedEOF when the stream ends inside a frame. It applies no size
// limit and no validation.
func ReadFrame(r io.Reader) (Frame, error) {
	var hb [HeaderLen]byte
	if _, err := io.ReadFull(r, hb[:]); err != nil {
		return Frame{}, err
	}
	f := ParseHeader(hb[:])
	f.Payload = make([]byte, f.Length)
	if _, err := io.ReadFull(r, f.Payload); err != nil {
		if err == io.EOF {
			err = io.ErrUnexpectedEOF
		}
		return f, err
	}
	return f, nil
}

// ParseAll splits b into complete frames; rest is the unparsed tail (an incomplete frame or
// nothing). Payloads alias b.
func ParseAll(b []byte) (frames []Frame, rest []byte) {
	for len(b) >= HeaderLen {
		f := ParseHeader(b)
		if uint64(len(b)-HeaderLen) < uint64(f.Length) {
			break
		}
		f.Payload = b[HeaderLen : HeaderLen+int(f.Length) : HeaderLen+int(f.Length)]
		frames = append(frames, f)
		b = b[HeaderLen+int(f.Length):]
	}
	return frames, b
}

// AppendHeader appends a 9-byte frame header with an arbitrary length field.
func AppendHeader(dst []byte, length uint32, typ, flags uint8, streamID uint32) []byte {
	return append(dst, byte(length>>16), byte(length>>8), byte(length), typ, flags,
		byte(streamID>>24), byte(streamID>>16), byte(streamID>>8), byte(streamID))
}

// AppendFrame appends f's wire form. The length field is len(f.Payload) (f.Length is
// ignored); use AppendHeader to forge a mismatching length.
func AppendFrame(dst []byte, f Frame) []byte {
	sid := f.StreamID & MaxStreamID
	if f.R {
		sid |= 1 << 31
	}
	dst = AppendHeader(dst, uint32(len(f.Payload)), f.Type, f.Flags, sid)
	return append(dst, f.Payload...)
}

// ---------------------------------------------------------------------------------------
// Per-type payload layout

// Priority is the 5-byte priority block of HEADERS and PRIORITY frames (§6.3).
type Priority struct {
	Exclusive bool
	StreamDep uint32
	Weight    uint8 // wire value; the effective weight is Weight+1
}

// Setting is one SETTINGS entry.
type Setting struct {
	ID  uint16
	Val uint32
}

var (
	ErrShort   = errors.New("h2ref: payload too short for its frame type")
	ErrPadding = errors.New("h2ref: padding length not smaller than the remaining payload")
	ErrLength  = errors.New("h2ref: payload length invalid for its frame type")
	ErrType    = errors.New("h2ref: accessor used on the wrong frame type")
)

// unpad handles the Pad Length octet and trailing padding of DATA/HEADERS/PUSH_PROMISE.
func (f Frame) unpad() (body []byte, padLen int, err error) {
	p := f.Payload
	if f.Flags&FlagPadded == 0 {
		return p, 0, nil
	}
	if len(p) < 1 {
		return nil, 0, ErrShort
	}
	padLen = int(p[0])
	p = p[1:]
	if padLen > len(p) {
		return nil, padLen, ErrPadding
	}
	return p[:len(p)-padLen], padLen, nil
}

// Padding returns the bytes of the padding (nil when the PADDED flag is clear).
func (f Frame) Padding() []byte {
	if f.Flags&FlagPadded == 0 || len(f.Payload) < 1 {
		return nil
	}
	n := int(f.Payload[0])
	if n > len(f.Payload)-1 {
		return nil
	}
	return f.Payload[len(f.Payload)-n:]
}

// Data returns the application data of a DATA frame and the pad length.
func (f Frame) Data() (data []byte, padLen int, err error) {
	if f.Type != TypeData {
		return nil, 0, ErrType
	}
	return f.unpad()
}

func parsePriority(p []byte) Priority {
	v := binary.BigEndian.Uint32(p)
	return Priority{Exclusive: v>>31 == 1, StreamDep: v & MaxStreamID, Weight: p[4]}
}

// Headers returns the field block fragment, the priority block (nil unless the PRIORITY
// flag is set) and the pad length of a HEADERS frame.
func (f Frame) Headers() (frag []byte, prio *Priority, padLen int, err error) {
	if f.Type != TypeHeaders {
		return nil, nil, 0, ErrType
	}
	body, padLen, err := f.unpad()
	if err != nil {
		return nil, nil, padLen, err
	}
	if f.Flags&FlagPriority != 0 {
		if len(body) < 5 {
			return nil, nil, padLen, ErrShort
		}
		p := parsePriority(body)
		prio = &p
		body = body[5:]
	}
	return body, prio, padLen, nil
}

// PushPromise returns the promised stream id, field block fragment and pad length.
func (f Frame) PushPromise() (promised uint32, frag []byte, padLen int, err error) {
	if f.Type != TypePushPromise {
		return 0, nil, 0, ErrType
	}
	body, padLen, err := f.unpad()
	if err != nil {
		return 0, nil, padLen, err
	}
	if len(body) < 4 {
		return 0, nil, padLen, ErrShort
	}
	return binary.BigEndian.Uint32(body) & MaxStreamID, body[4:], padLen, nil
}

// PriorityFrame decodes a PRIORITY frame payload.
func (f Frame) PriorityFrame() (Priority, error) {
	if f.Type != TypePriority {
		return Priority{}, ErrType
	}
	if len(f.Payload) != 5 {
		return Priority{}, ErrLength
	}
	return parsePriority(f.Payload), nil
}

// RSTCode returns the error code of a RST_STREAM frame.
func (f Frame) RSTCode() (uint32, error) {
	if f.Type != TypeRSTStream {
		return 0, ErrType
	}
	if len(f.Payload) != 4 {
		return 0, ErrLength
	}
	return binary.BigEndian.Uint32(f.Payload), nil
}

// ParseSettings decodes a SETTINGS payload (any number of 6-byte entries, in wire order,
// duplicates kept).
func ParseSettings(payload []byte) ([]Setting, error) {
	if len(payload)%6 != 0 {
		return nil, ErrLength
	}
	out := make([]Setting, 0, len(payload)/6)
	for i := 0; i < len(payload); i += 6 {
		out = append(out, Setting{binary.BigEndian.Uint16(payload[i:]), binary.BigEndian.Uint32(payload[i+2:])})
	}
	return out, nil
}

// Settings decodes a SETTINGS frame.
func (f Frame) Settings() ([]Setting, error) {
	if f.Type != TypeSettings {
		return nil, ErrType
	}
	return ParseSettings(f.Payload)
}

// Ping returns the 8 opaque bytes of a PING frame.
func (f Frame) Ping() (data [8]byte, err error) {
	if f.Type != TypePing {
		return data, ErrType
	}
	if len(f.Payload) != 8 {
		return data, ErrLength
	}
	copy(data[:], f.Payload)
	return data, nil
}

// GoAway decodes a GOAWAY frame.
func (f Frame) GoAway() (lastStreamID, code uint32, debug []byte, err error) {
	if f.Type != TypeGoAway {
		return 0, 0, nil, ErrType
	}
	if len(f.Payload) < 8 {
		return 0, 0, nil, ErrShort
	}
	return binary.BigEndian.Uint32(f.Payload) & MaxStreamID, binary.BigEndian.Uint32(f.Payload[4:]), f.Payload[8:], nil
}

// WindowIncrement returns the 31-bit increment of a WINDOW_UPDATE frame.
func (f Frame) WindowIncrement() (uint32, error) {
	if f.Type != TypeWindowUpdate {
		return 0, ErrType
	}
	if len(f.Payload) != 4 {
		return 0, ErrLength
	}
	return binary.BigEndian.Uint32(f.Payload) & MaxWindow, nil
}

// PriorityUpdate decodes a PRIORITY_UPDATE frame (RFC 9218 §7.1).
func (f Frame) PriorityUpdate() (prioritized uint32, fieldValue []byte, err error) {
	if f.Type != TypePriorityUpdate {
		return 0, nil, ErrType
	}
	if len(f.Payload) < 4 {
		return 0, nil, ErrShort
	}
	return binary.BigEndian.Uint32(f.Payload) & MaxStreamID, f.Payload[4:], nil
}

// Fragment returns the field block fragment carried by a HEADERS, PUSH_PROMISE or
// CONTINUATION frame.
func (f Frame) Fragment() ([]byte, error) {
	switch f.Type {
	case TypeHeaders:
		b, _, _, err := f.Headers()
		return b, err
	case TypePushPromise:
		_, b, _, err := f.PushPromise()
		return b, err
	case TypeContinuation:
		return f.Payload, nil
	}
	return nil, ErrType
}

// Free-function aliases.

// DataLen is the number of application-data bytes in a DATA frame (-1 if malformed).
// Note that flow control counts the whole payload, f.Length, not DataLen.
func DataLen(f Frame) int {
	d, _, err := f.Data()
	if err != nil {
		return -1
	}
	return len(d)
}

// PadLen is the value of the Pad Length octet of a DATA/HEADERS/PUSH_PROMISE frame
// (0 when not padded, -1 if malformed).
func PadLen(f Frame) int {
	_, n, err := f.unpad()
	if err != nil {
		return -1
	}
	return n
}

func WindowIncrement(f Frame) (uint32, error) { return f.WindowIncrement() }
func RSTCode(f Frame) (uint32, error)         { return f.RSTCode() }
func GoAway(f Frame) (lastStreamID, code uint32, debug []byte, err error) {
	return f.GoAway()
}

// ---------------------------------------------------------------------------------------
// Builders (no validation: they can produce illegal frames on purpose)

// appendPadded appends header, optional Pad Length octet, the body parts and padLen zero
// octets, without intermediate allocation.
func appendPadded(dst []byte, typ, flags uint8, streamID uint32, padLen int, parts ...[]byte) []byte {
	n := 0
	for _, p := range parts {
		n += len(p)
	}
	if padLen < 0 {
		dst = AppendHeader(dst, uint32(n), typ, flags&^FlagPadded, streamID&MaxStreamID)
	} else {
		dst = AppendHeader(dst, uint32(n+1+padLen), typ, flags|FlagPadded, streamID&MaxStreamID)
		dst = append(dst, byte(padLen))
	}
	for _, p := range parts {
		dst = append(dst, p...)
	}
	for i := 0; i < padLen; i++ {
		dst = append(dst, 0)
	}
	return dst
}

// AppendData appends a DATA frame. padLen < 0 means "PADDED flag clear"; 0..255 sets the
// flag and writes that many zero bytes.
func AppendData(dst []byte, streamID uint32, endStream bool, data []byte, padLen int) []byte {
	var fl uint8
	if endStream {
		fl |= FlagEndStream
	}
	return appendPadded(dst, TypeData, fl, streamID, padLen, data)
}

func appendPriority(dst []byte, p Priority) []byte {
	v := p.StreamDep & MaxStreamID
	if p.Exclusive {
		v |= 1 << 31
	}
	return append(dst, byte(v>>24), byte(v>>16), byte(v>>8), byte(v), p.Weight)
}

// AppendHeaders appends a HEADERS frame. prio may be nil; padLen as in AppendData.
func AppendHeaders(dst []byte, streamID uint32, endStream, endHeaders bool, frag []byte, prio *Priority, padLen int) []byte {
	var fl uint8
	if endStream {
		fl |= FlagEndStream
	}
	if endHeaders {
		fl |= FlagEndHeaders
	}
	if prio != nil {
		var pb [5]byte
		return appendPadded(dst, TypeHeaders, fl|FlagPriority, streamID, padLen, appendPriority(pb[:0], *prio), frag)
	}
	return appendPadded(dst, TypeHeaders, fl, streamID, padLen, frag)
}

func AppendContinuation(dst []byte, streamID uint32, endHeaders bool, frag []byte) []byte {
	var fl uint8
	if endHeaders {
		fl |= FlagEndHeaders
	}
	return AppendFrame(dst, Frame{Type: TypeContinuation, Flags: fl, StreamID: streamID, Payload: frag})
}

func AppendPushPromise(dst []byte, streamID, promised uint32, endHeaders bool, frag []byte, padLen int) []byte {
	var fl uint8
	if endHeaders {
		fl |= FlagEndHeaders
	}
	var pb [4]byte
	binary.BigEndian.PutUint32(pb[:], promised)
	return appendPadded(dst, TypePushPromise, fl, streamID, padLen, pb[:], frag)
}

func AppendPriority(dst []byte, streamID uint32, p Priority) []byte {
	var pb [5]byte
	return AppendFrame(dst, Frame{Type: TypePriority, StreamID: streamID, Payload: appendPriority(pb[:0], p)})
}

func AppendRSTStream(dst []byte, streamID, code uint32) []byte {
	var pb [4]byte
	binary.BigEndian.PutUint32(pb[:], code)
	return AppendFrame(dst, Frame{Type: TypeRSTStream, StreamID: streamID, Payload: pb[:]})
}

func AppendSettings(dst []byte, ss ...Setting) []byte {
	dst = AppendHeader(dst, uint32(6*len(ss)), TypeSettings, 0, 0)
	for _, s := range ss {
		dst = binary.BigEndian.AppendUint16(dst, s.ID)
		dst = binary.BigEndian.AppendUint32(dst, s.Val)
	}
	return dst
}

func AppendSettingsAck(dst []byte) []byte {
	return AppendFrame(dst, Frame{Type: TypeSettings, Flags: FlagAck})
}

func AppendPing(dst []byte, ack bool, data [8]byte) []byte {
	var fl uint8
	if ack {
		fl = FlagAck
	}
	return AppendFrame(dst, Frame{Type: TypePing, Flags: fl, Payload: data[:]})
}

func AppendGoAway(dst []byte, lastStreamID, code uint32, debug []byte) []byte {
	dst = AppendHeader(dst, uint32(8+len(debug)), TypeGoAway, 0, 0)
	dst = binary.BigEndian.AppendUint32(dst, lastStreamID)
	dst = binary.BigEndian.AppendUint32(dst, code)
	return append(dst, debug...)
}

func AppendWindowUpdate(dst []byte, streamID, incr uint32) []byte {
	var pb [4]byte
	binary.BigEndian.PutUint32(pb[:], incr)
	return AppendFrame(dst, Frame{Type: TypeWindowUpdate, StreamID: streamID, Payload: pb[:]})
}

func AppendPriorityUpdate(dst []byte, prioritized uint32, fieldValue string) []byte {
	dst = AppendHeader(dst, uint32(4+len(fieldValue)), TypePriorityUpdate, 0, 0)
	dst = binary.BigEndian.AppendUint32(dst, prioritized)
	return append(dst, fieldValue...)
}

// ---------------------------------------------------------------------------------------
// RFC-mandated errors

// A ProtoError is an error the RFC obliges a receiver to raise.
type ProtoError struct {
	Conn   bool   // connection error (§5.4.1) as opposed to stream error (§5.4.2)
	Code   uint32 // ErrProtocol, ErrFrameSize, ErrFlowControl …
	Stream uint32 // stream concerned (stream errors)
	Reason string
	// Loose is set where the RFC does not pin down the exact code/class (e.g. a PADDED
	// frame too short to hold the Pad Length octet): a receiver must fail, the oracle
	// should not insist on Code/Conn.
	Loose bool
}

func (e *ProtoError) Error() string {
	k := "stream"
	if e.Conn {
		k = "connection"
	}
	return fmt.Sprintf("h2ref: %s error code=0x%x stream=%d: %s", k, e.Code, e.Stream, e.Reason)
}

func connErr(code uint32, reason string) *ProtoError {
	return &ProtoError{Conn: true, Code: code, Reason: reason}
}

// Validate reports the error RFC 9113 §6 (RFC 9218 §7.1 for PRIORITY_UPDATE) requires a
// receiver to raise for frame f considered alone: stream-identifier rules, fixed sizes and
// padding. It does not look at SETTINGS values (see ValidateSettingValues), at maxima
// (SETTINGS_MAX_FRAME_SIZE) or at ordering (see OrderChecker). Unknown types are valid
// (§4.1: must be ignored). nil means the frame is acceptable.
func Validate(f Frame) *ProtoError {
	n := len(f.Payload)
	switch f.Type {
	case TypeData:
		if f.StreamID == 0 {
			return connErr(ErrProtocol, "DATA on stream 0")
		}
		return padErr(f)
	case TypeHeaders:
		if f.StreamID == 0 {
			return connErr(ErrProtocol, "HEADERS on stream 0")
		}
		if e := padErr(f); e != nil {
			// §6.2 says PROTOCOL_ERROR without naming the class (§6.1 names it for DATA).
			e.Loose = true
			return e
		}
		if _, _, _, err := f.Headers(); err != nil {
			e := connErr(ErrFrameSize, "HEADERS too short for its priority block")
			e.Loose = true
			return e
		}
	case TypePriority:
		if f.StreamID == 0 {
			return connErr(ErrProtocol, "PRIORITY on stream 0")
		}
		if n != 5 {
			return &ProtoError{Conn: false, Code: ErrFrameSize, Stream: f.StreamID, Reason: "PRIORITY length != 5"}
		}
	case TypeRSTStream:
		// Both rules are connection errors; when both are broken either code is fine.
		if f.StreamID == 0 {
			e := connErr(ErrProtocol, "RST_STREAM on stream 0")
			e.Loose = n != 4
			return e
		}
		if n != 4 {
			return connErr(ErrFrameSize, "RST_STREAM length != 4")
		}
	case TypeSettings:
		if f.StreamID != 0 {
			e := connErr(ErrProtocol, "SETTINGS on a stream")
			e.Loose = n%6 != 0 || (f.Has(FlagAck) && n != 0)
			return e
		}
		if f.Has(FlagAck) && n != 0 {
			return connErr(ErrFrameSize, "SETTINGS ACK with payload")
		}
		if n%6 != 0 {
			return connErr(ErrFrameSize, "SETTINGS length not a multiple of 6")
		}
	case TypePushPromise:
		if f.StreamID == 0 {
			return connErr(ErrProtocol, "PUSH_PROMISE on stream 0")
		}
		if e := padErr(f); e != nil {
			return e
		}
		if _, _, _, err := f.PushPromise(); err != nil {
			e := connErr(ErrFrameSize, "PUSH_PROMISE too short for the promised stream id")
			e.Loose = true
			return e
		}
	case TypePing:
		if f.StreamID != 0 {
			e := connErr(ErrProtocol, "PING on a stream")
			e.Loose = n != 8
			return e
		}
		if n != 8 {
			return connErr(ErrFrameSize, "PING length != 8")
		}
	case TypeGoAway:
		if f.StreamID != 0 {
			e := connErr(ErrProtocol, "GOAWAY on a stream")
			e.Loose = n < 8
			return e
		}
		if n < 8 {
			return connErr(ErrFrameSize, "GOAWAY shorter than 8")
		}
	case TypeWindowUpdate:
		if n != 4 {
			return connErr(ErrFrameSize, "WINDOW_UPDATE length != 4")
		}
		if binary.BigEndian.Uint32(f.Payload)&MaxWindow == 0 {
			if f.StreamID == 0 {
				return connErr(ErrProtocol, "WINDOW_UPDATE increment 0 on the connection")
			}
			return &ProtoError{Conn: false, Code: ErrProtocol, Stream: f.StreamID, Reason: "WINDOW_UPDATE increment 0"}
		}
	case TypeContinuation:
		if f.StreamID == 0 {
			return connErr(ErrProtocol, "CONTINUATION on stream 0")
		}
	case TypePriorityUpdate:
		if f.StreamID != 0 {
			e := connErr(ErrProtocol, "PRIORITY_UPDATE on a stream")
			e.Loose = n < 4
			return e
		}
		if n < 4 {
			return connErr(ErrFrameSize, "PRIORITY_UPDATE shorter than 4")
		}
		if binary.BigEndian.Uint32(f.Payload)&MaxStreamID == 0 {
			return connErr(ErrProtocol, "PRIORITY_UPDATE for stream 0")
		}
	}
	return nil
}

func padErr(f Frame) *ProtoError {
	_, _, err := f.unpad()
	switch err {
	case ErrShort:
		e := connErr(ErrFrameSize, "PADDED frame without Pad Length octet")
		e.Loose = true
		return e
	case ErrPadding:
		return connErr(ErrProtocol, "padding length >= remaining payload")
	}
	return nil
}

// ValidateSettingValues reports the error §6.5.2 requires for out-of-range values.
func ValidateSettingValues(ss []Setting) *ProtoError {
	for _, s := range ss {
		switch s.ID {
		case SettingEnablePush:
			if s.Val > 1 {
				return connErr(ErrProtocol, "ENABLE_PUSH not 0 or 1")
			}
		case SettingInitialWindowSize:
			if s.Val > MaxWindow {
				return connErr(ErrFlowControl, "INITIAL_WINDOW_SIZE above 2^31-1")
			}
		case SettingMaxFrameSize:
			if s.Val < DefaultMaxFrameLen || s.Val > MaxFrameLen {
				return connErr(ErrProtocol, "MAX_FRAME_SIZE out of range")
			}
		case SettingEnableConnectProtocol, SettingNoRFC7540Priorities:
			if s.Val > 1 {
				return connErr(ErrProtocol, "boolean setting not 0 or 1")
			}
		}
	}
	return nil
}

// OrderChecker enforces §6.2/§6.10 contiguity: once a HEADERS or PUSH_PROMISE without
// END_HEADERS was seen, the next frame must be a CONTINUATION on the same stream, until one
// carries END_HEADERS; a CONTINUATION at any other moment is an error. All such errors are
// connection errors of type PROTOCOL_ERROR.
//
// PushPromiseOpens selects whether PUSH_PROMISE opens a header block (RFC: yes).
type OrderChecker struct {
	Open             uint32 // stream whose field block is unfinished (0 = none)
	PushPromiseOpens bool
}

// NewOrderChecker returns a checker following the RFC (PUSH_PROMISE opens a block).
func NewOrderChecker() *OrderChecker { return &OrderChecker{PushPromiseOpens: true} }

// Next feeds the next frame header; a non-nil result is the mandated connection error (the
// checker state is then left unchanged).
func (o *OrderChecker) Next(typ, flags uint8, streamID uint32) *ProtoError {
	if o.Open != 0 {
		if typ != TypeContinuation {
			return connErr(ErrProtocol, fmt.Sprintf("%s for stream %d inside the field block of stream %d", TypeName(typ), streamID, o.Open))
		}
		if streamID != o.Open {
			return connErr(ErrProtocol, fmt.Sprintf("CONTINUATION for stream %d inside the field block of stream %d", streamID, o.Open))
		}
	} else if typ == TypeContinuation {
		return connErr(ErrProtocol, fmt.Sprintf("CONTINUATION for stream %d without preceding HEADERS", streamID))
	}
	if typ == TypeHeaders || typ == TypeContinuation || (typ == TypePushPromise && o.PushPromiseOpens) {
		if flags&FlagEndHeaders != 0 {
			o.Open = 0
		} else {
			o.Open = streamID
		}
	}
	return nil
}
