//go:build verif

package netutil

// C58: a listener returned by LimitListener(l, n) never has more than n accepted, unclosed
// connections; closing a connection (even several times) frees exactly one slot; Accept after
// Close returns an error without blocking.
//
// The inner listener is a harness fake fed with in-memory connections (and transient Accept
// errors). It counts, inside its own methods, innerOpen = connections handed out by its Accept
// minus connections whose Close has started. LimitListener enters the inner Accept only with
// a slot acquired and releases the slot only after the inner Close returned, so
// innerOpen <= n is an exact invariant, checked at every increment.
//
// Histories run in two modes: inside a testing/synctest bubble (at every quiescent point the
// controller knows which calls are parked and checks that each of them may be parked there,
// plus white-box len(sem) accounting) and as plain goroutines under -race. Every history is
// checked for linearizability with porcupine against a sequential model of the statement.

import (
	"errors"
	"fmt"
	"hash/fnv"
	"math/bits"
	"math/rand/v2"
	"net"
	"runtime"
	"runtime/debug"
	"sort"
	"strings"
	"sync"
	"sync/atomic"
	"testing"
	"testing/synctest"
	"time"

	"github.com/anishathalye/porcupine"
	"golang.org/x/net/internal/verifrt"
)

const (
	c58Accept = iota
	c58ConnClose
	c58LClose
	c58Feed // conn ids 0..39, transient-error ids 40..63
)

const c58ErrBase = 40

var c58OpName = [...]string{"Accept", "Conn.Close", "Listener.Close", "feed"}

type c58In struct{ Kind, Client, Arg int }

// c58Out for Accept: V=0 connection W, 1 an error other than a transient inner one (legal only
// once the listener was closed), 2 transient inner error W, 3 a connection that is not a
// wrapped harness connection.
type c58Out struct{ V, W int }

type c58Rec struct {
	In        c58In
	Out       c58Out
	Call, Ret int64
}

func (r *c58Rec) String() string {
	s := fmt.Sprintf("g%d %s", r.In.Client, c58OpName[r.In.Kind])
	switch r.In.Kind {
	case c58Accept:
		if r.Ret != 0 {
			switch r.Out.V {
			case 0:
				s += fmt.Sprintf("()->conn%d", r.Out.W)
			case 1:
				s += "()->closed-error"
			case 2:
				s += fmt.Sprintf("()->transient-error%d", r.Out.W)
			default:
				s += "()->unexpected"
			}
		} else {
			s += "()"
		}
	case c58ConnClose:
		s += fmt.Sprintf("(conn%d)", r.In.Arg)
	case c58LClose:
		s += "()"
	case c58Feed:
		if r.In.Arg >= c58ErrBase {
			s += fmt.Sprintf("(transient-error%d)", r.In.Arg)
		} else {
			s += fmt.Sprintf("(conn%d)", r.In.Arg)
		}
	}
	if r.Ret == 0 {
		return s + fmt.Sprintf(" [%d,pending]", r.Call)
	}
	return s + fmt.Sprintf(" [%d,%d]", r.Call, r.Ret)
}

// ---- the fake inner listener ------------------------------------------------------------

type c58Item struct {
	id   int
	conn *c58Conn
	err  error
}

type c58Inner struct {
	h *c58Hist
	n int

	mu      sync.Mutex
	q       []c58Item
	closed  bool
	notify  chan struct{} // closed and replaced on every feed / close
	waiting int           // Accept calls parked inside the fake
	open    int           // innerOpen
	maxOpen int
	atLimit int // times innerOpen reached n

	closeFails bool // Close closes the fake and reports an error all the same (as close(2) may)
}

var errC58Close = errors.New("c58 inner listener: close reports an error")

type c58Addr struct{}

func (c58Addr) Network() string { return "c58" }
func (c58Addr) String() string  { return "c58-fake" }

type c58TransientErr struct{ id int }

func (e *c58TransientErr) Error() string   { return fmt.Sprintf("c58 transient accept error %d", e.id) }
func (e *c58TransientErr) Temporary() bool { return true }
func (e *c58TransientErr) Timeout() bool   { return true }

func (in *c58Inner) Accept() (net.Conn, error) {
	for {
		in.mu.Lock()
		if in.closed {
			in.mu.Unlock()
			return nil, net.ErrClosed
		}
		if len(in.q) > 0 {
			it := in.q[0]
			in.q = in.q[1:]
			if it.err != nil {
				in.mu.Unlock()
				return nil, it.err
			}
			in.open++
			open := in.open
			if open > in.maxOpen {
				in.maxOpen = open
			}
			if open == in.n {
				in.atLimit++
			}
			in.mu.Unlock()
			if open > in.n {
				in.h.workerViol("inner-open-exceeds-limit", "inner Accept handed out conn%d while %d connections of the limit-%d listener were already open (not yet closed)\n%s", it.id, open-1, in.n, in.h.dump())
			}
			return it.conn, nil
		}
		ch := in.notify
		in.waiting++
		in.mu.Unlock()
		<-ch
		in.mu.Lock()
		in.waiting--
		in.mu.Unlock()
	}
}

func (in *c58Inner) broadcastLocked() {
	old := in.notify
	in.notify = make(chan struct{})
	close(old)
}

func (in *c58Inner) feed(it c58Item) {
	in.mu.Lock()
	in.q = append(in.q, it)
	in.broadcastLocked()
	in.mu.Unlock()
}

func (in *c58Inner) Close() error {
	in.mu.Lock()
	defer in.mu.Unlock()
	if in.closed {
		return net.ErrClosed
	}
	in.closed = true
	in.broadcastLocked()
	if in.closeFails {
		return errC58Close
	}
	return nil
}

func (in *c58Inner) Addr() net.Addr { return c58Addr{} }

type c58Conn struct {
	net.Conn // nil: only Close is ever called
	id       int
	in       *c58Inner
	closes   int // guarded by in.mu
}

// Close counts the connection as closed from the moment its first Close call starts; the
// count and innerOpen change in one critical section, so a second, concurrent Close cannot
// return before the first one was counted.
func (c *c58Conn) Close() error {
	c.in.mu.Lock()
	defer c.in.mu.Unlock()
	c.closes++
	if c.closes == 1 {
		c.in.open--
		return nil
	}
	return net.ErrClosed
}

// ---- history ----------------------------------------------------------------------------

type c58Hist struct {
	c *verifrt.Case
	r *verifrt.R
	n int

	clock    atomic.Int64
	mu       sync.Mutex
	done     []*c58Rec
	inflight map[*c58Rec]struct{}
	accepted []*c58Accepted // every connection an outer Accept returned
	nextConn int
	nextErr  int

	ctl       int
	ctlStamps atomic.Int64
	finished  atomic.Int32
	inAccept  atomic.Int32
	lclosed   atomic.Bool // a Listener.Close call has returned

	aborted    atomic.Bool
	abortClock int64
	startCh    chan struct{}

	inner *c58Inner
	ll    *limitListener
	l     net.Listener
}

type c58Accepted struct {
	id      int
	conn    net.Conn
	started atomic.Int32 // Close calls started
	closed  atomic.Int32 // Close calls returned
}

func (h *c58Hist) viol(key, format string, a ...any) { h.c.Violation(key, format, a...) }
func (h *c58Hist) workerViol(key, format string, a ...any) {
	if !h.aborted.Load() {
		h.viol(key, format, a...)
	}
}

func (h *c58Hist) call(client, kind, arg int, f func() c58Out) c58Out {
	rec := &c58Rec{In: c58In{Kind: kind, Client: client, Arg: arg}}
	h.mu.Lock()
	h.inflight[rec] = struct{}{}
	h.mu.Unlock()
	atomic.StoreInt64(&rec.Call, h.clock.Add(1)) // atomic: dump() may look at in-flight calls
	out := f()
	ret := h.clock.Add(1)
	h.mu.Lock()
	rec.Out, rec.Ret = out, ret
	delete(h.inflight, rec)
	h.done = append(h.done, rec)
	h.mu.Unlock()
	if client == h.ctl {
		h.ctlStamps.Add(2)
	}
	return out
}

func (h *c58Hist) all() (done, pending []*c58Rec) {
	h.mu.Lock()
	defer h.mu.Unlock()
	for _, rec := range h.done {
		switch {
		case h.abortClock == 0 || rec.Ret <= h.abortClock:
			done = append(done, rec)
		case rec.Call <= h.abortClock:
			pending = append(pending, &c58Rec{In: rec.In, Call: rec.Call})
		}
	}
	for rec := range h.inflight {
		if call := atomic.LoadInt64(&rec.Call); h.abortClock == 0 || call <= h.abortClock {
			pending = append(pending, &c58Rec{In: rec.In, Call: call})
		}
	}
	sort.Slice(done, func(i, j int) bool { return done[i].Call < done[j].Call })
	sort.Slice(pending, func(i, j int) bool { return pending[i].Call < pending[j].Call })
	return
}

func (h *c58Hist) dump() string {
	done, pending := h.all()
	var sb strings.Builder
	fmt.Fprintf(&sb, "limit n=%d: ", h.n)
	for i, rec := range append(done, pending...) {
		if i >= 140 {
			sb.WriteString("…")
			break
		}
		sb.WriteString(rec.String())
		sb.WriteString("; ")
	}
	return sb.String()
}

// operations

func (h *c58Hist) accept(client int) {
	h.inAccept.Add(1)
	h.call(client, c58Accept, 0, func() c58Out {
		c, err := h.l.Accept()
		if err == nil {
			lc, ok := c.(*limitListenerConn)
			if !ok {
				return c58Out{V: 3}
			}
			fc, ok := lc.Conn.(*c58Conn)
			if !ok {
				return c58Out{V: 3}
			}
			h.mu.Lock()
			h.accepted = append(h.accepted, &c58Accepted{id: fc.id, conn: c})
			h.mu.Unlock()
			return c58Out{V: 0, W: fc.id}
		}
		var te *c58TransientErr
		if errors.As(err, &te) {
			return c58Out{V: 2, W: te.id}
		}
		return c58Out{V: 1} // any other error: only legal once the listener was closed
	})
	h.inAccept.Add(-1)
}

func (h *c58Hist) closeConn(client int, a *c58Accepted) {
	a.started.Add(1)
	h.call(client, c58ConnClose, a.id, func() c58Out { a.conn.Close(); return c58Out{} })
	a.closed.Add(1)
}

// closeConnTimes closes one accepted connection k times, concurrently if conc.
func (h *c58Hist) closeConnTimes(client int, a *c58Accepted, k int, conc bool) {
	if !conc {
		for i := 0; i < k; i++ {
			h.closeConn(client, a)
		}
		return
	}
	var wg verifrt.WG
	for i := 0; i < k; i++ {
		wg.Add(1)
		go func() {
			defer wg.Done()
			h.closeConn(client, a)
		}()
	}
	wg.Wait()
}

func (h *c58Hist) closeListener(client int) {
	h.call(client, c58LClose, 0, func() c58Out { h.l.Close(); return c58Out{} })
	h.lclosed.Store(true)
}

func (h *c58Hist) feedConn(client int) {
	h.mu.Lock()
	id := h.nextConn
	if id >= c58ErrBase {
		h.mu.Unlock()
		return
	}
	h.nextConn++
	h.mu.Unlock()
	h.call(client, c58Feed, id, func() c58Out {
		h.inner.feed(c58Item{id: id, conn: &c58Conn{id: id, in: h.inner}})
		return c58Out{}
	})
}

func (h *c58Hist) feedErr(client int) {
	h.mu.Lock()
	id := c58ErrBase + h.nextErr
	if id >= 64 {
		h.mu.Unlock()
		return
	}
	h.nextErr++
	h.mu.Unlock()
	h.call(client, c58Feed, id, func() c58Out {
		h.inner.feed(c58Item{id: id, err: &c58TransientErr{id: id}})
		return c58Out{}
	})
}

// pick returns the k-th accepted connection (mod), preferring open ones if wantOpen.
func (h *c58Hist) pick(k int, wantOpen bool) *c58Accepted {
	h.mu.Lock()
	defer h.mu.Unlock()
	if len(h.accepted) == 0 {
		return nil
	}
	if wantOpen {
		var open []*c58Accepted
		for _, a := range h.accepted {
			if a.started.Load() == 0 {
				open = append(open, a)
			}
		}
		if len(open) > 0 {
			return open[k%len(open)]
		}
		return nil
	}
	return h.accepted[k%len(h.accepted)]
}

func (h *c58Hist) idsExhausted() bool {
	h.mu.Lock()
	defer h.mu.Unlock()
	return h.nextConn >= c58ErrBase-2 || h.nextErr >= 64-c58ErrBase-2
}

func (h *c58Hist) openCount() int {
	h.mu.Lock()
	defer h.mu.Unlock()
	n := 0
	for _, a := range h.accepted {
		if a.closed.Load() == 0 {
			n++
		}
	}
	return n
}

type c58Step struct {
	Kind int
	Pre  int
	K    int  // Conn.Close: how many times
	Conc bool // Conn.Close: concurrently
	Open bool // Conn.Close: prefer a connection nobody closed yet
	Val  int
	Err  bool // feed a transient error instead of a connection
}

func (h *c58Hist) worker(client int, script []c58Step) {
	defer func() {
		if e := recover(); e != nil {
			h.workerViol("panic-in-worker", "goroutine %d: panic %v\n%s", client, e, c58Trim(string(debug.Stack())))
		}
		h.finished.Add(1)
	}()
	<-h.startCh
	for _, s := range script {
		if h.aborted.Load() {
			return
		}
		for i := 0; i < s.Pre; i++ {
			runtime.Gosched()
		}
		switch s.Kind {
		case c58Accept:
			h.accept(client)
		case c58ConnClose:
			if a := h.pick(s.Val, s.Open); a != nil {
				h.closeConnTimes(client, a, s.K, s.Conc)
			}
		case c58LClose:
			h.closeListener(client)
		case c58Feed:
			if s.Err {
				h.feedErr(client)
			} else {
				h.feedConn(client)
			}
		}
	}
}

func c58Trim(s string) string {
	l := strings.Split(s, "\n")
	if len(l) > 30 {
		l = l[:30]
	}
	return strings.Join(l, "\n")
}

// ---- sequential model -------------------------------------------------------------------

type c58State struct {
	Fed, Taken, Closed uint64 // item ids fed; taken by an Accept; connections closed at least once
	LClosed            bool
}

func c58Model(n int) porcupine.Model {
	const connMask = uint64(1)<<c58ErrBase - 1
	return porcupine.Model{
		Init: func() interface{} { return c58State{} },
		Step: func(state, input, output interface{}) (bool, interface{}) {
			s, in, out := state.(c58State), input.(c58In), output.(c58Out)
			open := bits.OnesCount64(s.Taken & connMask &^ s.Closed)
			switch in.Kind {
			case c58Accept:
				switch out.V {
				case 0, 2:
					// a connection (or a transient inner error) only while the listener is open, a
					// slot is free and the item is waiting in the inner listener
					bit := uint64(1) << uint(out.W)
					isErr := out.W >= c58ErrBase
					if s.LClosed || open >= n || s.Fed&^s.Taken&bit == 0 || isErr != (out.V == 2) {
						return false, s
					}
					s.Taken |= bit
				case 1: // the closed error only once the listener was closed
					if !s.LClosed {
						return false, s
					}
				default:
					return false, s
				}
			case c58ConnClose: // the first close frees the slot, later ones change nothing
				bit := uint64(1) << uint(in.Arg)
				if s.Taken&bit == 0 {
					return false, s
				}
				s.Closed |= bit
			case c58LClose:
				s.LClosed = true
			case c58Feed:
				s.Fed |= uint64(1) << uint(in.Arg)
			default:
				return false, s
			}
			return true, s
		},
		DescribeOperation: func(input, output interface{}) string {
			return (&c58Rec{In: input.(c58In), Out: output.(c58Out), Ret: 1}).String()
		},
	}
}

// ---- runners ----------------------------------------------------------------------------

func (h *c58Hist) setup(n, ctl int) {
	h.n, h.ctl = n, ctl
	h.inflight = map[*c58Rec]struct{}{}
	h.inner = &c58Inner{h: h, n: n, notify: make(chan struct{})}
	h.l = LimitListener(h.inner, n)
	h.ll = h.l.(*limitListener)
	h.startCh = make(chan struct{})
}

// quiescent inspects the parked calls after synctest.Wait(). It returns the number of
// legitimately parked Accept calls, or fatal after reporting.
func (h *c58Hist) quiescent(phase string) (parkedAccepts int, fatal bool) {
	h.mu.Lock()
	var parked []*c58Rec
	for rec := range h.inflight {
		parked = append(parked, rec)
	}
	h.mu.Unlock()
	sort.Slice(parked, func(i, j int) bool { return parked[i].Call < parked[j].Call })
	h.inner.mu.Lock()
	pending, waiting, innerOpen, innerClosed := len(h.inner.q), h.inner.waiting, h.inner.open, h.inner.closed
	h.inner.mu.Unlock()
	open := h.openCount()
	lclosed := h.lclosed.Load()
	for _, rec := range parked {
		switch rec.In.Kind {
		case c58Accept:
			switch {
			case lclosed || innerClosed:
				h.viol("accept-parked-after-close", "%s: quiescent after Listener.Close returned, yet %v is still blocked (open=%d, limit %d)\n%s", phase, rec, open, h.n, h.dump())
				fatal = true
			case open < h.n && pending > 0:
				h.viol("accept-parked-below-limit", "%s: quiescent with %d of %d slots in use and %d connection(s) waiting in the inner listener, yet %v is still blocked\n%s", phase, open, h.n, pending, rec, h.dump())
				fatal = true
			default:
				parkedAccepts++
			}
		default:
			h.viol(strings.ReplaceAll(c58OpName[rec.In.Kind], ".", "")+"-blocked", "%s: quiescent, yet %v has not returned\n%s", phase, rec, h.dump())
			fatal = true
		}
	}
	if open > h.n {
		h.viol("open-exceeds-limit", "%s: %d accepted connections are open, limit %d\n%s", phase, open, h.n, h.dump())
		fatal = true
	}
	// White-box slot accounting: every open connection holds one slot, and so does every
	// Accept that is parked inside the inner listener.
	if !fatal {
		want := innerOpen + waiting
		if lclosed || innerClosed {
			want = innerOpen
		}
		if got := len(h.ll.sem); got != want {
			h.viol("sem-count-mismatch", "%s: quiescent: len(sem)=%d, but %d connections are open and %d Accept calls wait inside the inner listener (limit %d)\n%s", phase, got, innerOpen, waiting, h.n, h.dump())
			fatal = true
		}
		if innerOpen != open {
			h.viol("harness-open-count", "%s: inner listener counts %d open connections, harness %d", phase, innerOpen, open)
			fatal = true
		}
		h.r.Event("sem_accounting_checks", 1)
	}
	return
}

func (h *c58Hist) abort() {
	h.abortClock = h.clock.Load()
	h.aborted.Store(true)
	// free what can be freed; nothing here is an oracle
	h.inner.Close()
	h.ll.closeOnce.Do(func() { close(h.ll.done) })
}

func c58RunBubble(t *testing.T, h *c58Hist, n int, scripts [][]c58Step, rng *rand.Rand) (aborted bool) {
	var pan any
	var stack string
	nworkers := len(scripts)
	ctl := nworkers
	func() {
		defer func() {
			if e := recover(); e != nil {
				if aborted && strings.Contains(fmt.Sprint(e), "deadlock") {
					return // the parked goroutines that were just reported
				}
				panic(e)
			}
		}()
		synctest.Test(t, func(t *testing.T) {
			defer func() {
				if e := recover(); e != nil {
					pan, stack = e, string(debug.Stack())
					aborted = true
					h.abort()
				}
			}()
			h.setup(n, ctl)
			if h.inner.closeFails = rng.IntN(3) == 0; h.inner.closeFails {
				h.r.Event("histories_whose_inner_close_reports_an_error", 1)
			}
			barrier := rng.IntN(2) == 0
			if !barrier {
				close(h.startCh)
			}
			for i := range scripts {
				go h.worker(i, scripts[i])
			}
			if barrier {
				close(h.startCh)
			}
			for iter := 0; ; iter++ {
				synctest.Wait()
				if int(h.finished.Load()) == nworkers {
					break
				}
				if iter > 2000 {
					panic("c58 harness: controller does not converge")
				}
				parkedAccepts, fatal := h.quiescent("during the history")
				if fatal {
					aborted = true
					h.abort()
					synctest.Wait()
					return
				}
				if parkedAccepts == 0 {
					panic("c58 harness: unfinished workers but no parked call")
				}
				h.r.Event("quiescent_points_with_parked_accepts", 1)
				h.r.Event("parked_accepts_seen", int64(parkedAccepts))
				open := h.openCount()
				if open == n {
					h.r.Event("quiescent_at_limit_with_parked_accepts", 1)
				}
				// let the history move on
				switch x := rng.IntN(20); {
				case x == 0 || h.idsExhausted():
					h.closeListener(ctl)
				case open == n || (open > 0 && x < 5):
					if a := h.pick(rng.IntN(64), true); a != nil {
						h.inner.mu.Lock()
						pending := len(h.inner.q)
						h.inner.mu.Unlock()
						if open == n && pending > 0 {
							// One slot is freed with Accept calls parked and connections waiting. That at
							// least one gets through is checked at the next quiescent point
							// (accept-parked-below-limit); that not more than the limit allows get
							// through is the exact innerOpen invariant.
							h.r.Event("close_at_limit_with_parked_accepts_and_waiting_conns", 1)
						}
						h.closeConnTimes(ctl, a, 1+rng.IntN(4), rng.IntN(2) == 0)
					}
				case x < 7:
					h.feedErr(ctl)
				default:
					h.feedConn(ctl)
				}
			}
			// everybody finished
			if _, fatal := h.quiescent("after the workers finished"); fatal {
				aborted = true
				h.abort()
				return
			}
			// Accept after Close returns an error without blocking: also with the limit reached.
			fill := rng.IntN(2) == 0 && !h.lclosed.Load()
			if fill {
				for h.openCount() < n && !h.idsExhausted() {
					h.feedConn(ctl)
					before := h.openCount()
					go h.accept(ctl)
					synctest.Wait()
					if _, fatal := h.quiescent("while filling up to the limit"); fatal {
						aborted = true
						h.abort()
						return
					}
					if h.openCount() == before {
						break // it consumed a transient error that was still queued
					}
				}
				if h.openCount() == n {
					h.r.Event("listener_closed_with_limit_reached", 1)
				}
			}
			late := 0
			spawn := func() {
				late++
				go h.accept(ctl)
			}
			nEarly := rng.IntN(3)
			for i := 0; i < nEarly; i++ {
				spawn() // parked (or not) before Close
			}
			synctest.Wait()
			h.closeListener(ctl)
			for i := 0; i < 2; i++ {
				spawn() // started after Close returned
			}
			synctest.Wait()
			if _, fatal := h.quiescent("after Listener.Close"); fatal {
				aborted = true
				h.abort()
				return
			}
			h.r.Event("accepts_checked_to_return_after_listener_close", int64(late))
			// close what is left, twice; all slots must come back
			h.mu.Lock()
			acc := append([]*c58Accepted{}, h.accepted...)
			h.mu.Unlock()
			for _, a := range acc {
				if a.started.Load() == 0 {
					h.closeConnTimes(ctl, a, 2, false)
				}
			}
			synctest.Wait()
			if got := len(h.ll.sem); got != 0 {
				h.viol("sem-count-mismatch", "every connection closed, yet len(sem)=%d\n%s", got, h.dump())
			}
		})
	}()
	if pan != nil {
		h.viol("panic-in-controller", "%v\n%s", pan, c58Trim(stack))
	}
	return aborted
}

func c58RunPlain(h *c58Hist, n int, scripts [][]c58Step, rng *rand.Rand) {
	nworkers := len(scripts)
	ctl := nworkers
	h.setup(n, ctl)
	if h.inner.closeFails = rng.IntN(3) == 0; h.inner.closeFails {
		h.r.Event("histories_whose_inner_close_reports_an_error", 1)
	}
	barrier := rng.IntN(2) == 0
	if !barrier {
		close(h.startCh)
	}
	var wg verifrt.WG
	for i := range scripts {
		wg.Add(1)
		go func() {
			defer wg.Done()
			h.worker(i, scripts[i])
		}()
	}
	if barrier {
		close(h.startCh)
	}
	// The controller only keeps the history moving (no oracle here): when every unfinished
	// worker sits in Accept it looks at the situation and feeds the inner listener if nothing
	// is waiting there, closes a connection if the limit is reached, or closes the listener.
	for int(h.finished.Load()) < nworkers {
		runtime.Gosched()
		if int(h.finished.Load()+h.inAccept.Load()) < nworkers {
			continue
		}
		h.inner.mu.Lock()
		pending := len(h.inner.q)
		h.inner.mu.Unlock()
		open := h.openCount()
		switch {
		case h.lclosed.Load():
			// every Accept returns by itself
		case h.idsExhausted():
			h.closeListener(ctl)
		case open >= n || (open > 0 && rng.IntN(8) == 0):
			if rng.IntN(40) == 0 {
				h.closeListener(ctl)
			} else if a := h.pick(rng.IntN(64), true); a != nil {
				h.closeConnTimes(ctl, a, 1+rng.IntN(4), rng.IntN(2) == 0)
			}
		case pending == 0:
			switch x := rng.IntN(40); {
			case x == 0:
				h.closeListener(ctl)
			case x < 4:
				h.feedErr(ctl)
			default:
				h.feedConn(ctl)
			}
		}
	}
	wg.Wait()
	h.closeListener(ctl)
	h.accept(ctl) // must return the closed error
	h.mu.Lock()
	acc := append([]*c58Accepted{}, h.accepted...)
	h.mu.Unlock()
	for _, a := range acc {
		if a.started.Load() == 0 {
			h.closeConnTimes(ctl, a, 2, false)
		}
	}
	if got := len(h.ll.sem); got != 0 {
		h.viol("sem-count-mismatch", "plain history over, every connection closed, yet len(sem)=%d\n%s", got, h.dump())
	}
}

// ---- checking ---------------------------------------------------------------------------

const c58PorcupineTimeout = 3 * time.Second

type c58Stats struct {
	mu            sync.Mutex
	interleavings map[uint64]struct{}
	sampled       map[string]bool
	maxOpen       map[int]int
}

func (h *c58Hist) check(mode string, st *c58Stats, aborted bool) {
	r := h.r
	done, pending := h.all()
	if len(pending) > 0 {
		// Only after a reported quiescence violation. A call that is still parked has handed
		// out nothing, so it is left out of the linearizability check.
		r.Event("pending_ops_dropped", int64(len(pending)))
	}
	ops := make([]porcupine.Operation, 0, len(done))
	for _, rec := range done {
		ops = append(ops, porcupine.Operation{ClientId: rec.In.Client, Input: rec.In, Call: rec.Call, Output: rec.Out, Return: rec.Ret})
	}
	model := c58Model(h.n)
	res, _ := porcupine.CheckOperationsVerbose(model, ops, c58PorcupineTimeout)
	if res == porcupine.Unknown {
		// The search gave up. A linearization is a proof by itself, so look for a witness
		// greedily and replay it through the same sequential model.
		if c58GreedyWitness(model, done) {
			res = porcupine.Ok
			r.Event("porcupine_timeouts_settled_by_greedy_witness", 1)
		}
	}
	switch res {
	case porcupine.Ok:
		r.Event("histories_linearizable", 1)
	case porcupine.Illegal:
		h.viol("not-linearizable", "%s history of %d operations (limit %d) has no linearization in the sequential model:\n%s", mode, len(done), h.n, h.dump())
		r.Event("histories_not_linearizable", 1)
	default:
		r.Event("porcupine_unknown", 1)
		r.Note("porcupine gave up (timeout) on a %s history of %d operations: inconclusive for that history", mode, len(done))
	}

	overlap := 0
	for i, a := range done {
		for _, b := range done[i+1:] {
			if b.Call > a.Ret {
				break
			}
			overlap++
		}
	}
	for _, rec := range done {
		k := "op_" + strings.ReplaceAll(c58OpName[rec.In.Kind], ".", "")
		if rec.In.Kind == c58Accept {
			k += []string{"_conn", "_closed_error", "_transient_error", "_unexpected"}[rec.Out.V]
			if rec.Out.V == 3 {
				h.viol("accept-unexpected-result", "Accept returned neither a wrapped harness connection nor an error of the inner listener\n%s", h.dump())
			}
		}
		if rec.In.Kind == c58Feed && rec.In.Arg >= c58ErrBase {
			k = "op_feed_transient_error"
		}
		r.Event(k, 1)
	}
	repeated := 0
	h.mu.Lock()
	for _, a := range h.accepted {
		if a.started.Load() > 1 {
			repeated++
		}
	}
	h.mu.Unlock()
	r.Event("connections_closed_more_than_once", int64(repeated))
	h.inner.mu.Lock()
	maxOpen, atLimit := h.inner.maxOpen, h.inner.atLimit
	h.inner.mu.Unlock()
	r.Event("times_inner_open_reached_limit", int64(atLimit))
	r.Event("operations", int64(len(done)))
	r.Event(fmt.Sprintf("histories_%s_n%d", mode, h.n), 1)
	if overlap > 0 {
		r.Event("histories_with_overlapping_ops", 1)
	}
	byRet := append([]*c58Rec{}, done...)
	sort.Slice(byRet, func(i, j int) bool { return byRet[i].Ret < byRet[j].Ret })
	f := fnv.New64a()
	fmt.Fprintf(f, "%s/%d/", mode, h.n)
	for _, rec := range byRet {
		fmt.Fprintf(f, "%d.%d.%d.%d.%d;", rec.In.Client, rec.In.Kind, rec.In.Arg, rec.Out.V, rec.Out.W)
	}
	sig := f.Sum64()
	st.mu.Lock()
	st.interleavings[sig] = struct{}{}
	if maxOpen > st.maxOpen[h.n] {
		st.maxOpen[h.n] = maxOpen
	}
	key := fmt.Sprintf("%s%d", mode, h.n)
	doSample := len(done) >= 12 && len(done) <= 50 && overlap > 3 && atLimit > 0 && !st.sampled[key] && len(st.sampled) < 6
	if doSample {
		st.sampled[key] = true
	}
	st.mu.Unlock()
	r.EvalHash(overlap > 0 && atLimit > 0 && !aborted, sig)
	if doSample {
		var s []string
		for _, rec := range done {
			s = append(s, rec.String())
		}
		r.Sample(map[string]any{"mode": mode, "limit": h.n, "max_inner_open": maxOpen, "history_by_call_stamp": s})
	}
}

// c58GreedyWitness builds a linearization without backtracking: among the operations that may
// come next in real-time order (no other remaining operation returned before their call) it
// takes the first one the model accepts, in the order: feed / Conn.Close / Accept->error
// (they never disable anything), Accept->connection by earliest return, Listener.Close last.
// Every step is validated by the model, so success proves linearizability; failure proves
// nothing.
func c58GreedyWitness(model porcupine.Model, done []*c58Rec) bool {
	rem := append([]*c58Rec{}, done...)
	prio := func(rec *c58Rec) int {
		switch {
		case rec.In.Kind == c58LClose:
			return 3
		case rec.In.Kind == c58Accept && rec.Out.V == 0:
			return 2
		case rec.In.Kind == c58Accept && rec.Out.V == 2:
			return 1
		}
		return 0
	}
	state := model.Init()
	for len(rem) > 0 {
		minRet := rem[0].Ret
		for _, rec := range rem {
			if rec.Ret < minRet {
				minRet = rec.Ret
			}
		}
		var cand []int
		for i, rec := range rem {
			if rec.Call < minRet {
				cand = append(cand, i)
			}
		}
		sort.Slice(cand, func(a, b int) bool {
			x, y := rem[cand[a]], rem[cand[b]]
			if prio(x) != prio(y) {
				return prio(x) < prio(y)
			}
			return x.Ret < y.Ret
		})
		picked := -1
		for _, i := range cand {
			if ok, next := model.Step(state, rem[i].In, rem[i].Out); ok {
				state, picked = next, i
				break
			}
		}
		if picked < 0 {
			return false
		}
		rem = append(rem[:picked], rem[picked+1:]...)
	}
	return true
}

// ---- generator --------------------------------------------------------------------------

func c58Scripts(rng *rand.Rand, n int) [][]c58Step {
	nworkers := 2 + rng.IntN(31)
	if rng.IntN(2) == 0 {
		nworkers = 2 + rng.IntN(7)
	}
	total := 20 + rng.IntN(31)
	if total < nworkers {
		total = nworkers
	}
	pAccept := 30 + rng.IntN(20)
	pClose := 20 + rng.IntN(15)
	pLClose := []int{0, 0, 1, 3}[rng.IntN(4)]
	scripts := make([][]c58Step, nworkers)
	cnt := make([]int, nworkers)
	for i := range cnt {
		cnt[i] = 1
	}
	for i := nworkers; i < total; i++ {
		cnt[rng.IntN(nworkers)]++
	}
	for w, k := range cnt {
		for i := 0; i < k; i++ {
			s := c58Step{Val: rng.IntN(64)}
			if rng.IntN(3) == 0 {
				s.Pre = 1 + rng.IntN(3)
			}
			switch x := rng.IntN(100); {
			case x < pLClose:
				s.Kind = c58LClose
			case x < pLClose+pAccept:
				s.Kind = c58Accept
			case x < pLClose+pAccept+pClose:
				s.Kind = c58ConnClose
				s.K = 1 + rng.IntN(4)
				s.Conc = rng.IntN(2) == 0
				s.Open = rng.IntN(4) != 0
			default:
				s.Kind = c58Feed
				s.Err = rng.IntN(12) == 0
			}
			scripts[w] = append(scripts[w], s)
		}
	}
	return scripts
}

func c58Shape(scripts [][]c58Step) []string {
	var out []string
	for _, sc := range scripts {
		var sb strings.Builder
		for _, s := range sc {
			sb.WriteByte("ACLF"[s.Kind])
			if s.Kind == c58ConnClose {
				fmt.Fprintf(&sb, "%d", s.K)
			}
		}
		out = append(out, sb.String())
	}
	return out
}

// ---- the monitor ------------------------------------------------------------------------

func TestVerif_C58(t *testing.T) {
	r := verifrt.Start(t, "C58")
	defer r.Finish()
	r.SetRule("one case = one concurrent history on a fresh LimitListener(fake, n), n in {1,2,7}: 2-32 worker goroutines + a controller run PRNG scripts of Accept / Conn.Close (1-4 times, sequentially or concurrently, also on already closed connections) / Listener.Close / feeding connections and transient Accept errors into the fake inner listener; inside a synctest bubble (quiescence checks) or as plain goroutines (GOMAXPROCS 1-16). non-trivial = calls overlapped in the stamps AND innerOpen reached the limit n during the history; distinct = hash of (mode, n, completion order of (goroutine, op, argument, result)) = interleaving signature")
	r.Assume("the inner listener is a well-behaved harness fake: Accept hands out each fed connection once, returns net.ErrClosed (without blocking) once closed and never a connection after its Close (in a third of the histories that Close reports an error although it has closed the fake, as close(2) may); a transient Accept error does not close it")
	r.Assume("innerOpen counts a connection from the moment the fake's Accept hands it out until the first call of its Close starts; the sequential model and the reading 'a freed slot is usable' (an Accept may not stay blocked while a slot is free and a connection waits) are written in the harness from the statement")
	r.Assume("linearizability decided by porcupine v1.3.0; stamps from one atomic counter, taken by the calling goroutine right before the call and right after the return")

	st := &c58Stats{interleavings: map[uint64]struct{}{}, sampled: map[string]bool{}, maxOpen: map[int]int{}}
	limits := []int{1, 2, 7}
	stuck := false
	nBubble := r.N(900, 20000)
	nPlain := r.N(600, 12000)
	r.Cases("bubble", nBubble, func(c *verifrt.Case) {
		n := limits[c.Rng.IntN(3)]
		scripts := c58Scripts(c.Rng, n)
		c.Describe(map[string]any{"mode": "bubble", "limit": n, "workers": len(scripts), "scripts": c58Shape(scripts)})
		h := &c58Hist{r: r, c: c}
		aborted := c58RunBubble(t, h, n, scripts, c.Rng)
		if aborted {
			stuck = true
		}
		h.check("bubble", st, aborted)
	})
	if stuck {
		// A call that never returns would hang a plain-goroutine history until the watchdog
		// and lose the report above.
		r.Note("plain-goroutine histories skipped: the bubble histories already reported a blocked call")
	} else {
		r.Cases("plain", nPlain, func(c *verifrt.Case) {
			n := limits[c.Rng.IntN(3)]
			scripts := c58Scripts(c.Rng, n)
			procs := []int{1, 2, 4, 8, 16}[c.Rng.IntN(5)]
			c.Describe(map[string]any{"mode": "plain", "limit": n, "workers": len(scripts), "gomaxprocs": procs, "scripts": c58Shape(scripts)})
			prev := runtime.GOMAXPROCS(procs)
			defer runtime.GOMAXPROCS(prev)
			h := &c58Hist{r: r, c: c}
			c58RunPlain(h, n, scripts, c.Rng)
			h.check("plain", st, false)
		})
	}

	st.mu.Lock()
	r.SetExtra("distinct_interleavings", len(st.interleavings))
	mo := map[string]int{}
	for n, m := range st.maxOpen {
		mo[fmt.Sprintf("limit_%d", n)] = m
	}
	r.SetExtra("max_inner_open_seen", mo)
	st.mu.Unlock()
	if r.Replay == nil {
		total := int64(nBubble + nPlain)
		r.Require("histories_linearizable", total*95/100)
		r.Require("histories_with_overlapping_ops", total/2)
		r.Require("times_inner_open_reached_limit", total)
		r.Require("quiescent_at_limit_with_parked_accepts", int64(nBubble)/4)
		r.Require("close_at_limit_with_parked_accepts_and_waiting_conns", int64(nBubble)/20)
		r.Require("accepts_checked_to_return_after_listener_close", int64(nBubble))
		r.Require("listener_closed_with_limit_reached", int64(nBubble)/10)
		r.Require("connections_closed_more_than_once", total)
		r.Require("op_Accept_transient_error", 20)
	}
}
