//go:build verif

package xsrftoken

import (
	"crypto/hmac"
	"crypto/sha1"
	"encoding/base64"
	"fmt"
	"math/rand/v2"
	"strings"
	"testing"
	"time"

	"golang.org/x/net/internal/verifrt"
)

// ---- reference, from the property statement ----

// c57CeilMs rounds n nanoseconds (Unix time) up to whole milliseconds, for either sign.
func c57CeilMs(n int64) int64 {
	ms := n / 1e6 // truncates towards zero
	if n%1e6 > 0 {
		ms++
	}
	return ms
}

// c57RefValid: valid exactly at check times issue-1min <= c < issue+timeout (all in Unix
// nanoseconds). Callers keep c in [-1e17, 9.0e18] and issue in [-1e17, 8.9e18] so that
// nothing below overflows.
func c57RefValid(issueNs, c int64, timeout time.Duration) bool {
	return c+int64(time.Minute) >= issueNs && c-issueNs < int64(timeout)
}

const (
	c57MinC = -1e17
	c57MaxC = 9.0e18
	c57MaxT = 8.9e18 // year 2252; time.Time.UnixNano is defined up to 2262
)

// c57DocumentedToken is the format in the package documentation/comments, rebuilt here:
// base64url-nopad(HMAC-SHA1(key, esc(user) ":" esc(action) ":" ms)) ":" ms, esc = _ -> __, : -> _c.
func c57DocumentedToken(key, user, action string, ms int64) string {
	esc := func(s string) string {
		var sb strings.Builder
		for i := 0; i < len(s); i++ {
			switch s[i] {
			case '_':
				sb.WriteString("__")
			case ':':
				sb.WriteString("_c")
			default:
				sb.WriteByte(s[i])
			}
		}
		return sb.String()
	}
	h := hmac.New(sha1.New, []byte(key))
	fmt.Fprintf(h, "%s:%s:%d", esc(user), esc(action), ms)
	return base64.RawURLEncoding.EncodeToString(h.Sum(nil)) + ":" + fmt.Sprint(ms)
}

var c57StripSeps = strings.NewReplacer(":", "", "_", "")

// c57Rewrites: applying / undoing the documented escaping by hand, and plain substitutions.
var c57Rewrites = func() []func(string) string {
	rep := strings.NewReplacer
	return []func(string) string{
		rep("_", "__").Replace, rep(":", "_c").Replace, rep("_c", ":").Replace, rep("__", "_").Replace,
		rep(":", "_").Replace, rep("_", ":").Replace, rep(":", "").Replace, rep("_", "").Replace,
		rep("_", "__", ":", "_c").Replace, rep("__", "_", "_c", ":").Replace,
	}
}()

// ---- generators ----

func c57String(rng *rand.Rand, sepHeavy bool) string {
	n := rng.IntN(12)
	if rng.IntN(6) == 0 {
		n = 0
	}
	b := make([]byte, n)
	for i := range b {
		switch {
		case sepHeavy || rng.IntN(3) == 0:
			b[i] = ":_c:_ca/"[rng.IntN(8)]
		case rng.IntN(20) == 0:
			b[i] = byte(rng.Uint32())
		default:
			b[i] = "abcdefghijklmnopqrstuvwxyzABCDEFGHIJKLMNOPQRSTUVWXYZ0123456789 /.-@"[rng.IntN(67)]
		}
	}
	return string(b)
}

func c57Key(rng *rand.Rand) string {
	n := 1 + rng.IntN(40)
	if rng.IntN(10) == 0 {
		n = 60 + rng.IntN(80) // around and beyond the HMAC block size
	}
	b := make([]byte, n)
	for i := range b {
		b[i] = byte(33 + rng.IntN(94))
	}
	if rng.IntN(4) == 0 {
		b[rng.IntN(n)] = ":_"[rng.IntN(2)]
	}
	return string(b)
}

func c57IssueNanos(rng *rand.Rand) int64 {
	var n int64
	switch rng.IntN(6) {
	case 0:
		n = 1_790_000_000e9 + rng.Int64N(400_000_000e9) // 2026..2039
	case 1:
		n = rng.Int64N(int64(c57MaxT))
	case 2:
		n = rng.Int64N(int64(3 * time.Minute)) // right after the epoch
	case 3:
		n = int64(c57MaxT) - rng.Int64N(int64(time.Hour))
	default:
		n = 1_000_000_000e9 + rng.Int64N(1_000_000_000e9)
	}
	// sub-millisecond part: exact, just above, just below the next one, anything
	base := n - n%1e6
	switch rng.IntN(5) {
	case 0:
		n = base
	case 1:
		n = base + 1
	case 2:
		n = base + 999_999
	case 3:
		n = base + 500_000
	}
	return n
}

func c57Timeout(rng *rand.Rand) time.Duration {
	switch rng.IntN(12) {
	case 0:
		return 1
	case 1:
		return time.Millisecond - 1
	case 2:
		return time.Millisecond
	case 3:
		return time.Second
	case 4:
		return time.Minute
	case 5:
		return time.Hour
	case 6, 7:
		return Timeout
	case 8:
		return 30 * 24 * time.Hour
	case 9:
		return 100 * 365 * 24 * time.Hour
	case 10:
		return time.Duration(1 + rng.Int64N(int64(time.Minute)))
	}
	return time.Duration(1 + rng.Int64N(int64(400*24*time.Hour)))
}

// c57Window probes validity of tok (issued for the triple at t) around both ends of its
// window and at PRNG points, with the given key prefix for violations.
// It returns how many probes the statement calls valid and how many of those were accepted.
func c57Window(r *verifrt.R, c *verifrt.Case, ev map[string]int64, report func(key, detail string), tok, key, user, action string, tNs int64, d time.Duration) (wantValid, acceptedOfThose int) {
	issue := c57CeilMs(tNs) * 1e6
	start := issue - int64(time.Minute)
	var probes []int64
	for _, off := range []int64{-1e6, -1, 0, 1, 1e6} {
		probes = append(probes, start+off)
		if issue <= int64(c57MaxC)-int64(d)-2e6 {
			probes = append(probes, issue+int64(d)+off)
		}
	}
	probes = append(probes, tNs, issue, issue-1, issue+1)
	if issue <= int64(c57MaxC)-int64(d) {
		probes = append(probes, issue+c.Rng.Int64N(int64(d)), issue+int64(d)/2)
		if far := issue + int64(d) + c.Rng.Int64N(int64(365*24*time.Hour)); far <= int64(c57MaxC) && far > 0 {
			probes = append(probes, far)
		}
	}
	probes = append(probes, start+c.Rng.Int64N(int64(time.Minute)), start-1-c.Rng.Int64N(int64(48*time.Hour)))
	end := issue + int64(d) // only used for naming; may be beyond c57MaxC, never overflows (8.9e18+... guarded below)
	endKnown := issue <= int64(c57MaxC)-int64(d)
	for _, cn := range probes {
		if cn < int64(c57MinC) || cn > int64(c57MaxC) {
			continue
		}
		want := c57RefValid(issue, cn, d)
		got := validTokenAtTime(tok, key, user, action, time.Unix(0, cn), d)
		ev["window_probes"]++
		if want {
			ev["window_probes_valid"]++
		} else {
			ev["window_probes_invalid"]++
		}
		switch {
		case cn == start || (endKnown && cn == end-1):
			ev["probes_on_last_valid_instant"]++
		case cn == start-1 || (endKnown && cn == end):
			ev["probes_on_first_invalid_instant"]++
		}
		if want {
			wantValid++
			if got {
				acceptedOfThose++
			}
		}
		if got == want {
			continue
		}
		var k string
		switch {
		case got && cn < start:
			k = "accepted-before-window-start"
		case got:
			k = "accepted-at-or-after-expiry"
		case cn < start+2e6:
			k = "rejected-at-window-start"
		case endKnown && cn >= end-2e6:
			k = "rejected-just-before-expiry"
		default:
			k = "rejected-inside-window"
		}
		report(k, fmt.Sprintf("token %q generated for (key %q, user %q, action %q) at t=%d ns (issue time = t rounded up to ms = %d ns): validTokenAtTime at check time %d ns (issue%+d ns) with timeout %v = %v, statement says %v",
			tok, key, user, action, tNs, issue, cn, cn-issue, d, got, want))
	}
	return
}

func TestVerif_C57(t *testing.T) {
	r := verifrt.Start(t, "C57")
	defer r.Finish()
	r.SetRule("PRNG (key, user, action, issue time, timeout): keys 1-140 printable bytes, user/action 0-11 bytes heavy in ':' '_' 'c', issue times 1970..2252 with sub-millisecond part in {0, 1, 500000, 999999 ns, PRNG}, timeouts in {1 ns, 1 ms-1, 1 ms, 1 s, 1 min, 1 h, 24 h, 30 d, 100 y, PRNG}; each token probed at both window ends -1 ms/-1 ns/0/+1 ns/+1 ms, at t, inside and outside; against other triples (PRNG, single-field edits, every re-split / escape / un-escape of user:action); malformed and forged variants; plus all (user, action) pairs over the alphabet {':','_','c','a'} up to a total length (exhaustive). non-trivial = timeout and sub-ms part not both trivial, or user/action containing ':' or '_'; distinct by (key,user,action,t,timeout)")
	r.Assume("white-box on generateTokenAtTime / validTokenAtTime with explicit times; the wall clock is never read")
	r.Assume("HMAC-SHA1 collisions between different messages are treated as impossible")
	r.Assume("keys that HMAC itself treats as identical (zero-padding of short keys, hashing of keys longer than 64 bytes) are not counted as 'another key': observed and counted (hmac_equivalent_key_*), not judged")

	nTok := r.N(4000, 150000)

	// ---------- validity window ----------
	r.CasesParallel("window", nTok, 0, func(c *verifrt.Case) {
		rng := c.Rng
		ev := map[string]int64{}
		key, user, action := c57Key(rng), c57String(rng, false), c57String(rng, false)
		tNs := c57IssueNanos(rng)
		d := c57Timeout(rng)
		c.Describe(map[string]any{"key": key, "user": user, "action": action, "t_unix_ns": tNs, "timeout_ns": int64(d)})
		tok := generateTokenAtTime(key, user, action, time.Unix(0, tNs))
		c57Window(r, c, ev, func(k, detail string) { c.Violation(k, "%s", detail) }, tok, key, user, action, tNs, d)
		if tok == c57DocumentedToken(key, user, action, c57CeilMs(tNs)) {
			ev["token_equals_documented_format"]++
		} else {
			ev["token_differs_from_documented_format"]++
		}
		if tNs%1e6 != 0 {
			ev["tokens_with_sub_ms_issue_time"]++
		}
		ev["tokens_generated"]++
		r.Eval(tNs%1e6 != 0 || d != Timeout || strings.ContainsAny(user+action, ":_"), key, "\x00", user, "\x00", action, tNs, int64(d))
		if c.Index < 2 {
			r.Sample(map[string]any{"key": key, "user": user, "action": action, "t_unix_ns": tNs, "timeout": d.String(), "token": tok})
		}
		for k, v := range ev {
			r.Event(k, v)
		}
	})

	// ---------- issue times before 1970 (own keys: a different arithmetic path) ----------
	r.CasesParallel("pre-epoch", r.N(300, 5000), 0, func(c *verifrt.Case) {
		rng := c.Rng
		ev := map[string]int64{}
		key, user, action := c57Key(rng), c57String(rng, false), c57String(rng, false)
		var tNs int64
		switch rng.IntN(4) {
		case 0:
			tNs = -1 - rng.Int64N(999_999) // (-1 ms, 0): rounds up to 0
		case 1:
			tNs = -1e6 * (1 + rng.Int64N(1000)) // exact negative milliseconds
		case 2:
			tNs = -1 - rng.Int64N(int64(time.Hour))
		default:
			tNs = -1 - rng.Int64N(-int64(c57MinC)-int64(2*time.Minute))
		}
		d := c57Timeout(rng)
		switch c.Index { // two fixed cases so that every seed sees both symptoms of pre-1970 rounding
		case 0:
			tNs, d = -1e6, Timeout // exactly -1 ms: stamped 0, window shifted by 1 ms
		case 1:
			tNs, d = -2e6, Timeout // stamped -1: never accepted
		}
		c.Describe(map[string]any{"key": key, "user": user, "action": action, "t_unix_ns": tNs, "timeout_ns": int64(d)})
		tok := generateTokenAtTime(key, user, action, time.Unix(0, tNs))
		type v struct{ k, detail string }
		var buf []v
		want, acc := c57Window(r, c, ev, func(k, detail string) { buf = append(buf, v{k, detail}) }, tok, key, user, action, tNs, d)
		if want > 0 && acc == 0 {
			// one defect, one key: the token is not accepted at any instant of its window
			ev["pre_epoch_tokens_never_valid"]++
			c.Violation("pre-epoch-token-never-valid", "rejected at all %d probed instants of its validity window; first: %s", want, buf[0].detail)
		} else {
			for _, x := range buf {
				c.Violation("pre-epoch-"+x.k, "%s", x.detail)
			}
		}
		ev["pre_epoch_tokens_generated"]++
		if c57CeilMs(tNs) < 0 {
			ev["pre_epoch_tokens_with_negative_stamp"]++
		}
		r.Eval(true, "pre", key, "\x00", user, "\x00", action, tNs, int64(d))
		for k, v := range ev {
			r.Event(k, v)
		}
	})

	// ---------- never valid for another triple ----------
	r.CasesParallel("other-triple", nTok, 0, func(c *verifrt.Case) {
		rng := c.Rng
		ev := map[string]int64{}
		key, user, action := c57Key(rng), c57String(rng, true), c57String(rng, true)
		tNs := c57IssueNanos(rng)
		d := c57Timeout(rng)
		if d < time.Millisecond {
			d = Timeout
		}
		c.Describe(map[string]any{"key": key, "user": user, "action": action, "t_unix_ns": tNs, "timeout_ns": int64(d)})
		at := time.Unix(0, c57CeilMs(tNs)*1e6) // check at the issue time: inside every window
		tok := generateTokenAtTime(key, user, action, time.Unix(0, tNs))
		if !validTokenAtTime(tok, key, user, action, at, d) {
			c.Violation("rejected-inside-window", "token %q for (key %q, user %q, action %q) at t=%d is not valid at its own issue time", tok, key, user, action, tNs)
			return
		}
		type triple struct{ k, u, a string }
		var others []triple
		add := func(k, u, a string) { others = append(others, triple{k, u, a}) }
		// unrelated and single-field edits
		add(c57Key(rng), user, action)
		add(key, c57String(rng, true), action)
		add(key, user, c57String(rng, true))
		add(key+"x", user, action)
		add(key[:len(key)-1]+string(key[len(key)-1]^1), user, action)
		add(key, user+"a", action)
		add(key, user, action+"a")
		add(key, action, user)
		add(key, strings.ToUpper(user), strings.ToUpper(action))
		if len(key) > 1 {
			add(key[1:], user, action)
			add(key[:len(key)-1], user, action)
		}
		// key material moved into the user id and back
		add(key+":"+user, "", action)
		if i := strings.IndexAny(key, ":_"); i > 0 {
			add(key[:i], key[i+1:]+":"+user, action)
		}
		// every other way to cut  user ":" action  at a ':' or '_' boundary, and the
		// strings one gets by applying / undoing the escaping by hand
		joined := user + ":" + action
		for i := 0; i <= len(joined); i++ {
			if i < len(joined) && (joined[i] == ':' || joined[i] == '_') {
				add(key, joined[:i], joined[i+1:])
			}
			if i > 0 && (joined[i-1] == ':' || joined[i-1] == '_' || joined[i-1] == 'c') {
				add(key, joined[:i], joined[i:])
			}
		}
		add(key, joined, "")
		add(key, "", joined)
		add(key, user+":", action)
		add(key, user, ":"+action)
		add(key, user+"_", action)
		add(key, user, "_"+action)
		for _, f := range c57Rewrites {
			add(key, f(user), action)
			add(key, user, f(action))
			add(key, f(user), f(action))
		}
		for _, o := range others {
			if o.k == "" || (o.k == key && o.u == user && o.a == action) {
				continue
			}
			ev["other_triples_checked"]++
			if o.k == key {
				ev["other_triples_same_key"]++
				if c57StripSeps.Replace(o.u+o.a) == c57StripSeps.Replace(user+action) {
					ev["other_triples_differing_only_in_separators"]++
				}
			}
			if validTokenAtTime(tok, o.k, o.u, o.a, at, d) {
				k := "valid-for-other-user-or-action"
				if o.k != key {
					k = "valid-for-other-key"
				}
				c.Violation(k, "token %q generated for (key %q, user %q, action %q) is also valid for (key %q, user %q, action %q)", tok, key, user, action, o.k, o.u, o.a)
			}
		}
		// keys HMAC cannot tell apart: counted only (see assumptions)
		if len(key) < 64 {
			ev["hmac_equivalent_key_probed"]++
			if validTokenAtTime(tok, key+"\x00", user, action, at, d) {
				ev["hmac_equivalent_key_accepted"]++
			}
		} else if len(key) > 64 {
			ev["hmac_equivalent_key_probed"]++
			sum := sha1.Sum([]byte(key))
			if validTokenAtTime(tok, string(sum[:]), user, action, at, d) {
				ev["hmac_equivalent_key_accepted"]++
			}
		}
		r.Eval(strings.ContainsAny(user+action, ":_"), "o", key, "\x00", user, "\x00", action, tNs)

		// ---------- malformed / forged variants of the same token ----------
		sep := strings.LastIndex(tok, ":")
		if sep > 2 {
			mac, ms := tok[:sep], tok[sep+1:]
			bad := map[string]string{
				"malformed-token-accepted:no-colon":     mac,
				"malformed-token-accepted:empty":        "",
				"malformed-token-accepted:only-colon":   ":",
				"malformed-token-accepted:no-time":      mac + ":",
				"malformed-token-accepted:no-mac":       ":" + ms,
				"malformed-token-accepted:alpha-time":   mac + ":" + ms + "x",
				"malformed-token-accepted:space":        tok + " ",
				"malformed-token-accepted:huge-time":    mac + ":99999999999999999999",
				"malformed-token-accepted:extra-prefix": "x:" + tok,
				"malformed-token-accepted:extra-suffix": tok + ":" + ms,
				"malformed-token-accepted:truncated":    tok[1:],
			}
			// a different MAC (never the last character: its low bits are padding)
			i := rng.IntN(len(mac) - 1)
			alt := byte('A')
			if mac[i] == 'A' {
				alt = 'B'
			}
			bad["forged-mac-accepted"] = mac[:i] + string(alt) + mac[i+1:] + ":" + ms
			// the same MAC with another time stamp (extending or shifting the lifetime)
			issueMs := c57CeilMs(tNs)
			for j, delta := range []int64{1, -1, 1000, int64(d / time.Millisecond)} {
				if delta == 0 {
					continue
				}
				bad[fmt.Sprintf("forged-time-accepted:%d", j)] = fmt.Sprintf("%s:%d", mac, issueMs+delta)
			}
			for k, v := range bad {
				ev["malformed_or_forged_checked"]++
				// judged at the original issue time and, for shifted stamps, at the shifted one
				if validTokenAtTime(v, key, user, action, at, d) {
					c.Violation(strings.SplitN(k, ":", 2)[0], "%s: altered token %q (original %q) accepted for (key %q, user %q, action %q)", k, v, tok, key, user, action)
				}
				if strings.HasPrefix(k, "forged-time") {
					var shifted int64
					fmt.Sscanf(v[strings.LastIndex(v, ":")+1:], "%d", &shifted)
					if ns := shifted * 1e6; ns > int64(c57MinC) && ns < int64(c57MaxC) && validTokenAtTime(v, key, user, action, time.Unix(0, ns), d) {
						c.Violation("forged-time-accepted", "%s: token %q with a re-written time stamp (original %q) accepted at the re-written time", k, v, tok)
					}
				}
			}
		} else {
			ev["token_without_separator"]++
		}
		for k, v := range ev {
			r.Event(k, v)
		}
	})

	// ---------- exhaustive over a separator-only alphabet ----------
	maxTotal := r.N(6, 8)
	r.Cases("separator-exhaustive", 1, func(c *verifrt.Case) {
		const alphabet = ":_ca"
		var strs [][]string // by length
		strs = append(strs, []string{""})
		for l := 1; l <= maxTotal; l++ {
			var cur []string
			for _, p := range strs[l-1] {
				for i := 0; i < len(alphabet); i++ {
					cur = append(cur, p+string(alphabet[i]))
				}
			}
			strs = append(strs, cur)
		}
		const key = "k"
		at := time.Unix(1_800_000_000, 0)
		type pair struct{ u, a string }
		seen := map[string]pair{}
		var n int64
		for lu := 0; lu <= maxTotal; lu++ {
			for la := 0; lu+la <= maxTotal; la++ {
				for _, u := range strs[lu] {
					for _, a := range strs[la] {
						tok := generateTokenAtTime(key, u, a, at)
						n++
						if q, dup := seen[tok]; dup {
							c.Describe(map[string]any{"user": u, "action": a, "other_user": q.u, "other_action": q.a})
							if validTokenAtTime(tok, key, q.u, q.a, at, Timeout) && validTokenAtTime(tok, key, u, a, at, Timeout) {
								c.Violation("valid-for-other-user-or-action", "(user %q, action %q) and (user %q, action %q) get the same token %q, valid for both", u, a, q.u, q.a, tok)
							}
						} else {
							seen[tok] = pair{u, a}
						}
					}
				}
			}
		}
		r.Event("separator_pairs_enumerated", n)
		r.Event("separator_pairs_distinct_tokens", int64(len(seen)))
		r.SetExtra("exhaustive", fmt.Sprintf("all (user, action) pairs over the alphabet %q with len(user)+len(action) <= %d", alphabet, maxTotal))
		r.EvalHash(true, uint64(n))
	})

	r.Require("window_probes_valid", int64(nTok)*4)
	r.Require("window_probes_invalid", int64(nTok)*4)
	r.Require("probes_on_last_valid_instant", int64(nTok))
	r.Require("probes_on_first_invalid_instant", int64(nTok))
	r.Require("other_triples_differing_only_in_separators", int64(nTok))
	r.Require("malformed_or_forged_checked", int64(nTok)*10)
	r.Require("separator_pairs_enumerated", 15000)
	r.Require("tokens_with_sub_ms_issue_time", int64(nTok)/4)
}
