//go:build verif

package publicsuffix

import (
	"fmt"
	"strings"
	"sync"
	"testing"

	"golang.org/x/net/internal/verifrt"
)

// Reference: the algorithm of https://publicsuffix.org/list/ ("Formal algorithm"), written
// from that text over the rule text in table_test.go (rules[:numICANNRules] are the ICANN
// section). Two independent matchers: a hash matcher (every suffix of the domain is looked up
// as plain rule, as exception rule and, with the leftmost label replaced by '*', as wildcard
// rule) and a literal linear scan over all rules; the scan re-checks the hash matcher on a
// sample. Neither uses the packed node tables nor the repository's slowPublicSuffix.

type c51Rule struct {
	text   string
	labels []string // without the '!' mark; labels[0] may be "*"
	exc    bool
	icann  bool
}

type c51Ref struct {
	rules []c51Rule
	byTxt map[string][]int
}

func c51Build() *c51Ref {
	ref := &c51Ref{byTxt: map[string][]int{}}
	for i, t := range rules {
		r := c51Rule{text: t, icann: i < numICANNRules}
		body := t
		if strings.HasPrefix(t, "!") {
			r.exc = true
			body = t[1:]
		}
		r.labels = strings.Split(body, ".")
		ref.rules = append(ref.rules, r)
		ref.byTxt[t] = append(ref.byTxt[t], i)
	}
	return ref
}

type c51Answer struct {
	suffix     string
	icannOK    map[bool]bool // acceptable values of the ICANN flag
	prevailing string
	nmatch     int
}

// pick applies steps 2-6 to the matching rules.
func (ref *c51Ref) pick(domain []string, matching []int) c51Answer {
	if len(matching) == 0 {
		return c51Answer{suffix: domain[len(domain)-1], icannOK: map[bool]bool{false: true}, prevailing: "*"}
	}
	best := -1
	bestLen := -1
	anyExc := false
	for _, i := range matching {
		if ref.rules[i].exc {
			anyExc = true
		}
	}
	ok := map[bool]bool{}
	for _, i := range matching {
		r := ref.rules[i]
		if anyExc && !r.exc {
			continue
		}
		if len(r.labels) > bestLen {
			best, bestLen = i, len(r.labels)
			ok = map[bool]bool{r.icann: true}
		} else if len(r.labels) == bestLen {
			ok[r.icann] = true // two rules of equal rank (e.g. "*.x" and "a.x"): either prevails
		}
	}
	n := bestLen
	if ref.rules[best].exc {
		n--
	}
	return c51Answer{suffix: strings.Join(domain[len(domain)-n:], "."), icannOK: ok, prevailing: ref.rules[best].text, nmatch: len(matching)}
}

func (ref *c51Ref) hashMatch(domain []string) c51Answer {
	var matching []int
	for k := 1; k <= len(domain); k++ {
		tail := strings.Join(domain[len(domain)-k:], ".")
		matching = append(matching, ref.byTxt[tail]...)
		matching = append(matching, ref.byTxt["!"+tail]...)
		w := "*"
		if k > 1 {
			w = "*." + strings.Join(domain[len(domain)-k+1:], ".")
		}
		matching = append(matching, ref.byTxt[w]...)
	}
	return ref.pick(domain, matching)
}

func (ref *c51Ref) scanMatch(domain []string) c51Answer {
	var matching []int
rules:
	for i, r := range ref.rules {
		if len(r.labels) > len(domain) {
			continue
		}
		for j := 1; j <= len(r.labels); j++ {
			rl, dl := r.labels[len(r.labels)-j], domain[len(domain)-j]
			if rl != "*" && rl != dl {
				continue rules
			}
		}
		matching = append(matching, i)
	}
	return ref.pick(domain, matching)
}

const c51Alpha = "abcdefghijklmnopqrstuvwxyz0123456789"

func TestVerif_C51(t *testing.T) {
	r := verifrt.Start(t, "C51")
	defer r.Finish()
	r.SetRule("for EVERY embedded rule (wildcard label made concrete, '!' removed): the rule, x.rule, x.y.rule, the rule without its leftmost label, the rule with its leftmost label replaced (sibling) and a child of that sibling, where x,y are PRNG labels (random LDH, labels occurring elsewhere in the list, or near-misses of the rule's own labels); plus PRNG names of 1-6 labels drawn from list labels / random labels. non-trivial = at least one rule other than the default matches; distinct by domain")
	r.Assume("reference = publicsuffix.org formal algorithm re-implemented in the harness over the rule text of table_test.go (hash matcher, cross-checked against a literal linear scan on a sample)")
	r.Assume("inputs are lower-case ASCII names without empty labels and not IP literals in the rule-driven streams (the package leaves case and dot handling unspecified); for IP literals only the agreement of EffectiveTLDPlusOne with PublicSuffix is judged; names with empty labels are only given to EffectiveTLDPlusOne, which must refuse them")

	ref := c51Build()
	// pool of labels that occur in the list
	seen := map[string]bool{}
	var pool []string
	for _, ru := range ref.rules {
		for _, l := range ru.labels {
			if l != "*" && !seen[l] {
				seen[l] = true
				pool = append(pool, l)
			}
		}
	}
	r.SetExtra("rules", len(ref.rules))
	r.SetExtra("icann_rules", numICANNRules)
	r.SetExtra("exhaustive_over_rules", true)
	r.SetExtra("list_version", version)

	randLabel := func(c *verifrt.Case, near string) string {
		rng := c.Rng
		switch k := rng.IntN(10); {
		case k < 3 || (near == "" && k < 5):
			n := 1 + rng.IntN(8)
			b := make([]byte, n)
			for i := range b {
				b[i] = c51Alpha[rng.IntN(len(c51Alpha))]
			}
			return string(b)
		case k < 7 || near == "":
			return pool[rng.IntN(len(pool))]
		case k < 8:
			return near + string(c51Alpha[rng.IntN(len(c51Alpha))])
		case k < 9:
			if len(near) > 1 {
				return near[:len(near)-1]
			}
			return near + "0"
		default:
			b := []byte(near)
			b[rng.IntN(len(b))] = c51Alpha[rng.IntN(len(c51Alpha))]
			return string(b)
		}
	}

	var noteMu sync.Mutex
	noted, nnoted := map[string]bool{}, map[string]int{}
	check := func(c *verifrt.Case, kind, domain string, sample bool) {
		labels := strings.Split(domain, ".")
		for _, l := range labels {
			if l == "" {
				panic("harness: empty label in " + domain)
			}
		}
		if tld := labels[len(labels)-1]; strings.Trim(tld, "0123456789") == "" {
			r.Event("skipped_numeric_tld", 1) // could be an IP literal, which is not a domain name
			return
		}
		want := ref.hashMatch(labels)
		if sample {
			w2 := ref.scanMatch(labels)
			if w2.suffix != want.suffix || fmt.Sprint(w2.icannOK) != fmt.Sprint(want.icannOK) {
				c.Violation("reference-self-check", "hash matcher and linear scan disagree on %q: %+v vs %+v", domain, want, w2)
				return
			}
			r.Event("reference_cross_checked_by_linear_scan", 1)
		}
		got, icann := PublicSuffix(domain)
		ptype := "plain"
		switch {
		case want.prevailing == "*":
			ptype = "default"
		case strings.HasPrefix(want.prevailing, "!"):
			ptype = "exception"
		case strings.HasPrefix(want.prevailing, "*"):
			ptype = "wildcard"
		}
		if got != want.suffix {
			c.Violation("suffix-wrong-prevailing-"+ptype, "[%s] PublicSuffix(%q)=%q, PSL algorithm gives %q (prevailing rule %q, %d rules match)", kind, domain, got, want.suffix, want.prevailing, want.nmatch)
		} else if !want.icannOK[icann] {
			key := "icann-false-for-icann-rule"
			if icann && ptype == "default" {
				key = "icann-true-under-default-rule"
			} else if icann {
				key = "icann-true-for-private-rule"
			}
			c.Violation(key, "[%s] PublicSuffix(%q)=(%q,icann=%v) but the prevailing rule is %q (%s), %d rules match", kind, domain, got, icann, want.prevailing,
				map[string]string{"icann-false-for-icann-rule": "ICANN section", "icann-true-under-default-rule": "the implicit default rule, name not in the list", "icann-true-for-private-rule": "private section"}[key], want.nmatch)
			r.Event("violations_"+key, 1)
			noteMu.Lock()
			if !noted[key+got] && nnoted[key] < 12 {
				noted[key+got] = true
				nnoted[key]++
				r.Note("%s: PublicSuffix(%q)=(%q,%v), prevailing rule %q", key, domain, got, icann, want.prevailing)
			}
			noteMu.Unlock()
		}
		e, err := EffectiveTLDPlusOne(domain)
		nl := strings.Count(want.suffix, ".") + 1
		if len(labels) <= nl {
			if err == nil {
				c.Violation("etld1-no-error", "EffectiveTLDPlusOne(%q)=%q, nil although the name is itself the public suffix %q", domain, e, want.suffix)
			}
			r.Event("etld1_error_expected", 1)
		} else {
			w := strings.Join(labels[len(labels)-nl-1:], ".")
			if err != nil || e != w {
				c.Violation("etld1-wrong-prevailing-"+ptype, "["+kind+"] EffectiveTLDPlusOne(%q)=(%q,%v) want %q (suffix %q by rule %q)", domain, e, err, w, want.suffix, want.prevailing)
			}
			r.Event("etld1_value_checked", 1)
		}
		if len(want.icannOK) == 2 {
			r.Event("icann_flag_either_accepted", 1)
		}
		switch {
		case want.prevailing == "*":
			r.Event("prevailing_default", 1)
		case strings.HasPrefix(want.prevailing, "!"):
			r.Event("prevailing_exception", 1)
		case strings.HasPrefix(want.prevailing, "*"):
			r.Event("prevailing_wildcard", 1)
		default:
			r.Event("prevailing_plain", 1)
		}
		if icann {
			r.Event("icann_true", 1)
		} else if want.prevailing != "*" {
			r.Event("private_rule_prevails", 1)
		}
		r.Event("domains_checked", 1)
		r.EvalBytes(want.nmatch > 0, []byte(domain))
	}

	// ---- every rule ----
	const chunk = 64
	nChunks := (len(ref.rules) + chunk - 1) / chunk
	rounds := r.N(1, 12) // PRNG labels differ per round
	r.CasesParallel("per-rule", nChunks*rounds, 0, func(c *verifrt.Case) {
		ch := c.Index % nChunks
		lo, hi := ch*chunk, min((ch+1)*chunk, len(ref.rules))
		c.Describe(map[string]any{"rules_from": lo, "rules_to": hi - 1, "first_rule": ref.rules[lo].text, "round": c.Index / nChunks})
		for i := lo; i < hi; i++ {
			ru := ref.rules[i]
			labels := append([]string{}, ru.labels...)
			if labels[0] == "*" {
				labels[0] = randLabel(c, "")
			}
			base := strings.Join(labels, ".")
			x, y := randLabel(c, labels[0]), randLabel(c, "")
			sample := i%16 == 0
			check(c, "rule-itself", base, sample)
			check(c, "child-of-rule", x+"."+base, sample)
			check(c, "grandchild-of-rule", y+"."+x+"."+base, sample)
			if len(labels) > 1 {
				parent := strings.Join(labels[1:], ".")
				check(c, "parent-of-rule", parent, sample)
				sib := randLabel(c, labels[0])
				check(c, "sibling-of-rule", sib+"."+parent, sample)
				check(c, "child-of-sibling", y+"."+sib+"."+parent, sample)
			}
			if ru.labels[0] == "*" {
				r.Event("wildcard_rules_exercised", 1)
			}
			if ru.exc {
				r.Event("exception_rules_exercised", 1)
			}
			r.Event("rules_exercised", 1)
		}
	})

	// ---- PRNG names ----
	nRand := r.N(60000, 3000000)
	const per = 500
	r.CasesParallel("random-names", nRand/per, 0, func(c *verifrt.Case) {
		for j := 0; j < per; j++ {
			n := 1 + c.Rng.IntN(6)
			var ls []string
			for i := 0; i < n; i++ {
				ls = append(ls, randLabel(c, ""))
			}
			if c.Rng.IntN(3) == 0 { // end in a real rule so that deep matches happen
				ru := ref.rules[c.Rng.IntN(len(ref.rules))]
				tail := append([]string{}, ru.labels...)
				if tail[0] == "*" {
					tail = tail[1:]
				}
				ls = append(ls, tail...)
			}
			d := strings.Join(ls, ".")
			c.Describe(map[string]any{"domain": d, "nth_in_case": j})
			check(c, "random-name", d, j%50 == 0)
		}
	})

	// ---- names EffectiveTLDPlusOne must refuse because of an empty label ----
	r.Cases("empty-labels", r.N(2000, 50000), func(c *verifrt.Case) {
		ru := ref.rules[c.Rng.IntN(len(ref.rules))]
		base := strings.TrimPrefix(strings.TrimPrefix(ru.text, "!"), "*.")
		x := randLabel(c, "")
		d := []string{"." + x + "." + base, x + "." + base + ".", x + ".." + base, x + "." + strings.Replace(base, ".", "..", 1) + "."}[c.Rng.IntN(4)]
		c.Describe(map[string]any{"domain": d})
		if e, err := EffectiveTLDPlusOne(d); err == nil {
			c.Violation("etld1-empty-label-accepted", "EffectiveTLDPlusOne(%q)=%q, nil", d, e)
		}
		r.Event("empty_label_names_refused", 1)
		r.Eval(true, "empty:", d)
	})

	// ---- IP address literals: only the relation between the two functions is judged ----
	// (an address is not a domain, so the list algorithm says nothing about the suffix; the
	// statement still ties EffectiveTLDPlusOne to whatever PublicSuffix selects)
	r.Cases("ip-literals", r.N(2000, 50000), func(c *verifrt.Case) {
		rng := c.Rng
		oct := func() int { return []int{0, 1, 2, 10, 127, 192, 255, rng.IntN(256)}[rng.IntN(8)] }
		v4 := fmt.Sprintf("%d.%d.%d.%d", oct(), oct(), oct(), oct())
		h := func() string { return fmt.Sprintf("%x", rng.IntN(0x10000)) }
		var d string
		switch rng.IntN(6) {
		case 0, 1:
			d = v4
		case 2:
			d = "::ffff:" + v4
		case 3:
			d = h() + ":" + h() + "::" + v4
		case 4:
			d = h() + ":" + h() + "::" + h()
		default:
			d = "fe80::" + h() + "%" + randLabel(c, "") + "." + pool[rng.IntN(len(pool))]
		}
		c.Describe(map[string]any{"domain": d})
		suffix, _ := PublicSuffix(d)
		e, err := EffectiveTLDPlusOne(d)
		switch {
		case suffix == d:
			if err == nil {
				c.Violation("etld1-no-error-ip-literal", "PublicSuffix(%q) is the whole argument, so no eTLD+1 exists, but EffectiveTLDPlusOne returns %q, nil", d, e)
			}
			r.Event("ip_literal_etld1_error_expected", 1)
		case strings.HasSuffix(d, "."+suffix):
			rest := d[:len(d)-len(suffix)-1]
			w := rest[strings.LastIndex(rest, ".")+1:] + "." + suffix
			if err != nil || e != w {
				c.Violation("etld1-not-suffix-plus-one-ip-literal", "PublicSuffix(%q)=%q but EffectiveTLDPlusOne=(%q,%v), want %q", d, suffix, e, err, w)
			}
			r.Event("ip_literal_etld1_value_checked", 1)
		default:
			c.Violation("suffix-not-a-suffix-ip-literal", "PublicSuffix(%q)=%q is not a dot-separated suffix of its argument", d, suffix)
		}
		r.Event("ip_literals", 1)
		r.Eval(true, "ip:", d)
	})

	r.Sample(map[string]any{"domain": "www.ck", "reference": fmt.Sprint(ref.hashMatch([]string{"www", "ck"}).suffix), "got": fmt.Sprint(PublicSuffix("www.ck"))})
	r.Sample(map[string]any{"domain": "a.b.kobe.jp", "reference": fmt.Sprint(ref.hashMatch([]string{"a", "b", "kobe", "jp"}).suffix), "got": fmt.Sprint(PublicSuffix("a.b.kobe.jp"))})
	r.Require("rules_exercised", int64(len(ref.rules)))
	r.Require("wildcard_rules_exercised", 100)
	r.Require("exception_rules_exercised", 8)
	r.Require("prevailing_exception", 8)
	r.Require("prevailing_wildcard", 200)
	r.Require("prevailing_default", 1000)
	r.Require("private_rule_prevails", 1000)
	r.Require("reference_cross_checked_by_linear_scan", 1000)
}
