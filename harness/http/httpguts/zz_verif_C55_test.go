//go:build verif

package httpguts

import (
	"fmt"
	"math"
	"math/rand/v2"
	"strings"
	"testing"

	"golang.org/x/net/internal/verifrt"
)

// ---- reference, written from RFC 9110 ----
//
//	token = 1*tchar                                               (section 5.6.2)
//	tchar = "!" / "#" / "$" / "%" / "&" / "'" / "*" / "+" / "-" / "." /
//	        "^" / "_" / "`" / "|" / "~" / DIGIT / ALPHA
//	field values: no CTL (%x00-1F, %x7F) except HTAB              (section 5.5, and the statement)
//	#element lists: comma separated, OWS = *( SP / HTAB ) around elements (section 5.6.1)

const c55TcharSymbols = "!#$%&'*+-.^_`|~"

func c55IsTchar(b byte) bool {
	switch {
	case b >= '0' && b <= '9', b >= 'a' && b <= 'z', b >= 'A' && b <= 'Z':
		return true
	}
	return strings.IndexByte(c55TcharSymbols, b) >= 0
}

func c55RefToken(s string) bool {
	if s == "" {
		return false
	}
	for i := 0; i < len(s); i++ {
		if !c55IsTchar(s[i]) {
			return false
		}
	}
	return true
}

func c55RefValue(s string) bool {
	for i := 0; i < len(s); i++ {
		b := s[i]
		if (b <= 0x1f || b == 0x7f) && b != 0x09 {
			return false
		}
	}
	return true
}

func c55Fold(b byte) byte {
	if b >= 'A' && b <= 'Z' {
		return b - 'A' + 'a'
	}
	return b
}

func c55EqualFold(a, b string) bool {
	if len(a) != len(b) {
		return false
	}
	for i := 0; i < len(a); i++ {
		if c55Fold(a[i]) != c55Fold(b[i]) {
			return false
		}
	}
	return true
}

// c55RefContains: token equals (ASCII case-insensitively) some comma-separated element of
// one of the values, SP/HTAB trimmed around the element.
func c55RefContains(values []string, token string) bool {
	for _, v := range values {
		start := 0
		for i := 0; i <= len(v); i++ {
			if i == len(v) || v[i] == ',' {
				el := v[start:i]
				for len(el) > 0 && (el[0] == ' ' || el[0] == '\t') {
					el = el[1:]
				}
				for len(el) > 0 && (el[len(el)-1] == ' ' || el[len(el)-1] == '\t') {
					el = el[:len(el)-1]
				}
				if c55EqualFold(el, token) {
					return true
				}
				start = i + 1
			}
		}
	}
	return false
}

func c55ASCII(s string) bool {
	for i := 0; i < len(s); i++ {
		if s[i] >= 0x80 {
			return false
		}
	}
	return true
}

// ---- generators ----

const c55TokenAlphabet = "abcdefghijklmnopqrstuvwxyzABCDEFGHIJKLMNOPQRSTUVWXYZ0123456789" + c55TcharSymbols

func c55RandToken(rng *rand.Rand, n int) string {
	b := make([]byte, n)
	for i := range b {
		b[i] = c55TokenAlphabet[rng.IntN(len(c55TokenAlphabet))]
	}
	return string(b)
}

func c55SwapCase(rng *rand.Rand, s string) string {
	b := []byte(s)
	for i := range b {
		if rng.IntN(2) == 0 {
			switch {
			case b[i] >= 'a' && b[i] <= 'z':
				b[i] -= 32
			case b[i] >= 'A' && b[i] <= 'Z':
				b[i] += 32
			}
		}
	}
	return string(b)
}

func c55OWS(rng *rand.Rand) string {
	return []string{"", "", " ", "\t", "  ", " \t", "\t ", " \t \t"}[rng.IntN(8)]
}

// c55NearMiss derives strings that must NOT match tok (unless they happen to equal it
// under ASCII case folding, which the reference decides).
func c55NearMiss(rng *rand.Rand, tok string) string {
	if tok == "" {
		return "x"
	}
	b := []byte(tok)
	switch rng.IntN(9) {
	case 0:
		return tok[:len(tok)-1] // prefix
	case 1:
		return tok[1:] // suffix
	case 2:
		return tok + string(c55TokenAlphabet[rng.IntN(len(c55TokenAlphabet))]) // superstring
	case 3:
		return string(c55TokenAlphabet[rng.IntN(len(c55TokenAlphabet))]) + tok
	case 4:
		i := rng.IntN(len(b))
		b[i] ^= 0x20 // case flip for letters; turns ^ into ~, _ into DEL, 0 into DLE ... for the rest
		return string(b)
	case 5:
		i := rng.IntN(len(b))
		b[i] |= 0x80 // non-ASCII look-alike
		return string(b)
	case 6:
		i := rng.IntN(len(b) + 1)
		return tok[:i] + []string{" ", "\t", "\r", "\n", "\v", "\x00", " ", "K"}[rng.IntN(8)] + tok[i:] // inner / odd whitespace
	case 7:
		return tok + tok
	}
	i := rng.IntN(len(b))
	b[i] = c55TokenAlphabet[rng.IntN(len(c55TokenAlphabet))]
	return string(b)
}

func TestVerif_C55(t *testing.T) {
	r := verifrt.Start(t, "C55")
	defer r.Finish()
	r.SetRule("exhaustive: isTokenTable[0..255], IsTokenRune for every rune in [-1024, 0x110400] plus int32 extremes, every 1- and 2-byte string for ValidHeaderFieldName/ValidHeaderFieldValue; PRNG: strings of 1-80 bytes that are all tchar / all legal value bytes except for at most one injected byte at a PRNG position (first, last, middle), multi-byte and invalid UTF-8; HeaderValuesContainsToken over 1-4 values of 0-6 elements with PRNG OWS, case changes, empty elements and near-miss elements (prefix, suffix, superstring, 0x20-flip, high-bit, inner whitespace). non-trivial = string of >= 2 bytes (name/value) resp. at least two elements in the values (contains-token); distinct by input")
	r.Assume("reference predicates written from RFC 9110 sections 5.5, 5.6.1, 5.6.2 in the harness; CTL = 0x00-0x1f and 0x7f")
	r.Assume("HeaderValuesContainsToken is judged for token arguments made of ASCII bytes only; for non-ASCII token arguments (not tokens in the RFC sense) the outcome is only counted")

	// ---------- character level, exhaustive ----------
	r.Cases("table", 1, func(c *verifrt.Case) {
		for i := 0; i < 256; i++ {
			if isTokenTable[i] != c55IsTchar(byte(i)) {
				c.Violation("istokentable-entry", "isTokenTable[0x%02x]=%v, RFC 9110 tchar says %v", i, isTokenTable[i], c55IsTchar(byte(i)))
			}
			r.Event("table_entries_checked", 1)
		}
		r.EvalHash(true, 0x7ab1e)
	})
	r.Cases("runes", 1, func(c *verifrt.Case) {
		var n, tok, neg int64
		check := func(x rune) {
			want := x >= 0 && x < 0x80 && c55IsTchar(byte(x))
			got := IsTokenRune(x)
			n++
			if want {
				tok++
			}
			if got != want {
				c.Describe(map[string]any{"rune": int64(x)})
				key := "istokenrune-differs"
				switch {
				case x < 0:
					key = "istokenrune-negative-rune"
					neg++
				case x >= 0x80:
					key = "istokenrune-non-ascii-rune"
				}
				c.Violation(key, "IsTokenRune(%d / %#x)=%v, tchar membership is %v", x, uint32(x), got, want)
			}
		}
		for x := rune(-1024); x <= 0x110400; x++ {
			check(x)
		}
		for _, x := range []rune{math.MinInt32, math.MinInt32 + 'a', math.MinInt32 + 0x100 + 'a', -0x100 + 'a', -0x10000 + 'a', math.MaxInt32, math.MaxInt32 - 0xff + 'a', 0x7fffff00 + 'z', 0xfffd, 0x100 + 'a', 0x10000 + 'a'} {
			check(x)
		}
		r.Event("runes_checked", n)
		r.Event("runes_that_are_tchar", tok)
		if neg > 0 {
			r.Event("negative_runes_misclassified", neg)
		}
		r.EvalHash(true, 0x12e5)
	})
	r.CasesParallel("bytes-1-2", 257, 0, func(c *verifrt.Case) {
		// index 256: the empty string and all 1-byte strings; index b: all 2-byte strings starting with b
		var ins []string
		if c.Index == 256 {
			ins = append(ins, "")
			for b := 0; b < 256; b++ {
				ins = append(ins, string([]byte{byte(b)}))
			}
		} else {
			for b := 0; b < 256; b++ {
				ins = append(ins, string([]byte{byte(c.Index), byte(b)}))
			}
		}
		var nameOK, valueOK int64
		for _, s := range ins {
			c55CheckNameValue(r, c, s, &nameOK, &valueOK)
			r.EvalBytes(len(s) >= 2, []byte(s))
		}
		r.Event("short_strings_checked", int64(len(ins)))
		r.Event("short_names_valid", nameOK)
		r.Event("short_values_valid", valueOK)
	})
	r.SetExtra("exhaustive", "isTokenTable, all runes in [-1024,0x110400], all strings of length 0, 1 and 2")

	// ---------- longer strings ----------
	nlong := r.N(200, 4000)
	r.CasesParallel("long-strings", nlong, 0, func(c *verifrt.Case) {
		rng := c.Rng
		var nameOK, valueOK int64
		for k := 0; k < 500; k++ {
			n := 1 + rng.IntN(80)
			b := make([]byte, n)
			mode := rng.IntN(4)
			for i := range b {
				switch mode {
				case 0: // token bytes
					b[i] = c55TokenAlphabet[rng.IntN(len(c55TokenAlphabet))]
				case 1: // legal value bytes: VCHAR, SP, HTAB, obs-text
					switch rng.IntN(8) {
					case 0:
						b[i] = ' '
					case 1:
						b[i] = '\t'
					case 2:
						b[i] = 0x80 + byte(rng.IntN(128))
					default:
						b[i] = 0x21 + byte(rng.IntN(0x7e-0x21+1))
					}
				case 2: // arbitrary bytes
					b[i] = byte(rng.Uint32())
				}
			}
			if mode == 3 {
				rs := []rune("héllo-wörld☃日本\U0001F600abcXYZ09_~")
				var sb strings.Builder
				for sb.Len() < n {
					sb.WriteRune(rs[rng.IntN(len(rs))])
				}
				b = []byte(sb.String())
			}
			if rng.IntN(3) != 0 { // inject one interesting byte at an interesting position
				pos := []int{0, len(b) - 1, rng.IntN(len(b))}[rng.IntN(3)]
				b[pos] = []byte{0x00, 0x09, 0x0a, 0x0d, 0x1f, 0x20, 0x7f, 0x80, 0xff, '(', ')', ',', ':', ';', '"', '/', '@', '[', ']', '{', '}', '\\', '<', '=', '>', '?', 0x0b, 0x0c, 0x1b, 0x01, '|', '~', '^', '`'}[rng.IntN(34)]
			}
			s := string(b)
			c.Describe(map[string]any{"string_hex": fmt.Sprintf("%x", s)})
			c55CheckNameValue(r, c, s, &nameOK, &valueOK)
			r.EvalBytes(len(s) >= 2, b)
		}
		r.Event("long_strings_checked", 500)
		r.Event("long_names_valid", nameOK)
		r.Event("long_values_valid", valueOK)
	})

	// ---------- HeaderValuesContainsToken ----------
	nct := r.N(300, 6000)
	r.CasesParallel("contains-token", nct, 0, func(c *verifrt.Case) {
		rng := c.Rng
		ev := map[string]int64{}
		for k := 0; k < 300; k++ {
			var tok string
			switch rng.IntN(10) {
			case 0:
				tok = []string{"close", "keep-alive", "chunked", "upgrade", "100-continue", "gzip", "h2c", "HTTP2-Settings"}[rng.IntN(8)]
			case 1:
				tok = c55RandToken(rng, 1)
			default:
				tok = c55RandToken(rng, 1+rng.IntN(12))
			}
			nvals := rng.IntN(5)
			values := make([]string, 0, nvals)
			planted := false
			elements := 0
			for i := 0; i < nvals; i++ {
				nel := rng.IntN(7)
				var sb strings.Builder
				for j := 0; j < nel; j++ {
					if j > 0 {
						sb.WriteByte(',')
					}
					var el string
					switch w := rng.IntN(100); {
					case w < 12:
						el = c55SwapCase(rng, tok)
						planted = true
					case w < 50:
						el = c55NearMiss(rng, tok)
					case w < 60:
						el = ""
					case w < 65:
						el = `"` + tok + `"`
					case w < 70:
						el = tok + ";q=1"
					default:
						el = c55RandToken(rng, 1+rng.IntN(10))
					}
					sb.WriteString(c55OWS(rng))
					sb.WriteString(el)
					sb.WriteString(c55OWS(rng))
					elements++
				}
				values = append(values, sb.String())
			}
			// the token argument itself is sometimes varied in case, or made deliberately odd
			arg := tok
			switch rng.IntN(12) {
			case 0:
				arg = c55SwapCase(rng, tok)
			case 1:
				arg = ""
			case 2:
				arg = " " + tok
			case 3:
				arg = tok + ",x"
			case 4:
				b := []byte(tok)
				b[rng.IntN(len(b))] |= 0x80
				arg = string(b)
			}
			c.Describe(map[string]any{"values": values, "token": arg})
			want := c55RefContains(values, arg)
			got := HeaderValuesContainsToken(values, arg)
			if !c55ASCII(arg) {
				ev["non_ascii_token_argument"]++
				if got != want {
					ev["non_ascii_token_argument_differs_from_bytewise_reference"]++
				}
				continue
			}
			if got != want {
				key := "containstoken-missed"
				if got {
					key = "containstoken-false-positive"
				}
				c.Violation(key, "HeaderValuesContainsToken(%q, %q)=%v, reference (split on ',', trim SP/HTAB, ASCII case-insensitive equality) says %v", values, arg, got, want)
			}
			ev["containstoken_checked"]++
			if want {
				ev["containstoken_found"]++
				if arg != tok || planted {
					ev["containstoken_found_case_or_ows_varied"]++
				}
			} else {
				ev["containstoken_not_found"]++
			}
			r.Eval(elements >= 2, values, "\x00", arg)
			if c.Index == 0 && k < 2 {
				r.Sample(map[string]any{"values": values, "token": arg, "contains": got})
			}
		}
		for k, v := range ev {
			r.Event(k, v)
		}
	})
	// fixed corner cases of the list syntax
	r.Cases("contains-token-corners", 1, func(c *verifrt.Case) {
		type tc struct {
			vals []string
			tok  string
		}
		for _, x := range []tc{
			{nil, "a"}, {[]string{}, ""}, {[]string{""}, ""}, {[]string{""}, "a"}, {[]string{","}, ""}, {[]string{",a"}, "a"}, {[]string{"a,"}, "a"},
			{[]string{",,a,,"}, "A"}, {[]string{" \t a \t "}, "a"}, {[]string{"a b"}, "a"}, {[]string{"a\r\n"}, "a"}, {[]string{"\va"}, "a"}, {[]string{"a\x00"}, "a"},
			{[]string{"ab"}, "a"}, {[]string{"a"}, "ab"}, {[]string{"b", "c", "a"}, "a"}, {[]string{"b,c", "d, A"}, "a"}, {[]string{"^"}, "~"}, {[]string{"@"}, "`"}, {[]string{"K"}, "K"[:1]},
			{[]string{"k"}, "K"}, {[]string{"[", "{"}, "["}, {[]string{"{"}, "["}, {[]string{"_"}, "\x7f"}, {[]string{"keep-alive, Upgrade"}, "upgrade"}, {[]string{`"a,b"`}, "b\""},
		} {
			c.Describe(map[string]any{"values": x.vals, "token": x.tok})
			want := c55RefContains(x.vals, x.tok)
			got := HeaderValuesContainsToken(x.vals, x.tok)
			if c55ASCII(x.tok) && got != want {
				key := "containstoken-missed"
				if got {
					key = "containstoken-false-positive"
				}
				c.Violation(key, "HeaderValuesContainsToken(%q, %q)=%v, reference says %v", x.vals, x.tok, got, want)
			}
			r.Event("containstoken_corner_cases", 1)
			r.Eval(true, "corner", x.vals, "\x00", x.tok)
		}
	})

	r.Require("runes_checked", 0x110000)
	r.Require("short_strings_checked", 65793)
	r.Require("short_names_valid", 77*77)
	r.Require("containstoken_found", 1000)
	r.Require("containstoken_not_found", 1000)
	r.Require("long_names_valid", 100)
	r.Require("long_values_valid", 1000)
}

func c55CheckNameValue(r *verifrt.R, c *verifrt.Case, s string, nameOK, valueOK *int64) {
	wn, wv := c55RefToken(s), c55RefValue(s)
	if got := ValidHeaderFieldName(s); got != wn {
		key := "fieldname-accepts-non-token"
		if wn {
			key = "fieldname-rejects-token"
		}
		if s == "" {
			key = "fieldname-accepts-empty"
		}
		c.Describe(map[string]any{"string_hex": fmt.Sprintf("%x", s)})
		c.Violation(key, "ValidHeaderFieldName(%q)=%v, RFC 9110 token says %v", s, got, wn)
	}
	if got := ValidHeaderFieldValue(s); got != wv {
		key := "fieldvalue-accepts-control-byte"
		if wv {
			key = "fieldvalue-rejects-legal-bytes"
		} else if strings.ContainsAny(s, "\r\n\x00") {
			key = "fieldvalue-accepts-cr-lf-nul"
		}
		c.Describe(map[string]any{"string_hex": fmt.Sprintf("%x", s)})
		c.Violation(key, "ValidHeaderFieldValue(%q)=%v, 'no CTL except HTAB' says %v", s, got, wv)
	}
	if wn {
		*nameOK++
	}
	if wv {
		*valueOK++
	}
}
