//go:build verif

package httpproxy_test

import (
	"fmt"
	"net/netip"
	"net/url"
	"strings"
	"testing"

	"golang.org/x/net/http/httpproxy"
	"golang.org/x/net/internal/verifrt"
)

// The reference works on the *structure* of the generated NO_PROXY entries (the generator
// renders each structured entry to text; nothing is parsed back), with net/netip for
// addresses. Rules, from the Config.NoProxy / ProxyFunc documentation and the property
// statement:
//   - https -> HTTPSProxy, http -> HTTPProxy; a value without scheme means http://value;
//     empty value -> no proxy; http + CGI + HTTPProxy set -> error
//   - no proxy when host is "localhost", a loopback IP, or matches an entry:
//     "*"                      everything
//     IP[:port]                that address (and that port)
//     CIDR                     addresses inside the prefix
//     domain[:port]            the name and its subdomains (and that port)
//     .domain / *.domain       subdomains only
//     names compare case-insensitively and in IDNA (A-label) form; an IP literal never
//     matches a domain entry.

type c52Kind int

const (
	c52Star c52Kind = iota
	c52IP
	c52CIDR
	c52Domain
	c52Ignored // empty entry, blanks, ":port" without host
)

type c52Entry struct {
	kind    c52Kind
	addr    netip.Addr   // c52IP
	prefix  netip.Prefix // c52CIDR (masked)
	name    []string     // c52Domain: canonical (lower-case, A-label) labels
	subOnly bool
	port    string // "" = any
	text    string // as rendered into NO_PROXY
}

// IDN labels with their well-known A-label forms (RFC / IANA test names).
var c52IDN = [][3]string{
	{"bücher", "BÜCHER", "xn--bcher-kva"},
	{"münchen", "MÜNCHEN", "xn--mnchen-3ya"},
	{"пример", "ПРИМЕР", "xn--e1afmkfd"},
	{"例え", "例え", "xn--r8jz45g"},
}

var c52Words = []string{"example", "corp", "internal", "foo", "bar", "svc", "cluster", "local", "db", "api", "x", "a1", "my-host", "intranet", "dev"}
var c52TLDs = []string{"com", "org", "net", "test", "lan", "io"}

type c52Label struct {
	canon    string   // lower-case A-label
	variants []string // spellings that denote it
}

func c52RandLabel(c *verifrt.Case, tld bool) c52Label {
	if !tld && c.Rng.IntN(6) == 0 {
		e := c52IDN[c.Rng.IntN(len(c52IDN))]
		return c52Label{e[2], []string{e[0], e[1], e[2], strings.ToUpper(e[2])}}
	}
	w := c52Words[c.Rng.IntN(len(c52Words))]
	if tld {
		w = c52TLDs[c.Rng.IntN(len(c52TLDs))]
	} else if c.Rng.IntN(3) == 0 {
		w += fmt.Sprint(c.Rng.IntN(100))
	}
	return c52Label{w, []string{w, strings.ToUpper(w), strings.ToUpper(w[:1]) + w[1:]}}
}

func c52Spell(c *verifrt.Case, ls []c52Label, plain bool) string {
	var out []string
	for _, l := range ls {
		if plain || c.Rng.IntN(3) != 0 {
			out = append(out, l.canon)
		} else {
			out = append(out, l.variants[c.Rng.IntN(len(l.variants))])
		}
	}
	return strings.Join(out, ".")
}

func c52Canon(ls []c52Label) []string {
	var out []string
	for _, l := range ls {
		out = append(out, l.canon)
	}
	return out
}

func c52RandAddr(c *verifrt.Case, v6 bool) netip.Addr {
	if v6 {
		var b [16]byte
		b[0], b[1], b[2], b[3] = 0x20, 0x01, 0x0d, 0xb8
		for i := 4; i < 16; i++ {
			if c.Rng.IntN(3) == 0 {
				b[i] = byte(c.Rng.IntN(256))
			}
		}
		if c.Rng.IntN(8) == 0 {
			b[0], b[1] = 0xfd, byte(c.Rng.IntN(256))
		}
		return netip.AddrFrom16(b)
	}
	first := []byte{10, 192, 172, 8, 100, 203, 1, 126, 128, 223}[c.Rng.IntN(10)]
	return netip.AddrFrom4([4]byte{first, byte(c.Rng.IntN(256)), byte(c.Rng.IntN(256)), byte(c.Rng.IntN(256))})
}

// c52SpellAddr renders an address; IPv6 in one of several equivalent spellings.
func c52SpellAddr(c *verifrt.Case, a netip.Addr) string {
	if a.Is4() {
		return a.String()
	}
	switch c.Rng.IntN(3) {
	case 0:
		return a.String()
	case 1:
		return strings.ToUpper(a.String())
	}
	b := a.As16()
	var parts []string
	for i := 0; i < 16; i += 2 {
		parts = append(parts, fmt.Sprintf("%x", uint16(b[i])<<8|uint16(b[i+1])))
	}
	return strings.Join(parts, ":") // fully expanded, no "::"
}

func c52Port(c *verifrt.Case) string {
	return []string{"80", "443", "8080", "8443", "3000", "1", "65535"}[c.Rng.IntN(7)]
}

type c52Host struct {
	isIP   bool
	addr   netip.Addr
	name   []string // canonical labels
	text   string   // as put into the URL (no brackets)
	origin string   // how it was derived
}

func c52NextAddr(a netip.Addr, up bool) netip.Addr {
	if up {
		return a.Next()
	}
	return a.Prev()
}

func c52LastAddr(p netip.Prefix) netip.Addr {
	a := p.Addr()
	b := a.AsSlice()
	for i := p.Bits(); i < len(b)*8; i++ {
		b[i/8] |= 1 << (7 - i%8)
	}
	r, _ := netip.AddrFromSlice(b)
	return r
}

func TestVerif_C52(t *testing.T) {
	r := verifrt.Start(t, "C52")
	defer r.Finish()
	r.SetRule("per case one PRNG Config (HTTPProxy/HTTPSProxy with or without scheme or empty, CGI rarely, NO_PROXY of 0-6 structured entries: '*', IPv4/IPv6 [with port], CIDRs, domain / .domain / *.domain [with port], IDN and mixed-case spellings, blanks and empty items) and ~24 request URLs derived from the entries (exact, subdomain, deeper subdomain, parent, name with the entry as a plain string suffix, name extended at the end, same/other/default port, address inside / first outside / last inside a CIDR, neighbour address, other IP family, IPv6 respelled) plus localhost, loopbacks and unrelated hosts, for http and https; non-trivial = URL derived from an entry of a NO_PROXY that has at least one effective entry; distinct by (config, URL)")
	r.Assume("reference decides from the generated entry structure with net/netip; IDN labels come from a fixed table of well-known U-label/A-label pairs")
	r.Assume("not generated because the documentation leaves them open: IPv6 zones, IPv4-mapped IPv6, trailing-dot names, non-numeric ports, bracketed IPv6 without port in NO_PROXY, 'LOCALHOST' in upper case, schemes other than http/https, malformed proxy URLs; with CGI set and an http URL that NO_PROXY excludes both an error and (nil,nil) are accepted")

	nCfg := r.N(4000, 250000)
	r.CasesParallel("config", nCfg, 0, func(c *verifrt.Case) {
		rng := c.Rng
		// ---- proxy values ----
		proxyVal := func() (string, string) {
			host := []string{"proxy.example", "10.9.8.7", "cache.corp.example.com", "[2001:db8::99]"}[rng.IntN(4)]
			hp := host
			if rng.IntN(4) != 0 {
				hp += ":" + []string{"3128", "8080", "1080"}[rng.IntN(3)]
			}
			switch rng.IntN(6) {
			case 0:
				return "", ""
			case 1:
				return hp, "http://" + hp
			case 2:
				return "https://" + hp, "https://" + hp
			case 3:
				return "socks5://" + hp, "socks5://" + hp
			case 4:
				return "http://user:pw@" + hp, "http://user:pw@" + hp
			}
			return "http://" + hp, "http://" + hp
		}
		httpVal, httpWant := proxyVal()
		httpsVal, httpsWant := proxyVal()
		cgi := rng.IntN(10) == 0

		// ---- NO_PROXY ----
		var entries []c52Entry
		var domLabels [][]c52Label // parallel info for domain entries (index -> labels)
		domIdx := map[int]int{}
		ne := rng.IntN(7)
		for i := 0; i < ne; i++ {
			var e c52Entry
			switch k := rng.IntN(20); {
			case k == 0 && rng.IntN(3) == 0:
				e = c52Entry{kind: c52Star, text: "*"}
			case k < 4:
				a := c52RandAddr(c, rng.IntN(3) == 0)
				e = c52Entry{kind: c52IP, addr: a}
				s := c52SpellAddr(c, a)
				if rng.IntN(3) == 0 {
					e.port = c52Port(c)
					if a.Is6() {
						s = "[" + s + "]"
					}
					s += ":" + e.port
				}
				e.text = s
			case k < 8:
				a := c52RandAddr(c, rng.IntN(3) == 0)
				bits := 8 + rng.IntN(25)
				if a.Is6() {
					bits = 16 + rng.IntN(113)
				}
				if rng.IntN(10) == 0 {
					bits = a.BitLen()
				}
				p := netip.PrefixFrom(a, bits)
				e = c52Entry{kind: c52CIDR, prefix: p.Masked()}
				// the written address may have host bits set ("1.2.3.4/8")
				e.text = c52SpellAddr(c, a) + fmt.Sprintf("/%d", bits)
			case k < 18:
				nl := 1 + rng.IntN(3)
				var ls []c52Label
				for j := 0; j < nl-1; j++ {
					ls = append(ls, c52RandLabel(c, false))
				}
				ls = append(ls, c52RandLabel(c, nl > 1 || rng.IntN(2) == 0))
				e = c52Entry{kind: c52Domain, name: c52Canon(ls)}
				s := c52Spell(c, ls, false)
				switch rng.IntN(4) {
				case 0:
					e.subOnly = true
					s = "." + s
				case 1:
					e.subOnly = true
					s = "*." + s
				}
				if rng.IntN(4) == 0 {
					e.port = c52Port(c)
					s += ":" + e.port
				}
				e.text = s
				domIdx[len(entries)] = len(domLabels)
				domLabels = append(domLabels, ls)
			default:
				e = c52Entry{kind: c52Ignored, text: []string{"", " ", ":8080", "  "}[rng.IntN(4)]}
			}
			entries = append(entries, e)
		}
		var texts []string
		for _, e := range entries {
			s := e.text
			if rng.IntN(4) == 0 {
				s = " " + s
			}
			if rng.IntN(4) == 0 {
				s += " "
			}
			texts = append(texts, s)
		}
		noProxy := strings.Join(texts, ",")
		cfg := &httpproxy.Config{HTTPProxy: httpVal, HTTPSProxy: httpsVal, NoProxy: noProxy, CGI: cgi}
		pf := cfg.ProxyFunc()
		effective := 0
		for _, e := range entries {
			if e.kind != c52Ignored {
				effective++
			}
		}

		// ---- hosts ----
		var hosts []c52Host
		addName := func(ls []c52Label, origin string) {
			hosts = append(hosts, c52Host{name: c52Canon(ls), text: c52Spell(c, ls, rng.IntN(2) == 0), origin: origin})
		}
		addIP := func(a netip.Addr, origin string) {
			if !a.IsValid() || a.Is4In6() || a.Zone() != "" {
				return
			}
			hosts = append(hosts, c52Host{isIP: true, addr: a, text: c52SpellAddr(c, a), origin: origin})
		}
		for i, e := range entries {
			switch e.kind {
			case c52Domain:
				ls := domLabels[domIdx[i]]
				addName(ls, "entry-exact")
				addName(append([]c52Label{c52RandLabel(c, false)}, ls...), "entry-subdomain")
				addName(append([]c52Label{c52RandLabel(c, false), c52RandLabel(c, false)}, ls...), "entry-deep-subdomain")
				if len(ls) > 1 {
					addName(ls[1:], "entry-parent")
				}
				// the entry is a suffix of the name as a string, but not on a label boundary
				glued := append([]c52Label{}, ls...)
				glued[0] = c52Label{"not" + ls[0].canon, []string{"not" + ls[0].canon, "NOT" + strings.ToUpper(ls[0].canon)}}
				if !strings.HasPrefix(ls[0].canon, "xn--") {
					addName(glued, "entry-glued-prefix")
				}
				ext := append([]c52Label{}, ls...)
				last := ls[len(ls)-1]
				ext[len(ext)-1] = c52Label{last.canon + "x", []string{last.canon + "x"}}
				addName(ext, "entry-extended-tld")
				addName(append(append([]c52Label{}, ls...), c52RandLabel(c, true)), "entry-as-prefix")
			case c52IP:
				addIP(e.addr, "entry-ip-exact")
				addIP(c52NextAddr(e.addr, rng.IntN(2) == 0), "entry-ip-neighbour")
			case c52CIDR:
				p := e.prefix
				addIP(p.Addr(), "cidr-first")
				addIP(c52LastAddr(p), "cidr-last")
				addIP(c52LastAddr(p).Next(), "cidr-after")
				addIP(p.Addr().Prev(), "cidr-before")
				// random inside
				b := p.Addr().AsSlice()
				for bit := p.Bits(); bit < len(b)*8; bit++ {
					if rng.IntN(2) == 0 {
						b[bit/8] |= 1 << (7 - bit%8)
					}
				}
				in, _ := netip.AddrFromSlice(b)
				addIP(in, "cidr-inside")
			}
		}
		addIP(c52RandAddr(c, false), "random-ipv4")
		addIP(c52RandAddr(c, true), "random-ipv6")
		addName([]c52Label{c52RandLabel(c, false), c52RandLabel(c, true)}, "random-name")
		switch rng.IntN(6) {
		case 0:
			hosts = append(hosts, c52Host{name: []string{"localhost"}, text: "localhost", origin: "localhost"})
		case 1:
			addIP(netip.AddrFrom4([4]byte{127, byte(rng.IntN(256)), byte(rng.IntN(256)), byte(1 + rng.IntN(254))}), "loopback4")
		case 2:
			addIP(netip.MustParseAddr("::1"), "loopback6")
		case 3:
			addName([]c52Label{{"foo", []string{"foo"}}, {"localhost", []string{"localhost"}}}, "sub-of-localhost")
		case 4:
			addName([]c52Label{{"localhost", []string{"localhost"}}, {"example", []string{"example"}}, {"com", []string{"com"}}}, "localhost-prefixed-name")
		}

		// ports of interest
		var entryPorts []string
		for _, e := range entries {
			if e.port != "" {
				entryPorts = append(entryPorts, e.port)
			}
		}

		for _, h := range hosts {
			for _, scheme := range []string{"http", "https"} {
				if rng.IntN(3) == 0 {
					continue
				}
				port := ""
				switch {
				case len(entryPorts) > 0 && rng.IntN(2) == 0:
					port = entryPorts[rng.IntN(len(entryPorts))]
				case rng.IntN(4) == 0:
					port = c52Port(c)
				}
				hostport := h.text
				if h.isIP && h.addr.Is6() {
					hostport = "[" + hostport + "]"
				}
				if port != "" {
					hostport += ":" + port
				}
				effPort := port
				if effPort == "" {
					effPort = map[string]string{"http": "80", "https": "443"}[scheme]
				}
				u := &url.URL{Scheme: scheme, Host: hostport, Path: "/x"}

				// ---- reference ----
				why := ""
				portMiss := false
				switch {
				case !h.isIP && len(h.name) == 1 && h.name[0] == "localhost":
					why = "localhost"
				case h.isIP && h.addr.IsLoopback():
					why = "loopback"
				}
				if why == "" {
					for _, e := range entries {
						portOK := e.port == "" || e.port == effPort
						switch e.kind {
						case c52Star:
							why = "star"
						case c52IP:
							if h.isIP && h.addr == e.addr && portOK {
								why = "ip"
							}
						case c52CIDR:
							if h.isIP && e.prefix.Contains(h.addr) {
								why = "cidr"
							}
						case c52Domain:
							if h.isIP || !portOK || len(h.name) < len(e.name) {
								break
							}
							tail := h.name[len(h.name)-len(e.name):]
							if strings.Join(tail, ".") != strings.Join(e.name, ".") {
								break
							}
							if len(h.name) > len(e.name) {
								why = "subdomain"
							} else if !e.subOnly {
								why = "domain-exact"
							}
						}
						if why != "" {
							break
						}
					}
				}
				if why == "" {
					// would an entry have matched but for its port restriction?
					for _, e := range entries {
						if e.port == "" || e.port == effPort {
							continue
						}
						if e.kind == c52IP && h.isIP && h.addr == e.addr {
							portMiss = true
						}
						if e.kind == c52Domain && !h.isIP && len(h.name) >= len(e.name) &&
							strings.Join(h.name[len(h.name)-len(e.name):], ".") == strings.Join(e.name, ".") && (len(h.name) > len(e.name) || !e.subOnly) {
							portMiss = true
						}
					}
				}
				bypass := why != ""
				val, want := httpVal, httpWant
				if scheme == "https" {
					val, want = httpsVal, httpsWant
				}

				desc := map[string]any{"HTTPProxy": httpVal, "HTTPSProxy": httpsVal, "NoProxy": noProxy, "CGI": cgi, "url": u.String(), "host_origin": h.origin, "reference_bypass_reason": why}
				c.Describe(desc)
				got, err := pf(u)
				gotS := "<nil>"
				if got != nil {
					gotS = got.String()
				}
				r.Event("urls_checked", 1)
				switch {
				case val == "":
					if got != nil || err != nil {
						c.Violation("proxy-without-setting", "%v: got (%s,%v) but no proxy is configured for %s", desc, gotS, err, scheme)
					}
					r.Event("no_proxy_configured", 1)
				case scheme == "http" && cgi:
					if err == nil && !(bypass && got == nil) {
						c.Violation("cgi-http-proxy-not-refused", "%v: got (%s,nil), want an error", desc, gotS)
					}
					r.Event("cgi_refusals_checked", 1)
				case bypass:
					if got != nil || err != nil {
						c.Violation("noproxy-ignored-"+why, "%v: got (%s,%v), want no proxy because of %s", desc, gotS, err, why)
					}
					r.Event("bypass_"+why, 1)
				default:
					if err != nil || got == nil {
						c.Violation("proxy-not-used-"+c52OriginClass(h.origin), "%v: got (%s,%v), want %s (no NO_PROXY entry matches; host derived as %s)", desc, gotS, err, want, h.origin)
					} else if gotS != want {
						c.Violation("wrong-proxy-url", "%v: got %s want %s", desc, gotS, want)
					}
					r.Event("proxied", 1)
					if portMiss {
						r.Event("proxied_only_because_of_port", 1)
					}
					r.Event("proxied_"+h.origin, 1)
				}
				derived := !strings.HasPrefix(h.origin, "random") && effective > 0
				r.Eval(derived, httpVal, "|", httpsVal, "|", noProxy, "|", cgi, "|", u.String())
			}
		}
		if c.Index < 3 {
			r.Sample(map[string]any{"HTTPProxy": httpVal, "HTTPSProxy": httpsVal, "NoProxy": noProxy, "CGI": cgi, "hosts": len(hosts)})
		}
		r.Event("configs", 1)
	})
	for _, k := range []string{"bypass_ip", "bypass_cidr", "bypass_domain-exact", "bypass_subdomain", "bypass_loopback", "bypass_localhost", "bypass_star",
		"proxied_entry-glued-prefix", "proxied_entry-parent", "proxied_cidr-after", "proxied_cidr-before", "proxied_entry-ip-neighbour", "proxied_entry-exact", "proxied_only_because_of_port", "cgi_refusals_checked"} {
		r.Require(k, 20)
	}
}

func c52OriginClass(origin string) string {
	switch {
	case strings.HasPrefix(origin, "cidr"):
		return "ip-outside-cidr"
	case strings.HasPrefix(origin, "entry-ip"), strings.HasPrefix(origin, "random-ip"), strings.HasPrefix(origin, "loopback"):
		return "ip"
	}
	return "name-" + strings.TrimPrefix(origin, "entry-")
}
