//go:build verif && !race

package websocket

const vRaceBuild = false
