//go:build verif

package websocket

// C59: WebSocket messages cross the connection intact.
//
// Shape: WIRE + REF. A package client (NewClient) talks to a package server
// (Server / Handler .ServeHTTP through a harness http.Hijacker) over an in-memory duplex
// connection whose two directions are recorded byte for byte. After the session the
// recorded bytes are parsed by the harness's own RFC 6455 section 5.2 frame reader
// (vParseFrames below, written from the RFC; the package's frame code is not used) and
// compared with the script that generated the session; the receiving endpoints compare
// what Receive/Read handed out with the same script. Scripted raw peers (harness-written
// handshake and frames) provide the role-violating frames, fragmented messages and pings.
//
// Every session runs in a testing/synctest bubble: the only blocking primitive of the
// in-memory connection is sync.Cond.Wait, so synctest.Wait() detects "nobody can make
// progress any more" exactly, and a receiver that is stuck is reported as a stall instead
// of hanging until a wall-clock timeout.

import (
	"bufio"
	"bytes"
	"crypto/sha1"
	"encoding/base64"
	"encoding/binary"
	"encoding/json"
	"fmt"
	"hash/fnv"
	"io"
	"math/rand/v2"
	"net"
	"net/http"
	"runtime/debug"
	"strings"
	"sync"
	"sync/atomic"
	"testing"
	"testing/synctest"
	"time"
	"unicode/utf8"

	"golang.org/x/net/internal/verifrt"
)

// ---------------------------------------------------------------------------------------
// in-memory duplex connection with a tap

type vHalf struct {
	mu      sync.Mutex
	cond    *sync.Cond
	chunks  [][]byte // everything ever written, one slice per Write (the tap)
	next    int      // first chunk with unread bytes
	off     int      // read offset inside chunks[next]
	total   int
	wclosed bool // writer closed: reader sees EOF after draining
	rclosed bool // reader closed locally
}

func newVHalf() *vHalf {
	h := &vHalf{}
	h.cond = sync.NewCond(&h.mu)
	return h
}

func (h *vHalf) write(p []byte) {
	if len(p) == 0 {
		return
	}
	cp := make([]byte, len(p))
	copy(cp, p)
	h.mu.Lock()
	h.chunks = append(h.chunks, cp)
	h.total += len(cp)
	h.mu.Unlock()
	h.cond.Broadcast()
}

func (h *vHalf) read(p []byte, limit int) (int, error) {
	if len(p) == 0 {
		return 0, nil
	}
	h.mu.Lock()
	defer h.mu.Unlock()
	for h.next == len(h.chunks) && !h.wclosed && !h.rclosed {
		h.cond.Wait()
	}
	if h.rclosed {
		return 0, io.ErrClosedPipe
	}
	if h.next == len(h.chunks) {
		return 0, io.EOF
	}
	if limit > 0 && len(p) > limit {
		p = p[:limit]
	}
	n := 0
	for n < len(p) && h.next < len(h.chunks) {
		k := copy(p[n:], h.chunks[h.next][h.off:])
		n += k
		h.off += k
		if h.off == len(h.chunks[h.next]) {
			h.next++
			h.off = 0
		}
	}
	return n, nil
}

// snapshot joins the tap into one byte string.
func (h *vHalf) snapshot() []byte {
	h.mu.Lock()
	defer h.mu.Unlock()
	out := make([]byte, 0, h.total)
	for _, c := range h.chunks {
		out = append(out, c...)
	}
	return out
}

// vConn is one end. Writes never block (unbounded buffer) and succeed even after the peer
// went away (like a TCP send before the RST is seen); reads hand out PRNG-sized pieces.
type vConn struct {
	rd, wr *vHalf
	mu     sync.Mutex
	rng    *rand.Rand
	mode   int // 0 whole, 1 tiny pieces (1..7), 2 medium pieces (1..1500)
	closed atomic.Bool
}

func (c *vConn) Read(p []byte) (int, error) {
	limit := 0
	if c.mode != 0 {
		c.mu.Lock()
		if c.mode == 1 {
			limit = 1 + c.rng.IntN(7)
		} else {
			limit = 1 + c.rng.IntN(1500)
		}
		c.mu.Unlock()
	}
	return c.rd.read(p, limit)
}

func (c *vConn) Write(p []byte) (int, error) {
	if c.closed.Load() {
		return 0, io.ErrClosedPipe
	}
	c.wr.write(p)
	return len(p), nil
}

func (c *vConn) Close() error {
	c.closed.Store(true)
	c.wr.mu.Lock()
	c.wr.wclosed = true
	c.wr.mu.Unlock()
	c.wr.cond.Broadcast()
	c.rd.mu.Lock()
	c.rd.rclosed = true
	c.rd.mu.Unlock()
	c.rd.cond.Broadcast()
	return nil
}

type vAddr struct{}

func (vAddr) Network() string { return "verif" }
func (vAddr) String() string  { return "verif" }

func (c *vConn) LocalAddr() net.Addr              { return vAddr{} }
func (c *vConn) RemoteAddr() net.Addr             { return vAddr{} }
func (c *vConn) SetDeadline(time.Time) error      { return nil }
func (c *vConn) SetReadDeadline(time.Time) error  { return nil }
func (c *vConn) SetWriteDeadline(time.Time) error { return nil }

// vHijackRW is the http.ResponseWriter handed to Server.ServeHTTP / Handler.ServeHTTP.
type vHijackRW struct {
	conn  net.Conn
	rw    *bufio.ReadWriter
	hdr   http.Header
	wrote bytes.Buffer
}

func (w *vHijackRW) Header() http.Header {
	if w.hdr == nil {
		w.hdr = http.Header{}
	}
	return w.hdr
}
func (w *vHijackRW) Write(b []byte) (int, error) { return w.wrote.Write(b) }
func (w *vHijackRW) WriteHeader(int)             {}
func (w *vHijackRW) Hijack() (net.Conn, *bufio.ReadWriter, error) {
	return w.conn, w.rw, nil
}

// ---------------------------------------------------------------------------------------
// independent RFC 6455 section 5.2 framing

type vFrame struct {
	fin     bool
	rsv     byte
	op      byte
	masked  bool
	key     [4]byte
	lenForm int    // 7, 16 or 64
	payload []byte // unmasked
}

// vParseFrames parses a complete byte stream into frames; a non-empty string says why the
// stream is not a sequence of whole frames.
func vParseFrames(b []byte) ([]vFrame, string) {
	var out []vFrame
	for len(b) > 0 {
		if len(b) < 2 {
			return out, "truncated frame header"
		}
		f := vFrame{fin: b[0]&0x80 != 0, rsv: (b[0] >> 4) & 7, op: b[0] & 0x0f, masked: b[1]&0x80 != 0}
		l7 := b[1] & 0x7f
		p := 2
		var n uint64
		switch {
		case l7 < 126:
			n, f.lenForm = uint64(l7), 7
		case l7 == 126:
			if len(b) < p+2 {
				return out, "truncated 16-bit length"
			}
			n, f.lenForm = uint64(binary.BigEndian.Uint16(b[p:])), 16
			p += 2
		default:
			if len(b) < p+8 {
				return out, "truncated 64-bit length"
			}
			n, f.lenForm = binary.BigEndian.Uint64(b[p:]), 64
			p += 8
			if n>>63 != 0 {
				return out, "64-bit length with most significant bit set"
			}
		}
		if f.masked {
			if len(b) < p+4 {
				return out, "truncated masking key"
			}
			copy(f.key[:], b[p:p+4])
			p += 4
		}
		if uint64(len(b)-p) < n {
			return out, fmt.Sprintf("truncated payload: header announces %d bytes, %d present", n, len(b)-p)
		}
		f.payload = b[p : p+int(n) : p+int(n)]
		if f.masked {
			f.payload = make([]byte, n)
			for i, x := range b[p : p+int(n)] {
				f.payload[i] = x ^ f.key[i&3]
			}
		}
		out = append(out, f)
		b = b[p+int(n):]
	}
	return out, ""
}

// vAppendFrame writes one frame with the minimal length form.
func vAppendFrame(dst []byte, fin bool, op byte, masked bool, key [4]byte, payload []byte) []byte {
	b0 := op
	if fin {
		b0 |= 0x80
	}
	dst = append(dst, b0)
	var m byte
	if masked {
		m = 0x80
	}
	n := len(payload)
	switch {
	case n <= 125:
		dst = append(dst, m|byte(n))
	case n <= 65535:
		dst = append(dst, m|126, byte(n>>8), byte(n))
	default:
		dst = append(dst, m|127)
		dst = binary.BigEndian.AppendUint64(dst, uint64(n))
	}
	if !masked {
		return append(dst, payload...)
	}
	dst = append(dst, key[:]...)
	for i, x := range payload {
		dst = append(dst, x^key[i&3])
	}
	return dst
}

const vGUID = "258EAFA5-E914-47DA-95CA-C5AB0DC85B11" // RFC 6455 section 1.3

func vAccept(key string) string {
	h := sha1.Sum([]byte(key + vGUID))
	return base64.StdEncoding.EncodeToString(h[:])
}

// ---------------------------------------------------------------------------------------
// scripts

const (
	vSendMessage = iota // Message.Send with string / []byte
	vSendWrite          // Conn.PayloadType + Conn.Write
	vSendJSON           // JSON.Send
)

const (
	vRecvTyped   = iota // Message.Receive into *string / *[]byte
	vRecvCapture        // Codec whose Unmarshal records payload type and bytes
	vRecvRead           // Conn.Read
	vRecvJSON           // JSON.Receive
	vRecvMixed          // per message: Conn.Read of exactly the message, or Codec.Receive
)

var vSendNames = []string{"Message.Send", "Conn.Write", "JSON.Send"}
var vRecvNames = []string{"Message.Receive", "Codec.Receive", "Conn.Read", "JSON.Receive", "Conn.Read/Codec.Receive mixed"}

type vJSONMsg struct {
	Msg   string
	Count int64
	Blob  []byte
	Tags  []string
}

type vItem struct {
	kind     byte // 'd' data, 'p' ping, 'o' unsolicited pong, 'x' frame with the wrong masking for the sender's role
	typ      byte
	payload  []byte
	frags    []int // raw sender only: fragment sizes (nil: one frame)
	oversize bool  // larger than the receiver's MaxPayloadBytes
	jsonVal  *vJSONMsg
	// kind 'x' only: the wrongly masked frame is this control frame (PingFrame / PongFrame; 0: it
	// is the data frame itself); typ/payload then follow correctly masked, as a canary that must
	// never be delivered because the peer has to be disconnected first
	ctl        byte
	ctlPayload []byte
}

type vDir struct {
	name       string // "c2s" or "s2c"
	items      []vItem
	sendAPI    int
	recvAPI    int
	maxPayload int      // receiver's MaxPayloadBytes (0: package default)
	raw        bool     // sender is the scripted raw peer
	rawBytes   []byte   // frames the raw peer writes
	pings      [][]byte // ping payloads in wire order
	expectEnd  bool     // receiver finally expects the end of the stream (close)
	readSeed   uint64   // PRNG seed for the Conn.Read piece sizes

	// results, written by the endpoint goroutines before they report done
	sendComplete atomic.Bool
	recvComplete atomic.Bool
}

const vUnsol = "UNSOL:"

var vBoundaries = []int{0, 1, 124, 125, 126, 127, 128, 65534, 65535, 65536, 65537}

func vFill(rng *rand.Rand, b []byte) {
	i := 0
	for ; i+8 <= len(b); i += 8 {
		binary.LittleEndian.PutUint64(b[i:], rng.Uint64())
	}
	for ; i < len(b); i++ {
		b[i] = byte(rng.Uint32())
	}
}

// vText returns exactly n bytes of valid UTF-8.
func vText(rng *rand.Rand, n int) []byte {
	b := make([]byte, 0, n)
	multi := n
	if multi > 2048 {
		multi = 2048
	}
	for len(b) < multi {
		rem := n - len(b)
		size := []int{1, 1, 1, 1, 1, 1, 2, 2, 3, 4}[rng.IntN(10)]
		if size > rem {
			size = 1
		}
		var r rune
		switch size {
		case 1:
			r = rune(0x20 + rng.IntN(0x5f))
		case 2:
			r = rune(0x80 + rng.IntN(0x780))
		case 3:
			r = rune(0x800 + rng.IntN(0xd800-0x800))
		default:
			r = rune(0x10000 + rng.IntN(0x100000))
		}
		b = utf8.AppendRune(b, r)
	}
	if len(b) < n {
		rest := make([]byte, n-len(b))
		vFill(rng, rest)
		for i := range rest {
			rest[i] = 0x20 + rest[i]%0x5f
		}
		b = append(b, rest...)
	}
	return b
}

func vPayload(rng *rand.Rand, typ byte, n int) []byte {
	if typ == TextFrame {
		return vText(rng, n)
	}
	b := make([]byte, n)
	vFill(rng, b)
	return b
}

func vLen(rng *rand.Rand, thorough bool) int {
	if vRaceBuild {
		// small volume: under the race detector large buffers are very expensive
		switch x := rng.IntN(100); {
		case x < 30:
			return vBoundaries[rng.IntN(7)]
		case x < 35:
			return vBoundaries[7+rng.IntN(4)]
		case x < 87:
			return rng.IntN(300)
		case x < 97:
			return 300 + rng.IntN(8000)
		default:
			return 300 + rng.IntN(70000)
		}
	}
	switch x := rng.IntN(100); {
	case x < 30:
		return vBoundaries[rng.IntN(len(vBoundaries))]
	case x < 65:
		return rng.IntN(300)
	case x < 88:
		return 300 + rng.IntN(70000)
	case x < 98:
		return 65000 + rng.IntN(1100)
	default:
		if thorough && rng.IntN(4) == 0 {
			return 4<<20 + rng.IntN(3) - 1
		}
		return 1<<20 + rng.IntN(3) - 1
	}
}

func vType(rng *rand.Rand) byte {
	if rng.IntN(2) == 0 {
		return TextFrame
	}
	return BinaryFrame
}

func vCtlPayload(rng *rand.Rand) []byte {
	n := []int{0, 1, 4, 5, 124, 125}[rng.IntN(6)]
	if rng.IntN(2) == 0 {
		n = rng.IntN(126)
	}
	b := make([]byte, n)
	vFill(rng, b)
	if len(b) > 0 && b[0] == 'U' { // keep clear of the unsolicited-pong marker
		b[0] = 'V'
	}
	return b
}

func vUnsolPayload(rng *rand.Rand) []byte {
	p := make([]byte, rng.IntN(20))
	vFill(rng, p)
	return append([]byte(vUnsol), p...)
}

func vJSONItem(rng *rand.Rand, size int) vItem {
	v := &vJSONMsg{Msg: string(vText(rng, size/2)), Count: int64(rng.Uint64())}
	v.Blob = make([]byte, size/3)
	vFill(rng, v.Blob)
	for i := rng.IntN(4); i > 0; i-- {
		v.Tags = append(v.Tags, string(vText(rng, rng.IntN(9))))
	}
	p, err := json.Marshal(v)
	if err != nil {
		panic(err)
	}
	return vItem{kind: 'd', typ: TextFrame, payload: p, jsonVal: v}
}

// vGenDir makes the script for a direction whose sender is a package endpoint.
func vGenDir(rng *rand.Rand, name string, thorough bool, nmsg int) *vDir {
	d := &vDir{name: name, readSeed: rng.Uint64()}
	switch rng.IntN(5) {
	case 0:
		d.sendAPI, d.recvAPI = vSendJSON, vRecvJSON
	default:
		d.sendAPI = rng.IntN(2)
		d.recvAPI = rng.IntN(3)
		if rng.IntN(4) == 0 {
			d.recvAPI = vRecvMixed
		}
	}
	for i := 0; i < nmsg; i++ {
		for rng.IntN(4) == 0 {
			if rng.IntN(3) == 0 {
				d.items = append(d.items, vItem{kind: 'o', payload: vUnsolPayload(rng)})
			} else {
				d.items = append(d.items, vItem{kind: 'p', payload: vCtlPayload(rng)})
			}
		}
		n := vLen(rng, thorough)
		if d.sendAPI == vSendJSON {
			if n > 200000 {
				n = 200000
			}
			d.items = append(d.items, vJSONItem(rng, n))
		} else {
			t := vType(rng)
			d.items = append(d.items, vItem{kind: 'd', typ: t, payload: vPayload(rng, t, n)})
		}
	}
	return d
}

// vGenLimitDir: the receiver has MaxPayloadBytes = m; messages straddle the limit.
func vGenLimitDir(rng *rand.Rand, name string) *vDir {
	d := &vDir{name: name, readSeed: rng.Uint64()}
	m := []int{1, 2, 10, 124, 125, 126, 127, 1000, 4095, 4096, 4097, 65535, 65536, 65537, 70000}[rng.IntN(15)]
	if rng.IntN(3) == 0 {
		m = 1 + rng.IntN(70000)
	}
	over := 70000
	if vRaceBuild && rng.IntN(6) != 0 { // small volume under the race detector
		m = []int{1, 2, 10, 124, 125, 126, 127, 1000, 4095, 4096, 4097}[rng.IntN(11)]
		if rng.IntN(3) == 0 {
			m = 1 + rng.IntN(8000)
		}
		over = 6000
	}
	d.maxPayload = m
	if rng.IntN(5) == 0 {
		d.sendAPI, d.recvAPI = vSendJSON, vRecvJSON
	} else {
		d.sendAPI = rng.IntN(2)
		d.recvAPI = rng.IntN(2) // codec-based receivers only: the limit is a Codec.Receive feature
	}
	nmsg := 3 + rng.IntN(8)
	for i := 0; i < nmsg; i++ {
		if rng.IntN(5) == 0 {
			d.items = append(d.items, vItem{kind: 'p', payload: vCtlPayload(rng)})
		}
		var n int
		switch rng.IntN(8) {
		case 0:
			n = m
		case 1:
			n = m + 1
		case 2:
			n = m - 1
		case 3, 4:
			n = m + 1 + rng.IntN(over)
		case 5:
			n = m + []int{2, 125, 126, 127, 4096, 65535, 65536, 69999, 70000}[rng.IntN(9)]
			if over < 70000 {
				n = m + []int{2, 125, 126, 127, 4096}[rng.IntN(5)]
			}
		default:
			n = rng.IntN(m + 1)
		}
		if n < 0 {
			n = 0
		}
		var it vItem
		if d.sendAPI == vSendJSON {
			it = vJSONItem(rng, n)
		} else {
			t := vType(rng)
			it = vItem{kind: 'd', typ: t, payload: vPayload(rng, t, n)}
		}
		it.oversize = len(it.payload) > m
		d.items = append(d.items, it)
	}
	// always finish with a message that fits, so that the last refusal has a successor
	t := vType(rng)
	if d.sendAPI == vSendJSON {
		d.items = append(d.items, vJSONItem(rng, 0))
		last := &d.items[len(d.items)-1]
		last.oversize = len(last.payload) > m
	} else {
		d.items = append(d.items, vItem{kind: 'd', typ: t, payload: vPayload(rng, t, rng.IntN(m+1))})
	}
	return d
}

// vGenRawDir: the sender is the scripted raw peer (masked says which role it plays
// correctly); messages may be fragmented with pings between the fragments, and the
// script may end with one frame that has the wrong masking for the role.
func vGenRawDir(rng *rand.Rand, name string, masked bool, thorough bool) *vDir {
	d := &vDir{name: name, raw: true, readSeed: rng.Uint64()}
	d.recvAPI = vRecvCapture
	switch rng.IntN(4) {
	case 0:
		d.recvAPI = vRecvRead
	case 1:
		d.recvAPI = vRecvMixed
	}
	nmsg := 1 + rng.IntN(6)
	for i := 0; i < nmsg; i++ {
		if rng.IntN(3) == 0 {
			d.items = append(d.items, vItem{kind: 'p', payload: vCtlPayload(rng)})
		}
		if rng.IntN(8) == 0 {
			d.items = append(d.items, vItem{kind: 'o', payload: vUnsolPayload(rng)})
		}
		t := vType(rng)
		n := vLen(rng, thorough)
		if n > 200000 {
			n = 200000
		}
		it := vItem{kind: 'd', typ: t}
		if rng.IntN(2) == 0 { // fragment
			k := 2 + rng.IntN(4)
			rest := n
			for j := 0; j < k; j++ {
				sz := 0
				if j == k-1 {
					sz = rest
				} else if rest > 0 {
					switch rng.IntN(4) {
					case 0:
						sz = 0
					case 1:
						sz = rng.IntN(rest + 1)
					default:
						sz = rng.IntN(rest/2 + 1)
					}
					if b := vBoundaries[rng.IntN(len(vBoundaries))]; rng.IntN(3) == 0 && b <= rest {
						sz = b
					}
				}
				it.frags = append(it.frags, sz)
				rest -= sz
			}
		}
		if t == TextFrame && len(it.frags) > 0 {
			// fragments may split a rune; keep the text ASCII so that every fragment is valid on its own
			p := make([]byte, n)
			vFill(rng, p)
			for i := range p {
				p[i] = 0x20 + p[i]%0x5f
			}
			it.payload = p
		} else {
			it.payload = vPayload(rng, t, n)
		}
		d.items = append(d.items, it)
	}
	if rng.IntN(2) == 0 {
		t := vType(rng)
		it := vItem{kind: 'x', typ: t, payload: vPayload(rng, t, vBoundaries[rng.IntN(7)])}
		if rng.IntN(2) == 0 {
			it.ctl = []byte{PingFrame, PongFrame}[rng.IntN(2)]
			it.ctlPayload = vCtlPayload(rng)
			if len(it.payload) == 0 {
				it.payload = vPayload(rng, t, 6)
			}
		}
		d.items = append(d.items, it)
	}
	// serialise
	key := func() (k [4]byte) {
		binary.LittleEndian.PutUint32(k[:], rng.Uint32())
		return
	}
	var out []byte
	violated := false
	for i := range d.items {
		it := &d.items[i]
		switch it.kind {
		case 'p':
			out = vAppendFrame(out, true, PingFrame, masked, key(), it.payload)
			d.pings = append(d.pings, it.payload)
		case 'o':
			out = vAppendFrame(out, true, PongFrame, masked, key(), it.payload)
		case 'x':
			if it.ctl != 0 {
				out = vAppendFrame(out, true, it.ctl, !masked, key(), it.ctlPayload)
				out = vAppendFrame(out, true, it.typ, masked, key(), it.payload)
			} else {
				out = vAppendFrame(out, true, it.typ, !masked, key(), it.payload)
			}
			violated = true
		case 'd':
			if it.frags == nil {
				out = vAppendFrame(out, true, it.typ, masked, key(), it.payload)
				break
			}
			off := 0
			for j, sz := range it.frags {
				op := byte(ContinuationFrame)
				if j == 0 {
					op = it.typ
				} else if rng.IntN(3) == 0 {
					pp := vCtlPayload(rng)
					out = vAppendFrame(out, true, PingFrame, masked, key(), pp)
					d.pings = append(d.pings, pp)
				}
				out = vAppendFrame(out, j == len(it.frags)-1, op, masked, key(), it.payload[off:off+sz])
				off += sz
			}
		}
	}
	if !violated {
		out = vAppendFrame(out, true, CloseFrame, masked, key(), []byte{0x03, 0xe8})
		d.expectEnd = true
	}
	d.rawBytes = out
	return d
}

func vFinishPkgDir(d *vDir) {
	for _, it := range d.items {
		if it.kind == 'p' {
			d.pings = append(d.pings, it.payload)
		}
	}
}

// ---------------------------------------------------------------------------------------
// sessions

type vSession struct {
	r    *verifrt.R
	c    *verifrt.Case
	kind string // "pkg-pkg", "limit", "rawclient", "rawserver"
	c2s  *vDir
	s2c  *vDir

	useHandlerType bool // Handler(h).ServeHTTP (origin check) instead of Server{}.ServeHTTP
	serverCloses   bool
	modeCli        int
	modeSrv        int
	seedCli        uint64
	seedSrv        uint64

	mu      sync.Mutex
	stages  map[string]string
	stalled atomic.Bool // after a stall the forced close makes everything fail: no more violations
}

func (s *vSession) stage(who, format string, a ...any) {
	s.mu.Lock()
	s.stages[who] = fmt.Sprintf(format, a...)
	s.mu.Unlock()
}

func (s *vSession) violation(key, format string, a ...any) {
	if s.stalled.Load() {
		return
	}
	s.c.Violation(key, "[%s session] "+format, append([]any{s.kind}, a...)...)
}

func (s *vSession) guard(who string) {
	if e := recover(); e != nil {
		st := string(debug.Stack())
		fn := "?"
		for _, ln := range strings.Split(st, "\n") {
			if strings.HasPrefix(ln, "golang.org/x/net/websocket.") && !strings.Contains(ln, "websocket.v") &&
				!strings.Contains(ln, "websocket.(*v") && !strings.Contains(ln, "Verif") {
				fn = strings.TrimPrefix(ln, "golang.org/x/net/websocket.")
				if j := strings.LastIndex(fn, "("); j > 0 {
					fn = fn[:j]
				}
				break
			}
		}
		s.c.Violation("panic-in-"+who+"@"+fn, "panic in %s goroutine: %v\n%s", who, e, st)
	}
}

func vShort(b []byte) string {
	if len(b) <= 24 {
		return fmt.Sprintf("%x", b)
	}
	return fmt.Sprintf("%x…%x(len %d)", b[:12], b[len(b)-8:], len(b))
}

func vFirstDiff(a, b []byte) int {
	n := len(a)
	if len(b) < n {
		n = len(b)
	}
	for i := 0; i < n; i++ {
		if a[i] != b[i] {
			return i
		}
	}
	if len(a) != len(b) {
		return n
	}
	return -1
}

type vCaptured struct {
	typ  byte
	data []byte
}

var vCapture = Codec{
	Marshal: func(v interface{}) ([]byte, byte, error) { return nil, UnknownFrame, ErrNotSupported },
	Unmarshal: func(data []byte, pt byte, v interface{}) error {
		c := v.(*vCaptured)
		c.typ, c.data = pt, data
		return nil
	},
}

func vWriteCtl(ws *Conn, op byte, p []byte) error {
	ws.wio.Lock()
	defer ws.wio.Unlock()
	w, err := ws.frameWriterFactory.NewFrameWriter(op)
	if err != nil {
		return err
	}
	_, err = w.Write(p)
	w.Close()
	return err
}

// send runs the sender half of a package endpoint.
func (s *vSession) send(ws *Conn, d *vDir, who string) {
	for i := range d.items {
		it := &d.items[i]
		s.stage(who+"-send", "item %d/%d kind %c len %d", i, len(d.items), it.kind, len(it.payload))
		var err error
		switch it.kind {
		case 'p':
			err = vWriteCtl(ws, PingFrame, it.payload)
		case 'o':
			err = vWriteCtl(ws, PongFrame, it.payload)
		case 'd':
			switch d.sendAPI {
			case vSendMessage:
				if it.typ == TextFrame {
					err = Message.Send(ws, string(it.payload))
				} else {
					err = Message.Send(ws, it.payload)
				}
			case vSendWrite:
				ws.PayloadType = it.typ
				var n int
				n, err = ws.Write(it.payload)
				if err == nil && n != len(it.payload) {
					s.violation("write-short-count", "%s %s: Conn.Write of %d bytes returned n=%d, nil", who, d.name, len(it.payload), n)
				}
			case vSendJSON:
				err = JSON.Send(ws, it.jsonVal)
			}
		}
		if err != nil {
			s.violation("send-error", "%s %s item %d (kind %c, %d bytes) via %s: %v", who, d.name, i, it.kind, len(it.payload), vSendNames[d.sendAPI], err)
			return
		}
	}
	d.sendComplete.Store(true)
	s.stage(who+"-send", "finished")
}

// recvOne receives one frame's worth through the direction's codec API and returns what
// the application got: payload type as far as the API exposes it (0 if it does not).
func (s *vSession) recvOne(ws *Conn, d *vDir, it *vItem, want []byte, rng *rand.Rand) (typ byte, data []byte, jv *vJSONMsg, err error) {
	api := d.recvAPI
	if api == vRecvMixed {
		// Conn.Read only for a whole, non-empty, unfragmented message that fits (it consumes a
		// frame only when it needs bytes, and has no notion of a refused message)
		api = vRecvCapture
		if it.frags == nil && len(want) > 0 && !it.oversize && rng.IntN(2) == 0 {
			api = vRecvRead
			s.r.Event("mixed_receiver_messages_taken_with_conn_read", 1)
		} else {
			s.r.Event("mixed_receiver_messages_taken_with_codec_receive", 1)
		}
	}
	switch api {
	case vRecvTyped:
		if it.typ == TextFrame {
			var str string
			err = Message.Receive(ws, &str)
			return 0, []byte(str), nil, err
		}
		var b []byte
		err = Message.Receive(ws, &b)
		return 0, b, nil, err
	case vRecvCapture:
		var c vCaptured
		err = vCapture.Receive(ws, &c)
		return c.typ, c.data, nil, err
	case vRecvJSON:
		var v vJSONMsg
		err = JSON.Receive(ws, &v)
		return 0, nil, &v, err
	case vRecvRead:
		buf := make([]byte, len(want))
		off := 0
		for off < len(buf) {
			k := len(buf) - off
			switch rng.IntN(4) {
			case 0:
				k = 1 + rng.IntN(16)
			case 1:
				k = 1 + rng.IntN(5000)
			}
			if k > len(buf)-off {
				k = len(buf) - off
			}
			n, e := ws.Read(buf[off : off+k])
			off += n
			if e != nil {
				return 0, buf[:off], nil, e
			}
			if n == 0 {
				return 0, buf[:off], nil, fmt.Errorf("Conn.Read returned 0, nil for a %d-byte buffer", k)
			}
		}
		return 0, buf, nil, nil
	}
	panic("bad recv api")
}

func vJSONEqual(a, b *vJSONMsg) bool {
	if a.Msg != b.Msg || a.Count != b.Count || !bytes.Equal(a.Blob, b.Blob) || len(a.Tags) != len(b.Tags) {
		return false
	}
	for i := range a.Tags {
		if a.Tags[i] != b.Tags[i] {
			return false
		}
	}
	return true
}

// recv runs the receiver half of a package endpoint and compares with the script.
func (s *vSession) recv(ws *Conn, d *vDir, who string) {
	rng := rand.New(rand.NewPCG(d.readSeed, 59))
	afterOversize := false
	r := s.r
	api := vRecvNames[d.recvAPI]
	for i := range d.items {
		it := &d.items[i]
		if it.kind == 'p' || it.kind == 'o' {
			continue
		}
		s.stage(who+"-recv", "waiting for item %d/%d kind %c len %d oversize=%v via %s", i, len(d.items), it.kind, len(it.payload), it.oversize, api)
		if it.kind == 'x' {
			// a frame with the wrong masking for the peer's role: must not be delivered
			var data []byte
			var err error
			if d.recvAPI == vRecvRead {
				data = make([]byte, len(it.payload)+1)
				var n int
				n, err = ws.Read(data)
				data = data[:n]
			} else {
				_, data, _, err = s.recvOne(ws, d, it, it.payload, rng)
			}
			if err == nil && it.ctl != 0 {
				what := map[byte]string{PingFrame: "PING", PongFrame: "PONG"}[it.ctl]
				if who == "server" {
					s.violation("unmasked-control-frame-accepted-by-server", "server %s delivered %d bytes (%s) of the data frame that FOLLOWED an unmasked %s (%d-byte payload) from the client: the peer was not disconnected", api, len(data), vShort(data), what, len(it.ctlPayload))
				} else {
					s.violation("masked-control-frame-accepted-by-client", "client %s delivered %d bytes (%s) of the data frame that FOLLOWED a masked %s (%d-byte payload) from the server: the peer was not disconnected", api, len(data), vShort(data), what, len(it.ctlPayload))
				}
			} else if err == nil {
				if who == "server" {
					s.violation("unmasked-frame-accepted-by-server", "server %s delivered %d bytes (%s) of an UNMASKED client frame without error", api, len(data), vShort(data))
				} else {
					s.violation("masked-frame-accepted-by-client", "client %s delivered %d bytes (%s) of a MASKED server frame without error", api, len(data), vShort(data))
				}
			} else if who == "server" {
				r.Event("unmasked_frame_refused_by_server", 1)
				if it.ctl != 0 {
					r.Event("wrongly_masked_control_frame_refused", 1)
				}
			} else {
				r.Event("masked_frame_refused_by_client", 1)
				if it.ctl != 0 {
					r.Event("wrongly_masked_control_frame_refused", 1)
				}
			}
			d.recvComplete.Store(true)
			s.stage(who+"-recv", "finished (after role violation)")
			return
		}
		parts := [][]byte{it.payload}
		if it.frags != nil && d.recvAPI != vRecvRead { // codec receivers hand out one frame at a time
			parts = parts[:0]
			off := 0
			for _, sz := range it.frags {
				parts = append(parts, it.payload[off:off+sz])
				off += sz
			}
			r.Event("fragmented_messages_received", 1)
		} else if it.frags != nil {
			r.Event("fragmented_messages_received", 1)
		}
		for pi, want := range parts {
			typ, data, jv, err := s.recvOne(ws, d, it, want, rng)
			if it.oversize {
				if err == nil {
					s.violation("oversize-message-accepted", "%s %s item %d: %d-byte payload with MaxPayloadBytes=%d was delivered by %s (%d bytes)", who, d.name, i, len(it.payload), d.maxPayload, api, len(data))
				} else if err != ErrFrameTooLarge {
					s.violation("oversize-wrong-error", "%s %s item %d: %d-byte payload with MaxPayloadBytes=%d: %s returned %v, want ErrFrameTooLarge", who, d.name, i, len(it.payload), d.maxPayload, api, err)
					return
				} else {
					r.Event("oversize_refused", 1)
				}
				afterOversize = true
				r.Eval(true, "oversize", d.name, api, it.typ, len(it.payload), d.maxPayload)
				continue
			}
			suffix := ""
			if afterOversize {
				suffix = "-after-oversize"
			}
			if err != nil {
				s.violation("recv-error"+suffix, "%s %s item %d part %d (%d bytes, type %d, MaxPayloadBytes=%d) via %s: error %v (got %d bytes)", who, d.name, i, pi, len(want), it.typ, d.maxPayload, api, err, len(data))
				return
			}
			if d.recvAPI == vRecvJSON {
				if !vJSONEqual(jv, it.jsonVal) {
					s.violation("json-mismatch"+suffix, "%s %s item %d: JSON value differs: got Msg len %d Count %d Blob len %d Tags %d, want Msg len %d Count %d Blob len %d Tags %d", who, d.name, i,
						len(jv.Msg), jv.Count, len(jv.Blob), len(jv.Tags), len(it.jsonVal.Msg), it.jsonVal.Count, len(it.jsonVal.Blob), len(it.jsonVal.Tags))
				}
			} else {
				if !bytes.Equal(data, want) {
					s.violation("payload-mismatch"+suffix, "%s %s item %d part %d via %s: got %s want %s; first difference at byte %d", who, d.name, i, pi, api, vShort(data), vShort(want), vFirstDiff(data, want))
				}
				if (d.recvAPI == vRecvCapture || d.recvAPI == vRecvMixed && typ != 0) && typ != it.typ {
					s.violation("payload-type-mismatch", "%s %s item %d part %d: Codec.Receive saw payload type %d, sent %d", who, d.name, i, pi, typ, it.typ)
				}
			}
			if afterOversize {
				r.Event("delivered_intact_after_oversize", 1)
				afterOversize = false
			}
			r.Event("messages_delivered", 1)
			for _, b := range vBoundaries {
				if len(want) == b {
					r.Event(fmt.Sprintf("delivered_len_%d", b), 1)
				}
			}
			if len(want) >= 1<<20 {
				r.Event("delivered_len_ge_1MiB", 1)
			}
			h := fnv.New64a()
			h.Write(want)
			r.Eval(len(want) > 0, d.name, d.raw, d.sendAPI, api, it.typ, len(want), h.Sum64())
		}
	}
	if d.expectEnd {
		s.stage(who+"-recv", "waiting for the end of the stream via %s", api)
		var err error
		if d.recvAPI == vRecvRead {
			_, err = ws.Read(make([]byte, 1))
		} else {
			var c vCaptured
			err = vCapture.Receive(ws, &c)
		}
		if err == nil {
			s.violation("data-after-end", "%s %s: a receive after the last scripted message returned data instead of the close", who, d.name)
		} else if err == io.EOF {
			r.Event("close_seen_as_EOF", 1)
		}
	}
	d.recvComplete.Store(true)
	s.stage(who+"-recv", "finished")
}

func (s *vSession) endpoint(ws *Conn, sendDir, recvDir *vDir, who string) {
	var wg verifrt.WG
	wg.Add(1)
	go func() {
		defer wg.Done()
		defer s.guard(who + "-recv")
		s.recv(ws, recvDir, who)
	}()
	s.send(ws, sendDir, who)
	wg.Wait()
}

func vReadHead(c *vConn) ([]byte, error) {
	var head []byte
	buf := make([]byte, 512)
	for !bytes.Contains(head, []byte("\r\n\r\n")) {
		n, err := c.Read(buf)
		head = append(head, buf[:n]...)
		if err != nil {
			return head, err
		}
	}
	return head, nil
}

func (s *vSession) clientMain(cli *vConn, done *atomic.Bool) {
	if s.c2s.raw {
		s.stage("client", "raw handshake")
		key := base64.StdEncoding.EncodeToString([]byte(fmt.Sprintf("verif-key-%06d", s.seedCli%1000000)))
		fmt.Fprintf(cli, "GET /ws HTTP/1.1\r\nHost: verif.example\r\nUpgrade: websocket\r\nConnection: Upgrade\r\nSec-WebSocket-Key: %s\r\nOrigin: http://verif.example\r\nSec-WebSocket-Version: 13\r\n\r\n", key)
		head, err := vReadHead(cli)
		if err != nil || !bytes.HasPrefix(head, []byte("HTTP/1.1 101 ")) {
			s.violation("handshake-failed-server", "raw client got %q, %v", head, err)
			return
		}
		if !bytes.Contains(head, []byte("Sec-WebSocket-Accept: "+vAccept(key)+"\r\n")) {
			s.r.Event("handshake_accept_unexpected", 1)
		}
		cli.Write(s.c2s.rawBytes)
		s.c2s.sendComplete.Store(true)
		s.stage("client", "raw client wrote everything")
		done.Store(true)
		return
	}
	s.stage("client", "NewClient handshake")
	cfg, err := NewConfig("ws://verif.example/ws", "http://verif.example")
	if err != nil {
		panic(err)
	}
	ws, err := NewClient(cfg, cli)
	if err != nil {
		s.violation("handshake-failed-client", "NewClient: %v", err)
		return
	}
	ws.MaxPayloadBytes = s.s2c.maxPayload
	s.endpoint(ws, s.c2s, s.s2c, "client")
	s.stage("client", "closing")
	ws.Close()
	done.Store(true)
	s.stage("client", "finished")
}

func (s *vSession) serverMain(srv *vConn, release chan struct{}, done *atomic.Bool) {
	if s.s2c.raw {
		s.stage("server", "raw handshake")
		head, err := vReadHead(srv)
		if err != nil {
			s.violation("handshake-failed-client", "raw server could not read the request: %v (%q)", err, head)
			return
		}
		key := ""
		for _, ln := range strings.Split(string(head), "\r\n") {
			if k, v, ok := strings.Cut(ln, ":"); ok && strings.EqualFold(strings.TrimSpace(k), "Sec-WebSocket-Key") {
				key = strings.TrimSpace(v)
			}
		}
		fmt.Fprintf(srv, "HTTP/1.1 101 Switching Protocols\r\nUpgrade: websocket\r\nConnection: Upgrade\r\nSec-WebSocket-Accept: %s\r\n\r\n", vAccept(key))
		srv.Write(s.s2c.rawBytes)
		s.s2c.sendComplete.Store(true)
		s.stage("server", "raw server wrote everything")
		done.Store(true)
		<-release
		srv.Close()
		return
	}
	s.stage("server", "reading the HTTP request")
	br := bufio.NewReader(srv)
	req, err := http.ReadRequest(br)
	if err != nil {
		s.violation("handshake-failed-client", "server side could not parse the client's request: %v", err)
		return
	}
	invoked := false
	h := func(ws *Conn) {
		invoked = true
		ws.MaxPayloadBytes = s.c2s.maxPayload
		s.endpoint(ws, s.s2c, s.c2s, "server")
		if s.serverCloses {
			ws.Close()
		}
		done.Store(true)
		s.stage("server", "handler waiting for release")
		<-release
	}
	w := &vHijackRW{conn: srv, rw: bufio.NewReadWriter(br, bufio.NewWriter(srv))}
	if s.useHandlerType {
		Handler(h).ServeHTTP(w, req)
	} else {
		Server{Handler: h}.ServeHTTP(w, req)
	}
	if !invoked {
		s.violation("handshake-failed-server", "ServeHTTP returned without calling the handler; wrote %q", s.s2cHead(srv))
		return
	}
	if !srv.closed.Load() {
		s.violation("server-conn-left-open", "Server.ServeHTTP returned after the handler but did not close the hijacked connection")
	}
	s.stage("server", "finished")
}

func (s *vSession) s2cHead(srv *vConn) string {
	b := srv.wr.snapshot()
	if len(b) > 200 {
		b = b[:200]
	}
	return string(b)
}

func (s *vSession) run(t *testing.T) {
	s.stages = map[string]string{}
	synctest.Test(t, func(t *testing.T) {
		defer s.guard("root")
		a2b, b2a := newVHalf(), newVHalf()
		cli := &vConn{rd: b2a, wr: a2b, mode: s.modeCli, rng: rand.New(rand.NewPCG(s.seedCli, 1))}
		srv := &vConn{rd: a2b, wr: b2a, mode: s.modeSrv, rng: rand.New(rand.NewPCG(s.seedSrv, 2))}
		release := make(chan struct{})
		var doneC, doneS atomic.Bool
		var wg verifrt.WG
		wg.Add(2)
		go func() {
			defer wg.Done()
			defer s.guard("client")
			s.clientMain(cli, &doneC)
		}()
		go func() {
			defer wg.Done()
			defer s.guard("server")
			s.serverMain(srv, release, &doneS)
		}()
		synctest.Wait() // every goroutine is finished or blocked for good
		if !doneC.Load() || !doneS.Load() {
			s.mu.Lock()
			st := fmt.Sprint(s.stages)
			s.mu.Unlock()
			// a stall is only a finding of its own if nothing else explained it already
			s.violation("stall", "session cannot make progress: client done=%v server done=%v; stages: %s", doneC.Load(), doneS.Load(), st)
			s.stalled.Store(true)
			s.r.Event("sessions_stalled", 1)
		} else {
			s.r.Event("sessions_completed", 1)
		}
		close(release)
		synctest.Wait()
		cli.Close()
		srv.Close()
		wg.Wait()
		if !s.stalled.Load() {
			s.checkWire(s.c2s, a2b.snapshot(), true, s.s2c)
			s.checkWire(s.s2c, b2a.snapshot(), false, s.c2s)
		}
	})
}

// checkWire parses what was written in direction d and compares it with the script.
// opposite is the other direction, whose pings the writer of d had to answer.
func (s *vSession) checkWire(d *vDir, log []byte, writerIsClient bool, opposite *vDir) {
	r := s.r
	i := bytes.Index(log, []byte("\r\n\r\n"))
	if i < 0 {
		s.violation("wire-no-handshake", "%s: no HTTP header terminator in %d tapped bytes", d.name, len(log))
		return
	}
	frames, perr := vParseFrames(log[i+4:])
	r.Event("wire_bytes_"+d.name, int64(len(log)))
	if d.raw {
		// harness-written bytes: nothing to check (parse only to count)
		r.Event("wire_frames_raw_peer", int64(len(frames)))
		return
	}
	who := "server"
	if writerIsClient {
		who = "client"
	}
	if perr != "" {
		s.violation("wire-unparseable", "%s: the %s's byte stream is not a sequence of whole RFC 6455 frames after %d frames: %s", d.name, who, len(frames), perr)
	}
	// expected script frames, in order
	var exp []*vItem
	for k := range d.items {
		exp = append(exp, &d.items[k])
	}
	ie, ip := 0, 0
	keys := map[[4]byte]bool{}
	for fi, f := range frames {
		r.Event("wire_frames_"+d.name, 1)
		r.Event(fmt.Sprintf("wire_lenform_%d", f.lenForm), 1)
		at := fmt.Sprintf("%s frame %d (op %d, %d bytes)", d.name, fi, f.op, len(f.payload))
		if writerIsClient && !f.masked {
			s.violation("client-frame-unmasked", "%s: client wrote a frame with MASK=0", at)
		}
		if !writerIsClient && f.masked {
			s.violation("server-frame-masked", "%s: server wrote a frame with MASK=1", at)
		}
		if f.masked {
			keys[f.key] = true
		}
		if f.rsv != 0 {
			s.violation("wire-rsv-bits-set", "%s: RSV bits %03b", at, f.rsv)
		}
		if (f.lenForm == 16 && len(f.payload) < 126) || (f.lenForm == 64 && len(f.payload) < 65536) {
			s.violation("wire-length-not-minimal", "%s: %d-bit length form used for a %d-byte payload", at, f.lenForm, len(f.payload))
		}
		if f.op >= 8 && (!f.fin || len(f.payload) > 125) {
			s.violation("wire-bad-control-frame", "%s: control frame fin=%v len=%d", at, f.fin, len(f.payload))
		}
		switch {
		case f.op == CloseFrame:
			r.Event("wire_close_frames", 1)
			if len(f.payload) >= 2 && binary.BigEndian.Uint16(f.payload) == 1002 {
				r.Event("wire_close_1002_protocol_error", 1)
			}
		case f.op == PongFrame && !bytes.HasPrefix(f.payload, []byte(vUnsol)):
			// a reply to one of the peer's pings, in order
			if ip >= len(opposite.pings) {
				s.violation("pong-without-ping", "%s: PONG %s although the peer sent only %d pings", at, vShort(f.payload), len(opposite.pings))
			} else if !bytes.Equal(f.payload, opposite.pings[ip]) {
				s.violation("pong-payload-mismatch", "%s: PONG payload %s, the ping number %d carried %s", at, vShort(f.payload), ip, vShort(opposite.pings[ip]))
			} else {
				r.Event("pings_answered", 1)
				r.Eval(len(f.payload) > 0, "pong", d.name, len(f.payload), vShort(f.payload))
			}
			ip++
		case f.op == TextFrame || f.op == BinaryFrame || f.op == PingFrame || f.op == PongFrame:
			if ie >= len(exp) {
				s.violation("wire-extra-frame", "%s: %s wrote a frame the script did not send: %s", at, who, vShort(f.payload))
				continue
			}
			it := exp[ie]
			ie++
			wantOp := it.typ
			if it.kind == 'p' {
				wantOp = PingFrame
			} else if it.kind == 'o' {
				wantOp = PongFrame
			}
			if f.op != wantOp {
				s.violation("wire-opcode-mismatch", "%s: script item %d is kind %c type %d", at, ie-1, it.kind, it.typ)
			}
			if !f.fin {
				s.violation("wire-data-frame-not-final", "%s: FIN=0 on a frame written by Send/Write", at)
			}
			if !bytes.Equal(f.payload, it.payload) {
				key := "wire-payload-mismatch"
				if f.masked {
					key = "wire-masked-payload-mismatch"
				}
				s.violation(key, "%s: after unmasking with key %x the payload is %s, the application sent %s; first difference at byte %d", at, f.key, vShort(f.payload), vShort(it.payload), vFirstDiff(f.payload, it.payload))
			}
		default:
			s.violation("wire-unexpected-opcode", "%s: opcode %d fin=%v", at, f.op, f.fin)
		}
	}
	if d.sendComplete.Load() && ie != len(exp) && perr == "" {
		s.violation("wire-missing-frames", "%s: %s sent %d script items without error but only %d frames are on the wire", d.name, who, len(exp), ie)
	}
	if opposite.recvComplete.Load() && ip < len(opposite.pings) {
		s.violation("ping-not-answered", "%s: the %s processed %d pings (all followed by a message it received) but wrote only %d pongs", d.name, who, len(opposite.pings), ip)
	}
	if len(keys) > 0 {
		r.Event("wire_distinct_mask_keys", int64(len(keys)))
	}
}

// ---------------------------------------------------------------------------------------

func vDescribe(s *vSession) map[string]any {
	dd := func(d *vDir) map[string]any {
		var items []string
		for _, it := range d.items {
			x := fmt.Sprintf("%c:t%d:len%d", it.kind, it.typ, len(it.payload))
			if it.frags != nil {
				x += fmt.Sprintf(":frags%v", it.frags)
			}
			if it.oversize {
				x += ":oversize"
			}
			items = append(items, x)
		}
		m := map[string]any{"items": items, "max_payload_bytes": d.maxPayload, "raw_sender": d.raw, "recv_api": vRecvNames[d.recvAPI]}
		if !d.raw {
			m["send_api"] = vSendNames[d.sendAPI]
		}
		return m
	}
	return map[string]any{"kind": s.kind, "c2s": dd(s.c2s), "s2c": dd(s.s2c), "handler_type": s.useHandlerType,
		"read_piece_mode_client": s.modeCli, "read_piece_mode_server": s.modeSrv}
}

func vTotal(d *vDir) int {
	n := 0
	for _, it := range d.items {
		n += len(it.payload)
	}
	return n
}

func (s *vSession) common(c *verifrt.Case) {
	rng := c.Rng
	s.useHandlerType = rng.IntN(2) == 0
	s.serverCloses = rng.IntN(2) == 0
	s.seedCli, s.seedSrv = rng.Uint64(), rng.Uint64()
	s.modeCli, s.modeSrv = rng.IntN(3), rng.IntN(3)
	// tiny read pieces only where the volume is small
	if vTotal(s.s2c) > 150000 && s.modeCli == 1 {
		s.modeCli = 2
	}
	if vTotal(s.c2s) > 150000 && s.modeSrv == 1 {
		s.modeSrv = 2
	}
	for _, d := range []*vDir{s.c2s, s.s2c} {
		// a Conn.Read receiver only consumes a frame when it needs bytes: without a final
		// close to wait for, finish on a non-empty message so that everything before it
		// (empty messages, pings) has been processed when the receiver reports completion
		if !d.raw && !d.expectEnd && d.recvAPI == vRecvRead {
			if n := len(d.items); n == 0 || d.items[n-1].kind != 'd' || len(d.items[n-1].payload) == 0 {
				d.items = append(d.items, vItem{kind: 'd', typ: TextFrame, payload: []byte("end")})
			}
		}
	}
	if !s.c2s.raw {
		vFinishPkgDir(s.c2s)
	}
	if !s.s2c.raw {
		vFinishPkgDir(s.s2c)
	}
	c.Describe(vDescribe(s))
}

func TestVerif_C59(t *testing.T) {
	r := verifrt.Start(t, "C59")
	defer r.Finish()
	r.SetRule("a case is one client<->server session over a tapped in-memory connection, fully scripted from the PRNG: per direction 1-10 text/binary messages (lengths from {0,1,124..128,65534..65537}, PRNG small/medium, 1 MiB+-1, thorough also 4 MiB), pings and unsolicited pongs in between, sent by Message.Send / Conn.Write+PayloadType / JSON.Send and received by Message.Receive / a payload-type-capturing Codec / Conn.Read / JSON.Receive; limit sessions put MaxPayloadBytes=m on the receiver and straddle m; raw sessions replace one endpoint by a harness-scripted peer (fragments, pings, one wrongly masked data or PING/PONG frame, the latter followed by a correctly masked data frame that must not be delivered). One evaluation per delivered (or refused) message and per answered ping; non-trivial = non-empty payload; distinct by (direction, APIs, type, length, payload hash)")
	r.Assume("harness RFC 6455 frame parser/writer (vParseFrames/vAppendFrame) and encoding/json are correct")
	r.Assume("the tapped in-memory connection delivers bytes in order (its own tap is what the wire oracle reads)")
	r.Assume("synctest.Wait() returning with an endpoint still unfinished means the endpoint can never finish (all blocking in the harness is sync.Cond / channel based)")
	thorough := r.Thorough()
	const workers = 8
	nRandom, nLimit, nRaw := r.N(110, 500), r.N(90, 300), r.N(70, 300)

	// 1. every boundary length, both types, both directions, every API pairing
	type combo struct{ send, recv int }
	combos := []combo{{vSendMessage, vRecvTyped}, {vSendMessage, vRecvCapture}, {vSendMessage, vRecvRead},
		{vSendWrite, vRecvTyped}, {vSendWrite, vRecvCapture}, {vSendWrite, vRecvRead}}
	r.CasesParallel("boundaries", len(combos), workers, func(c *verifrt.Case) {
		cb := combos[c.Index]
		s := &vSession{r: r, c: c, kind: "pkg-pkg"}
		mk := func(name string) *vDir {
			d := &vDir{name: name, sendAPI: cb.send, recvAPI: cb.recv, readSeed: c.Rng.Uint64(), expectEnd: name == "c2s"}
			lens := append([]int{}, vBoundaries...)
			if !vRaceBuild {
				lens = append(lens, 1<<20-1, 1<<20, 1<<20+1)
			}
			for _, n := range lens {
				for ti, t := range []byte{TextFrame, BinaryFrame} {
					if n >= 1<<20 && ti != (n+c.Index)%2 {
						continue // the big ones once per length, alternating type
					}
					d.items = append(d.items, vItem{kind: 'd', typ: t, payload: vPayload(c.Rng, t, n)})
					if n == 125 || n == 65536 {
						d.items = append(d.items, vItem{kind: 'p', payload: vCtlPayload(c.Rng)})
					}
				}
			}
			d.items = append(d.items, vItem{kind: 'd', typ: TextFrame, payload: []byte("end")})
			return d
		}
		s.c2s, s.s2c = mk("c2s"), mk("s2c")
		s.common(c)
		s.modeCli, s.modeSrv = c.Index%2*2, (c.Index+1)%2*2
		c.Describe(vDescribe(s))
		s.run(t)
		r.Event("sessions_boundary", 1)
	})

	// 2. random package<->package sessions
	r.CasesParallel("random", nRandom, workers, func(c *verifrt.Case) {
		s := &vSession{r: r, c: c, kind: "pkg-pkg"}
		s.c2s = vGenDir(c.Rng, "c2s", thorough, 1+c.Rng.IntN(10))
		s.s2c = vGenDir(c.Rng, "s2c", thorough, 1+c.Rng.IntN(10))
		s.c2s.expectEnd = true
		s.common(c)
		if c.Index < 3 {
			r.Sample(vDescribe(s))
		}
		s.run(t)
		r.Event("sessions_random", 1)
	})

	// 3. MaxPayloadBytes sessions
	r.CasesParallel("limit", nLimit, workers, func(c *verifrt.Case) {
		s := &vSession{r: r, c: c, kind: "limit"}
		if c.Rng.IntN(2) == 0 {
			s.c2s = vGenLimitDir(c.Rng, "c2s")
			s.s2c = vGenDir(c.Rng, "s2c", false, 1+c.Rng.IntN(3))
		} else {
			s.c2s = vGenDir(c.Rng, "c2s", false, 1+c.Rng.IntN(3))
			s.s2c = vGenLimitDir(c.Rng, "s2c")
		}
		s.c2s.expectEnd = true
		s.common(c)
		if c.Index < 2 {
			r.Sample(vDescribe(s))
		}
		s.run(t)
		r.Event("sessions_limit", 1)
	})

	// 4. scripted raw client against the package server
	r.CasesParallel("rawclient", nRaw, workers, func(c *verifrt.Case) {
		s := &vSession{r: r, c: c, kind: "rawclient"}
		s.c2s = vGenRawDir(c.Rng, "c2s", true, thorough)
		s.s2c = vGenDir(c.Rng, "s2c", false, 1+c.Rng.IntN(4))
		s.common(c)
		if c.Index < 1 {
			r.Sample(vDescribe(s))
		}
		s.run(t)
		r.Event("sessions_rawclient", 1)
	})

	// 5. scripted raw server against the package client
	r.CasesParallel("rawserver", nRaw, workers, func(c *verifrt.Case) {
		s := &vSession{r: r, c: c, kind: "rawserver"}
		s.c2s = vGenDir(c.Rng, "c2s", false, 1+c.Rng.IntN(4))
		s.s2c = vGenRawDir(c.Rng, "s2c", false, thorough)
		s.common(c)
		s.run(t)
		r.Event("sessions_rawserver", 1)
	})

	r.Require("sessions_completed", int64(len(combos)+nRandom+nLimit+2*nRaw))
	r.Require("messages_delivered", 1500)
	r.Require("wire_lenform_7", 300)
	r.Require("wire_lenform_16", 300)
	r.Require("wire_lenform_64", 100)
	r.Require("pings_answered", 100)
	r.Require("oversize_refused", 100)
	r.Require("delivered_intact_after_oversize", 50)
	r.Require("unmasked_frame_refused_by_server", 10)
	r.Require("masked_frame_refused_by_client", 10)
	r.Require("wrongly_masked_control_frame_refused", 10)
	r.Require("fragmented_messages_received", 50)
	for _, b := range vBoundaries {
		r.Require(fmt.Sprintf("delivered_len_%d", b), 12)
	}
	if !vRaceBuild {
		r.Require("delivered_len_ge_1MiB", 12)
	}
	r.SetExtra("race_build_small_volume", vRaceBuild)
}
