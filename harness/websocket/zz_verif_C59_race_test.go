//go:build verif && race

package websocket

// Under the race detector every large allocation costs a shadow-memory reset; messages of
// 1 MiB and more are therefore only sent by the build without -race (the quick tier).
const vRaceBuild = true
