//go:build verif

package idna

import (
	"fmt"
	"strings"
	"testing"
	"unicode/utf8"

	"golang.org/x/net/internal/verifrt"
)

// ---------------------------------------------------------------------------------------
// RFC 3492 reference, written from the RFC text (sections 5, 6.1, 6.2, 6.3). It computes in
// int64 and separately notes whether a conforming decoder with 32-bit integers would have
// reported overflow (section 6.4 lets that depend on the integer width: such payloads are
// "open", the oracle demands nothing for them).
// ---------------------------------------------------------------------------------------

const (
	c50Base        = 36
	c50Tmin        = 1
	c50Tmax        = 26
	c50Skew        = 38
	c50Damp        = 700
	c50InitialBias = 72
	c50InitialN    = 128
	c50Max32       = int64(1)<<31 - 1
)

func c50Adapt(delta, numPoints int64, first bool) int64 {
	if first {
		delta /= c50Damp
	} else {
		delta /= 2
	}
	delta += delta / numPoints
	k := int64(0)
	for delta > ((c50Base-c50Tmin)*c50Tmax)/2 {
		delta /= c50Base - c50Tmin
		k += c50Base
	}
	return k + ((c50Base-c50Tmin+1)*delta)/(delta+c50Skew)
}

func c50DigitValue(c byte) int64 {
	switch {
	case 'a' <= c && c <= 'z':
		return int64(c - 'a')
	case 'A' <= c && c <= 'Z':
		return int64(c - 'A')
	case '0' <= c && c <= '9':
		return int64(c-'0') + 26
	}
	return -1
}

func c50Threshold(k, bias int64) int64 {
	switch {
	case k <= bias:
		return c50Tmin
	case k >= bias+c50Tmax:
		return c50Tmax
	}
	return k - bias
}

type c50Class int

const (
	c50Valid     c50Class = iota // decodes, at least one non-ASCII code point
	c50ASCIIOnly                 // decodes to a non-empty all-ASCII string
	c50Empty                     // decodes to the empty string
	c50Invalid                   // every RFC 3492 decoder must fail
	c50NonASCII                  // payload itself contains a non-basic code point (invalid)
	c50Open                      // validity depends on integer width, or decodes to a surrogate
)

func (c c50Class) String() string {
	return [...]string{"valid", "ascii-only", "empty", "invalid", "nonascii-payload", "open"}[c]
}

type c50Decoded struct {
	class c50Class
	runes []rune
	why   string
}

// c50RefDecode classifies the payload of an "xn--" label.
func c50RefDecode(p string) c50Decoded {
	for i := 0; i < len(p); i++ {
		if p[i] >= 0x80 {
			return c50Decoded{class: c50NonASCII, why: "non-basic code point in payload"}
		}
	}
	b := strings.LastIndexByte(p, '-')
	if b < 0 {
		b = 0
	}
	out := []rune{}
	for i := 0; i < b; i++ {
		out = append(out, rune(p[i]))
	}
	in := 0
	if b > 0 {
		in = b + 1
	}
	n, i, bias := int64(c50InitialN), int64(0), int64(c50InitialBias)
	open := false
	sawDelta := false
	for in < len(p) {
		oldi, w := i, int64(1)
		for k := int64(c50Base); ; k += c50Base {
			if in >= len(p) {
				return c50Decoded{class: c50Invalid, why: "truncated variable-length integer"}
			}
			d := c50DigitValue(p[in])
			in++
			if d < 0 {
				return c50Decoded{class: c50Invalid, why: "not a digit"}
			}
			if d*w > c50Max32-i {
				open = true
			}
			i += d * w
			if i > 1<<50 {
				// n would leave the code point range whatever follows, unless the integer is
				// truncated (invalid as well).
				return c50Decoded{class: c50Invalid, why: "delta beyond any code point"}
			}
			t := c50Threshold(k, bias)
			if d < t {
				break
			}
			if w*(c50Base-t) > c50Max32 {
				open = true
			}
			w *= c50Base - t
			if w > 1<<50 {
				return c50Decoded{class: c50Open, why: "weight overflow"}
			}
		}
		x := int64(len(out) + 1)
		bias = c50Adapt(i-oldi, x, oldi == 0)
		n += i / x
		i %= x
		if n > 0x10FFFF {
			return c50Decoded{class: c50Invalid, why: "code point above U+10FFFF"}
		}
		if n >= 0xD800 && n <= 0xDFFF {
			open = true // RFC 3492 is silent on surrogates
		}
		out = append(out, 0)
		copy(out[i+1:], out[i:])
		out[i] = rune(n)
		i++
		sawDelta = true
	}
	if open {
		return c50Decoded{class: c50Open, runes: out, why: "32-bit overflow or surrogate"}
	}
	if !sawDelta {
		if len(out) == 0 {
			return c50Decoded{class: c50Empty}
		}
		return c50Decoded{class: c50ASCIIOnly, runes: out}
	}
	return c50Decoded{class: c50Valid, runes: out}
}

func c50EncodeDigit(d int64) byte {
	if d < 26 {
		return byte('a' + d)
	}
	return byte('0' + d - 26)
}

// c50RefEncode is RFC 3492 section 6.3.
func c50RefEncode(s []rune) string {
	var out []byte
	for _, r := range s {
		if r < 0x80 {
			out = append(out, byte(r))
		}
	}
	b := int64(len(out))
	h := b
	if b > 0 {
		out = append(out, '-')
	}
	n, delta, bias := int64(c50InitialN), int64(0), int64(c50InitialBias)
	for h < int64(len(s)) {
		m := int64(1) << 40
		for _, r := range s {
			if int64(r) >= n && int64(r) < m {
				m = int64(r)
			}
		}
		delta += (m - n) * (h + 1)
		n = m
		for _, r := range s {
			c := int64(r)
			if c < n {
				delta++
			}
			if c == n {
				q := delta
				for k := int64(c50Base); ; k += c50Base {
					t := c50Threshold(k, bias)
					if q < t {
						break
					}
					out = append(out, c50EncodeDigit(t+(q-t)%(c50Base-t)))
					q = (q - t) / (c50Base - t)
				}
				out = append(out, c50EncodeDigit(q))
				bias = c50Adapt(delta, h+1, h == b)
				delta = 0
				h++
			}
		}
		delta++
		n++
	}
	return string(out)
}

// ---------------------------------------------------------------------------------------
// generators
// ---------------------------------------------------------------------------------------

type c50Rng interface {
	IntN(int) int
}

var c50Scripts = [][]rune{
	[]rune("\u00fc\u00f6\u00e4\u00df\u00e9\u00e8\u00f1\u00e7\u00e5\u00f8\u00e6\u00fe"), // Latin-1 lower case incl. sharp s
	[]rune("\u03b1\u03b2\u03b3\u03b4\u03c2\u03c3\u03bb\u03c9\u03ac\u03ca"),             // Greek incl. final sigma
	[]rune("\u0430\u0431\u0432\u0433\u0434\u0435\u0436\u0437\u0438\u0439\u044f"),       // Cyrillic
	[]rune("\u65e5\u672c\u8a9e\u4e2d\u6587\u5b57\u6f22\u6771\u4eac"),                   // CJK
	[]rune("\u3042\u3044\u3046\u3048\u304a\u30ab\u30bf\u30ca"),                         // Kana
	[]rune("\u05d0\u05d1\u05d2\u05d3\u05d4\u05d5\u05d6\u05d7\u05d8"),                   // Hebrew
	[]rune("\u0627\u0628\u062a\u062b\u062c\u062d\u062e\u062f\u0631\u0660\u0661\u0662"), // Arabic + Arabic-Indic digits
	[]rune("\u0915\u0916\u0917\u0918\u0919\u091a\u091c\u094d\u200c\u200d"),             // Devanagari, virama, ZWNJ, ZWJ
	[]rune("ae\u00f3\u0301\u0308\u0327"),                                               // combining marks
	[]rune("\uff21\uff42\uff13\ufb01\u2167\u337f\u00aa\u00b2"),                         // fullwidth / compatibility (mapped)
	[]rune("\u00dc\u00d6\u00c4\u03a3\u03a9\u00c9\u0414\u0416\u1e9e"),                   // upper case non-ASCII
	[]rune("\U00010348\U0001f600\U0001d4b3\U00020000"),                                 // supplementary planes
	[]rune("\u00b7\u0020\u00ad\u2010_*\u0640\u06f0\u0660\ufffd\u0378"),                 // contextO, space, soft hyphen, symbols, unassigned
}

const c50LDH = "abcdefghijklmnopqrstuvwxyz0123456789"

func c50LDHLabel(rng c50Rng, min, max int) string {
	n := min + rng.IntN(max-min+1)
	b := make([]byte, n)
	for i := range b {
		b[i] = c50LDH[rng.IntN(len(c50LDH))]
		if i > 0 && i < n-1 && rng.IntN(12) == 0 {
			b[i] = '-'
		}
	}
	return string(b)
}

// c50ULabel builds a label with at least one non-ASCII code point.
func c50ULabel(rng c50Rng) []rune {
	sc := c50Scripts[rng.IntN(len(c50Scripts))]
	n := 1 + rng.IntN(6)
	var out []rune
	for i := 0; i < n; i++ {
		switch rng.IntN(10) {
		case 0, 1:
			out = append(out, rune(c50LDH[rng.IntN(len(c50LDH))]))
		case 2:
			if rng.IntN(3) == 0 {
				o := c50Scripts[rng.IntN(len(c50Scripts))]
				out = append(out, o[rng.IntN(len(o))])
				continue
			}
			fallthrough
		default:
			out = append(out, sc[rng.IntN(len(sc))])
		}
	}
	nonASCII := false
	for _, r := range out {
		if r >= 0x80 {
			nonASCII = true
		}
	}
	if !nonASCII {
		out = append(out, sc[rng.IntN(len(sc))])
	}
	return out
}

func c50CasePrefix(rng c50Rng) string {
	return []string{"XN--", "Xn--", "xN--"}[rng.IntN(3)]
}

// c50Payload generates the payload of an xn-- label together with a name of how it was made.
func c50Payload(rng c50Rng) (string, string) {
	const digits = "abcdefghijklmnopqrstuvwxyz0123456789"
	switch k := rng.IntN(20); {
	case k < 4:
		return c50RefEncode(c50ULabel(rng)), "canonical"
	case k < 6: // valid, but digits in upper case
		p := []byte(c50RefEncode(c50ULabel(rng)))
		start := strings.LastIndexByte(string(p), '-') + 1
		for i := start; i < len(p); i++ {
			if p[i] >= 'a' && p[i] <= 'z' && rng.IntN(2) == 0 {
				p[i] -= 'a' - 'A'
			}
		}
		return string(p), "canonical-uppercase-digits"
	case k < 10:
		return c50LDHLabel(rng, 1, 8) + "-", "ascii-literal-then-delimiter"
	case k < 11:
		return "", "empty"
	case k < 13:
		n := 1 + rng.IntN(10)
		b := make([]byte, n)
		for i := range b {
			b[i] = digits[rng.IntN(len(digits))]
			if rng.IntN(8) == 0 {
				b[i] = '-'
			}
		}
		return string(b), "random"
	case k < 16: // damage a canonical payload
		p := []byte(c50RefEncode(c50ULabel(rng)))
		switch rng.IntN(4) {
		case 0:
			p = p[:len(p)-1]
		case 1:
			p = append(p, digits[rng.IntN(len(digits))])
		case 2:
			p[rng.IntN(len(p))] = digits[rng.IntN(len(digits))]
		case 3:
			at := rng.IntN(len(p) + 1)
			p = append(p[:at:at], append([]byte{digits[rng.IntN(len(digits))]}, p[at:]...)...)
		}
		return string(p), "damaged-canonical"
	case k < 17 && rng.IntN(2) == 0:
		// a well-formed integer sequence that lands above U+10FFFF or on a surrogate
		u := c50ULabel(rng)
		if rng.IntN(4) == 0 {
			u[rng.IntN(len(u))] = rune(0xd800 + rng.IntN(0x800))
			return c50RefEncode(u), "decodes-to-surrogate"
		}
		u[rng.IntN(len(u))] = rune(0x110000 + rng.IntN(0x40000)*rng.IntN(8))
		return c50RefEncode(u), "decodes-above-10ffff"
	case k < 17:
		return strings.Repeat(string(digits[26+rng.IntN(10)]), 3+rng.IntN(12)), "digit-run"
	case k < 18:
		return "-" + c50LDHLabel(rng, 0, 5), "leading-delimiter"
	default:
		u := string(c50ULabel(rng))
		switch rng.IntN(3) {
		case 0:
			return u + "-", "nonascii-literal-then-delimiter"
		case 1:
			return u + "-" + c50RefEncode(c50ULabel(rng)), "nonascii-literal-then-digits"
		}
		return c50LDHLabel(rng, 1, 4) + "-" + u, "nonascii-in-digits"
	}
}

type c50Profile struct {
	name       string
	p          *Profile
	lowercases bool // the profile maps or rejects upper-case ASCII before looking for "xn--"
	transit    bool
	// coherent: U-labels and decoded A-labels go through the same mapping/validation, i.e.
	// either the full UTS 46 mapping together with validation of decoded labels, or neither
	// (and then no Bidi rule, which only sees U-labels through a mapping). Only for such
	// profiles can ToASCII(ToUnicode(x)) == ToASCII(x) and idempotence be expected at all;
	// New(ValidateLabels(true)) alone, New(MapForLookup(), ValidateLabels(false)) or
	// New(BidiRule()) treat the two spellings of a label differently by construction.
	coherent bool
}

var c50Fixed = []c50Profile{
	{"Punycode", Punycode, false, false, true},
	{"Lookup", Lookup, true, false, true},
	{"Display", Display, true, false, true},
	{"Registration", Registration, true, false, true},
}

// c50RandomProfile builds New(...) with a PRNG option list.
func c50RandomProfile(rng c50Rng) c50Profile {
	var opts []Option
	var names []string
	lower := false
	transit := false
	anyMapping, fromPuny, bidi := false, false, false
	switch rng.IntN(4) {
	case 0:
		opts = append(opts, MapForLookup())
		names = append(names, "MapForLookup")
		lower, anyMapping, fromPuny = true, true, true
	case 1:
		opts = append(opts, ValidateForRegistration())
		names = append(names, "ValidateForRegistration")
		lower, anyMapping, fromPuny, bidi = true, true, true, true
	}
	n := rng.IntN(5)
	for i := 0; i < n; i++ {
		v := rng.IntN(2) == 0
		switch rng.IntN(8) {
		case 0:
			opts = append(opts, Transitional(v))
			names = append(names, fmt.Sprintf("Transitional(%v)", v))
			transit = v
		case 1:
			opts = append(opts, VerifyDNSLength(v))
			names = append(names, fmt.Sprintf("VerifyDNSLength(%v)", v))
		case 2:
			opts = append(opts, RemoveLeadingDots(v))
			names = append(names, fmt.Sprintf("RemoveLeadingDots(%v)", v))
		case 3:
			opts = append(opts, ValidateLabels(v))
			names = append(names, fmt.Sprintf("ValidateLabels(%v)", v))
			fromPuny = v
			if v {
				anyMapping = true // at least the NFC mapping
			}
		case 4:
			opts = append(opts, CheckHyphens(v))
			names = append(names, fmt.Sprintf("CheckHyphens(%v)", v))
		case 5:
			opts = append(opts, CheckJoiners(v))
			names = append(names, fmt.Sprintf("CheckJoiners(%v)", v))
		case 6:
			opts = append(opts, StrictDomainName(v))
			names = append(names, fmt.Sprintf("StrictDomainName(%v)", v))
		case 7:
			opts = append(opts, BidiRule())
			names = append(names, "BidiRule")
			bidi = true
		}
	}
	coherent := (lower && fromPuny) || (!anyMapping && !fromPuny && !bidi)
	return c50Profile{"New(" + strings.Join(names, ",") + ")", New(opts...), lower, transit, coherent}
}

// c50StaysNonASCII reports whether p contains a code point that the UTS 46 mapping keeps
// non-ASCII (valid letters of the Latin-1, Greek, Cyrillic, CJK, Kana, Hebrew, Arabic and
// Devanagari pools and their upper-case forms; not sharp s, joiners, compatibility forms, math
// letters or the soft hyphen, which a mapping profile may turn into ASCII or drop before it
// looks for the xn-- prefix).
func c50StaysNonASCII(p string) bool {
	for _, r := range p {
		switch {
		case r == 0xdf || r == 0x1e9e:
		case r >= 0xc0 && r <= 0xfe && r != 0xd7 && r != 0xf7,
			r >= 0x3a3 && r <= 0x3ca, r >= 0x410 && r <= 0x44f,
			r >= 0x4e00 && r <= 0x9fff, r >= 0x3042 && r <= 0x30ca,
			r >= 0x5d0 && r <= 0x5d8, r >= 0x627 && r <= 0x631, r >= 0x915 && r <= 0x91c:
			return true
		}
	}
	return false
}

func c50Short(name string) string {
	if strings.HasPrefix(name, "New(") {
		return "New"
	}
	return name
}

var c50Dots = []string{".", "。", "．", "｡"}

func c50SplitLabels(s string) []string {
	return strings.FieldsFunc(s, func(r rune) bool {
		return r == '.' || r == 0x3002 || r == 0xff0e || r == 0xff61
	})
}

// c50Taint reports the class of the first xn-- label, as the profile would see it (profiles
// with the UTS 46 mapping fold case and split on all four dots, the others only know '.' and
// the exact prefix), in any of the strings whose payload is not a valid payload that decodes to
// something non-ASCII.
func c50Taint(folding bool, ss ...string) (c50Class, string, bool) {
	for _, s := range ss {
		var labels []string
		if folding {
			labels = c50SplitLabels(s)
		} else {
			labels = strings.Split(s, ".")
		}
		for _, l := range labels {
			if len(l) >= 4 && (l[:4] == "xn--" || folding && strings.EqualFold(l[:4], "xn--")) {
				if d := c50RefDecode(l[4:]); d.class != c50Valid {
					return d.class, l, true
				}
			}
		}
	}
	return 0, "", false
}

func c50HasDeviation(s string) bool {
	return strings.ContainsAny(s, "\u00df\u03c2\u200c\u200d\u1e9e")
}

func TestVerif_C50(t *testing.T) {
	r := verifrt.Start(t, "C50")
	defer r.Finish()
	r.SetRule("stream alabel: PRNG payloads p (canonical, upper-case digits, ASCII literal+'-', empty, random LDH, damaged canonical, digit runs, leading '-', non-ASCII payloads) put as label xn--p alone / before .com / inside www.<l>.example, in Punycode, Lookup, Display, Registration and 3 PRNG New(...) option sets; non-trivial = payload the RFC 3492 reference rejects or decodes to ASCII-only/empty, distinct by payload. stream roundtrip: PRNG domains of 1-4 labels (LDH, U-labels from 13 script pools, canonical A-labels, a few bad A-labels, 4 dot characters, case variants); non-trivial = accepted by ToASCII in some profile and containing a non-ASCII rune or an xn-- label, distinct by domain. stream punycode: PRNG rune strings; non-trivial = has a non-ASCII rune")
	r.Assume("RFC 3492 reference decoder/encoder written from the RFC in the harness; payloads whose validity depends on the decoder's integer width (32-bit overflow) or that decode to surrogates are counted, not judged")
	r.Assume("under a Transitional(true) profile ToASCII(ToUnicode(x))==ToASCII(x) is not demanded when ToUnicode(x) contains a UTS 46 deviation character (transitional mapping is by specification not applied to decoded A-labels)")

	// ---- stream 1: A-labels that must be rejected ----
	nA := r.N(20000, 600000)
	r.CasesParallel("alabel", nA, 0, func(c *verifrt.Case) {
		p, how := c50Payload(c.Rng)
		ref := c50RefDecode(p)
		profiles := append([]c50Profile{}, c50Fixed...)
		for i := 0; i < 3; i++ {
			profiles = append(profiles, c50RandomProfile(c.Rng))
		}
		var pnames []string
		for _, pr := range profiles[4:] {
			pnames = append(pnames, pr.name)
		}
		c.Describe(map[string]any{"payload": p, "payload_quoted": fmt.Sprintf("%+q", p), "made": how, "reference_class": ref.class.String(), "reference_why": ref.why, "random_profiles": pnames})
		r.Event("payload_"+ref.class.String(), 1)

		// white-box: the package decoder against the reference
		got, derr := decode(p)
		switch ref.class {
		case c50Valid, c50ASCIIOnly, c50Empty:
			if derr != nil || got != string(ref.runes) {
				c.Violation("decode-vs-reference", "decode(%+q)=(%+q,%v), RFC 3492 reference gives %+q", p, got, derr, string(ref.runes))
			} else if ref.class == c50Valid {
				// inverse: re-encoding reproduces the payload up to the case of the digits
				want := c50RefEncode(ref.runes)
				enc, eerr := encode("", got)
				if eerr != nil || enc != want {
					c.Violation("encode-of-decode", "encode(decode(%+q))=(%+q,%v) want %+q", p, enc, eerr, want)
				}
				if !strings.EqualFold(want[strings.LastIndexByte(want, '-')+1:], p[strings.LastIndexByte(p, '-')+1:]) {
					c.Violation("reference-self-check", "reference encode(decode(%q))=%q", p, want)
				}
				r.Event("decode_agrees_with_reference", 1)
			}
		case c50Invalid:
			if derr == nil {
				c.Violation("decode-accepts-invalid", "decode(%+q)=%+q, nil; reference: %s", p, got, ref.why)
			}
		case c50NonASCII:
			if derr == nil {
				r.Event("decode_accepted_nonascii_payload", 1)
			}
		}

		mustReject := ref.class == c50ASCIIOnly || ref.class == c50Empty || ref.class == c50Invalid || ref.class == c50NonASCII
		r.EvalBytes(mustReject, []byte(p))
		if !mustReject {
			return
		}
		key := map[c50Class]string{c50ASCIIOnly: "ascii-only-alabel-accepted", c50Empty: "empty-alabel-accepted",
			c50Invalid: "invalid-payload-accepted", c50NonASCII: "nonascii-payload-accepted"}[ref.class]
		other := c50LDHLabel(c.Rng, 1, 6)
		upper := c50CasePrefix(c.Rng)
		for _, pr := range profiles {
			if ref.class == c50NonASCII && pr.lowercases && !c50StaysNonASCII(p) {
				// the profile's mapping may legitimately turn this payload into ASCII first
				r.Event("nonascii_payload_not_judged_under_mapping", 1)
				continue
			}
			prefixes := []string{"xn--"}
			if pr.lowercases {
				prefixes = append(prefixes, upper)
			}
			for _, pre := range prefixes {
				l := pre + p
				for _, dom := range []string{l, l + ".com", "www." + l + ".example", other + "." + l, l + "." + other + "."} {
					a, errA := pr.p.ToASCII(dom)
					u, errU := pr.p.ToUnicode(dom)
					r.Event("reject_checks", 2)
					if errA == nil {
						r.Event("accepted_"+ref.class.String(), 1)
						r.Event("accepted_"+ref.class.String()+"_by_"+c50Short(pr.name), 1)
						c.Violation(key, "%s.ToASCII(%+q) = %+q, nil although payload %+q is %s (%s)", pr.name, dom, a, p, ref.class, ref.why)
					}
					if errU == nil {
						r.Event("accepted_"+ref.class.String(), 1)
						c.Violation(key, "%s.ToUnicode(%+q) = %+q, nil although payload %+q is %s (%s)", pr.name, dom, u, p, ref.class, ref.why)
					}
				}
			}
		}
	})

	// ---- stream 2: idempotence and ToASCII(ToUnicode(x)) ----
	nR := r.N(30000, 1000000)
	r.CasesParallel("roundtrip", nR, 0, func(c *verifrt.Case) {
		rng := c.Rng
		nl := 1 + rng.IntN(4)
		var sb strings.Builder
		if rng.IntN(25) == 0 {
			sb.WriteString(c50Dots[rng.IntN(4)])
		}
		hasX := false
		for i := 0; i < nl; i++ {
			if i > 0 {
				if rng.IntN(4) == 0 {
					sb.WriteString(c50Dots[1+rng.IntN(3)])
				} else {
					sb.WriteByte('.')
				}
			}
			switch k := rng.IntN(20); {
			case k < 5:
				l := c50LDHLabel(rng, 1, 10)
				if rng.IntN(6) == 0 {
					l = strings.ToUpper(l)
				}
				sb.WriteString(l)
			case k < 12:
				sb.WriteString(string(c50ULabel(rng)))
			case k < 18:
				pre := "xn--"
				if rng.IntN(6) == 0 {
					pre = c50CasePrefix(rng)
				}
				sb.WriteString(pre + c50RefEncode(c50ULabel(rng)))
				hasX = true
			case k < 19:
				pp, _ := c50Payload(rng)
				sb.WriteString("xn--" + pp)
				hasX = true
			default:
				// long label, for the DNS length rules
				sb.WriteString(c50LDHLabel(rng, 55, 70))
			}
		}
		if rng.IntN(10) == 0 {
			sb.WriteByte('.')
		}
		x := sb.String()
		profiles := append([]c50Profile{}, c50Fixed...)
		for i := 0; i < 2; i++ {
			profiles = append(profiles, c50RandomProfile(rng))
		}
		c.Describe(map[string]any{"domain": x, "domain_quoted": fmt.Sprintf("%+q", x), "random_profiles": []string{profiles[4].name, profiles[5].name}})
		accepted := 0
		for _, pr := range profiles {
			a, err := pr.p.ToASCII(x)
			if err != nil {
				r.Event("toascii_rejected", 1)
				continue
			}
			accepted++
			r.Event("toascii_accepted", 1)
			a2, err2 := pr.p.ToASCII(a)
			u, errU := pr.p.ToUnicode(x)
			a3, err3 := pr.p.ToASCII(u)
			if cls, _, tainted := c50Taint(pr.lowercases, x, a, u); tainted {
				// x should not have been accepted in the first place (that is what stream
				// "alabel" reports); what happens to it afterwards is not judged.
				r.Event("roundtrip_skipped_bad_alabel_"+cls.String(), 1)
				continue
			}
			idem := err2 == nil && a2 == a
			back := err3 == nil && a3 == a
			if !pr.coherent {
				r.Event("incoherent_profile_checked", 1)
				if !idem {
					r.Event("incoherent_profile_not_idempotent", 1)
				}
				if !back {
					r.Event("incoherent_profile_tounicode_roundtrip_differs", 1)
				}
				continue
			}
			r.Event("roundtrip_judged", 1)
			r.Event("roundtrip_judged_"+c50Short(pr.name), 1)
			if !idem {
				c.Violation("toascii-not-idempotent", "%s: ToASCII(%+q)=%+q,nil but ToASCII of that = %+q,%v", pr.name, x, a, a2, err2)
			}
			if pr.transit && c50HasDeviation(u) {
				r.Event("roundtrip_excluded_transitional_deviation", 1)
			} else if !back {
				c.Violation("toascii-tounicode-differs", "%s: ToASCII(%+q)=%+q,nil; ToUnicode=%+q,%v; ToASCII(ToUnicode)=%+q,%v", pr.name, x, a, u, errU, a3, err3)
			}
			if a != x {
				r.Event("toascii_changed_input", 1)
			}
			if u != x && u != a {
				r.Event("tounicode_decoded_something", 1)
			}
		}
		nonASCII := !ascii(x)
		r.EvalBytes(accepted > 0 && (nonASCII || hasX), []byte(x))
		if accepted > 0 && (nonASCII || hasX) {
			r.Event("roundtrip_nontrivial_domains", 1)
		}
	})

	// ---- stream 3: punycode encode/decode are inverse and agree with the reference ----
	nP := r.N(30000, 1000000)
	r.CasesParallel("punycode", nP, 0, func(c *verifrt.Case) {
		rng := c.Rng
		var s []rune
		n := rng.IntN(14)
		for i := 0; i < n; i++ {
			switch rng.IntN(6) {
			case 0:
				s = append(s, rune(0x20+rng.IntN(0x5f)))
			case 1:
				var rr rune
				for {
					rr = rune(0x80 + rng.IntN(0x110000-0x80))
					if (rr < 0xD800 || rr > 0xDFFF) && rr != 0xFFFD {
						break
					}
				}
				s = append(s, rr)
			case 2:
				s = append(s, []rune{0x80, 0x7f, 0xff, 0x100, 0xd7ff, 0xe000, 0xffff, 0x10000, 0x10ffff, '-'}[rng.IntN(10)])
			default:
				s = append(s, c50ULabel(rng)...)
			}
		}
		str := string(s)
		c.Describe(map[string]any{"string": str, "quoted": fmt.Sprintf("%+q", str)})
		want := c50RefEncode(s)
		enc, err := encode("", str)
		if err != nil && strings.ContainsRune(str, 0xfffd) {
			r.Event("encode_refused_replacement_char", 1) // Unicode >= 16 tables refuse U+FFFD: not an inverse failure
			return
		}
		if err != nil {
			c.Violation("encode-fails", "encode(%+q) error %v", str, err)
			return
		}
		if enc != want {
			c.Violation("encode-vs-reference", "encode(%+q)=%q, RFC 3492 reference %q", str, enc, want)
		}
		dec, err := decode(enc)
		if err != nil || dec != str {
			c.Violation("decode-of-encode", "decode(encode(%+q)=%q) = %+q,%v", str, enc, dec, err)
		}
		if rd := c50RefDecode(want); string(rd.runes) != str && rd.class != c50Open {
			c.Violation("reference-self-check", "reference decode(encode(%+q)=%q)=%+q", str, want, string(rd.runes))
		}
		r.Event("punycode_roundtrips", 1)
		r.EvalBytes(!ascii(str), []byte("puny:"+str))
	})

	r.Sample(map[string]any{"probe": "Punycode.ToASCII(\"xn--abc-.com\")", "result": fmt.Sprint(Punycode.ToASCII("xn--abc-.com"))})
	r.Sample(map[string]any{"probe": "Lookup.ToASCII(\"xn--bcher-kva.example\")", "result": fmt.Sprint(Lookup.ToASCII("xn--bcher-kva.example"))})
	r.SetExtra("unicode_version_gate_unicode16", unicode16)
	r.Require("reject_checks", 10000)
	r.Require("decode_agrees_with_reference", 1000)
	r.Require("roundtrip_nontrivial_domains", 1000)
	r.Require("roundtrip_judged", 10000)
	r.Require("punycode_roundtrips", 1000)
	_ = utf8.RuneError
}
