//go:build verif

package bpf

import (
	"encoding/json"
	"fmt"
	"hash/fnv"
	"math/rand/v2"
	"strings"
	"testing"

	"golang.org/x/net/internal/verifrt"
)

// ---------------------------------------------------------------------------------------
// Reference classic-BPF interpreter. It executes the *assembled* program (opcode numbers
// from bpf(4) / Documentation/networking/filter.rst, written out here) and shares nothing
// with the typed-instruction VM under test: own decode, A, X, M[16], 32-bit unsigned
// arithmetic, big-endian loads, forward jumps.
// ---------------------------------------------------------------------------------------

type c49Info struct {
	steps         int
	oobLoad       bool // a packet load was out of bounds (verdict 0)
	divZero       bool // div/mod by X == 0 (verdict 0)
	bigShift      bool // a shift by >= 32 was executed
	wrapped       bool // X+K of an indirect load exceeded 2^32-1: outside the oracle's domain
	offEnd        bool // control ran past the last instruction: no verdict exists
	unknownOp     bool // the assembled program contains an opcode the reference does not know
	badScratch    bool // scratch index > 15 in the assembled program
	jumpsTaken    int
	loads         int
	lastLoadAtEnd bool   // some in-bounds load touched the last byte of the packet
	kinds         uint32 // bit set of opcode classes executed
}

func c49Load(pkt []byte, off uint64, size int) (uint32, bool) {
	if off+uint64(size) > uint64(len(pkt)) {
		return 0, false
	}
	var v uint32
	for i := 0; i < size; i++ {
		v = v<<8 | uint32(pkt[off+uint64(i)])
	}
	return v, true
}

func c49RefRun(prog []RawInstruction, pkt []byte, executed *[256]int64) (uint32, c49Info) {
	var a, x uint32
	var m [16]uint32
	var in c49Info
	pc := 0
	for {
		if pc >= len(prog) {
			in.offEnd = true
			return 0, in
		}
		ins := prog[pc]
		pc++
		in.steps++
		op, k := ins.Op, ins.K
		in.kinds |= 1 << (op & 7)
		if op <= 0xff {
			executed[op]++
		}
		switch op & 7 {
		case 0: // ld
			switch op {
			case 0x00:
				a = k
			case 0x20, 0x28, 0x30, 0x40, 0x48, 0x50:
				size := 4
				if op&0x18 == 0x08 {
					size = 2
				} else if op&0x18 == 0x10 {
					size = 1
				}
				off := uint64(k)
				if op&0xe0 == 0x40 {
					off += uint64(x)
					if off > 0xffffffff {
						in.wrapped = true
						return 0, in
					}
				}
				v, ok := c49Load(pkt, off, size)
				in.loads++
				if !ok {
					in.oobLoad = true
					return 0, in
				}
				if off+uint64(size) == uint64(len(pkt)) {
					in.lastLoadAtEnd = true
				}
				a = v
			case 0x60:
				if k > 15 {
					in.badScratch = true
					return 0, in
				}
				a = m[k]
			case 0x80:
				a = uint32(len(pkt))
			default:
				in.unknownOp = true
				return 0, in
			}
		case 1: // ldx
			switch op {
			case 0x01:
				x = k
			case 0x61:
				if k > 15 {
					in.badScratch = true
					return 0, in
				}
				x = m[k]
			case 0x81:
				x = uint32(len(pkt))
			case 0xb1:
				v, ok := c49Load(pkt, uint64(k), 1)
				in.loads++
				if !ok {
					in.oobLoad = true
					return 0, in
				}
				if uint64(k)+1 == uint64(len(pkt)) {
					in.lastLoadAtEnd = true
				}
				x = 4 * (v & 0xf)
			default:
				in.unknownOp = true
				return 0, in
			}
		case 2, 3: // st, stx
			if op != 2 && op != 3 {
				in.unknownOp = true
				return 0, in
			}
			if k > 15 {
				in.badScratch = true
				return 0, in
			}
			if op == 2 {
				m[k] = a
			} else {
				m[k] = x
			}
		case 4: // alu
			if op > 0xff {
				in.unknownOp = true
				return 0, in
			}
			v := k
			if op&0x08 != 0 {
				v = x
			}
			switch op & 0xf0 {
			case 0x00:
				a += v
			case 0x10:
				a -= v
			case 0x20:
				a *= v
			case 0x30, 0x90:
				if v == 0 {
					// K == 0 is refused when the filter is loaded; X == 0 ends the run with 0
					in.divZero = true
					return 0, in
				}
				if op&0xf0 == 0x30 {
					a /= v
				} else {
					a %= v
				}
			case 0x40:
				a |= v
			case 0x50:
				a &= v
			case 0x60:
				if v >= 32 {
					in.bigShift = true
					a = 0
				} else {
					a <<= v
				}
			case 0x70:
				if v >= 32 {
					in.bigShift = true
					a = 0
				} else {
					a >>= v
				}
			case 0xa0:
				a ^= v
			default: // neg (0x80) is not implemented by Run and never generated
				in.unknownOp = true
				return 0, in
			}
		case 5: // jmp
			if op > 0xff {
				in.unknownOp = true
				return 0, in
			}
			if op == 0x05 {
				pc += int(k)
				if k != 0 {
					in.jumpsTaken++
				}
				break
			}
			v := k
			if op&0x08 != 0 {
				v = x
			}
			var t bool
			switch op & 0xf0 {
			case 0x10:
				t = a == v
			case 0x20:
				t = a > v
			case 0x30:
				t = a >= v
			case 0x40:
				t = a&v != 0
			default:
				in.unknownOp = true
				return 0, in
			}
			d := ins.Jf
			if t {
				d = ins.Jt
			}
			if d != 0 {
				in.jumpsTaken++
			}
			pc += int(d)
		case 6: // ret
			switch op {
			case 0x06:
				return k, in
			case 0x16:
				return a, in
			default:
				in.unknownOp = true
				return 0, in
			}
		case 7: // misc
			switch op {
			case 0x07:
				x = a
			case 0x87:
				a = x
			default:
				in.unknownOp = true
				return 0, in
			}
		}
	}
}

// ---------------------------------------------------------------------------------------
// Program / packet generation
// ---------------------------------------------------------------------------------------

var c49ALUOps = []ALUOp{ALUOpAdd, ALUOpSub, ALUOpMul, ALUOpDiv, ALUOpOr, ALUOpAnd, ALUOpShiftLeft, ALUOpShiftRight, ALUOpMod, ALUOpXor}
var c49Tests = []JumpTest{JumpEqual, JumpNotEqual, JumpGreaterThan, JumpLessThan, JumpGreaterOrEqual, JumpLessOrEqual, JumpBitsSet, JumpBitsNotSet}

var c49Consts = []uint32{0, 1, 2, 31, 32, 33, 0x7fffffff, 0x80000000, 0x80000001, 0xffffffff, 0xfffffffe, 4, 8, 255, 256, 0xffff}

func c49Const(rng *rand.Rand) uint32 {
	switch rng.IntN(4) {
	case 0:
		return c49Consts[rng.IntN(len(c49Consts))]
	case 1:
		return rng.Uint32N(64)
	case 2:
		return rng.Uint32()
	}
	return rng.Uint32() >> uint(rng.IntN(32))
}

// c49Off returns a packet offset biased towards the end of a packet of length l.
func c49Off(rng *rand.Rand, l, size int) uint32 {
	clamp := func(o int) uint32 {
		if o < 0 {
			return 0
		}
		return uint32(o)
	}
	switch w := rng.IntN(100); {
	case w < 5:
		return 0
	case w < 20:
		return clamp(l - size) // last legal position
	case w < 28:
		return clamp(l - size + 1) // first illegal position
	case w < 36:
		return clamp(l - size - 2 + rng.IntN(5)) // around the end
	case w < 40:
		return []uint32{0x7fffffff, 0x80000000, 0xffffefff, 0xffffffff, 0xfffffffc, 65535, 65536}[rng.IntN(7)]
	}
	if l-size <= 0 {
		return 0
	}
	return rng.Uint32N(uint32(l - size + 1)) // in bounds for a packet of the target length
}

// c49GenProgram builds a program of n instructions whose jumps stay inside the program
// (except in "spoiled" programs, one in eight, where a skip may be exactly one too far or an instruction is one NewVM/Assemble refuses) and that ends in a return.
func c49GenProgram(rng *rand.Rand, l int) []Instruction {
	n := 1 + rng.IntN(40)
	if rng.IntN(50) == 0 {
		n = 250 + rng.IntN(60) // long enough for 8-bit skips near 255
	}
	regs := []Register{RegA, RegX}
	sizes := []int{1, 2, 4}
	prog := make([]Instruction, 0, n)
	// one program in eight carries something NewVM has to refuse
	spoil := rng.IntN(8) == 0
	skip := func(after int, max int) int {
		// legal skips: 0 .. after-1
		if after <= 0 {
			return 0
		}
		hi := after - 1
		if spoil && rng.IntN(6) == 0 {
			hi = after // one too far: the program must be refused
		} else if rng.IntN(3) != 0 {
			// usually a short hop so that most of the program stays reachable
			if h := rng.IntN(4); h < hi {
				hi = h
			}
		} else if rng.IntN(2) == 0 {
			hi = rng.IntN(hi + 1)
		}
		if hi > max {
			hi = max
		}
		return hi
	}
	for i := 0; i < n-1; i++ {
		after := n - (i + 1)
		var ins Instruction
		switch w := rng.IntN(100); {
		case w < 8:
			ins = LoadConstant{Dst: regs[rng.IntN(2)], Val: c49Const(rng)}
		case w < 20:
			sz := sizes[rng.IntN(3)]
			ins = LoadAbsolute{Off: c49Off(rng, l, sz), Size: sz}
		case w < 30:
			sz := sizes[rng.IntN(3)]
			ins = LoadIndirect{Off: c49Off(rng, l, sz), Size: sz}
		case w < 34:
			ins = LoadMemShift{Off: c49Off(rng, l, 1)}
		case w < 37:
			ins = LoadExtension{Num: ExtLen}
		case w < 43:
			ins = LoadScratch{Dst: regs[rng.IntN(2)], N: rng.IntN(16)}
		case w < 50:
			ins = StoreScratch{Src: regs[rng.IntN(2)], N: rng.IntN(16)}
		case w < 62:
			ins = ALUOpConstant{Op: c49ALUOps[rng.IntN(len(c49ALUOps))], Val: c49Const(rng)}
		case w < 72:
			ins = ALUOpX{Op: c49ALUOps[rng.IntN(len(c49ALUOps))]}
		case w < 75:
			ins = Jump{Skip: uint32(skip(after, 1<<30))}
		case w < 85:
			ins = JumpIf{Cond: c49Tests[rng.IntN(8)], Val: c49Const(rng), SkipTrue: uint8(skip(after, 255)), SkipFalse: uint8(skip(after, 255))}
		case w < 91:
			ins = JumpIfX{Cond: c49Tests[rng.IntN(8)], SkipTrue: uint8(skip(after, 255)), SkipFalse: uint8(skip(after, 255))}
		case w < 94:
			ins = TAX{}
		case w < 97:
			ins = TXA{}
		case w < 98:
			ins = RetA{}
		case w < 99 || !spoil:
			ins = RetConstant{Val: c49Const(rng)}
		default:
			// things NewVM must refuse or Assemble refuses: counted and skipped
			ins = []Instruction{LoadExtension{Num: ExtProto}, ALUOpConstant{Op: ALUOpDiv, Val: 0}, LoadScratch{Dst: RegA, N: 16}, LoadAbsolute{Off: 0, Size: 3}}[rng.IntN(4)]
		}
		prog = append(prog, ins)
	}
	if rng.IntN(3) == 0 {
		prog = append(prog, RetConstant{Val: c49Const(rng)})
	} else {
		prog = append(prog, RetA{})
	}
	return prog
}

func c49Packet(rng *rand.Rand, l int) []byte {
	buf := make([]byte, 16+l)
	p := buf[16 : 16+l : 16+l] // cap == len: an over-read panics instead of seeing spare bytes
	switch rng.IntN(4) {
	case 0:
		for i := range p {
			p[i] = byte(rng.Uint32())
		}
	case 1:
		for i := range p {
			p[i] = []byte{0, 1, 0x7f, 0x80, 0xff, 0x45, 0x0f, 0xf0}[rng.IntN(8)]
		}
	case 2:
		for i := range p {
			p[i] = 0xff
		}
	default:
		for i := range p {
			p[i] = byte(rng.Uint32())
		}
		if l > 0 {
			p[0] = 0x40 | byte(rng.IntN(16)) // IPv4-looking first byte for msh
		}
	}
	return p
}

func c49ProgString(p []Instruction) string {
	var sb strings.Builder
	for i, x := range p {
		if i > 0 {
			sb.WriteString("; ")
		}
		fmt.Fprint(&sb, x)
	}
	return sb.String()
}

// c49Desc is rendered only when a replay file is written.
type c49Desc struct {
	prog []Instruction
	l    int
}

func (d c49Desc) MarshalJSON() ([]byte, error) {
	return json.Marshal(map[string]any{"program": c49ProgString(d.prog), "target_len": d.l})
}

func TestVerif_C49(t *testing.T) {
	r := verifrt.Start(t, "C49")
	defer r.Finish()
	r.SetRule("PRNG programs of 1-40 (2%: 250-310) typed instructions over every instruction type Run implements, jump skips inside the program (one program in eight is spoiled with a skip exactly one too far or an instruction NewVM must refuse), constants biased to {0,1,31,32,33,2^31-1,2^31,2^32-1,...}, load offsets biased to the last legal / first illegal position of the packet length; 10 packets per program (lengths around the target length, 0, 64 KiB in 1% of programs). Every accepted program is assembled and run by the harness reference interpreter. non-trivial = reference executed >= 3 instructions including a packet load, a taken jump or a scratch access; distinct by hash(assembled program, packet)")
	r.Assume("reference classic-BPF interpreter in the harness (opcode numbers and semantics from bpf(4)/filter.rst and the property statement; scratch memory starts zeroed)")
	r.Assume("indirect loads whose X+K exceeds 2^32-1 are outside the oracle's domain (counted as out_of_domain_wrap, not compared)")

	nprog := r.N(30000, 400000)
	r.CasesParallel("program", nprog, 0, func(c *verifrt.Case) {
		rng := c.Rng
		ev := map[string]int64{}
		var executed [256]int64
		defer func() {
			for k, v := range ev {
				r.Event(k, v)
			}
			for op, n := range executed {
				if n > 0 {
					r.Event(fmt.Sprintf("ref_exec_0x%02x_%s", op, c49Mnemonic(uint16(op))), n)
				}
			}
		}()
		l := rng.IntN(129)
		big := rng.IntN(100) == 0
		if big {
			l = 65536 - rng.IntN(3)
		}
		prog := c49GenProgram(rng, l)
		c.Describe(c49Desc{prog, l})
		var vm *VM
		var err error
		func() {
			defer func() {
				if e := recover(); e != nil {
					c.Violation("newvm-panicked", "NewVM panicked: %v\nprogram: %s", e, c49ProgString(prog))
				}
			}()
			vm, err = NewVM(prog)
		}()
		if err != nil || vm == nil {
			ev["programs_refused_by_NewVM"]++
			r.EvalHash(false, 0)
			return
		}
		ev["programs_accepted"]++
		raw, aerr := Assemble(prog)
		if aerr != nil {
			c.Violation("accepted-program-does-not-assemble", "NewVM accepted a program that Assemble refuses: %v\nprogram: %s", aerr, c49ProgString(prog))
			return
		}
		ph := fnv.New64a()
		for _, ri := range raw {
			ph.Write([]byte{byte(ri.Op >> 8), byte(ri.Op), ri.Jt, ri.Jf, byte(ri.K >> 24), byte(ri.K >> 16), byte(ri.K >> 8), byte(ri.K)})
		}
		phs := ph.Sum64()
		lens := []int{l, l, l, l + 1, l - 1, 0, rng.IntN(129), rng.IntN(129), l + 4, l - 4}
		for pi, pl := range lens {
			if pl < 0 {
				pl = 0
			}
			if !big && pl > 200 {
				pl = 200
			}
			pkt := c49Packet(rng, pl)
			want, info := c49RefRun(raw, pkt, &executed)
			var got int
			var rerr error
			panicked := false
			func() {
				defer func() {
					if e := recover(); e != nil {
						panicked = true
						c.Violation("run-panicked", "Run panicked: %v\nprogram: %s\npacket(%d): %x", e, c49ProgString(prog), len(pkt), c49Trunc(pkt))
					}
				}()
				got, rerr = vm.Run(pkt)
			}()
			ev["runs"]++
			if panicked {
				continue
			}
			switch {
			case info.unknownOp || info.badScratch:
				c.Violation("assembled-program-not-classic-bpf", "the assembled form of an accepted program contains an instruction the reference interpreter does not know\nprogram: %s\nraw: %v", c49ProgString(prog), raw)
				continue
			case info.offEnd:
				c.Violation("accepted-program-runs-off-end", "NewVM accepted a program whose control flow leaves the program (no verdict exists); Run returned (%d,%v)\nprogram: %s\npacket(%d): %x", got, rerr, c49ProgString(prog), len(pkt), c49Trunc(pkt))
				continue
			case info.wrapped:
				ev["out_of_domain_wrap"]++
				continue
			}
			if rerr != nil {
				c.Violation("run-error", "Run returned error %v\nprogram: %s\npacket(%d): %x", rerr, c49ProgString(prog), len(pkt), c49Trunc(pkt))
				continue
			}
			if got != int(want) {
				key := "verdict-differs"
				switch {
				case info.oobLoad:
					key = "verdict-differs-out-of-bounds-load"
				case info.divZero:
					key = "verdict-differs-div-by-zero-x"
				}
				c.Violation(key, "Run returned %d, reference classic-BPF interpreter %d\nprogram: %s\nraw: %v\npacket(%d): %x", got, want, c49ProgString(prog), raw, len(pkt), c49Trunc(pkt))
			}
			nt := info.steps >= 3 && (info.loads > 0 || info.jumpsTaken > 0 || info.kinds&0x0c != 0)
			h := fnv.New64a()
			h.Write(pkt)
			r.EvalHash(nt, phs^h.Sum64()*0x9e3779b97f4a7c15^uint64(len(pkt)))
			ev["verdicts_compared"]++
			if want != 0 {
				ev["verdict_nonzero"]++
			}
			if info.oobLoad {
				ev["ref_out_of_bounds_load"]++
			}
			if info.divZero {
				ev["ref_div_mod_by_zero_x"]++
			}
			if info.bigShift {
				ev["ref_shift_ge_32"]++
			}
			if info.lastLoadAtEnd {
				ev["ref_load_touching_last_byte"]++
			}
			if info.jumpsTaken > 0 {
				ev["ref_runs_with_taken_jump"]++
			}
			if info.kinds&0x0c != 0 {
				ev["ref_runs_with_scratch_store"]++
			}
			ev["ref_instructions_executed"] += int64(info.steps)
			if pi == 0 && c.Index < 3 {
				r.Sample(map[string]any{"program": c49ProgString(prog), "packet": fmt.Sprintf("%x", c49Trunc(pkt)), "verdict": want, "steps": info.steps})
			}
		}
	})
	r.Require("verdicts_compared", int64(nprog))
	r.Require("ref_out_of_bounds_load", 100)
	r.Require("ref_div_mod_by_zero_x", 20)
	r.Require("ref_shift_ge_32", 100)
	r.Require("ref_load_touching_last_byte", 100)
	r.Require("ref_runs_with_taken_jump", 1000)
	r.Require("verdict_nonzero", 1000)
	r.Require("programs_refused_by_NewVM", 100)
	for _, k := range []string{"ref_exec_0xb1_ldx_msh", "ref_exec_0x48_ldh_ind", "ref_exec_0x80_ld_len", "ref_exec_0x61_ldx_mem", "ref_exec_0x03_stx", "ref_exec_0x9c_mod_x", "ref_exec_0x64_lsh_k", "ref_exec_0x4d_jset_x", "ref_exec_0x25_jgt_k", "ref_exec_0x87_txa", "ref_exec_0x05_ja"} {
		r.Require(k, 100)
	}
}

// c49Mnemonic names an opcode for the evidence counters.
func c49Mnemonic(op uint16) string {
	src := "k"
	if op&0x08 != 0 {
		src = "x"
	}
	switch op & 7 {
	case 0:
		return map[uint16]string{0x00: "ld_imm", 0x20: "ld_abs", 0x28: "ldh_abs", 0x30: "ldb_abs", 0x40: "ld_ind", 0x48: "ldh_ind", 0x50: "ldb_ind", 0x60: "ld_mem", 0x80: "ld_len"}[op]
	case 1:
		return map[uint16]string{0x01: "ldx_imm", 0x61: "ldx_mem", 0x81: "ldx_len", 0xb1: "ldx_msh"}[op]
	case 2:
		return "st"
	case 3:
		return "stx"
	case 4:
		return map[uint16]string{0x00: "add", 0x10: "sub", 0x20: "mul", 0x30: "div", 0x40: "or", 0x50: "and", 0x60: "lsh", 0x70: "rsh", 0x80: "neg", 0x90: "mod", 0xa0: "xor"}[op&0xf0] + "_" + src
	case 5:
		if op == 0x05 {
			return "ja"
		}
		return map[uint16]string{0x10: "jeq", 0x20: "jgt", 0x30: "jge", 0x40: "jset"}[op&0xf0] + "_" + src
	case 6:
		if op == 0x16 {
			return "ret_a"
		}
		return "ret_k"
	}
	if op == 0x87 {
		return "txa"
	}
	return "tax"
}

func c49Trunc(p []byte) []byte {
	if len(p) > 160 {
		return p[:160]
	}
	return p
}
