//go:build verif

package bpf

import (
	"fmt"
	"sort"
	"sync"
	"testing"

	"golang.org/x/net/internal/verifrt"
)

// ---- facts about classic BPF opcodes, written from the BSD/Linux filter documentation
// (bpf(4), Documentation/networking/filter.rst), not from the package's constants ----
//
// low 3 bits: class  0 ld, 1 ldx, 2 st, 3 stx, 4 alu, 5 jmp, 6 ret, 7 misc
// ld/ldx:  bits 3-4 width (0 W, 0x08 H, 0x10 B), bits 5-7 mode (0x00 imm, 0x20 abs,
//          0x40 ind, 0x60 mem, 0x80 len, 0xa0 msh)
// alu/jmp: bit 3 source (0 K, 8 X), bits 4-7 operator
// ret:     bits 3-4 return value (0 K, 0x10 A)
// Bits 8-15 of the 16-bit code field are not assigned.

// c48UsesK reports whether the instruction selected by the low byte of op reads its K field.
func c48UsesK(op uint16) bool {
	switch op & 7 {
	case 0, 1:
		return op&0xe0 != 0x80 // everything but "len"
	case 2, 3:
		return true
	case 4:
		if op&0xf0 == 0x80 { // neg
			return false
		}
		return op&0x08 == 0
	case 5:
		if op&0xf0 == 0 { // ja
			return true
		}
		return op&0x08 == 0
	case 6:
		return op&0x18 == 0
	}
	return false
}

// c48UsesJ reports whether the instruction reads Jt/Jf (conditional jumps only).
func c48UsesJ(op uint16) bool { return op&7 == 5 && op&0xf0 != 0 }

func c48TypeName(i Instruction) string {
	s := fmt.Sprintf("%T", i)
	if len(s) > 4 && s[:4] == "bpf." {
		s = s[4:]
	}
	return s
}

// c48Dir2Kinds classifies how re-assembly r2 differs from the original raw instruction ri.
// One entry per kind of lost information; stable strings (they become violation keys).
func c48Dir2Kinds(ri, r2 RawInstruction) []string {
	var kinds []string
	if d := ri.Op ^ r2.Op; d != 0 {
		if d&0xff00 != 0 {
			kinds = append(kinds, "op-high-byte-dropped")
		}
		if d&0x07 != 0 {
			kinds = append(kinds, "op-class-changed")
		}
		switch ri.Op & 7 {
		case 0, 1:
			// the register of a load is its class bit 0: reported as op-class-changed above
			if d&0x18 != 0 {
				kinds = append(kinds, "op-width-changed")
			}
			if d&0xe0 != 0 {
				kinds = append(kinds, "op-mode-changed")
			}
		case 4, 5:
			if d&0x08 != 0 {
				kinds = append(kinds, "op-source-bit-changed")
			}
			if d&0xf0 != 0 {
				kinds = append(kinds, "op-operator-changed")
			}
		default:
			if d&0xf8 != 0 {
				kinds = append(kinds, "op-bits-changed")
			}
		}
	}
	if ri.K != r2.K {
		if c48UsesK(ri.Op) {
			kinds = append(kinds, "k-changed")
		} else {
			kinds = append(kinds, "unused-k-not-preserved")
		}
	}
	if ri.Jt != r2.Jt || ri.Jf != r2.Jf {
		if c48UsesJ(ri.Op) {
			kinds = append(kinds, "jtjf-changed")
		} else {
			kinds = append(kinds, "unused-jtjf-not-preserved")
		}
	}
	return kinds
}

// c48Negated: the test that holds exactly when t does not (from the comments on the JumpTest
// constants: "K == A" / "K != A", ">" / "<=", "<" / ">=", "& != 0" / "& == 0").
func c48Negated(t JumpTest) JumpTest {
	switch t {
	case JumpEqual:
		return JumpNotEqual
	case JumpNotEqual:
		return JumpEqual
	case JumpGreaterThan:
		return JumpLessOrEqual
	case JumpLessOrEqual:
		return JumpGreaterThan
	case JumpLessThan:
		return JumpGreaterOrEqual
	case JumpGreaterOrEqual:
		return JumpLessThan
	case JumpBitsSet:
		return JumpBitsNotSet
	case JumpBitsNotSet:
		return JumpBitsSet
	}
	return t
}

func c48TestName(t JumpTest) string {
	switch t {
	case JumpEqual:
		return "JumpEqual"
	case JumpNotEqual:
		return "JumpNotEqual"
	case JumpGreaterThan:
		return "JumpGreaterThan"
	case JumpLessThan:
		return "JumpLessThan"
	case JumpGreaterOrEqual:
		return "JumpGreaterOrEqual"
	case JumpLessOrEqual:
		return "JumpLessOrEqual"
	case JumpBitsSet:
		return "JumpBitsSet"
	case JumpBitsNotSet:
		return "JumpBitsNotSet"
	}
	return fmt.Sprintf("JumpTest(%d)", t)
}

// c48Dir1Kind names how y = Disassemble(Assemble(x)) differs from x (raw = Assemble(x)).
//
//	alias-negated-test:     y is the same conditional jump written with the opposite test and
//	                        swapped skips; x and y have the same encoding (Assemble is not
//	                        injective), Disassemble returned the other spelling
//	alias-negative-offset:  4-byte LoadAbsolute at offset >= 0xfffff000 came back as the
//	                        LoadExtension with the same encoding
//	alias-other:            some other pair of typed values sharing one encoding
//	raw:                    Disassemble did not recognise what Assemble produced
//	lost(<kinds>):          y does not even assemble to raw; kinds as in direction 2
func c48Dir1Kind(x, y Instruction, raw RawInstruction) string {
	if _, isRaw := y.(RawInstruction); isRaw {
		return "raw"
	}
	r2, err := y.Assemble()
	if err != nil {
		return "result-does-not-assemble"
	}
	if r2 != raw {
		kinds := c48Dir2Kinds(raw, r2)
		s := "lost"
		for _, k := range kinds {
			s += "+" + k
		}
		return s
	}
	// The alias kinds name the class of the input that does not come back (which test, and which
	// of its skips are zero): of two spellings with one encoding only one can round-trip, and
	// which one it is is part of what is recorded, so that a change of sides shows up.
	shape := func(st, sf uint8) string {
		return map[bool]string{true: "0", false: "N"}[st == 0] + map[bool]string{true: "0", false: "N"}[sf == 0]
	}
	switch xv := x.(type) {
	case JumpIf:
		if yv, ok := y.(JumpIf); ok && yv.Cond == c48Negated(xv.Cond) && yv.Cond != xv.Cond && yv.Val == xv.Val && yv.SkipTrue == xv.SkipFalse && yv.SkipFalse == xv.SkipTrue {
			return fmt.Sprintf("alias-negated-test(%s,skips=%s)", c48TestName(xv.Cond), shape(xv.SkipTrue, xv.SkipFalse))
		}
	case JumpIfX:
		if yv, ok := y.(JumpIfX); ok && yv.Cond == c48Negated(xv.Cond) && yv.Cond != xv.Cond && yv.SkipTrue == xv.SkipFalse && yv.SkipFalse == xv.SkipTrue {
			return fmt.Sprintf("alias-negated-test(%s,skips=%s)", c48TestName(xv.Cond), shape(xv.SkipTrue, xv.SkipFalse))
		}
	case LoadAbsolute:
		if yv, ok := y.(LoadExtension); ok && xv.Size == 4 && xv.Off >= 0xfffff000 && int64(yv.Num) == int64(xv.Off)-0xfffff000 {
			return "alias-negative-offset"
		}
	}
	return "alias-other"
}

// c48Tally is a goroutine-safe map of counters that is flushed into the evidence at the end
// (one r.Event per key instead of one mutex round trip per failing raw instruction).
type c48Tally struct {
	mu sync.Mutex
	m  map[string]int64
}

func (t *c48Tally) add(local map[string]int64) {
	t.mu.Lock()
	for k, v := range local {
		t.m[k] += v
	}
	t.mu.Unlock()
}

var c48Ks = []uint32{0, 1, 15, 16, 0xfff, 0xffffefff, 0xfffff000, 0xfffff001, 0xfffff004, 0xffffffff}
var c48JJ = [][2]uint8{{0, 0}, {1, 0}, {0, 1}, {255, 255}}

var c48ALUOps = []ALUOp{ALUOpAdd, ALUOpSub, ALUOpMul, ALUOpDiv, ALUOpOr, ALUOpAnd, ALUOpShiftLeft, ALUOpShiftRight, ALUOpMod, ALUOpXor}
var c48Tests = []JumpTest{JumpEqual, JumpNotEqual, JumpGreaterThan, JumpLessThan, JumpGreaterOrEqual, JumpLessOrEqual, JumpBitsSet, JumpBitsNotSet}
var c48Exts = []Extension{ExtLen, ExtProto, ExtType, ExtPayloadOffset, ExtInterfaceIndex, ExtNetlinkAttr, ExtNetlinkAttrNested,
	ExtMark, ExtQueue, ExtLinkLayerType, ExtRXHash, ExtCPUID, ExtVLANTag, ExtVLANTagPresent, ExtVLANProto, ExtRand}

// c48Typed builds every typed instruction value with in-range fields over the given operand
// lists (fields documented as "1, 2 or 4", "0-15", the named constants).
func c48Typed(ks []uint32, skips []uint8) []Instruction {
	var out []Instruction
	regs := []Register{RegA, RegX}
	for _, k := range ks {
		for _, r := range regs {
			out = append(out, LoadConstant{Dst: r, Val: k})
		}
		for _, sz := range []int{1, 2, 4} {
			out = append(out, LoadAbsolute{Off: k, Size: sz}, LoadIndirect{Off: k, Size: sz})
		}
		out = append(out, LoadMemShift{Off: k}, Jump{Skip: k}, RetConstant{Val: k})
		for _, op := range c48ALUOps {
			out = append(out, ALUOpConstant{Op: op, Val: k})
		}
		for _, t := range c48Tests {
			for _, st := range skips {
				for _, sf := range skips {
					out = append(out, JumpIf{Cond: t, Val: k, SkipTrue: st, SkipFalse: sf})
				}
			}
		}
	}
	for n := 0; n <= 15; n++ {
		for _, r := range regs {
			out = append(out, LoadScratch{Dst: r, N: n}, StoreScratch{Src: r, N: n})
		}
	}
	for _, e := range c48Exts {
		out = append(out, LoadExtension{Num: e})
	}
	for _, op := range c48ALUOps {
		out = append(out, ALUOpX{Op: op})
	}
	for _, t := range c48Tests {
		for _, st := range skips {
			for _, sf := range skips {
				out = append(out, JumpIfX{Cond: t, SkipTrue: st, SkipFalse: sf})
			}
		}
	}
	out = append(out, NegateA{}, RetA{}, TAX{}, TXA{})
	return out
}

func TestVerif_C48(t *testing.T) {
	r := verifrt.Start(t, "C48")
	defer r.Finish()
	r.SetRule("direction 2: every one of the 2^16 opcodes x K in {0,1,15,16,0xfff,0xffffefff,0xfffff000,0xfffff001,0xfffff004,0xffffffff,PRNG..} x (Jt,Jf) in {(0,0),(1,0),(0,1),(255,255),PRNG..}; direction 1: every typed instruction type with in-range fields x the same operand lists x skips {0,1,2,255,PRNG}. one evaluation per opcode (non-trivial = some operand combination disassembles to a typed instruction; the per-raw-instruction counts are the dir2_* events) and one per typed value (non-trivial = Assemble accepts it; distinct by value)")
	r.Assume("equality is Go == on the instruction structs and on RawInstruction{Op,Jt,Jf,K}: 'exactly' is taken literally, all four raw fields")
	r.Assume("which operand fields an opcode uses (for naming the violation only) is taken from the classic BPF documentation, written out in the harness")

	tally := &c48Tally{m: map[string]int64{}}
	// firstSeen keeps c.Violation calls to a few per key (the rest is counted in the tally).
	var seenMu sync.Mutex
	seen := map[string]int{}
	type example struct {
		order  uint64
		detail string
	}
	examples := map[string]example{}
	// report: order makes the example kept per key deterministic (lowest opcode wins).
	report := func(c *verifrt.Case, order uint64, key, format string, a ...any) {
		seenMu.Lock()
		n := seen[key]
		seen[key] = n + 1
		ex, have := examples[key]
		if !have || order < ex.order {
			examples[key] = example{order, fmt.Sprintf(format, a...)}
		}
		seenMu.Unlock()
		if n < 4 {
			c.Violation(key, format, a...)
		}
	}

	// ---------- direction 2 ----------
	extraK := r.N(2, 14)
	extraJ := r.N(1, 4)
	r.CasesParallel("dir2-opcode", 1<<16, 0, func(c *verifrt.Case) {
		op := uint16(c.Index)
		c.Describe(map[string]any{"op": fmt.Sprintf("0x%04x", op)})
		ks := append([]uint32{}, c48Ks...)
		for i := 0; i < extraK; i++ {
			ks = append(ks, c.Rng.Uint32())
		}
		jj := append([][2]uint8{}, c48JJ...)
		for i := 0; i < extraJ; i++ {
			jj = append(jj, [2]uint8{uint8(c.Rng.Uint32()), uint8(c.Rng.Uint32())})
		}
		local := map[string]int64{}
		typed := false
		for _, k := range ks {
			for _, j := range jj {
				ri := RawInstruction{Op: op, Jt: j[0], Jf: j[1], K: k}
				var d Instruction
				d = ri.Disassemble()
				local["dir2_raw_checked"]++
				if rr, isRaw := d.(RawInstruction); isRaw {
					local["dir2_unrecognized"]++
					if rr != ri {
						local["FAIL:dir2-passthrough-altered"]++
						report(c, uint64(op), "dir2-passthrough-altered", "%#v.Disassemble() returned a different RawInstruction %#v", ri, rr)
					}
					continue
				}
				tn := c48TypeName(d)
				typed = true
				local["dir2_typed_"+tn]++
				r2, err := d.Assemble()
				if err != nil {
					key := "dir2-" + tn + "-reassemble-error"
					local["FAIL:"+key]++
					report(c, uint64(op), key, "%#v disassembles to %#v whose Assemble fails: %v", ri, d, err)
					continue
				}
				if r2 == ri {
					local["dir2_roundtrip_ok"]++
					local["dir2_ok_"+tn]++
					continue
				}
				local["dir2_roundtrip_failed"]++
				for _, kind := range c48Dir2Kinds(ri, r2) {
					key := "dir2-" + tn + "-" + kind
					local["FAIL:"+key]++
					report(c, uint64(op), key, "RawInstruction{Op:0x%04x Jt:%d Jf:%d K:0x%x}.Disassemble() = %#v (%q), which assembles to RawInstruction{Op:0x%04x Jt:%d Jf:%d K:0x%x}",
						ri.Op, ri.Jt, ri.Jf, ri.K, d, fmt.Sprint(d), r2.Op, r2.Jt, r2.Jf, r2.K)
				}
			}
		}
		if typed {
			local["dir2_opcodes_with_typed_form"] = 1
		}
		tally.add(local)
		r.EvalHash(typed, uint64(op))
	})
	r.SetExtra("exhaustive_opcodes", true)
	r.SetExtra("operand_combinations_per_opcode", (len(c48Ks)+extraK)*(len(c48JJ)+extraJ))

	// ---------- direction 1 ----------
	dir1 := func(c *verifrt.Case, x Instruction, local map[string]int64) {
		raw, err := x.Assemble()
		tn := c48TypeName(x)
		if err != nil {
			local["dir1_assemble_rejected"]++
			r.EvalHash(false, 0)
			return
		}
		local["dir1_checked"]++
		local["dir1_typed_"+tn]++
		r.Eval(true, fmt.Sprintf("%#v", x))
		var y Instruction
		y = raw.Disassemble()
		if y == x {
			local["dir1_roundtrip_ok"]++
			return
		}
		local["dir1_roundtrip_failed"]++
		yn := c48TypeName(y)
		key := "dir1-" + c48Dir1Kind(x, y, raw) + "-" + tn + "-to-" + yn
		local["FAIL:"+key]++
		report(c, 1<<32, key, "%#v assembles to RawInstruction{Op:0x%04x Jt:%d Jf:%d K:0x%x}, which disassembles to %#v", x, raw.Op, raw.Jt, raw.Jf, raw.K, y)
	}
	r.Cases("dir1-enumerated", 1, func(c *verifrt.Case) {
		local := map[string]int64{}
		all := c48Typed(c48Ks, []uint8{0, 1, 2, 255})
		c.Describe(map[string]any{"typed_values": len(all)})
		for _, x := range all {
			dir1(c, x, local)
		}
		tally.add(local)
		for _, x := range []Instruction{LoadAbsolute{Off: 14, Size: 2}, JumpIf{Cond: JumpGreaterThan, Val: 0x800, SkipTrue: 1, SkipFalse: 2}, LoadExtension{Num: ExtRand}} {
			raw, _ := x.Assemble()
			r.Sample(map[string]any{"typed": fmt.Sprintf("%#v", x), "raw": fmt.Sprintf("%#v", raw), "disassembled": fmt.Sprintf("%#v", raw.Disassemble())})
		}
	})
	// PRNG operands, one case per batch
	r.CasesParallel("dir1-random", r.N(64, 4096), 0, func(c *verifrt.Case) {
		ks := []uint32{c.Rng.Uint32(), c.Rng.Uint32() >> uint(c.Rng.IntN(32)), 0xfffff000 + c.Rng.Uint32N(0x1000)}
		sk := []uint8{uint8(c.Rng.Uint32()), uint8(c.Rng.Uint32()), 0}
		c.Describe(map[string]any{"ks": ks, "skips": sk})
		local := map[string]int64{}
		for _, x := range c48Typed(ks, sk) {
			dir1(c, x, local)
		}
		tally.add(local)
	})
	// fields outside the documented range: Assemble must either refuse or the value must
	// survive the round trip. Values it accepts although no opcode exists for them are
	// outside what the statement's "typed instruction values" can mean; they are counted
	// (event dir1_out_of_range_*) but not judged, except that nothing may panic.
	r.Cases("dir1-out-of-range", 1, func(c *verifrt.Case) {
		local := map[string]int64{}
		for _, x := range []Instruction{
			LoadConstant{Dst: 2, Val: 1}, LoadScratch{Dst: RegA, N: 16}, LoadScratch{Dst: RegA, N: -1}, LoadScratch{Dst: 7, N: 1},
			LoadAbsolute{Off: 1, Size: 0}, LoadAbsolute{Off: 1, Size: 3}, LoadAbsolute{Off: 1, Size: 8}, LoadIndirect{Off: 1, Size: 3},
			StoreScratch{Src: RegA, N: 16}, StoreScratch{Src: RegX, N: -1}, StoreScratch{Src: 2, N: 0},
			ALUOpConstant{Op: 0xb0, Val: 1}, ALUOpConstant{Op: 0x80, Val: 1}, ALUOpConstant{Op: 1, Val: 1}, ALUOpX{Op: 0xf0}, ALUOpX{Op: 0x100},
			JumpIf{Cond: 8, Val: 1, SkipTrue: 1}, JumpIfX{Cond: 0xffff, SkipTrue: 1},
			LoadExtension{Num: 2}, LoadExtension{Num: 64}, LoadExtension{Num: -1}, LoadExtension{Num: 0x1000},
		} {
			raw, err := x.Assemble()
			if err != nil {
				local["dir1_out_of_range_refused"]++
				continue
			}
			var y Instruction
			y = raw.Disassemble()
			if y == x {
				local["dir1_out_of_range_accepted_roundtrips"]++
			} else {
				local["dir1_out_of_range_accepted_not_roundtripping"]++
			}
		}
		// the scratch bounds belong to the documented range: 0 and 15 must be accepted
		for _, x := range []Instruction{LoadScratch{Dst: RegA, N: 15}, LoadScratch{Dst: RegX, N: 0}, StoreScratch{Src: RegA, N: 15}, StoreScratch{Src: RegX, N: 0}} {
			if _, err := x.Assemble(); err != nil {
				local["dir1_in_range_refused"]++
			}
		}
		tally.add(local)
	})

	// ---------- the slice-level entry points agree with the per-instruction methods ----------
	canon := c48Typed([]uint32{0, 7, 0xfffff004}, []uint8{0, 1, 2})
	r.Cases("program-level", r.N(50, 2000), func(c *verifrt.Case) {
		n := 1 + c.Rng.IntN(40)
		raws := make([]RawInstruction, n)
		for i := range raws {
			raws[i] = RawInstruction{Op: uint16(c.Rng.Uint32()) & 0x1ff, Jt: uint8(c.Rng.IntN(3)), Jf: uint8(c.Rng.IntN(3)), K: c48Ks[c.Rng.IntN(len(c48Ks))]}
			if c.Rng.IntN(2) == 0 { // a canonical one
				raws[i], _ = canon[c.Rng.IntN(len(canon))].Assemble()
			}
		}
		c.Describe(map[string]any{"raw": fmt.Sprintf("%v", raws)})
		insts, all := Disassemble(raws)
		if len(insts) != n {
			c.Violation("program-disassemble-length", "Disassemble of %d raw instructions returned %d", n, len(insts))
			return
		}
		wantAll := true
		for i := range raws {
			var d Instruction
			d = raws[i].Disassemble()
			if insts[i] != d {
				c.Violation("program-disassemble-differs", "Disassemble(raw)[%d]=%#v but raw[%d].Disassemble()=%#v", i, insts[i], i, d)
			}
			if _, isRaw := d.(RawInstruction); isRaw {
				wantAll = false
			}
		}
		if all != wantAll {
			c.Violation("program-alldecoded-flag", "allDecoded=%v want %v for %v", all, wantAll, raws)
		}
		back, err := Assemble(insts)
		if err != nil {
			r.Event("program_reassemble_error", 1)
		} else {
			for i := range back {
				if want, _ := insts[i].Assemble(); back[i] != want {
					c.Violation("program-assemble-differs", "Assemble(insts)[%d]=%#v but insts[%d].Assemble()=%#v", i, back[i], i, want)
				}
			}
		}
		r.Eval(n > 1, "prog", fmt.Sprint(raws))
		r.Event("programs_checked", 1)
	})

	// flush the tally
	tally.mu.Lock()
	keys := make([]string, 0, len(tally.m))
	for k := range tally.m {
		keys = append(keys, k)
	}
	sort.Strings(keys)
	fails := map[string]int64{}
	for _, k := range keys {
		r.Event(k, tally.m[k])
		if len(k) > 5 && k[:5] == "FAIL:" {
			fails[k[5:]] = tally.m[k]
		}
	}
	tally.mu.Unlock()
	if len(fails) > 0 {
		r.SetExtra("failing_cases_per_key", fails)
		ex := map[string]string{}
		seenMu.Lock()
		for k, e := range examples {
			ex[k] = e.detail
		}
		seenMu.Unlock()
		r.SetExtra("example_per_key", ex)
	}
	r.Require("dir2_raw_checked", 1<<16*40)
	r.Require("dir2_roundtrip_ok", 300)
	r.Require("dir1_roundtrip_ok", 1000)
	r.Require("dir2_unrecognized", 1000)
}
